#!/bin/bash
# tools/selftest-par.sh [jobs] : tools/selftest.sh for every property, <jobs> properties at a time (default 4);
# per-property logs in /tmp/selftest.<ID>.log, concatenated into /tmp/selftest.log at the end.
cd "$(dirname "$(readlink -f "$0")")/.."
jobs=${1:-4}
ls mutants | xargs -P "$jobs" -I{} sh -c 'tools/selftest.sh {} > /tmp/selftest.{}.log 2>&1'
cat /tmp/selftest.C??.log > /tmp/selftest.log
echo done >> /tmp/selftest.log
grep -c caught /tmp/selftest.log; grep MISSED /tmp/selftest.log
