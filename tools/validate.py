#!/usr/bin/env python3
"""Validates MANIFEST.json and every evidence/*.json against the schemas in /root/.vp."""
import json, glob, sys, os
import jsonschema
V = os.path.dirname(os.path.dirname(os.path.abspath(__file__)))
ok = True
jsonschema.validate(json.load(open(f"{V}/MANIFEST.json")), json.load(open("/root/.vp/MANIFEST.schema.json")))
es = json.load(open("/root/.vp/EVIDENCE.schema.json"))
ids = [c["property_id"] for c in json.load(open(f"{V}/MANIFEST.json"))["checks"]]
for pid in ids:
    f = f"{V}/evidence/{pid}.json"
    if not os.path.exists(f):
        print("MISSING", f); ok = False; continue
    e = json.load(open(f))
    try:
        jsonschema.validate(e, es)
        c = e["coverage"]
        print(f"{pid} ok tier={e['tier']} evals={c['evaluations']} distinct={c['distinct_nontrivial']} states={c['states']} trans={c['transitions']} exhaustive={c['exhaustive']} classes={c.get('distinct_outcome_classes')} wall={e['wall_s']:.1f}s viol={e.get('violations')}")
    except jsonschema.ValidationError as x:
        print(pid, "INVALID", x.message); ok = False
sys.exit(0 if ok else 1)
