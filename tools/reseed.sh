#!/bin/bash
# tools/reseed.sh [name-glob] : re-runs the filed seeded defects (/verif/seeded/<name>/patch.diff) against the quick
# check of their property through tools/mutant.sh (overlay, /repo untouched); every one must be CAUGHT (exit 1).
cd "$(dirname "$(readlink -f "$0")")/.."
glob=${1:-*}
fail=0
for d in seeded/$glob/; do
  n=$(basename "$d"); id=${n%%-*}
  [ -f "$d/patch.diff" ] || continue
  out=$(tools/mutant.sh "$d/patch.diff" "$id" quick 2>&1); rc=$?
  nv=$(echo "$out" | grep -c '^VIOLATION')
  disp=$(python3 -c "import json,sys; print(json.load(open(sys.argv[1])).get('disposition',''))" "$d/meta.json" 2>/dev/null)
  if [ "$disp" = "outside-statement" ]; then
    # filed as NOT breaking the statement as written (see disposition_note in its meta.json): the check must stay silent
    if [ $rc -eq 0 ]; then s="SILENT(outside-statement, as intended)"; else s="ALARM(rc=$rc, but filed as outside the statement)"; fail=1; fi
  elif [ $rc -eq 1 ] && [ "$nv" -gt 0 ]; then s=CAUGHT; else s="MISSED(rc=$rc)"; fail=1; fi
  printf '%-10s %s\n' "$n" "$s"
done
exit $fail
