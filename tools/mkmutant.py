#!/usr/bin/env python3
"""mkmutant.py <ID> <name> <repo-relative file> : reads OLD and NEW text separated by a line '=====' from stdin,
replaces the first occurrence of OLD in the file and writes a unified diff to /verif/mutants/<ID>/<name>.patch (/repo untouched)."""
import sys, os, difflib
pid, name, rel = sys.argv[1:4]
old, new = sys.stdin.read().split("\n=====\n")
new = new.rstrip("\n")
old = old.rstrip("\n")
src = open(os.path.join("/repo", rel)).read()
if src.count(old) < 1:
    sys.exit("OLD text not found in " + rel)
dst = src.replace(old, new, 1)
d = difflib.unified_diff(src.splitlines(True), dst.splitlines(True), "a/" + rel, "b/" + rel)
out = os.path.join("/verif/mutants", pid)
os.makedirs(out, exist_ok=True)
open(os.path.join(out, name + ".patch"), "w").write("".join(d))
print("wrote", os.path.join(out, name + ".patch"))
