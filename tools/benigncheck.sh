#!/bin/bash
# tools/benigncheck.sh <ID> <n> [tier] : runs the quick (or given tier) checks of every property anchored in a package
# that the property-PRESERVING change $BENIGNROOT/<ID>/out/<n>/patch.diff touches (own property first) through an
# overlay (/repo untouched). Every check must stay silent (exit 0). Files the change under /verif/benign/<ID>-<n>/.
cd "$(dirname "$(readlink -f "$0")")/.."
ID=$1; n=$2; tier=${3:-quick}
root=${BENIGNROOT:-/tmp/benign}
src=$root/$ID/out/$n
[ -f "$src/patch.diff" ] || { echo "BENIGN $ID-$n: no patch"; exit 2; }
dst=benign/$ID-${BENIGNTAG:-}$n
mkdir -p "$dst"; cp "$src/patch.diff" "$dst/"; [ -f "$src/meta.json" ] && cp "$src/meta.json" "$dst/"
ids=$(python3 - "$src/patch.diff" "$ID" <<'PY'
import json,sys,re,collections
m=collections.defaultdict(set)
for l in open('/verif/properties.jsonl'):
    p=json.loads(l)
    for f in p['anchors']['files']:
        m[f.rsplit('/',1)[0] if '/' in f else '.'].add(p['id'])
ids=[sys.argv[2]]
for l in open(sys.argv[1]):
    g=re.match(r'\+\+\+ b/(.*)',l)
    if g:
        f=g.group(1).strip(); d=f.rsplit('/',1)[0] if '/' in f else '.'
        for i in sorted(m.get(d,())):
            if i not in ids: ids.append(i)
print(' '.join(ids))
PY
)
res=""; bad=0
for c in $ids; do
  out=$(tools/mutant.sh "$src/patch.diff" "$c" "$tier" 2>&1); rc=$?
  if [ $rc -ne 0 ]; then
    bad=1
    echo "$out" | grep -E '^(VIOLATION|BUILD-ERROR|INFRA|patch does not)' | cut -c1-400 > "$dst/alarm-$c-$tier.txt"
    echo "$out" | tail -30 > "$dst/tail-$c-$tier.txt"
  fi
  res="$res $c=$rc"
done
echo "$res" > "$dst/result-$tier.txt"
if [ $bad = 0 ]; then echo "BENIGN $ID-${BENIGNTAG:-}$n [$tier]: SILENT ($res )"; else echo "BENIGN $ID-${BENIGNTAG:-}$n [$tier]: ALARM ($res )"; fi
exit $bad
