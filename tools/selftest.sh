#!/bin/bash
# tools/selftest.sh [ID...] : runs every stored mutant of the given properties (default: all) against the
# quick check through tools/mutant.sh (overlay, /repo untouched) and expects exit 1 + VIOLATION.
cd "$(dirname "$(readlink -f "$0")")/.."
ids=${*:-$(ls mutants)}
fail=0
for id in $ids; do
  for m in mutants/$id/*.patch; do
    [ -f "$m" ] || continue
    out=$(tools/mutant.sh "$m" "$id" quick 2>&1)
    rc=$?
    nv=$(echo "$out" | grep -c '^VIOLATION')
    if [ $rc -eq 1 ] && [ "$nv" -gt 0 ]; then s=caught; else s="MISSED(rc=$rc)"; fail=1; fi
    printf '%-5s %-60s %s\n' "$id" "$(basename "$m" .patch)" "$s"
  done
done
exit $fail
