#!/bin/bash
# tools/seedcheck.sh <ID> <n> [tier]: confirms an independently written seeded defect (/tmp/seed/<ID>/out/<n>) in its
# scratch worktree (demo fails with the patch, passes without; tree builds), runs ./check <ID> against it
# (overlay, /repo untouched) and files it under /verif/seeded/<ID>-<n>/ with the verdict.
set -u
ID=$1; n=$2; tier=${3:-quick}
VERIF=$(cd "$(dirname "$(readlink -f "$0")")/.." && pwd)
SEEDROOT=${SEEDROOT:-/tmp/seed}; SEEDTAG=${SEEDTAG:-}
wt=$SEEDROOT/$ID; src=$wt/out/$n
export GOFLAGS=-mod=mod GOPROXY=off GOSUMDB=off GOTOOLCHAIN=local
[ -f "$src/patch.diff" ] || { echo "no $src/patch.diff"; exit 2; }
demo_dir=$(python3 -c "import json;print(json.load(open('$src/meta.json'))['demo']['dir'])")
demo_run=$(python3 -c "import json;print(json.load(open('$src/meta.json'))['demo']['run'])")
demo_files=$(ls "$src" | grep -v -E '^(patch.diff|meta.json)$')
cd "$wt" && git checkout -q -- . 
cleanup_demo(){ for f in $demo_files; do rm -f "$wt/$demo_dir/$f"; done; }
git apply "$src/patch.diff" || { echo "SEED $ID-$SEEDTAG$n: patch does not apply"; exit 2; }
go build ./... || { echo "SEED $ID-$SEEDTAG$n: does not build"; git checkout -q -- .; exit 2; }
for f in $demo_files; do cp "$src/$f" "$wt/$demo_dir/"; done
( eval "$demo_run" ) > $SEEDROOT/demo-$ID-$n-with.log 2>&1; with=$?
git checkout -q -- .
( eval "$demo_run" ) > $SEEDROOT/demo-$ID-$n-without.log 2>&1; without=$?
cleanup_demo
git checkout -q -- . ; git checkout -q -- plugin/testdata 2>/dev/null
cd "$VERIF"
out=$(VERIF_VIOLATIONS_DIR=$SEEDROOT/viol-$ID-$n tools/mutant.sh "$src/patch.diff" "$ID" "$tier" 2>&1); rc=$?
keys=$(echo "$out" | grep '^VIOLATION' | sed -E 's/.* key=([^ ]+) .*/\1/' | head -8 | tr '\n' ' ')
verdict=MISSED; [ $rc -eq 1 ] && verdict=CAUGHT; [ $rc -eq 2 ] && verdict="INFRA(rc=2)"
echo "SEED $ID-$SEEDTAG$n: demo with patch rc=$with (want !=0), without rc=$without (want 0); check $ID $tier -> rc=$rc $verdict :: $keys"
dst=$VERIF/seeded/$ID-$SEEDTAG$n; mkdir -p "$dst"
cp "$src/patch.diff" "$dst/"; for f in $demo_files; do cp "$src/$f" "$dst/"; done
python3 - "$src/meta.json" "$dst/meta.json" "$with" "$without" "$rc" "$verdict" "$keys" "$tier" <<'PY'
import json,sys
m=json.load(open(sys.argv[1]))
m["confirmed_by_main_session"]={"demo_with_patch_exit":int(sys.argv[3]),"demo_without_patch_exit":int(sys.argv[4]),
  "how":"git apply in a scratch worktree, go build ./..., demo run with and without the patch (tools/seedcheck.sh)"}
m["check_result"]={"command":"tools/mutant.sh patch.diff %s %s (go build -overlay, /repo untouched)"%(m["property"],sys.argv[8]),"exit":int(sys.argv[5]),"verdict":sys.argv[6],"violation_keys":sys.argv[7].split()}
json.dump(m,open(sys.argv[2],"w"),indent=1)
PY
