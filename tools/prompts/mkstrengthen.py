import json,sys,glob
pid=sys.argv[1]
missed=[]; caught=[]
for d in sorted(glob.glob(f'/verif/seeded/{pid}-r5-*')):
    m=json.load(open(d+'/meta.json'))
    (missed if m['check_result']['verdict']!='CAUGHT' else caught).append((d,m))
if not missed: print("nothing missed"); sys.exit(0)
t=f"""You maintain the model-checking harness of property {pid} in /verif/harness/{pid.lower()}/ (run as `cd /verif && ./check {pid} quick`). Read /verif/HARNESS_GUIDE.md first (the contract: exhaustive enumeration of a stated finite space on the REAL code, small reference oracle, zero alarms on the unchanged tree, silence on property-preserving changes, stable violation keys, replay files), then the property's line in /verif/properties.jsonl, then the harness sources.

Independent reviewers wrote new property-breaking changes to /repo that compile and pass the repository's tests. The quick check MISSED these (each directory holds patch.diff, a demonstration test, and meta.json explaining what is broken and what it needs to manifest):
""" + ''.join(f"  * {d}  -- {m['title']}\n      needs: {m['needs_to_manifest'][:600]}\n" for d,m in missed) + f"""
YOUR TASK: widen what the harness ENUMERATES (new alphabet values, a new dimension, a new history shape, a new environment seam) so that the quick tier catches each missed change through a clause the STATEMENT really makes - generalise the class the change stands for (do not special-case the literal patch; ask 'which dimension did my alphabet lack?' and add the whole dimension with several values). Never loosen or remove an existing clause. Do not add clauses the statement does not make (if you conclude a change does NOT violate the statement as literally written, do not force it: say so in your report with the reason, and leave it).

RULES
- Every shell call: export GOFLAGS=-mod=mod GOPROXY=off GOSUMDB=off GOTOOLCHAIN=local
- Edit only files under /verif/harness/{pid.lower()}/ (add files there if needed). Do not touch /repo, /verif/lib, /verif/engine, /verif/tools, /verif/check, MANIFEST.json, DESIGN.md. No git commits, no git stash.
- Test a patch WITHOUT touching /repo: `cd /verif && tools/mutant.sh <dir>/patch.diff {pid} quick` must exit 1 and print VIOLATION lines (use `| grep -E 'VIOLATION|SUMMARY' | cut -c1-300`).
- On the UNCHANGED tree `./check {pid} quick` must exit 0 with no VIOLATION line (KNOWN-FINDING lines are fine), stay deterministic, and stay within ~45 s wall on an idle 16-core machine (the machine is shared right now; judge by the added number of evaluations rather than by wall time). Run it at least twice at the end.
- The earlier regression corpus must stay green: run `tools/reseed.sh '{pid}-*'` (all earlier seeds must stay CAUGHT, those filed outside-statement SILENT), `tools/selftest.sh {pid}` if it exists for one property (look at the script's usage) and `tools/rebenign.sh '{pid}-*'` (property-preserving changes: all must stay SILENT) - read each script's header for usage. If a benign change now alarms, your new clause over-specifies: fix it.
- If you find the unchanged tree really violates the statement for some new element, do NOT loosen: report the minimal case to me.
- Update the harness's r.Rule / r.Extra / r.Assumptions texts so the evidence describes the new dimension.

FINAL REPORT (short): per missed change - caught or not, through which violation key, which dimension/values were added; evaluations and wall time of quick before/after; results of reseed/rebenign/selftest; anything you could not do."""
open(f'/tmp/seed5/STRENGTHEN-{pid}.txt','w').write(t)
print("missed:",[d for d,_ in missed])
