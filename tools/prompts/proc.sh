#!/bin/bash
# proc.sh ID : seedcheck both seeds of a property, then write the strengthen prompt
cd /verif; export SEEDROOT=/tmp/seed5 SEEDTAG=r5-
for n in 1 2; do tools/seedcheck.sh $1 $n 2>&1 | tail -1 | cut -c1-400; done
python3 /tmp/seed5/mkstrengthen.py $1
