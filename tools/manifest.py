#!/usr/bin/env python3
"""Regenerates /verif/MANIFEST.json from the table below and validates it against the schema."""
import json, os, sys
V = os.path.dirname(os.path.dirname(os.path.abspath(__file__)))

ENG = {
 "E1": "controlled scheduler over the real code (os-shim overlay), stateless DFS with preemption bound + crash/torn-write choices",
 "E2": "explicit-state search over histories of real API calls, canonical state hashing, reference model compared in every state",
 "E3": "exhaustive product / deviation-bounded enumeration of inputs and environment answers against a reference model",
 "E4": "kill injection at every file-system syscall of a real process (strace inject)",
}

# id: (engine, category, technique, level text, level note, design ref)
CHECKS = {
 "C12": ("E3", "model_checking",
   "complete configuration matrix (38 016 cells: verifier construction x plugin manager x revocation option x level placement x entry point x signature kind x plugin demand x reference) plus exhaustive Hamming-1 byte neighbourhood, every truncation and one-node JSON structural neighbourhood (7 replacement values + numeric extremes) of valid envelopes, policy/config/signing-key/CRL-cache files, hostile OCI layouts and plugin output, each executed in a worker subprocess under RLIMIT_AS with recover() and an allocation meter",
   "Every configuration cell and every distance-1 mutant of every valid input kind is fed to the real exported entry points; no panic may escape, the worker must survive, the allocation ceiling must hold and (outcome, error) pairs of the Verifier/BlobVerifier entry points must be consistent. This is the model-checking reading of 'arbitrary input': the complete distance-1 neighbourhood, not a sample.",
   "Trusted: the mutation enumerators in harness/c12. Inputs at distance >= 2, CBOR-structural mutations and timestamped envelopes are outside the bound. Six known-finding keys (F-12d, oras-go allocation) are listed in KNOWN_FINDINGS.txt.",
   "DESIGN.md section 5 C12"),
 "C18": ("E3", "model_checking",
   "exhaustive enumeration of adversarial answers of a scripted in-process plugin.SignPlugin holding a real key (75 envelope-generator and 37 signature-generator answers x key spec x format x descriptor x 3 entry points), each a real PluginSigner.Sign/SignBlob call; implication oracle with independent strict re-verification of whatever is returned",
   "Every adversarial answer (correctly signed wrong payloads, altered/dropped annotations, extra members, alternative key spellings, wrong format/echo, corrupted signatures, wrong key ids / key specs / chains) is returned to the real PluginSigner; it must never panic, and whenever it returns a signature, lib/refsig must verify it, the strictly decoded payload must equal the request and the plugin must have answered for the requested key.",
   "Trusted: lib/refsig, the strict payload decoder and the plugin's own echo log in harness/c18. Duplicate JSON members (good last) are recorded, not judged.",
   "DESIGN.md section 5 C18"),
 "C11": ("E2", "model_checking",
   "explicit-state search over histories of signing calls (40 operations = 5 references x 4 metadata maps x 2 formats; all sequences to depth 2 on three repositories + depth 3 on the mock in quick, depth 3 everywhere in thorough) on a same-object mock repository, the on-disk OCI layout (re-opened) and the memory store, with before/after snapshots; reference model of success + payload/subject/annotation oracle with independent re-verification",
   "Every history is replayed on a fresh repository through the real notation.SignOCI with real GenericSigners (and a recording signer); after every call the referrers, the envelope payload (lib/refsig), the descriptor handed to the signer, the manifest subject and annotations (thumbprints recomputed, signing time), and the unchanged-ness of the resolved descriptor, index.json entry, handed-out objects and caller maps are compared with the reference model, which is independent of what was signed before.",
   "Trusted: the reference model in harness/c11, lib/refsig, oras-go stores as substrate.",
   "DESIGN.md section 5 C11"),
 "C07": ("E3", "model_checking",
   "exhaustive product of sign->verify round trips through the real signing API (6 key specs x 2 formats x 4 signer kinds incl. raw-signature and envelope plugins x 11 targets x 3 metadata maps x 3 expiry durations x 2 agents; quick: RSA-3072/4096 and the 1 MiB blob on a diagonal) fed to the real verification API, plus fault-then-round-trip histories (failing readers), reader shapes, signer/verifier instance reuse, and a clock-tick family through a clock seam (package signer compiled with its time import rewritten to a clock that jumps on every read); equality oracle on what was signed vs what is reported + independent re-verification",
   "Every tuple is signed by the real GenericSigner/PluginSigner (notation.SignBlob / Signer.Sign / SignOCI) and verified by the real verifier / notation.VerifyBlob / notation.Verify; payload, digest algorithm bound to the key, expiry = signing time + duration, returned blob descriptor and UserMetadata() are compared with what the generator asked to sign; lib/refsig re-verifies the bytes.",
   "Trusted: lib/refsig, the in-process scripted plugins in harness/c07. A signing error on a legal input is reported as a violation (the statement presupposes every supported key can sign).",
   "DESIGN.md section 5 C07"),
 "C06": ("E3", "model_checking",
   "exhaustive enumeration of a time-line product (scheme x tsa store in policy x verifyTimestamp x 3x3 certificate windows x 4 signing times x 4 expiries x 11 countersignature states forged by an offline RFC 3161 authority x 4 TSA revocation answers x format; quick: all cases with <= 5 deviations, thorough: full product) on the real verifier; instance-reuse histories; clock-advance histories through a clock seam (package verifier compiled with its time import rewritten to a movable clock: every ordered pair of 5 verification instants on one verifier instance); reference clock model",
   "Every case is verified by the real verifier under an all-log level (both results always reported) and under strict; the stated directions are judged against the reference clock model of DESIGN.md appendix A.2 (an expired signature fails expiry; the authentic-timestamp validation passes only if the model's conditions hold; strict accepts only if the model accepts); the converses are positive controls (counted, recorded, exit 2 if none holds). All instants are >= 1 h away from the verification instant, so each case has one outcome whenever it runs.",
   "Trusted: the clock model in harness/c06, lib/tsa (token encoder), lib/forge. Tokens of public TSAs, leap seconds and non-UTC encodings are outside the bound.",
   "DESIGN.md section 5 C06, appendix A.2"),
 "C14": ("E1+E4", "model_checking",
   "stateless model checking of the implementation: the real FileCache.Set/Get + internal/file.WriteFile code (os import rewritten to a scheduling shim through go build -overlay) under a cooperative scheduler; DFS over all schedules of file-system steps with preemption bound 2/3 and unbounded with exact global-state pruning, crash choice at every writer step, torn (two-step) writes; porcupine linearizability check of every history against a per-URL register; plus kill injection on every file-system syscall of a real process (strace)",
   "Every interleaving (within the stated bounds: <= 3 threads, <= 2 operations each, <= 2 crashes) of the file-system steps the working tree actually performs is executed on a real tmpfs directory; every Get must be a miss or a complete bundle stored for that URL, every history must be linearizable (a killed Set may or may not have taken effect), a post-mortem reader and lister must see only misses, complete entries and non-key temporary files. E4 kills a real process on entry to each syscall and lets a fresh process read.",
   "Trusted: kernel rename/unlink/open-inode semantics, engine/sched + engine/osshim (replay determinism self-checked on every run), porcupine. Power loss (unsynced data) and more than 3 participants are outside the bound. A supplementary free-running pass (same scenarios as real goroutines in a -race build, real writer processes with a polling reader) validates E1's no-shared-memory assumption; it is a sample, reported under extra.e5_free_running, and never counts towards `exhaustive`.",
   "DESIGN.md section 5 C14, section 3 E1/E4"),
 "C09": ("E3", "model_checking",
   "deviation-bounded exhaustive enumeration over a grammar of valid OCI and blob policy documents: every base document x every single rule-violating edit (one operator per rule) x every pair of edits, validity-preserving edits, plus exhaustive assembly from hand-labelled component alphabets; independent reference validator (iff oracle)",
   "Every generated document is validated by the real OCIDocument/BlobDocument.Validate and through verifier.NewVerifierWithOptions and the verdict is compared (iff) with a reference validator that works on hand-written valid/invalid labels of the component alphabets; every accepted statement must yield a level enforcing integrity unless it is skip.",
   "Trusted: the labelled alphabets in harness/c09/tables.go and the reference validator; documents outside the component alphabets are not covered.",
   "DESIGN.md section 5 C09"),
 "C15": ("E2+E3", "model_checking",
   "explicit-state breadth-first search over store/read histories (81 operations over 9 URLs x 6 bundles, depth 3 quick / 4 thorough, states deduplicated on the canonical directory content) on the real FileCache against a map model with expiry and a containment snapshot; exhaustive corruption (every truncation, every byte x 2 flips, structural swaps) of stored entries; clock-advance histories through a clock seam (verifier/crl compiled with its time import rewritten to a movable clock: reads before/after next-update instants on the same and on a fresh instance)",
   "Each transition replays the shortest history into a fresh cache directory, applies one real Set/Get, snapshots the scratch parent and probes every URL; results are compared with map[url]bundle with expiry. Every corruption of a stored entry must yield an error, a miss, or a bundle byte-equal to what the oracle decodes from the file.",
   "Trusted: the map model and the JSON/x509 decoding of the oracle in harness/c15; clock changes during a run are outside the bound.",
   "DESIGN.md section 5 C15"),
 "C16": ("E3", "model_checking",
   "exhaustive enumeration of a path-traversal name grammar (114 names quick / 774 thorough) x plugin-root depth x pre-state x 9-11 operations (Get+GetMetadata, Uninstall, Install from file/directory, AddPlugin, end-to-end Verify with JWS/COSE) on real directories with sentinel executables; before/after tree snapshot oracle",
   "Every case runs the real CLIManager / verifier on a private scratch tree seeded with sentinel executables at every location a naive or cleaned join could reach; unacceptable names must return an error, execute nothing (marker files) and leave the whole tree byte-identical; acceptable names may only touch <root>/<name>.",
   "Trusted: the single-path-component predicate and the snapshot differ in harness/c16; a bare stat outside the root is not observable.",
   "DESIGN.md section 5 C16"),
 "C17": ("E3", "model_checking",
   "exhaustive enumeration of plugin behaviours (5 commands x exit x stdout kinds x stderr kinds; oversize and timing/context cases crossed with representatives), each run as a real process through the real CLIPlugin; classification-model oracle, RSS cap monitor in worker subprocesses, 20 s bounded-delay monitor",
   "Every behaviour tuple is executed as a real plugin process; success implies exit 0 and a well-formed reply (metadata: all mandatory fields, supported contract version, matching name); failing processes must yield the structured error or a typed error; oversized output is never accepted and never buffered beyond a coarse RSS bound; a cancelled/expired call returns within 20 s.",
   "Trusted: the classification model in harness/c17; the 20 s and 4x-cap thresholds are deliberately coarse measurements on an exhaustively enumerated behaviour set.",
   "DESIGN.md section 5 C17"),
 "C20": ("E2", "model_checking",
   "explicit-state search to fix-point over install/uninstall histories: from every reachable plugin-root tree (canonical hash of paths, modes, bytes) every operation (versions x overwrite x 13-21 source shapes + uninstall) is applied through the real CLIManager with real script plugins; reference installer + tree equality + file/directory differential",
   "The state graph is closed (CLIManager keeps no memory, the state is the tree), so all histories of any length are covered: every transition is a real Install/Uninstall whose result, resulting tree and the metadata answered by the installed plugin are compared with a reference installer working on the generator's description of the source.",
   "Trusted: the reference installer and the hand-ordered semver alphabet in harness/c20.",
   "DESIGN.md section 5 C20"),
 "C04": ("E3", "model_checking",
   "exhaustive enumeration of leaf subjects from an attribute grammar (mandatory C/ST/O present or absent x optional subsets, duplicate / multi-valued / unknown-OID / escaped-value shapes) x ~45 identity lists derived from each subject x format on the real verifier; structural subset oracle on the generator's attribute lists",
   "One certificate and signature per subject; every derived identity list (permutations, subsets, supersets, near misses, CA subjects, unknown prefixes, wildcard) is verified by the real verifier with the trust anchor present, so identity alone decides authenticity; pass/fail is compared with a subset relation on the generator's AST (equivalence for clean subjects, implication for odd shapes).",
   "Trusted: the generator's AST and the subset model in harness/c04; identity lists marked (extension) are recorded, not judged.",
   "DESIGN.md section 5 C04"),
 "C10": ("E3", "model_checking",
   "complete enumeration of the finite quantifier: listings {valid, invalid, nil-outcome, unfetchable}^k (k<=5 quick, <=6 thorough) x all pagings (compositions, empty pages) x 9 limits x 5 reference kinds x skip/non-skip, driving the real notation.Verify loop through a logging mock repository and scripted / real verifier; reference loop model",
   "Every listing, paging, limit and reference kind of the quantifier is run through the real notation.Verify; verdict, returned descriptor and outcomes, and the repository/verifier call logs are compared with the reference loop of DESIGN.md appendix A.3.",
   "Trusted: the reference loop in harness/c10, the mock repository; listings longer than 6 are outside the bound.",
   "DESIGN.md section 5 C10, appendix A.3"),
 "C19": ("E2", "model_checking",
   "explicit-state search over push histories (all orders to depth 4 quick / 5 thorough on the memory store, 3/4 on the on-disk OCI layout incl. re-opening, plus a digest-only 'loose' graph store) with canonical state = multiset of manifests per subject, reference model compared after every operation; exhaustive hostile-manifest enumeration with a fetch-logging GraphTarget",
   "Each transition is a real PushSignature or a foreign referrer pushed underneath the API; after every operation ListSignatures/FetchSignatureBlob for every subject are compared with the model map subject -> multiset(media type, bytes, annotations). Hostile manifests must be refused before any blob fetch.",
   "Trusted: the map model in harness/c19; oras-go stores as the substrate. The frontier beyond depth 5 is not exhaustive and reported as such.",
   "DESIGN.md section 5 C19"),
 "C03": ("E3", "model_checking",
   "exhaustive enumeration of certificate placements into the six named stores (<= 2 populated) x every store list of length 1..3 (quick 1..2) x second/wildcard statement listing the other stores x scheme x format x chain shape, on the real verifier over the real on-disk trust store behind a logging decorator; set-membership reference model + call-log clauses",
   "Every case is one real verifier.Verify over real trust-store directories; the authenticity result is compared with the membership model (listed stores of the scheme's type, all must load, some chain certificate byte-equal to a stored one); of the GetCertificates log only what the statement fixes is judged (no store of another type, no unlisted store, no pass without every listed store having been asked) - order and repetition are recorded.",
   "Trusted: the membership model in harness/c03; no timestamp path is exercised (tsa stores must not be loaded); more than two populated stores / more than three statements are outside the bound.",
   "DESIGN.md section 5 C03"),
 "C05": ("E3", "model_checking",
   "exhaustive enumeration of all revocation result vectors over {OK, NonRevokable, Unknown, Revoked, undefined}^n, n=1..4, x method annotations x per-server errors x validator error x validator interface x action x scheme x format on the real verifier with a scripted validator; 3-line aggregation model + call-log clauses",
   "Every vector of the quantifier (and an undefined status code) is answered by a scripted validator to the real verifier.Verify; judged: a non-OK vector never passes, a revoked certificate fails as revoked and is named (by subject, common name, serial number or fingerprint), an enforced failure rejects, every validator call carries the complete chain and the signing time exactly for signing-authority. All-OK vectors are positive controls; behaviour under skip, call counts, entry counts and message wording are recorded only.",
   "Trusted: the aggregation model in harness/c05, lib/mocks. Result slices of a length other than the chain's are outside the quantifier (DESIGN.md O-1).",
   "DESIGN.md section 5 C05"),
 "C13": ("E3", "model_checking",
   "exhaustive enumeration of directory contents (all ordered entry sequences up to length 3, thorough 4, over 14 entry kinds x 3 store types) and of type x name x path-kind combinations with decoys, on the real on-disk trust store loader; reference loader over the generator's description",
   "Each case builds a real store directory (files, sub-directories, symlinks, decoys around it) and calls the real X509TrustStore.GetCertificates; success/failure and the exact certificate multiset are compared with a reference loader that works on the generator's description of the directory, never on a re-scan of the disk.",
   "Trusted: the reference loader in harness/c13; permission faults cannot be produced (run as root).",
   "DESIGN.md section 5 C13"),
 "C01": ("E3", "model_checking",
   "exhaustive product enumeration (envelope families incl. all 4^4 re-assemblies and the complete Hamming-1/truncation neighbourhood x artifacts x metadata x enforcement maps x trust answers) on the real verifier, implication oracle with independent signature re-verification",
   "Every member of the stated finite product is verified by the real verifier.Verify / notation.VerifyBlob; whenever verification succeeds the oracle re-verifies the raw bytes with standard-library crypto only and compares payload type, target descriptor and required metadata. Bounded-exhaustive; envelopes at Hamming distance >= 2 that are not re-assemblies are outside the bound.",
   "Trusted: lib/refsig (stdlib crypto), lib/forge as encoder, soundness of RSA-PSS/ECDSA/SHA-2.",
   "DESIGN.md section 5 C01"),
 "C02": ("E3", "model_checking",
   "exhaustive enumeration of the decision table (24 enforcement maps x trust x identity x expiry x certificate time x revocation answer x 32 plugin situations x critical-attribute state x format; quick: all cells with <= 3 deviations, thorough: full product and all 72 (base, override) ways) against a reference decision function; monotonicity relation checked on observed verdicts; call logs of scripted collaborators",
   "Each (cell, enforcement map) is one real verifier.Verify call with scripted trust store / revocation validator / plugin manager / plugin; the verdict (iff), the action of every reported result, the reporting of logged failures and the stated call-log clauses (skipped revocation neither performed nor sent to the plugin, declared capability replaces the native check, plugin asked exactly the declared non-skipped capabilities) are compared with the reference decide() written from the statement; acceptance must be monotone in the map. Observations the statement leaves open (repeated calls, duplicate or additional entries) are recorded in the evidence as recorded:* outcome classes, never judged.",
   "Trusted: the 90-line reference decide() in harness/c02 (DESIGN.md appendix A.1), lib/mocks, lib/forge. One known finding (F-02b) is listed in KNOWN_FINDINGS.txt.",
   "DESIGN.md section 5 C02, appendix A.1"),
 "C08": ("E3+E2", "model_checking",
   "exhaustive enumeration of (policy document x statement permutation x reference) against an exact-membership reference model; explicit-state search over select/mutate/select histories",
   "Every document over the scope alphabet (quick: 5 scopes/2 statements, thorough: 7 scopes/3 statements + wildcard), every permutation of its statements and every labelled reference is evaluated on the real GetApplicableTrustPolicy; every select/mutate history up to depth 3 (4) is run on the real document; same for blob documents. Bounded-exhaustive: no sampling.",
   "Trusted: the hand-labelled reference alphabet and the 10-line membership model in harness/c08; documents are built as Go values.",
   "DESIGN.md section 5 C08"),
}

# Dimensions added after the seeded-defect rounds (DESIGN.md 9.1); appended to the technique text.
ADDED = {
 "C01": "reader-shape dimension for blobs (whole, one byte, half, data together with io.EOF, failing part-way), signed empty/prefix blobs, near-miss payload content types, verifier-instance reuse; rounds 3-4: hand-labelled payload-byte shapes (members absent / null / reordered, trailing or leading data, repeated or case-variant member names), two-call histories reusing the caller's required-metadata map, notation.Verify over lists of 1-3 signatures, blob descriptors signed under every digest algorithm other than the key's, reserved-prefix and near-miss keys in the required metadata; round 5: blob readers failing with a temporary error after a prefix (seekable / non-seekable) before the signed content, required metadata pairs whose key=value concatenation collides with a signed pair",
 "C02": "scheme dimension (x509 / signing authority), collaborator-phase histories on one verifier instance (Prior 0..3 incl. a blob verification under an equally named statement), two-store trust values with one store failing to load; rounds 3-4: trust values 'only a store of the other type listed' and 'store loads empty', position of the non-OK certificate in the revocation vector, not-yet-valid leaf / signed after leaf expiry, timestamping-configuration dimension; round 5: Prior 4 - the cell's own failing verification first, then repaired collaborators (a remembered rejection must not outlive its cause)",
 "C03": "instance-reuse histories (Prior 1..5), nested/enclosing scopes of the other statement, existing-but-empty store directories, aliasing family (a store returning a slice with spare capacity over a shared array must not be written through); rounds 3-4: levels x plugin kinds after the authenticity step, 10 near-miss store-name pairs, look-alike certificates (same subject/issuer/serial, other key; re-issued root), context cancelled when a store answer returns",
 "C04": "all leaves share key, issuer, validity and serial number; REV-only verification plugin; instance-reuse histories; colon / blank near-miss identities; printed-form identity lists; unknown-OID subjects must never match; rounds 3-4: honest identity plugin with capabilities [REV, TI] and revocation skipped, value twins equal only after a string preparation (invisible code points, NFC/NFD, look-alikes), characters moved across attribute boundaries; round 5: trust-configuration dimension (intermediate only, signing certificate itself alone / before / after its root / in a second store, self-signed leaf, signing-authority variants) x 36 subjects",
 "C05": "TI-only verification plugin, instance-reuse histories (validator answered differently before), every exported verifier constructor, leaf with an empty subject; rounds 3-4: every certificate below the root as the trust anchor, other validations' actions in {enforce,log}^3, other logged validations failing, context seam (done before / cancelled during / deadline during the validator call); round 5: 13 Go value shapes of the caller's validator / client (pointer, stateful value, func adapter, zero-sized and zero-valued values)",
 "C06": "token transplanted from the previously verified signature (CopyOfPrior), frozen-clock boundary reads (NotAfter / expiry -1 ns, exactly, +1 ns); rounds 3-4: tsa store first / middle / last in the store list with every TSA root also in the signing store, time zones on both sides, instants before 1678 and before the epoch, strictly nested validity windows, histories over two verifier objects, built-in TSA revocation check against a CRL served on 127.0.0.1; round 5: TSA chains whose certificates expire between genTime and verification x revoked TSA x the three verifyTimestamp options",
 "C07": "each extra descriptor field alone and in pairs, verify-option combinations, short-lived leaf with expiry durations beyond NotAfter; rounds 3-4: uncommon legal media-type spellings (RFC 2045 equality), artifacts signed 1-3 times in mixed formats by trusted and untrusted signers (70 orders) verified through notation.Verify, a blob other than the signed one presented to VerifyBlob, the longest expressible expiry duration; round 5: 11 hand-written metadata maps (well-known namespaces, reserved-prefix neighbours, payload member names, '=' ',' blanks control characters in keys and values, 64 KiB value, 40 pairs)",
 "C08": "ambiguous documents (scope or wildcard in two statements, both orders) through the loader and the verifier constructor; end-to-end verification per selected statement; rounds 3-4: SkipVerify judged next to Verify, ambiguous blob documents (two or more global statements or a repeated name, 2-5 statements, every position)",
 "C09": "cross-statement family (3-4 statements x {duplicate name, shared / wildcard scope, global flag, skip}); store names with further colons, newline, NUL; rounds 3-4: identity lists without any x509.subject entry with the wildcard appended / prepended / in the middle, scopes composed from domain x repository alphabets",
 "C10": "references pinned by sha384 / sha512 digests against a repository resolving sha256; rounds 3-4: 7 fetch-error kinds x signed-payload variants, resolved descriptor with every optional field, listing decorations (created annotations in four orders), blob media types of non-verifying signatures",
 "C11": "reserved-prefix near misses; signer-annotations family (signer returns annotations colliding with the computed ones); rounds 3-4: empty-string vs absent annotation, byte-identical envelopes pushed again (every earlier signature must survive), metadata values with control / invisible characters, process-environment profiles as a seam; round 5: a signer that signs every member it is handed + an artifact with platform / artifactType / urls, digest-reference shapes in three algorithms x own / foreign bytes x three spellings, repository with and without content.Fetcher",
 "C12": "every accepted mutated document is pushed through all four verification entry points; member insertion; integer-labelled critical COSE headers in the configuration matrix; rounds 3-4: 17 280-cell timestamp product, oversized plugin output in pipe-sized pieces with a relative allocation oracle, hostile foreign registry.Repository answers, cross-format descriptors, argument lists of SigningKeys operations",
 "C13": "reload-after-change histories on one trust-store object; upper/mixed-case types and names with decoys at the normalised path; self-issued leaves signed by another key; rounds 3-4: 25 file-name styles per entry kind, colliding roots (same name + serial), bad certificate first / middle of a bundle, stores of 1 025 / 10 001 entries, self-signed CAs whose issuer differs from the subject; round 5: caller-context seam (done before the call, scripted contexts becoming done at the 2nd / 3rd consultation, live) x all store contents of <= 3 entries; 6 certificate roles x 14 signature algorithms incl. retired digests and unevaluable identifiers",
 "C14": "twin bundles (same issuer, CRL number and dates) and a case-variant URL in the concurrent scenarios; rounds 3-4: environment-fault choices (ENOSPC / EIO / EXDEV) in the scheduler, private TMPDIR on another file system, Set under a cancelled context and under a context cancelled in mid-call, bundles of 1-52 MiB, goroutine-identity guard (foreign goroutines are reported, not mis-scheduled)",
 "C15": "twin bundles; frozen-clock boundary reads around NextUpdate; two-instance + external-change histories (Set/Get on two FileCache objects over one root, external delete / truncate / garbage / replace, depth 4-5); rounds 3-4: every byte appended / prepended / glued prefixes to an entry, full product of URL components with path-special values (9 504 URLs, decoys in every ancestor), 20 next-update instants from year 1 to 9999, 64 near-identical URL byte strings in all ordered pairs, 88 base/delta relations",
 "C16": "names longer than the error-message abbreviation threshold; Install -> Get/Verify histories on one manager; non-executable install sources; rounds 3-4: pre-state 'alone' (last entry of every container), 'absent but offered by the environment' (PATH and default plugin locations), neighbour plugins with 22 derived names",
 "C17": "(structured error, then sleep) x full stderr alphabet x deadline/cancel; overlapping calls on one plugin object (returned replies must not alias pooled buffers); near-miss contract version lists; rounds 3-4: bytes after a complete valid reply, stderr that is JSON but not an error object, busy-host histories (K parked calls, then a probe whose context ends), every error code x kill timing, wrong-typed members; marker-file synchronisation instead of sleeps; round 5: exit statuses 126 / 127 / 128+n x structured errors x 5 commands; plugin file names with extensions whose announced name is the stem",
 "C18": "signer-instance histories (honest call, then another key id); near-canonical spellings of the true key spec; rounds 3-4: 14 signature-value shapes for raw-signature plugins, content-type header absent / empty / null / number, members named like members of the other level, syntactically malformed digest / media type / size / annotations; round 5: request-descriptor values (sizes 0 .. 2^63-1 around 2^31, 2^32, 2^53, 2^60; empty annotation values; annotation keys named like members; sha512 digest; parameterised media type) x all answers - found F-18b",
 "C19": "distinct annotation maps per push with aliasing checks on listed descriptors; fetch A, fetch B, compare A again; equivalent query descriptors; non-UTC / sub-second created annotations; rounds 3-4: envelopes beginning and ending with strippable bytes, re-push of bytes already in the layout, layouts whose subjects are not roots of index.json, 1-21 signatures on one artifact, hostile blobs of other media types; round 5: composition of the blob list (12 entry kinds before / after / around one envelope, image and legacy manifests, null / absent / [] spellings)",
 "C20": "sub-directory names sorting before / between / after the top-level files; capitalised metadata names; rounds 3-4: invalid versions on both sides of the comparison, bytes around a valid metadata object, non-answering installed plugins (6 kinds), one source location rewritten in place across a history, non-executable candidate-named files; round 5: 9 name classes and an attribute mix for the bystander files of an install source",
}

NOT_APPLICABLE = [
]

def main():
    checks = []
    for pid in sorted(CHECKS):
        eng, cat, tech, text, note, ref = CHECKS[pid]
        if pid in ADDED:
            tech += "; further dimensions added after independently seeded defects: " + ADDED[pid]
        checks.append({
            "property_id": pid,
            "quick_cmd": f"./check {pid} quick",
            "thorough_cmd": f"./check {pid} thorough",
            "evidence_file": f"/verif/evidence/{pid}.json",
            "replay_cmd_template": f"./check {pid} --replay {{path}}",
            "engine": eng,
            "level_claimed": {"category": cat, "text": text, "design_ref": ref},
            "level_note": note,
            "technique": tech,
        })
    claimed = set(CHECKS)
    props = [json.loads(l)["id"] for l in open(os.path.join(V, "properties.jsonl"))]
    na = [x for x in NOT_APPLICABLE if x["property_id"] not in claimed]
    listed = {x["property_id"] for x in na}
    for p in props:
        if p not in claimed and p not in listed:
            na.append({"property_id": p, "reason": "check not built yet in this revision of /verif (work in progress; see DESIGN.md section 5 for the planned model-checking harness)"})
    m = {
        "version": 1,
        "setup_cmd": "./setup.sh",
        "hooks": {
            "guard": "verif",
            "enable": "no in-repo hooks: checks build /repo's working tree as it is; seams are put BELOW the code with `go build -overlay` and an import rewrite of the current sources (cmd/osrewrite): C14 compiles internal/file and verifier/crl with \"os\" rewritten to /verif/engine/osshim (scheduling points at every file-system step), C06 compiles package verifier, C07 package signer and C15 verifier/crl with \"time\" rewritten to /verif/engine/timeshim (a clock the harness moves or lets tick on every read); if an overlay build fails the harness is built without it and reports the lost part as a cap",
            "baseline_off_cmd": "cd /repo && GOFLAGS=-mod=mod GOPROXY=off GOSUMDB=off GOTOOLCHAIN=local go test -vet=off -count=1 -timeout 25m ./...",
            "source_commits": [],
            "add_only": True,
        },
        "engines": [
            {"name": "E1", "path": "engine/sched, engine/osshim", "serves_properties": ["C14"], "kind_free_text": ENG["E1"]},
            {"name": "E2", "path": "harness/*/ (history search)", "serves_properties": ["C08", "C10", "C11", "C15", "C19", "C20"], "kind_free_text": ENG["E2"]},
            {"name": "E3", "path": "lib/hx + harness/*/", "serves_properties": ["C01", "C02", "C03", "C04", "C05", "C06", "C07", "C09", "C12", "C13", "C16", "C17", "C18"], "kind_free_text": ENG["E3"]},
            {"name": "E4", "path": "harness/c14/ (strace)", "serves_properties": ["C14"], "kind_free_text": ENG["E4"]},
        ],
        "checks": checks,
        "not_applicable": na,
        "notes": "All checks are `./check <ID> quick|thorough`; the script rebuilds the harness against /repo's working tree. Exit 2 = infrastructure/build error (no VIOLATION line). KNOWN_FINDINGS.txt lists recorded findings and repaired defects.",
    }
    out = os.path.join(V, "MANIFEST.json")
    json.dump(m, open(out, "w"), indent=1)
    open(out, "a").write("\n")
    try:
        import jsonschema
        jsonschema.validate(m, json.load(open("/root/.vp/MANIFEST.schema.json")))
        print("MANIFEST.json valid;", len(checks), "checks,", len(na), "not applicable")
    except ImportError:
        print("jsonschema not available; not validated")

if __name__ == "__main__":
    main()
