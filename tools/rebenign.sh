#!/bin/bash
# tools/rebenign.sh [name-glob] [tier] : re-runs the filed property-PRESERVING changes (/verif/benign/<ID>-<n>/patch.diff and
# mutants/<ID>/{not-property-breaking,equivalent,outside-statement}/*.patch) through an overlay against the check of
# their own property and of every property anchored in a package they touch (patches under mutants/: own property only -
# they may well break ANOTHER property). Every check must stay SILENT (exit 0).
# Env: JOBS (default 4) changes run in parallel; OWNONLY=1 runs only the check of the change's own property.
cd "$(dirname "$(readlink -f "$0")")/.."
glob=${1:-*}; tier=${2:-quick}
one() {
  patch=$1; ID=$2; tier=$3; label=$4
  case "${OWNONLY:-0}$patch" in 1*|0mutants/*) ids=$ID;; *) ids=$(python3 - "$patch" "$ID" <<'PY'
import json,sys,re,collections
m=collections.defaultdict(set)
for l in open('/verif/properties.jsonl'):
    p=json.loads(l)
    for f in p['anchors']['files']:
        m[f.rsplit('/',1)[0] if '/' in f else '.'].add(p['id'])
ids=[sys.argv[2]]
for l in open(sys.argv[1]):
    g=re.match(r'\+\+\+ b/(.*)',l)
    if g:
        f=g.group(1).strip(); d=f.rsplit('/',1)[0] if '/' in f else '.'
        for i in sorted(m.get(d,())):
            if i not in ids: ids.append(i)
print(' '.join(ids))
PY
);; esac
  res=""; bad=0
  for c in $ids; do
    out=$(tools/mutant.sh "$patch" "$c" "$tier" 2>&1); rc=$?
    if [ $rc -ne 0 ]; then bad=1; echo "$out" | grep -E '^(VIOLATION|BUILD-ERROR|INFRA)' | cut -c1-300 | head -3 | sed "s/^/    [$label $c] /"; fi
    res="$res $c=$rc"
  done
  if [ $bad = 0 ]; then echo "BENIGN $label [$tier]: SILENT ($res )"; else echo "BENIGN $label [$tier]: ALARM ($res )"; fi
}
export -f one
{
  for d in benign/$glob/; do n=$(basename "$d"); [ -f "$d/patch.diff" ] && echo "$d/patch.diff ${n%%-*} $tier $n"; done
  for p in mutants/*/not-property-breaking/*.patch mutants/*/equivalent/*.patch mutants/*/outside-statement/*.patch; do
    [ -f "$p" ] || continue
    id=$(echo "$p" | cut -d/ -f2)
    case "$id-$(basename "$p" .patch)" in $glob) echo "$p $id $tier $id/$(basename "$p" .patch)";; esac
  done
} | xargs -P "${JOBS:-4}" -L1 bash -c 'one "$0" "$1" "$2" "$3"'
