#!/bin/bash
# tools/mutant.sh <patch> <ID> [quick|thorough]
#   Runs ./check <ID> against /repo + <patch> WITHOUT touching /repo: the patched files
#   are materialised in a scratch directory and passed to the go tool with -overlay.
# tools/mutant.sh --tests <patch> [pkg...]
#   Runs the repository's own tests (default: the packages the patch touches) with the patch overlaid.
set -u
VERIF=$(cd "$(dirname "$(readlink -f "$0")")/.." && pwd)
mode=check
if [ "${1:-}" = "--tests" ]; then mode=tests; shift; fi
patch=$(readlink -f "${1:?patch}"); shift
tmp=$(mktemp -d /tmp/verif-mutant-XXXXXX)
trap 'rm -rf "$tmp"' EXIT
files=$(grep -E '^\+\+\+ ' "$patch" | sed -E 's#^\+\+\+ (b/)?##; s#\t.*##' | grep -v '^/dev/null$')
for f in $files; do
  mkdir -p "$tmp/src/$(dirname "$f")"
  [ -f "/repo/$f" ] && cp "/repo/$f" "$tmp/src/$f"
done
(cd "$tmp/src" && patch -s -p1 < "$patch") || { echo "patch does not apply" >&2; exit 3; }
{
  echo '{"Replace":{'
  first=1
  for f in $files; do
    [ $first = 1 ] || echo ','
    first=0
    printf '"/repo/%s":"%s/src/%s"' "$f" "$tmp" "$f"
  done
  echo '}}'
} > "$tmp/overlay.json"
export VERIF_OVERLAY=$tmp/overlay.json
# keep the artefacts of mutant runs out of /verif/evidence and /verif/violations (override to inspect them)
export VERIF_EVIDENCE_DIR=${VERIF_EVIDENCE_DIR:-$tmp/evidence}
export VERIF_VIOLATIONS_DIR=${VERIF_VIOLATIONS_DIR:-/tmp/verif-mutant-violations}
if [ $mode = tests ]; then
  export GOFLAGS=-mod=mod GOPROXY=off GOSUMDB=off GOTOOLCHAIN=local
  if [ $# -gt 0 ]; then pkgs="$*"; else pkgs=$(for f in $files; do echo "./$(dirname "$f")/..."; done | sort -u); fi
  cd /repo && go test -overlay "$VERIF_OVERLAY" -vet=off -count=1 $pkgs
  exit $?
fi
ID=${1:?ID}; shift
cd "$VERIF" && ./check "$ID" "$@"
rc=$?
echo "mutant $(basename "$patch"): check $ID exit $rc"
exit $rc
