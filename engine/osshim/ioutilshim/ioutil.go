// Package ioutilshim replaces io/ioutil for the packages under test (see engine/osshim).
package ioutilshim

import (
	"io"
	"io/fs"

	"github.com/notaryproject/notation-go/zzverif/engine/osshim"
)

var (
	Discard   = io.Discard
	NopCloser = io.NopCloser
	ReadAll   = io.ReadAll
)

func ReadFile(name string) ([]byte, error) { return osshim.ReadFile(name) }
func WriteFile(name string, data []byte, perm fs.FileMode) error {
	return osshim.WriteFile(name, data, perm)
}
func TempFile(dir, pattern string) (*osshim.File, error) { return osshim.CreateTemp(dir, pattern) }
func TempDir(dir, pattern string) (string, error)        { return osshim.MkdirTemp(dir, pattern) }
func ReadDir(dirname string) ([]fs.FileInfo, error) {
	es, err := osshim.ReadDir(dirname)
	if err != nil {
		return nil, err
	}
	out := make([]fs.FileInfo, 0, len(es))
	for _, e := range es {
		fi, err := e.Info()
		if err != nil {
			return nil, err
		}
		out = append(out, fi)
	}
	return out, nil
}
