// Package osshim is a drop-in replacement for package os, used only through
// `go build -overlay` (the import "os" of the packages under test is rewritten
// to this package). Every file-system operation is a scheduling point of
// engine/sched and is then performed by the real package os on the real
// kernel, so rename/unlink/open-inode semantics are the kernel's. Everything
// not defined here is passed through by the generated zz_passthrough.go.
//
// When no scheduler is active (sched.S == nil) every call goes straight through.
package osshim

import (
	"errors"
	"fmt"
	"io"
	"io/fs"
	"os"
	"path/filepath"
	"strings"
	"sync"
	"syscall"
	"time"

	"github.com/notaryproject/notation-go/zzverif/engine/sched"
)

// File wraps *os.File; its methods are scheduling points.
type File struct {
	f     *os.File
	owner int
}

var (
	mu         sync.Mutex
	tmpCounter int
	openFiles  []*File
	// TornWrites splits every Write of more than one byte into two steps.
	TornWrites bool
	// Observe, when set, receives a summary of every result a thread gets back from the file system.
	Observe func(thread int, what string)
)

// Reset prepares the shim for a new execution: deterministic temp names, forget open files.
func Reset() {
	mu.Lock()
	tmpCounter = 0
	for _, f := range openFiles {
		_ = f.f.Close()
	}
	openFiles = nil
	mu.Unlock()
}

// OpenCount returns the number of files opened during the execution that are still open.
func OpenCount() int {
	mu.Lock()
	defer mu.Unlock()
	n := 0
	for _, f := range openFiles {
		if _, err := f.f.Stat(); err == nil {
			n++
		}
	}
	return n
}

// OpenFiles describes the open files per thread (for state keys): content hash input is left to the caller.
func OpenFilesOf() []*File {
	mu.Lock()
	defer mu.Unlock()
	return append([]*File(nil), openFiles...)
}

// Raw gives the harness access to the underlying file (state hashing).
func (f *File) Raw() *os.File { return f.f }
func (f *File) Owner() int    { return f.owner }

var errDead = errors.New("osshim: thread crashed")

func obs(format string, a ...any) {
	if Observe != nil {
		Observe(sched.Current(), fmt.Sprintf(format, a...))
	}
}

func errStr(err error) string {
	if err == nil {
		return "ok"
	}
	var pe *fs.PathError
	if errors.As(err, &pe) {
		return pe.Op + ":" + pe.Err.Error()
	}
	return err.Error()
}

func track(f *os.File, err error) (*File, error) {
	if err != nil {
		return nil, err
	}
	w := &File{f: f, owner: sched.Current()}
	mu.Lock()
	openFiles = append(openFiles, w)
	mu.Unlock()
	return w, nil
}

func base(p string) string { return filepath.Base(p) }

// ---- opening ----

func OpenFile(name string, flag int, perm FileMode) (*File, error) {
	op := fmt.Sprintf("open(%s,%#x)", base(name), flag)
	if flag&os.O_CREATE != 0 {
		if sched.StepF(op) {
			obs("open %s ENOSPC", base(name))
			return nil, &fs.PathError{Op: "open", Path: name, Err: syscall.ENOSPC}
		}
	} else {
		sched.Step(op)
	}
	f, err := os.OpenFile(name, flag, perm)
	obs("open %s %s", base(name), errStr(err))
	return track(f, err)
}
func Open(name string) (*File, error)   { return OpenFile(name, O_RDONLY, 0) }
func Create(name string) (*File, error) { return OpenFile(name, O_RDWR|O_CREATE|O_TRUNC, 0666) }

// CreateTemp is deterministic per execution (a counter instead of a random number), otherwise state
// hashing and prefix replay would diverge; O_EXCL as in package os.
func CreateTemp(dir, pattern string) (*File, error) {
	if sched.StepF("createtemp(" + pattern + ")") {
		obs("createtemp ENOSPC")
		return nil, &fs.PathError{Op: "createtemp", Path: dir, Err: syscall.ENOSPC}
	}
	if dir == "" {
		dir = os.TempDir()
	}
	prefix, suffix := pattern, ""
	if i := strings.LastIndex(pattern, "*"); i >= 0 {
		prefix, suffix = pattern[:i], pattern[i+1:]
	}
	for try := 0; try < 10000; try++ {
		mu.Lock()
		tmpCounter++
		n := tmpCounter
		mu.Unlock()
		name := filepath.Join(dir, fmt.Sprintf("%s%09d%s", prefix, n, suffix))
		f, err := os.OpenFile(name, os.O_RDWR|os.O_CREATE|os.O_EXCL, 0600)
		if os.IsExist(err) {
			continue
		}
		obs("createtemp %s %s", base(name), errStr(err))
		return track(f, err)
	}
	return nil, &fs.PathError{Op: "createtemp", Path: dir, Err: fs.ErrExist}
}

func NewFile(fd uintptr, name string) *File {
	f := os.NewFile(fd, name)
	if f == nil {
		return nil
	}
	return &File{f: f, owner: sched.Current()}
}

func Pipe() (r *File, w *File, err error) {
	pr, pw, err := os.Pipe()
	if err != nil {
		return nil, nil, err
	}
	return &File{f: pr, owner: sched.Current()}, &File{f: pw, owner: sched.Current()}, nil
}

// ---- File methods ----

func (f *File) Name() string { return f.f.Name() }
func (f *File) Fd() uintptr  { return f.f.Fd() }

func (f *File) Write(b []byte) (int, error) {
	if TornWrites && len(b) > 1 && sched.S != nil {
		h := len(b) / 2
		sched.Step(fmt.Sprintf("write[0:%d](%s)", h, base(f.f.Name())))
		n, err := f.f.Write(b[:h])
		if err != nil {
			return n, err
		}
		if sched.StepF(fmt.Sprintf("write[%d:%d](%s)", h, len(b), base(f.f.Name()))) {
			obs("write %d ENOSPC", n)
			return n, &fs.PathError{Op: "write", Path: f.f.Name(), Err: syscall.ENOSPC} // the device filled up after the first half
		}
		m, err := f.f.Write(b[h:])
		obs("write %d %s", n+m, errStr(err))
		return n + m, err
	}
	if sched.StepF(fmt.Sprintf("write[%d](%s)", len(b), base(f.f.Name()))) {
		n, _ := f.f.Write(b[:len(b)/2]) // a short write: half of the bytes reach the file, then the device is full
		obs("write %d ENOSPC", n)
		return n, &fs.PathError{Op: "write", Path: f.f.Name(), Err: syscall.ENOSPC}
	}
	n, err := f.f.Write(b)
	obs("write %d %s", n, errStr(err))
	return n, err
}
func (f *File) WriteString(s string) (int, error) { return f.Write([]byte(s)) }
func (f *File) WriteAt(b []byte, off int64) (int, error) {
	sched.Step(fmt.Sprintf("pwrite[%d@%d](%s)", len(b), off, base(f.f.Name())))
	return f.f.WriteAt(b, off)
}
func (f *File) Read(b []byte) (int, error) {
	sched.Step("read(" + base(f.f.Name()) + ")")
	n, err := f.f.Read(b)
	obs("read %x %s", b[:n], errStr(err))
	return n, err
}
func (f *File) ReadAt(b []byte, off int64) (int, error) {
	sched.Step(fmt.Sprintf("pread(@%d,%s)", off, base(f.f.Name())))
	n, err := f.f.ReadAt(b, off)
	obs("pread %x %s", b[:n], errStr(err))
	return n, err
}
func (f *File) ReadFrom(r io.Reader) (int64, error) {
	// chunked through Write so that every chunk is a step
	buf := make([]byte, 32*1024)
	var total int64
	for {
		n, err := r.Read(buf)
		if n > 0 {
			m, werr := f.Write(buf[:n])
			total += int64(m)
			if werr != nil {
				return total, werr
			}
		}
		if err == io.EOF {
			return total, nil
		}
		if err != nil {
			return total, err
		}
	}
}
func (f *File) Close() error {
	if sched.Dead() {
		// unwinding a crashed thread: the kernel would close the descriptor, nothing else happens
		_ = f.f.Close()
		return errDead
	}
	if sched.StepF("close(" + base(f.f.Name()) + ")") {
		_ = f.f.Close() // the descriptor is gone, the kernel reports a deferred write error
		obs("close EIO")
		return &fs.PathError{Op: "close", Path: f.f.Name(), Err: syscall.EIO}
	}
	err := f.f.Close()
	obs("close %s", errStr(err))
	return err
}
func (f *File) Sync() error {
	if sched.StepF("fsync(" + base(f.f.Name()) + ")") {
		obs("fsync EIO")
		return &fs.PathError{Op: "sync", Path: f.f.Name(), Err: syscall.EIO}
	}
	return f.f.Sync()
}
func (f *File) Chmod(m FileMode) error {
	sched.Step("fchmod(" + base(f.f.Name()) + ")")
	return f.f.Chmod(m)
}
func (f *File) Chown(uid, gid int) error { return f.f.Chown(uid, gid) }
func (f *File) Chdir() error             { return f.f.Chdir() }
func (f *File) Truncate(n int64) error {
	sched.Step(fmt.Sprintf("ftruncate(%d,%s)", n, base(f.f.Name())))
	return f.f.Truncate(n)
}
func (f *File) Seek(off int64, whence int) (int64, error) { return f.f.Seek(off, whence) }
func (f *File) Stat() (FileInfo, error) {
	sched.Step("fstat(" + base(f.f.Name()) + ")")
	fi, err := f.f.Stat()
	if err == nil {
		obs("fstat %d %v", fi.Size(), fi.Mode())
	} else {
		obs("fstat %s", errStr(err))
	}
	return fi, err
}
func (f *File) Readdir(n int) ([]FileInfo, error) { sched.Step("readdir"); return f.f.Readdir(n) }
func (f *File) ReadDir(n int) ([]DirEntry, error) { sched.Step("readdir"); return f.f.ReadDir(n) }
func (f *File) Readdirnames(n int) ([]string, error) {
	sched.Step("readdir")
	return f.f.Readdirnames(n)
}
func (f *File) SetDeadline(t time.Time) error         { return f.f.SetDeadline(t) }
func (f *File) SetReadDeadline(t time.Time) error     { return f.f.SetReadDeadline(t) }
func (f *File) SetWriteDeadline(t time.Time) error    { return f.f.SetWriteDeadline(t) }
func (f *File) SyscallConn() (syscall.RawConn, error) { return f.f.SyscallConn() }

// ---- path operations ----

func Rename(oldpath, newpath string) error {
	if sched.Dead() {
		return errDead
	}
	if sched.StepF("rename(" + base(oldpath) + "->" + base(newpath) + ")") {
		obs("rename EXDEV")
		return &os.LinkError{Op: "rename", Old: oldpath, New: newpath, Err: syscall.EXDEV} // as if the two paths were on different devices
	}
	err := os.Rename(oldpath, newpath)
	obs("rename %s", errStr(err))
	return err
}
func Remove(name string) error {
	if sched.Dead() {
		return errDead
	}
	sched.Step("remove(" + base(name) + ")")
	err := os.Remove(name)
	obs("remove %s", errStr(err))
	return err
}
func RemoveAll(path string) error {
	if sched.Dead() {
		return errDead
	}
	sched.Step("removeall(" + base(path) + ")")
	return os.RemoveAll(path)
}
func Link(oldname, newname string) error {
	if sched.Dead() {
		return errDead
	}
	sched.Step("link(" + base(oldname) + "->" + base(newname) + ")")
	err := os.Link(oldname, newname)
	obs("link %s", errStr(err))
	return err
}
func Symlink(oldname, newname string) error {
	if sched.Dead() {
		return errDead
	}
	sched.Step("symlink(" + base(newname) + ")")
	return os.Symlink(oldname, newname)
}
func Stat(name string) (FileInfo, error) {
	sched.Step("stat(" + base(name) + ")")
	fi, err := os.Stat(name)
	if err == nil {
		obs("stat %d %v", fi.Size(), fi.Mode())
	} else {
		obs("stat %s", errStr(err))
	}
	return fi, err
}
func Lstat(name string) (FileInfo, error) {
	sched.Step("lstat(" + base(name) + ")")
	fi, err := os.Lstat(name)
	if err == nil {
		obs("lstat %d %v", fi.Size(), fi.Mode())
	} else {
		obs("lstat %s", errStr(err))
	}
	return fi, err
}
func Mkdir(name string, perm FileMode) error {
	if sched.Dead() {
		return errDead
	}
	sched.Step("mkdir(" + base(name) + ")")
	return os.Mkdir(name, perm)
}
func MkdirAll(path string, perm FileMode) error {
	if sched.Dead() {
		return errDead
	}
	sched.Step("mkdirall(" + base(path) + ")")
	return os.MkdirAll(path, perm)
}
func Chmod(name string, mode FileMode) error {
	if sched.Dead() {
		return errDead
	}
	sched.Step("chmod(" + base(name) + ")")
	return os.Chmod(name, mode)
}
func Truncate(name string, size int64) error {
	if sched.Dead() {
		return errDead
	}
	sched.Step(fmt.Sprintf("truncate(%d,%s)", size, base(name)))
	return os.Truncate(name, size)
}
func ReadDir(name string) ([]DirEntry, error) {
	sched.Step("readdir(" + base(name) + ")")
	es, err := os.ReadDir(name)
	var names []string
	for _, e := range es {
		names = append(names, e.Name())
	}
	obs("readdir %v %s", names, errStr(err))
	return es, err
}

// ReadFile is decomposed the way the kernel sees it: open, read..., close.
func ReadFile(name string) ([]byte, error) {
	f, err := Open(name)
	if err != nil {
		return nil, err
	}
	defer f.Close()
	var out []byte
	buf := make([]byte, 512)
	for {
		n, err := f.Read(buf)
		out = append(out, buf[:n]...)
		if err == io.EOF {
			return out, nil
		}
		if err != nil {
			return out, err
		}
	}
}

// WriteFile = open(O_TRUNC), write, close.
func WriteFile(name string, data []byte, perm FileMode) error {
	f, err := OpenFile(name, O_WRONLY|O_CREATE|O_TRUNC, perm)
	if err != nil {
		return err
	}
	_, err = f.Write(data)
	if err1 := f.Close(); err1 != nil && err == nil {
		err = err1
	}
	return err
}
