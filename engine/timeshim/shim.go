// Package timeshim is a drop-in replacement for package time, used only through
// `go build -overlay` (the import "time" of a package under test is rewritten to
// this package): Now, Since and Until read a clock the harness can move; every
// other identifier is passed through (type aliases, so values interoperate with
// the real package time) by the generated zz_passthrough.go.
package timeshim

import (
	"sync/atomic"
	"time"
)

var (
	offset atomic.Int64 // nanoseconds added to the real clock
	calls  atomic.Int64
	tick   atomic.Int64 // nanoseconds the clock jumps forward after every read
)

// Freeze stops the clock at exactly t (plus whatever auto-tick adds per read): boundary instants such as
// "one second after next-update" are then exact however long a call takes. Unfreeze returns to real time + offset.
func Freeze(t time.Time) { frozen.Store(t.UnixNano()); isFrozen.Store(true) }
func Unfreeze()          { isFrozen.Store(false) }

var (
	frozen   atomic.Int64
	isFrozen atomic.Bool
)

// SetAutoTick makes the clock jump forward by d after every read: two reads of the clock inside one
// operation then differ by at least d (a second, a day), so code that reads the clock twice where it
// should use one instant becomes observable.
func SetAutoTick(d time.Duration) { tick.Store(int64(d)) }

// SetOffset moves the clock seen by the code under test to real time + d.
func SetOffset(d time.Duration) { offset.Store(int64(d)) }

// Offset returns the current displacement.
func Offset() time.Duration { return time.Duration(offset.Load()) }

// Calls returns how often the code under test read the clock (proves the seam is active).
func Calls() int64 { return calls.Load() }

func Now() time.Time {
	calls.Add(1)
	if isFrozen.Load() {
		t := time.Unix(0, frozen.Load())
		if d := tick.Load(); d != 0 {
			frozen.Add(d)
		}
		return t
	}
	t := time.Now().Add(time.Duration(offset.Load()))
	if d := tick.Load(); d != 0 {
		offset.Add(d)
	}
	return t
}
func Since(t time.Time) time.Duration { return Now().Sub(t) }
func Until(t time.Time) time.Duration { return t.Sub(Now()) }
