// Package sched is the E1 engine: a cooperative scheduler that owns every
// file-system step of the code under test (the steps are the calls into
// engine/osshim) and a stateless depth-first explorer over schedules with a
// preemption bound, crash choices and (optionally) global-state pruning.
//
// Exactly one registered thread runs at any time (baton passing), so an
// execution is a deterministic function of its choice sequence.
package sched

import (
	"fmt"
	"runtime"
	"runtime/debug"
	"sync/atomic"
)

type crashSentinel struct{}

type thread struct {
	id     int
	resume chan int // 1 = run the pending step, 0 = die here, 2 = run it and let the environment answer with a fault
	done   bool
	dead   bool
	op     string // description of the pending step
	steps  int
	fault  bool // the pending step can be answered with a fault (StepF)
	gid    uint64 // id of the goroutine that IS this thread (steps of other goroutines are not scheduled)
}

// goid parses the current goroutine's id from its stack header ("goroutine 123 [running]:").
func goid() uint64 {
	var buf [40]byte
	n := runtime.Stack(buf[:], false)
	var id uint64
	for _, c := range buf[len("goroutine "):n] {
		if c < '0' || c > '9' {
			break
		}
		id = id*10 + uint64(c-'0')
	}
	return id
}

// foreign counts file-system steps performed by goroutines that the code under test started itself. They are not
// threads of the scheduler: their steps run unscheduled (pass straight through), and a harness that sees a non-zero
// count must report that its exploration does not cover that concurrency.
var foreign atomic.Int64

// ForeignSteps returns (and keeps) the number of unscheduled steps by goroutines spawned inside the code under test.
func ForeignSteps() int64 { return foreign.Load() }

// Point is one scheduling point of an execution.
type Point struct {
	Enabled        []int // canonical order: the running thread first if still enabled, then ascending ids
	Crashable      []int // threads that may be crashed here (choices after the run choices)
	Faultable      []int // threads whose pending step may be answered with a fault (choices after the crash choices)
	RunningEnabled bool
	Ops            []string
}

// Exec is one complete execution.
type Exec struct {
	Choices []int
	Points  []Point
	Trace   []string // "T1:rename(..)" or "CRASH T0 before write"
	Crashed []bool
	Panics  []string // non-sentinel panics of thread bodies (real code panics)
	Pruned  bool     // stopped early because the global state had been visited
	Clock   int
	Faults  int // environment faults injected in this execution
}

// Config of one run.
type Config struct {
	Crashable  map[int]bool
	MaxCrashes int
	// Faultable threads may have a fault-capable step (osshim: write, close, fsync, rename, create) answered with an
	// error instead of its default answer - at most MaxFaults times per execution. This is the "deviation from the
	// default environment answer" dimension: ENOSPC part-way through a write, EIO on close/fsync, EXDEV on rename.
	Faultable map[int]bool
	MaxFaults int
	// StateKey, when non-nil, is called at every scheduling point beyond the
	// replayed prefix; if Visit(key) reports the key as already seen the
	// execution is abandoned (its futures were explored from the first visit).
	StateKey func(s *Sched) string
	Visit    func(key string) (seen bool)
}

// Sched is the scheduler of the current execution.
type Sched struct {
	threads []*thread
	yield   chan int
	cur     *thread
	exec    *Exec
	cfg     Config
	clock   int
	crashes int
	faults  int
}

// S is the scheduler of the execution in progress (nil: shim calls pass straight through).
var S *Sched

// Now returns the logical clock (number of steps granted so far).
func Now() int {
	if S == nil {
		return 0
	}
	return S.clock
}

// Current returns the id of the running thread, -1 outside an execution.
func Current() int {
	if S == nil || S.cur == nil {
		return -1
	}
	return S.cur.id
}

// Step is called by the shim before every file-system step.
func Step(op string) { step(op, false) }

// StepF is Step for a step the environment may answer with a fault; it reports whether this one must fail.
func StepF(op string) (fault bool) { return step(op, true) }

func step(op string, faultable bool) bool {
	s := S
	if s == nil || s.cur == nil {
		return false
	}
	t := s.cur
	if t.gid != goid() {
		foreign.Add(1) // a goroutine of the code's own making: not ours to schedule
		return false
	}
	if t.dead {
		panic(crashSentinel{})
	}
	t.op = op
	t.fault = faultable
	s.yield <- t.id
	r := <-t.resume
	if r == 0 {
		t.dead = true
		panic(crashSentinel{})
	}
	t.steps++
	return r == 2
}

// Dead reports whether the running thread has been crashed: the shim must not touch the file system any more.
func Dead() bool { return S != nil && S.cur != nil && S.cur.dead }

// ThreadSteps returns the number of steps each thread has been granted (for state keys).
func (s *Sched) ThreadSteps() []int {
	out := make([]int, len(s.threads))
	for i, t := range s.threads {
		out[i] = t.steps
		if t.dead {
			out[i] = -1 - t.steps
		}
		if t.done && !t.dead {
			out[i] = 1 << 20
		}
	}
	return out
}

// PendingOps returns the pending step description of each unfinished thread.
func (s *Sched) PendingOps() []string {
	out := make([]string, len(s.threads))
	for i, t := range s.threads {
		if !t.done {
			out[i] = t.op
		}
	}
	return out
}

// Run executes bodies under the scheduler following prefix, then choice 0 everywhere.
func Run(prefix []int, cfg Config, bodies ...func()) *Exec {
	s := &Sched{yield: make(chan int), exec: &Exec{Crashed: make([]bool, len(bodies))}, cfg: cfg}
	S = s
	defer func() { S = nil }()
	for i, b := range bodies {
		t := &thread{id: i, resume: make(chan int), op: "start"}
		s.threads = append(s.threads, t)
		go func(t *thread, body func()) {
			t.gid = goid()
			if <-t.resume == 0 {
				t.dead = true
				t.done = true
				s.yield <- t.id
				return
			}
			defer func() {
				if r := recover(); r != nil {
					if _, ok := r.(crashSentinel); !ok {
						s.exec.Panics = append(s.exec.Panics, fmt.Sprintf("T%d: %v\n%s", t.id, r, debug.Stack()))
					}
				}
				t.done = true
				s.yield <- t.id
			}()
			body()
		}(t, b)
	}
	running := -1
	for {
		var enabled []int
		for _, t := range s.threads {
			if !t.done {
				enabled = append(enabled, t.id)
			}
		}
		if len(enabled) == 0 {
			break
		}
		runningEnabled := false
		for _, id := range enabled {
			if id == running {
				runningEnabled = true
			}
		}
		var order []int
		if runningEnabled {
			order = append(order, running)
		}
		for _, id := range enabled {
			if id != running {
				order = append(order, id)
			}
		}
		var crashIdx []int
		if s.crashes < cfg.MaxCrashes {
			for _, id := range order {
				if cfg.Crashable[id] && s.threads[id].op != "start" {
					crashIdx = append(crashIdx, id)
				}
			}
		}
		var faultIdx []int
		if s.faults < cfg.MaxFaults {
			for _, id := range order {
				if cfg.Faultable[id] && s.threads[id].fault && s.threads[id].op != "start" {
					faultIdx = append(faultIdx, id)
				}
			}
		}
		i := len(s.exec.Points)
		c := 0
		if i < len(prefix) {
			c = prefix[i]
			if c >= len(order)+len(crashIdx)+len(faultIdx) {
				panic(fmt.Sprintf("sched: replay divergence at point %d: choice %d of %d (trace so far %v)", i, c, len(order)+len(crashIdx)+len(faultIdx), s.exec.Trace))
			}
		} else if cfg.StateKey != nil {
			if cfg.Visit(cfg.StateKey(s)) {
				s.exec.Pruned = true
				// let every remaining thread die so that goroutines do not leak
				for _, id := range order {
					t := s.threads[id]
					s.cur = t
					t.resume <- 0
					<-s.yield
				}
				s.cur = nil
				break
			}
		}
		p := Point{Enabled: order, Crashable: crashIdx, Faultable: faultIdx, RunningEnabled: runningEnabled}
		for _, id := range order {
			p.Ops = append(p.Ops, fmt.Sprintf("T%d:%s", id, s.threads[id].op))
		}
		s.exec.Points = append(s.exec.Points, p)
		s.exec.Choices = append(s.exec.Choices, c)
		var t *thread
		if c < len(order) {
			t = s.threads[order[c]]
			s.exec.Trace = append(s.exec.Trace, fmt.Sprintf("T%d:%s", t.id, t.op))
			s.cur = t
			running = t.id
			s.clock++
			t.resume <- 1
		} else if c < len(order)+len(crashIdx) {
			t = s.threads[crashIdx[c-len(order)]]
			s.exec.Trace = append(s.exec.Trace, fmt.Sprintf("CRASH T%d before %s", t.id, t.op))
			s.exec.Crashed[t.id] = true
			s.crashes++
			s.cur = t
			s.clock++
			t.resume <- 0
		} else {
			t = s.threads[faultIdx[c-len(order)-len(crashIdx)]]
			s.exec.Trace = append(s.exec.Trace, fmt.Sprintf("FAULT T%d:%s", t.id, t.op))
			s.faults++
			s.exec.Faults++
			s.cur = t
			running = t.id
			s.clock++
			t.resume <- 2
		}
		<-s.yield
		s.cur = nil
	}
	s.exec.Clock = s.clock
	return s.exec
}

// Stats of an exploration.
type Stats struct {
	Executions int
	Pruned     int
	Points     int
	MaxDepth   int
}

// Explore enumerates every execution with at most `bound` preemptions (bound < 0: unbounded).
// mk builds fresh thread bodies (and resets the world) for every execution; check is called after each
// complete (not pruned) execution. stop() may end the exploration early (deadline); Explore then returns false.
func Explore(bound int, cfg Config, mk func() []func(), check func(*Exec), stop func() bool) (Stats, bool) {
	var st Stats
	complete := true
	var rec func(prefix []int)
	rec = func(prefix []int) {
		if stop != nil && stop() {
			complete = false
			return
		}
		x := Run(prefix, cfg, mk()...)
		st.Executions++
		st.Points += len(x.Points)
		if len(x.Points) > st.MaxDepth {
			st.MaxDepth = len(x.Points)
		}
		if x.Pruned {
			st.Pruned++
		} else {
			check(x)
		}
		pre := 0
		for i := 0; i < len(x.Points); i++ {
			p := x.Points[i]
			if i >= len(prefix) {
				for alt := 1; alt < len(p.Enabled)+len(p.Crashable)+len(p.Faultable); alt++ {
					cost := pre
					if alt < len(p.Enabled) && p.RunningEnabled {
						cost++
					}
					if bound >= 0 && cost > bound {
						continue
					}
					rec(append(append([]int{}, x.Choices[:i]...), alt))
					if !complete {
						return
					}
				}
			}
			if c := x.Choices[i]; c != 0 && c < len(p.Enabled) && p.RunningEnabled {
				pre++
			}
		}
	}
	rec(nil)
	return st, complete
}
