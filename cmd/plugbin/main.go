// plugbin is the scripted plugin executable used by the plugin harnesses
// (C16, C17, C20). It is installed under whatever name a case needs
// (notation-<name>) and reads its behaviour from "<path of the executable>.json".
//
//	{
//	  "marker": "/abs/file",            // a line "<executable path> <command>" is appended on every run
//	  "name": "foo", "version": "1.0.0", "capabilities": ["SIGNATURE_VERIFIER.TRUSTED_IDENTITY"],
//	  "commands": { "<command or *>": { ...behaviour... } }
//	}
//
// behaviour:
//
//	exit            int     exit code
//	stdout/stderr   string  literal text; "@metadata" = a valid get-plugin-metadata reply built from name/version/capabilities
//	stdout_pad/stderr_pad   int   number of blanks appended after the text (for oversized output)
//	stdout_garbage  int     number of 'x' bytes written instead of text
//	sleep_ms        int     sleep before answering
//	ignore_term     bool    ignore SIGTERM/SIGINT
//	child_sleep_ms  int     fork a descendant that inherits stdout/stderr and sleeps that long
//	kill_self       bool    die by SIGKILL instead of exiting
//
// Without a behaviour file it answers get-plugin-metadata with name derived from its own file name.
package main

import (
	"encoding/json"
	"fmt"
	"os"
	"os/exec"
	"os/signal"
	"path/filepath"
	"strings"
	"syscall"
	"time"
)

type behaviour struct {
	Exit          int    `json:"exit"`
	Stdout        string `json:"stdout"`
	Stderr        string `json:"stderr"`
	StdoutPad     int    `json:"stdout_pad"`
	StderrPad     int    `json:"stderr_pad"`
	StdoutGarbage int    `json:"stdout_garbage"`
	SleepMS       int    `json:"sleep_ms"`
	IgnoreTerm    bool   `json:"ignore_term"`
	ChildSleepMS  int    `json:"child_sleep_ms"`
	KillSelf      bool   `json:"kill_self"`
}

type config struct {
	Marker       string               `json:"marker"`
	Name         string               `json:"name"`
	Version      string               `json:"version"`
	Capabilities []string             `json:"capabilities"`
	Commands     map[string]behaviour `json:"commands"`
}

func writeBig(f *os.File, b byte, n int) {
	chunk := make([]byte, 1<<20)
	for i := range chunk {
		chunk[i] = b
	}
	for n > 0 {
		k := n
		if k > len(chunk) {
			k = len(chunk)
		}
		if _, err := f.Write(chunk[:k]); err != nil {
			return
		}
		n -= k
	}
}

func main() {
	if len(os.Args) > 1 && os.Args[1] == "--sleep-child" {
		var ms int
		fmt.Sscanf(os.Args[2], "%d", &ms)
		time.Sleep(time.Duration(ms) * time.Millisecond)
		return
	}
	exe, err := os.Executable()
	if err != nil {
		exe = os.Args[0]
	}
	cmd := ""
	if len(os.Args) > 1 {
		cmd = os.Args[1]
	}
	var cfg config
	if b, err := os.ReadFile(exe + ".json"); err == nil {
		if err := json.Unmarshal(b, &cfg); err != nil {
			fmt.Fprintf(os.Stderr, "plugbin: bad behaviour file: %v\n", err)
			os.Exit(97)
		}
	}
	if cfg.Name == "" {
		cfg.Name = strings.TrimPrefix(filepath.Base(exe), "notation-")
	}
	if cfg.Version == "" {
		cfg.Version = "1.0.0"
	}
	if cfg.Capabilities == nil {
		cfg.Capabilities = []string{"SIGNATURE_VERIFIER.TRUSTED_IDENTITY"}
	}
	if cfg.Marker != "" {
		if f, err := os.OpenFile(cfg.Marker, os.O_APPEND|os.O_CREATE|os.O_WRONLY, 0o644); err == nil {
			fmt.Fprintf(f, "%s %s\n", exe, cmd)
			f.Close()
		}
	}
	b, ok := cfg.Commands[cmd]
	if !ok {
		b, ok = cfg.Commands["*"]
	}
	if !ok {
		if cmd == "get-plugin-metadata" {
			b = behaviour{Stdout: "@metadata"}
		} else {
			b = behaviour{Exit: 1, Stderr: `{"errorCode":"ERROR","errorMessage":"plugbin: command not scripted"}`}
		}
	}
	if b.IgnoreTerm {
		signal.Ignore(syscall.SIGTERM, syscall.SIGINT)
	}
	if b.ChildSleepMS > 0 {
		c := exec.Command(exe, "--sleep-child", fmt.Sprint(b.ChildSleepMS))
		c.Stdout = os.Stdout
		c.Stderr = os.Stderr
		_ = c.Start()
	}
	if b.SleepMS > 0 {
		time.Sleep(time.Duration(b.SleepMS) * time.Millisecond)
	}
	expand := func(s string) string {
		if s == "@metadata" {
			m := map[string]any{"name": cfg.Name, "description": "plugbin", "version": cfg.Version, "url": "https://example.com/plugbin",
				"supportedContractVersions": []string{"1.0"}, "capabilities": cfg.Capabilities}
			j, _ := json.Marshal(m)
			return string(j)
		}
		return s
	}
	if b.StdoutGarbage > 0 {
		writeBig(os.Stdout, 'x', b.StdoutGarbage)
	} else {
		os.Stdout.WriteString(expand(b.Stdout))
		if b.StdoutPad > 0 {
			writeBig(os.Stdout, ' ', b.StdoutPad)
		}
	}
	os.Stderr.WriteString(expand(b.Stderr))
	if b.StderrPad > 0 {
		writeBig(os.Stderr, ' ', b.StderrPad)
	}
	if b.KillSelf {
		_ = syscall.Kill(os.Getpid(), syscall.SIGKILL)
		time.Sleep(time.Second)
	}
	os.Exit(b.Exit)
}
