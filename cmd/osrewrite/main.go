// osrewrite prepares the `go build -overlay` file for the E1 engine: every
// non-test Go file of the given package directories (as they are in the
// working tree NOW, or as replaced by a base overlay) is copied with its
// imports "os" and "io/ioutil" rewritten to the scheduling shims.
//
//	osrewrite -out <dir> [-base <overlay.json>] <pkgdir>...
//
// prints the path of the overlay file.
package main

import (
	"encoding/json"
	"flag"
	"fmt"
	"go/ast"
	"go/parser"
	"go/printer"
	"go/token"
	"os"
	"path/filepath"
	"strconv"
	"strings"
)

const shim = "github.com/notaryproject/notation-go/zzverif/engine/osshim"

type overlay struct {
	Replace map[string]string
}

func main() {
	out := flag.String("out", "", "output directory")
	basePath := flag.String("base", "", "overlay to build upon (mutation self-tests)")
	mapping := flag.String("map", "os="+shim+",io/ioutil="+shim+"/ioutilshim", "comma separated <import path>=<shim import path>")
	flag.Parse()
	shims := map[string]string{}
	for _, kv := range strings.Split(*mapping, ",") {
		if i := strings.IndexByte(kv, '='); i > 0 {
			shims[kv[:i]] = kv[i+1:]
		}
	}
	if *out == "" || flag.NArg() == 0 {
		fmt.Fprintln(os.Stderr, "usage: osrewrite -out dir [-base overlay.json] pkgdir...")
		os.Exit(2)
	}
	base := overlay{Replace: map[string]string{}}
	if *basePath != "" {
		b, err := os.ReadFile(*basePath)
		if err != nil {
			panic(err)
		}
		if err := json.Unmarshal(b, &base); err != nil {
			panic(err)
		}
	}
	res := overlay{Replace: map[string]string{}}
	for k, v := range base.Replace {
		res.Replace[k] = v
	}
	_ = os.RemoveAll(*out)
	if err := os.MkdirAll(*out, 0o755); err != nil {
		panic(err)
	}
	n := 0
	for _, dir := range flag.Args() {
		// files on disk plus files the base overlay adds to this directory
		srcs := map[string]string{} // logical path -> file to read
		matches, _ := filepath.Glob(filepath.Join(dir, "*.go"))
		for _, m := range matches {
			srcs[m] = m
		}
		for k, v := range base.Replace {
			if filepath.Dir(k) == filepath.Clean(dir) && strings.HasSuffix(k, ".go") {
				if v == "" {
					delete(srcs, k)
				} else {
					srcs[k] = v
				}
			}
		}
		for logical, actual := range srcs {
			if strings.HasSuffix(logical, "_test.go") {
				continue
			}
			fset := token.NewFileSet()
			af, err := parser.ParseFile(fset, actual, nil, parser.ParseComments)
			if err != nil {
				fmt.Fprintf(os.Stderr, "osrewrite: %v\n", err)
				os.Exit(1)
			}
			changed := false
			for _, imp := range af.Imports {
				p, _ := strconv.Unquote(imp.Path.Value)
				if to, ok := shims[p]; ok {
					imp.Path.Value = strconv.Quote(to)
					if imp.Name == nil {
						imp.Name = ast.NewIdent(p[strings.LastIndex(p, "/")+1:])
					}
					changed = true
				}
			}
			if !changed {
				continue
			}
			n++
			dst := filepath.Join(*out, fmt.Sprintf("%03d_%s", n, filepath.Base(logical)))
			f, err := os.Create(dst)
			if err != nil {
				panic(err)
			}
			if err := printer.Fprint(f, fset, af); err != nil {
				panic(err)
			}
			f.Close()
			res.Replace[logical] = dst
		}
	}
	b, _ := json.MarshalIndent(res, "", " ")
	of := filepath.Join(*out, "overlay.json")
	if err := os.WriteFile(of, b, 0o644); err != nil {
		panic(err)
	}
	fmt.Println(of)
}
