// C02 — the verification level alone decides which failed validations reject.
//
// E3: the decision table (enforcement map x trust x identity x expiry x
// certificate time x revocation answer x plugin situation x critical
// attributes x timestamping configuration of the statement x format), enumerated by number of deviations from the all-valid
// cell (quick: <=3, thorough: full product), every cell run through the real
// verifier with scripted collaborators and compared with the reference
// decision function of DESIGN.md appendix A.1; plus the monotonicity relation
// over the observed verdicts.
package main

import (
	"context"
	"crypto/x509"
	"encoding/json"
	"errors"
	"fmt"
	"sort"
	"strings"
	"sync"
	"time"

	"github.com/notaryproject/notation-core-go/revocation/result"
	"github.com/notaryproject/notation-go"
	"github.com/notaryproject/notation-go/verifier"
	"github.com/notaryproject/notation-go/verifier/trustpolicy"
	"github.com/notaryproject/notation-go/zzverif/lib/forge"
	"github.com/notaryproject/notation-go/zzverif/lib/hx"
	"github.com/notaryproject/notation-go/zzverif/lib/mocks"
	"github.com/notaryproject/notation-go/zzverif/lib/pki"
	"github.com/notaryproject/notation-go/zzverif/lib/vt"
	fw "github.com/notaryproject/notation-plugin-framework-go/plugin"
	"github.com/opencontainers/go-digest"
	ocispec "github.com/opencontainers/image-spec/specs-go/v1"
)

const (
	TI  = fw.CapabilityTrustedIdentityVerifier
	REV = fw.CapabilityRevocationCheckVerifier
)

var (
	tAuth = trustpolicy.TypeAuthenticity
	tExp  = trustpolicy.TypeExpiry
	tTS   = trustpolicy.TypeAuthenticTimestamp
	tRev  = trustpolicy.TypeRevocation
	tInt  = trustpolicy.TypeIntegrity
)

// ---- plugin situations ----

type plugSit struct {
	Label      string
	Demanded   bool
	MinVer     string
	ManagerNil bool
	Installed  bool
	Version    string
	Caps       []fw.Capability
	ExecErr    bool
	Verdict    map[fw.Capability]string
}

func plugSituations() []plugSit {
	out := []plugSit{{Label: "none"}}
	out = append(out,
		plugSit{Label: "manager-nil", Demanded: true, ManagerNil: true},
		plugSit{Label: "not-installed", Demanded: true},
		plugSit{Label: "too-old", Demanded: true, Installed: true, MinVer: "1.2.0", Version: "1.1.0", Caps: []fw.Capability{TI, REV}},
		plugSit{Label: "too-old-prerelease", Demanded: true, Installed: true, MinVer: "1.2.0", Version: "1.2.0-rc.1", Caps: []fw.Capability{TI}},
		plugSit{Label: "no-verifier-capability", Demanded: true, Installed: true, Version: "1.0.0", Caps: []fw.Capability{fw.CapabilitySignatureGenerator}},
		plugSit{Label: "no-capability-at-all", Demanded: true, Installed: true, Version: "1.0.0", Caps: []fw.Capability{}},
		plugSit{Label: "exec-error/TI+REV", Demanded: true, Installed: true, Version: "1.0.0", Caps: []fw.Capability{TI, REV}, ExecErr: true},
	)
	verd := []string{"success", "failure", "missing"}
	for _, v := range verd {
		out = append(out, plugSit{Label: "TI/" + v, Demanded: true, Installed: true, Version: "1.0.0", Caps: []fw.Capability{TI}, Verdict: map[fw.Capability]string{TI: v}})
	}
	for _, v := range verd {
		// also exercises min version == version and extra non-verifier capabilities
		out = append(out, plugSit{Label: "REV/" + v, Demanded: true, Installed: true, MinVer: "1.2.0", Version: "1.2.0", Caps: []fw.Capability{fw.CapabilityEnvelopeGenerator, REV}, Verdict: map[fw.Capability]string{REV: v}})
	}
	for _, order := range [][]fw.Capability{{TI, REV}, {REV, TI}} {
		for _, a := range verd {
			for _, b := range verd {
				out = append(out, plugSit{Label: fmt.Sprintf("%s+%s/%s,%s", short(order[0]), short(order[1]), a, b), Demanded: true, Installed: true, MinVer: "1.0.0", Version: "2.0.0",
					Caps: order, Verdict: map[fw.Capability]string{order[0]: a, order[1]: b}})
			}
		}
	}
	return out
}

func short(c fw.Capability) string {
	if c == TI {
		return "TI"
	}
	return "REV"
}

// ---- dimensions ----

var (
	trustNames = []string{"anchor-found", "anchor-not-in-store", "store-load-error", "two-stores:anchor-found+load-error", "two-stores:load-error+anchor-found", "only-a-store-of-the-other-type-listed(holding-the-anchor)", "store-loads-but-is-empty"}
	identNames = []string{"wildcard", "pinned-match", "pinned-mismatch"}
	expNames   = []string{"no-expiry", "expiry-future", "expiry-past"}
	// certificate time, both sides of the window. notary.x509 (no timestamp): the leaf is expired / not yet valid at
	// verification time; signingAuthority: the signed time lies before / after the leaf's validity.
	ctimeNames = []string{"chain-valid-now", "leaf-expired", "leaf-not-yet-valid"}
	// revocation answers per certificate (leaf, intermediate, root): the position of the certificate that is not OK
	// varies (first / middle / last), alone and together with a differently failing one, and a non-revokable root
	revNames = []string{"rev-ok", "rev-one-revoked", "rev-one-unknown", "rev-validator-error",
		"rev-intermediate-unknown(leaf-ok,root-non-revokable)", "rev-root-unknown(others-ok)", "rev-leaf-revoked(others-ok)", "rev-leaf-unknown-and-root-revoked"}
	// how the statement is configured for timestamping; the signatures carry no timestamp, and in all three shapes the
	// certificate-time dimension alone decides the authentic-timestamp validation (no tsa store: nothing to verify
	// against; afterCertExpiry: a timestamp is only looked for once a certificate has expired - and then there is none)
	tspolNames = []string{"no-tsa-store", "tsa-store-listed-and-verifyTimestamp-afterCertExpiry", "no-tsa-store-but-verifyTimestamp-afterCertExpiry"}
	critNames  = []string{"crit-none", "crit-processed-by-plugin", "crit-unprocessed", "crit-integer-label"}
)

type cell struct {
	Scheme int `json:"scheme"` // 0 notary.x509, 1 notary.x509.signingAuthority (not a deviation)
	Format int `json:"format"`
	Trust  int `json:"trust"`
	Ident  int `json:"ident"`
	Exp    int `json:"exp"`
	CTime  int `json:"ctime"`
	Rev    int `json:"rev"`
	Plug   int `json:"plug"`
	Crit   int `json:"crit"`
	TSPol  int `json:"tspol"`
	// Prior 1: the same verifier instance (same collaborators) verified the all-valid signature of the same
	// scheme and format immediately before; the judged verification must behave as on a fresh verifier.
	// Prior 2: the same verifier instance first verified a signature with the same plugin / critical attributes
	// while every collaborator gave its GOOD answer (anchor present, revocation OK, plugin installed in a recent
	// version, success verdicts, attributes processed); then the collaborators switch to the cell's answers
	// (store emptied or broken, certificate revoked, plugin downgraded / uninstalled / failing). Each
	// verification must reflect what the collaborators answer to IT.
	// Prior 3: the verifier also carries a BLOB policy whose statement has the same name "p" but the laxest level
	// (audit, everything logged, revocation skipped); the same instance first verifies the signature as a blob
	// signature under that statement, then the judged OCI verification must use the OCI statement's level.
	// Prior 4 (the other direction): the same verifier instance first verifies the cell's own signature under the
	// cell's (failing) answers; then the collaborators switch to their GOOD answers (anchor in every listed store of
	// the type, revocation OK) and the judged signature is the one without expiry / certificate-time deviation. The
	// judged verification must behave as decide() says for that repaired cell: nothing a failed call leaves behind
	// (a remembered rejection, a sticky error, a half-filled result) may change it.
	Prior int `json:"prior"`
}

func (c cell) String(ps []plugSit) string {
	return fmt.Sprintf("%s %s %s %s %s %s %s plugin=%s %s %s", []string{"x509", "signingAuthority"}[c.Scheme], []string{"jws", "cose"}[c.Format], trustNames[c.Trust], identNames[c.Ident], expNames[c.Exp], ctimeNames[c.CTime], revNames[c.Rev], ps[c.Plug].Label, critNames[c.Crit], tspolNames[c.TSPol])
}

// ---- world ----

type world struct {
	good, expired, future, other *pki.Chain
	desc                 ocispec.Descriptor
	envs                 sync.Map
	sits                 []plugSit
	signTime             time.Time
}

func newWorld() *world {
	now := time.Now()
	w := &world{sits: plugSituations(), signTime: now.Add(-48 * time.Hour)}
	w.good = pki.NewChain(pki.ChainOpts{Len: 3, Prefix: "good"})
	w.expired = pki.NewChain(pki.ChainOpts{Len: 3, Prefix: "good", LeafIdx: 2, ReuseCAs: w.good.Certs[1:], Leaf: &pki.Tmpl{Subject: pki.Name("good leaf"), NotBefore: now.Add(-30 * 24 * time.Hour), NotAfter: now.Add(-24 * time.Hour)}})
	// same subject, issuer and key as the expired leaf; only the window differs
	w.future = pki.NewChain(pki.ChainOpts{Len: 3, Prefix: "good", LeafIdx: 2, ReuseCAs: w.good.Certs[1:], Leaf: &pki.Tmpl{Subject: pki.Name("good leaf"), NotBefore: now.Add(24 * time.Hour), NotAfter: now.Add(300 * 24 * time.Hour)}})
	w.other = pki.NewChain(pki.ChainOpts{Len: 2, Prefix: "other", CAIdx: 3, LeafIdx: 3})
	w.desc = ocispec.Descriptor{MediaType: "application/vnd.oci.image.manifest.v1+json", Digest: digest.FromString("c02"), Size: 3}
	return w
}

type envKey struct {
	scheme, format, exp, ctime, crit int
	demanded                         bool
	minver                           string
}

func (w *world) envelope(c cell) []byte {
	s := w.sits[c.Plug]
	k := envKey{c.Scheme, c.Format, c.Exp, c.CTime, c.Crit, s.Demanded, s.MinVer}
	if b, ok := w.envs.Load(k); ok {
		return b.([]byte)
	}
	ch := w.good
	signTime := w.signTime
	switch {
	case c.CTime == 1 && c.Scheme == 0:
		ch = w.expired // notary.x509 without timestamp: the chain must be valid at verification time
	case c.CTime == 1:
		signTime = time.Now().Add(-60 * 24 * time.Hour) // signing authority: the signed time lies before the leaf's validity
	case c.CTime == 2 && c.Scheme == 0:
		ch = w.future // the leaf becomes valid tomorrow
	case c.CTime == 2:
		ch, signTime = w.expired, time.Now().Add(-12*time.Hour) // signing authority: signed after the leaf's validity ended
	}
	sp := forge.Spec{Format: forge.Formats[c.Format], Chain: ch.X509(), Key: ch.Leaf().Key, Payload: forge.PayloadFor(w.desc), SigningTime: signTime, Scheme: []string{forge.SchemeX509, forge.SchemeSA}[c.Scheme]}
	switch c.Exp {
	case 1:
		sp.Expiry = time.Now().Add(24 * time.Hour)
	case 2:
		sp.Expiry = time.Now().Add(-2 * time.Hour)
	}
	if s.Demanded {
		sp.Ext = append(sp.Ext, forge.Attr{Key: forge.HdrPlugin, Critical: true, Value: "p"})
		if s.MinVer != "" {
			sp.Ext = append(sp.Ext, forge.Attr{Key: forge.HdrPluginMinVer, Critical: true, Value: s.MinVer})
		}
	}
	switch c.Crit {
	case 1, 2:
		sp.Ext = append(sp.Ext, forge.Attr{Key: "com.example.policy", Critical: true, Value: "must-understand"})
	case 3:
		sp.Ext = append(sp.Ext, forge.Attr{Key: int64(-70001), Critical: true, Value: "must-understand"})
	}
	b := forge.Build(sp)
	w.envs.Store(k, b)
	return b
}

// ---- reference decision function (DESIGN.md A.1), written from the statement ----

type verdict struct {
	Accept     bool
	Why        string
	Failed     map[vt.T]bool
	RevDone    bool // a revocation result must be reported (on accept)
	NativeRev  bool // the native validator is consulted (exactly once on accept; never otherwise... at most once on reject)
	Ask        []fw.Capability
	PluginRuns bool
	KnownClass string // non-empty: rejection that rests only on this clause (for known-finding keys)
	// RevForbidden: the statement FORBIDS the native revocation check - the level skips revocation, or a usable plugin
	// declares the revocation capability (which replaces the native check). Independent of where the reference
	// decision stops: a verifier that evaluates further validations after an enforced failure is not wrong.
	RevForbidden string
}

func decide(m map[vt.T]vt.A, c cell, s plugSit) verdict {
	v := verdict{Failed: map[vt.T]bool{}}
	reject := func(why string) verdict { v.Accept = false; v.Why = why; return v }
	if s.Demanded {
		switch {
		case s.ManagerNil:
			return reject("plugin demanded, no plugin manager")
		case !s.Installed:
			return reject("plugin demanded, not installed")
		}
		if s.MinVer != "" && semverLess(s.Version, s.MinVer) {
			return reject("plugin too old")
		}
	}
	caps := map[fw.Capability]bool{}
	if s.Demanded {
		for _, cp := range s.Caps {
			if cp == TI || cp == REV {
				caps[cp] = true
			}
		}
		if len(caps) == 0 {
			return reject("plugin lacks verification capabilities")
		}
	}
	switch {
	case m[tRev] == "skip":
		v.RevForbidden = "revocation is skipped by the level"
	case caps[REV]:
		v.RevForbidden = "the plugin owns revocation"
	}
	fail := func(t vt.T) bool {
		v.Failed[t] = true
		return m[t] == "enforce"
	}
	if c.Trust != 0 {
		if fail(tAuth) {
			return reject("authenticity enforced, no trust anchor")
		}
	}
	if !caps[TI] && c.Ident == 2 {
		if fail(tAuth) {
			return reject("authenticity enforced, identity mismatch")
		}
	}
	if c.Exp == 2 {
		if fail(tExp) {
			return reject("expiry enforced, expired")
		}
	}
	if c.CTime != 0 { // either side of the window; independent of how the statement is configured for timestamping (see tspolNames)
		if fail(tTS) {
			return reject("authentic timestamp enforced, " + ctimeNames[c.CTime])
		}
	}
	if m[tRev] != "skip" && !caps[REV] {
		v.NativeRev = true
		v.RevDone = true
		if c.Rev != 0 {
			if fail(tRev) {
				return reject("revocation enforced, native check failed")
			}
		}
	}
	for _, cp := range s.Caps {
		if (cp == TI || cp == REV) && !(cp == REV && m[tRev] == "skip") {
			v.Ask = append(v.Ask, cp)
		}
	}
	if s.Demanded && len(v.Ask) > 0 {
		v.PluginRuns = true
		if s.ExecErr {
			return reject("plugin execution error")
		}
		if c.Crit == 2 {
			return reject("critical attribute left unprocessed by the plugin")
		}
		if c.Crit == 3 {
			return reject("critical attribute with integer label cannot be processed")
		}
		for _, cp := range v.Ask {
			if s.Verdict[cp] == "missing" {
				return reject("plugin omitted a verdict")
			}
		}
		for _, cp := range v.Ask {
			if cp == REV {
				v.RevDone = true
			}
			if s.Verdict[cp] == "failure" {
				t := tAuth
				if cp == REV {
					t = tRev
				}
				if fail(t) {
					return reject("enforced, plugin verdict failure")
				}
			}
		}
	} else if c.Crit != 0 {
		// nothing processed the critical attribute
		v.Accept = false
		v.Why = "critical attribute that nothing processes"
		// F-02b (KNOWN_FINDINGS.txt) is about attributes the named plugin WOULD have been handed had it been executed
		// (string keys). An attribute that can not be handed to any plugin (integer label) is refused by the tree in
		// this situation as well, so it keeps the plain key and is judged.
		if s.Demanded && c.Crit != 3 {
			v.KnownClass = "plugin-named-but-not-executed"
		}
		return v
	}
	v.Accept = true
	return v
}

// semver precedence for the few versions of the alphabet, hand-ordered
var verOrder = map[string]int{"1.0.0": 10, "1.1.0": 20, "1.2.0-rc.1": 29, "1.2.0": 30, "2.0.0": 40}

func semverLess(a, b string) bool { return verOrder[a] < verOrder[b] }

// ---- running one cell under one level ----

var ctx = context.Background()

type observation struct {
	Accept bool
	Err    string
	Viol   []string // violation keys with text "key :: what"
	Rec    []string // observations the statement leaves open: recorded in the evidence, never judged
}

func revResults(kind int) ([]result.Result, error) {
	switch kind {
	case 1:
		return []result.Result{result.ResultOK, result.ResultRevoked, result.ResultOK}, nil
	case 2:
		return []result.Result{result.ResultUnknown, result.ResultOK, result.ResultOK}, nil
	case 3:
		return nil, errors.New("mock: validator failed")
	case 4:
		return []result.Result{result.ResultOK, result.ResultUnknown, result.ResultNonRevokable}, nil
	case 5:
		return []result.Result{result.ResultOK, result.ResultOK, result.ResultUnknown}, nil
	case 6:
		return []result.Result{result.ResultRevoked, result.ResultOK, result.ResultOK}, nil
	case 7:
		return []result.Result{result.ResultUnknown, result.ResultOK, result.ResultRevoked}, nil
	}
	return []result.Result{result.ResultOK, result.ResultOK, result.ResultOK}, nil
}

func (w *world) run(lv vt.Level, c cell) observation {
	s := w.sits[c.Plug]
	ts := mocks.NewTrustStore()
	storeType := []string{"ca", "signingAuthority"}[c.Scheme]
	listed := []string{storeType + ":s"}
	switch c.Trust {
	case 0:
		ts.Put(storeType, "s", w.good.Root().Cert)
	case 1:
		ts.Put(storeType, "s", w.other.Root().Cert)
	case 2:
		ts.Errs[storeType+":s"] = errors.New("mock: store cannot be loaded")
	case 3, 4: // the statement lists two stores of the required type: one holds the anchor, the other cannot be loaded
		ts.Put(storeType, "s", w.good.Root().Cert)
		ts.Errs[storeType+":broken"] = errors.New("mock: store cannot be loaded")
		listed = []string{storeType + ":s", storeType + ":broken"}
		if c.Trust == 4 {
			listed = []string{storeType + ":broken", storeType + ":s"}
		}
	case 5: // no store of the type the scheme requires: the statement lists a store of the other type, which even holds the anchor
		otherType := []string{"signingAuthority", "ca"}[c.Scheme]
		ts.Put(otherType, "s", w.good.Root().Cert)
		listed = []string{otherType + ":s"}
	case 6: // the listed store loads without error and holds nothing
		ts.Empty[storeType+":s"] = true
	}
	ids := []string{"*"}
	switch c.Ident {
	case 1:
		ids = []string{"x509.subject:C=US,ST=WA,O=Other", "x509.subject:O=Verif,C=US,ST=WA"}
	case 2:
		ids = []string{"x509.subject:C=US,ST=WA,O=Other", "x509.subject:C=US,ST=WA,O=Verif,CN=somebody else"}
	}
	rv := mocks.Fixed(revResults(c.Rev))
	sv := lv.SV()
	switch c.TSPol {
	case 1:
		listed = append(listed, "tsa:t")
		ts.Put("tsa", "t", w.other.Root().Cert)
		sv.VerifyTimestamp = trustpolicy.OptionAfterCertExpiry
	case 2:
		sv.VerifyTimestamp = trustpolicy.OptionAfterCertExpiry
	}
	opts := verifier.VerifierOptions{OCITrustPolicy: vt.OCIDoc(sv, listed, ids), RevocationCodeSigningValidator: rv}
	var plug *mocks.VerifyPlugin
	var mgr *mocks.Manager
	if !s.ManagerNil {
		mgr = mocks.NewManager()
		if s.Installed {
			plug = &mocks.VerifyPlugin{Name: "p", Version: s.Version, Capabilities: s.Caps, Verdicts: s.Verdict, ProcessAll: c.Crit == 1}
			if s.ExecErr {
				plug.VerifyErr = errors.New("mock: plugin crashed")
			}
			mgr.Plugins["p"] = plug
		}
		opts.PluginManager = mgr
	}
	if c.Prior == 3 {
		lax := trustpolicy.SignatureVerification{VerificationLevel: "audit", Override: map[trustpolicy.ValidationType]trustpolicy.ValidationAction{trustpolicy.TypeRevocation: trustpolicy.ActionSkip}}
		if lv.Map[tAuth] == "log" && lv.Map[tExp] == "log" && lv.Map[tTS] == "log" && lv.Map[tRev] != "enforce" {
			lax = trustpolicy.SignatureVerification{VerificationLevel: "strict"} // the OCI level is lax already: use the strictest for the blob statement
		}
		opts.BlobTrustPolicy = vt.BlobDoc(lax, listed, ids)
	}
	var obs observation
	v, err := verifier.NewVerifierWithOptions(ts, opts)
	if err != nil {
		obs.Viol = append(obs.Viol, "infra/verifier-construction :: "+err.Error())
		return obs
	}
	if c.Prior == 1 {
		_, _ = v.Verify(ctx, w.desc, w.envelope(cell{Scheme: c.Scheme, Format: c.Format}), notation.VerifierVerifyOptions{ArtifactReference: "reg.io/r@" + w.desc.Digest.String(), SignatureMediaType: forge.Formats[c.Format]})
		rv.Calls = nil
		if plug != nil {
			plug.VerifyCalls, plug.MetadataCalls = nil, 0
		}
	}
	if c.Prior == 3 {
		gen := func(alg digest.Algorithm) (ocispec.Descriptor, error) { return w.desc, nil }
		_, _ = v.VerifyBlob(ctx, gen, w.envelope(c), notation.BlobVerifierVerifyOptions{SignatureMediaType: forge.Formats[c.Format], TrustPolicyName: "p"})
		ts.Calls, rv.Calls = nil, nil
		if plug != nil {
			plug.VerifyCalls, plug.MetadataCalls = nil, 0
		}
	}
	if c.Prior == 2 {
		// phase 1: good answers everywhere
		savedStores, savedErrs, savedRes := ts.Stores, ts.Errs, rv.Results
		ts.Stores = map[string][]*x509.Certificate{storeType + ":s": {w.good.Root().Cert}, storeType + ":broken": {w.good.Root().Cert}, "tsa:t": {w.other.Root().Cert}}
		ts.Errs = map[string]error{}
		rv.Results = mocks.AllOK().Results
		var savedPlug mocks.VerifyPlugin
		var goodPlug *mocks.VerifyPlugin
		if mgr != nil && s.Demanded {
			caps := s.Caps
			if len(caps) == 0 || (len(caps) == 1 && caps[0] != TI && caps[0] != REV) {
				caps = []fw.Capability{TI, REV}
			}
			goodPlug = &mocks.VerifyPlugin{Name: "p", Version: "2.0.0", Capabilities: caps, ProcessAll: true}
			if plug != nil {
				savedPlug = mocks.VerifyPlugin{Version: plug.Version, Capabilities: plug.Capabilities, Verdicts: plug.Verdicts, ProcessAll: plug.ProcessAll, VerifyErr: plug.VerifyErr}
				plug.Version, plug.Capabilities, plug.Verdicts, plug.ProcessAll, plug.VerifyErr = goodPlug.Version, goodPlug.Capabilities, nil, true, nil
			} else {
				mgr.Plugins["p"] = goodPlug // installed now, uninstalled before the judged verification
			}
		}
		_, _ = v.Verify(ctx, w.desc, w.envelope(cell{Scheme: c.Scheme, Format: c.Format, Plug: c.Plug, Crit: c.Crit}), notation.VerifierVerifyOptions{ArtifactReference: "reg.io/r@" + w.desc.Digest.String(), SignatureMediaType: forge.Formats[c.Format]})
		// phase 2: the cell's answers
		ts.Stores, ts.Errs, rv.Results = savedStores, savedErrs, savedRes
		ts.Calls, rv.Calls = nil, nil
		if mgr != nil && s.Demanded {
			if plug != nil {
				plug.Version, plug.Capabilities, plug.Verdicts, plug.ProcessAll, plug.VerifyErr = savedPlug.Version, savedPlug.Capabilities, savedPlug.Verdicts, savedPlug.ProcessAll, savedPlug.VerifyErr
				plug.VerifyCalls, plug.MetadataCalls = nil, 0
			} else {
				delete(mgr.Plugins, "p")
			}
		}
	}
	if c.Prior == 4 {
		_, _ = v.Verify(ctx, w.desc, w.envelope(c), notation.VerifierVerifyOptions{ArtifactReference: "reg.io/r@" + w.desc.Digest.String(), SignatureMediaType: forge.Formats[c.Format]})
		jc := c
		jc.Exp, jc.CTime, jc.Rev = 0, 0, 0
		if c.Trust != 5 { // Trust 5 is a property of the statement (no store of the type listed): cannot be repaired behind the verifier
			jc.Trust = 0
			stores := map[string][]*x509.Certificate{}
			for k, v := range ts.Stores {
				stores[k] = v
			}
			stores[storeType+":s"] = []*x509.Certificate{w.good.Root().Cert}
			stores[storeType+":broken"] = []*x509.Certificate{w.good.Root().Cert}
			ts.Stores, ts.Errs, ts.Empty = stores, map[string]error{}, map[string]bool{}
		}
		rv.Results = mocks.AllOK().Results
		ts.Calls, rv.Calls = nil, nil
		if plug != nil {
			plug.VerifyCalls, plug.MetadataCalls = nil, 0
		}
		c = jc
		c.Prior = 4
	}
	outcome, verr := v.Verify(ctx, w.desc, w.envelope(c), notation.VerifierVerifyOptions{ArtifactReference: "reg.io/r@" + w.desc.Digest.String(), SignatureMediaType: forge.Formats[c.Format]})
	obs.Accept = verr == nil
	if verr != nil {
		obs.Err = verr.Error()
	}
	want := decide(lv.Map, c, s)
	bad := func(key, what string) {
		if c.Prior == 1 {
			key += ":after-earlier-verification-on-same-verifier"
		}
		if c.Prior == 2 {
			key += ":after-collaborators-changed-their-answers"
		}
		if c.Prior == 3 {
			key += ":after-blob-verification-under-equally-named-statement"
		}
		if c.Prior == 4 {
			key += ":after-a-failed-verification-and-repaired-collaborators"
		}
		obs.Viol = append(obs.Viol, key+" :: "+what)
	}
	// The statement fixes verdicts, the action of every reported result, that logged failures are reported, that a
	// skipped revocation is not performed and that a declared capability replaces the native check. It does not fix
	// how often a collaborator is asked, whether passed validations are listed, or whether a type is listed twice:
	// those observations are recorded only.
	rec := func(key string) { obs.Rec = append(obs.Rec, key) }

	// 1. the verdict
	if want.Accept && !obs.Accept {
		bad("verdict/rejected-instead-of-accepted:"+classify(c, s), fmt.Sprintf("model accepts, got error %q", obs.Err))
	}
	if !want.Accept && obs.Accept {
		k := "verdict/accepted-instead-of-rejected:" + strings.ReplaceAll(want.Why, " ", "-")
		if want.KnownClass != "" {
			k += "/" + want.KnownClass
		}
		bad(k, "model rejects ("+want.Why+"), verification succeeded")
	}
	if outcome == nil {
		bad("results/nil-outcome", "Verify returned a nil outcome after policy selection")
		return obs
	}
	// 2. every reported result carries the action of its type; no type twice
	seen := map[vt.T]int{}
	for _, r := range outcome.VerificationResults {
		if r == nil {
			bad("results/nil-result", "nil ValidationResult")
			continue
		}
		seen[r.Type]++
		if r.Action != lv.Map[r.Type] {
			bad("results/wrong-action:"+string(r.Type), fmt.Sprintf("result of type %s carries action %q, level assigns %q", r.Type, r.Action, lv.Map[r.Type]))
		}
		if seen[r.Type] > 1 {
			rec("results/type-reported-twice:" + string(r.Type))
		}
		// no spurious failure (holds on accept and reject)
		if r.Error != nil && !want.Failed[r.Type] && want.Accept {
			bad("results/spurious-failure:"+string(r.Type), fmt.Sprintf("type %s reported failed (%v) but the model says it passed", r.Type, r.Error))
		}
	}
	if obs.Accept && want.Accept {
		for _, t := range []vt.T{tInt, tAuth, tExp, tTS} {
			rs := vt.ResultOf(outcome, t)
			if len(rs) != 1 {
				rec(fmt.Sprintf("results/%d-results-of-type:%s", len(rs), t))
			}
			if want.Failed[t] && !anyFailed(rs) {
				// covers the missing result as well: a logged failure must show in the outcome
				bad("results/logged-failure-not-reported:"+string(t), fmt.Sprintf("validation failed with action log but none of the %d reported results of the type has an error", len(rs)))
			}
		}
		rs := vt.ResultOf(outcome, tRev)
		if want.RevDone && len(rs) != 1 {
			rec(fmt.Sprintf("results/%d-results-of-type:revocation", len(rs)))
		}
		if !want.RevDone && len(rs) != 0 {
			if anyFailed(rs) {
				bad("results/revocation-failure-reported-though-not-performed", fmt.Sprintf("%d revocation results, one with an error, though revocation is skipped or left to a plugin that was not asked", len(rs)))
			} else {
				rec("results/revocation-listed-though-not-performed")
			}
		}
		if want.RevDone && want.Failed[tRev] && !anyFailed(rs) {
			bad("results/logged-failure-not-reported:revocation", "revocation failed with action log but no reported revocation result has an error")
		}
		if outcome.Error != nil {
			bad("results/outcome-error-on-success", outcome.Error.Error())
		}
	}
	// 3. call logs
	nRev := len(rv.Calls)
	if want.RevForbidden != "" && nRev != 0 {
		bad("calls/native-revocation-performed-though-"+strings.ReplaceAll(want.RevForbidden, " ", "-"), fmt.Sprintf("%d validator calls", nRev))
	} else if !want.NativeRev && nRev != 0 {
		rec("calls/native-revocation-performed-after-the-verdict-was-already-a-rejection")
	}
	if want.NativeRev && obs.Accept && want.Accept && nRev == 0 {
		bad("calls/native-revocation-count", "accepted without a single validator call although the level requires native revocation checking")
	}
	if nRev > 1 {
		rec("calls/native-revocation-repeated")
	}
	if plug != nil {
		n := len(plug.VerifyCalls)
		if !want.PluginRuns && n != 0 {
			rec("calls/plugin-executed-though-nothing-to-ask")
		}
		if n > 1 {
			rec("calls/plugin-executed-repeatedly")
		}
		if obs.Accept && want.Accept && want.PluginRuns && n == 0 {
			bad("calls/plugin-not-executed", "accepted without asking the plugin")
		}
		for _, rq := range plug.VerifyCalls {
			if !want.PluginRuns {
				// nothing was to be asked: only the stated prohibition applies (a skipped revocation is not sent)
				for _, cp := range rq.TrustPolicy.SignatureVerification {
					if lv.Map[tRev] == "skip" && cp == REV {
						bad("calls/skipped-revocation-sent-to-plugin", "plugin asked for revocation although the level skips it")
					}
				}
				continue
			}
			got := map[fw.Capability]bool{}
			for _, cp := range rq.TrustPolicy.SignatureVerification {
				got[cp] = true
			}
			wantSet := map[fw.Capability]bool{}
			for _, cp := range want.Ask {
				wantSet[cp] = true
			}
			if lv.Map[tRev] == "skip" && got[REV] {
				bad("calls/skipped-revocation-sent-to-plugin", "plugin asked for revocation although the level skips it")
			}
			if len(got) != len(wantSet) || (wantSet[TI] != got[TI]) || (wantSet[REV] != got[REV]) {
				bad("calls/plugin-asked-for-wrong-capabilities", fmt.Sprintf("asked %v, want %v", rq.TrustPolicy.SignatureVerification, want.Ask))
			}
			if c.Crit == 1 || c.Crit == 2 {
				if _, ok := rq.Signature.CriticalAttributes.ExtendedAttributes["com.example.policy"]; !ok {
					bad("calls/critical-attribute-not-passed-to-plugin", "request lacks the critical extended attribute")
				}
			}
		}
	}
	return obs
}

func anyFailed(rs []*notation.ValidationResult) bool {
	for _, r := range rs {
		if r != nil && r.Error != nil {
			return true
		}
	}
	return false
}

func classify(c cell, s plugSit) string {
	var p []string
	if c.Trust != 0 {
		p = append(p, trustNames[c.Trust])
	}
	if c.Ident == 2 {
		p = append(p, identNames[2])
	}
	if c.Exp == 2 {
		p = append(p, expNames[2])
	}
	if c.CTime != 0 {
		p = append(p, ctimeNames[c.CTime])
	}
	if c.Rev != 0 {
		p = append(p, revNames[c.Rev])
	}
	if s.Demanded {
		p = append(p, "plugin="+s.Label)
	}
	if c.Crit != 0 {
		p = append(p, critNames[c.Crit])
	}
	if c.TSPol != 0 {
		p = append(p, tspolNames[c.TSPol])
	}
	if len(p) == 0 {
		return "all-valid"
	}
	return strings.Join(p, "+")
}

type replayCase struct {
	Cell  cell     `json:"cell"`
	Level vt.Level `json:"level"`
	Desc  string   `json:"description"`
}

func main() {
	r := hx.New("C02")
	r.Rule = "decision-table cells (trust x identity x expiry x certificate time x revocation answer x plugin situation x critical attribute x timestamping configuration of the statement x format) are enumerated by number of deviations from the all-valid cell, each under all 24 enforcement maps; every (cell, map) is one real verifier.Verify call; non-trivial = distinct (cell, map) pairs whose verdict needed at least one deviation (i.e. not the all-valid cell)"
	r.Assumptions = []string{"the collaborators (trust store, revocation validator, plugin manager, plugin) answer as scripted by lib/mocks", "reference decision function: DESIGN.md appendix A.1 (harness/c02 decide())", "semver order of the 5 plugin versions is hand-written"}
	w := newWorld()
	levels := vt.Levels24()
	if r.Thorough() {
		levels = vt.Levels() // all 72 (base, override) ways
	}

	if r.Replay != "" {
		var rc replayCase
		if err := r.LoadReplay(&rc); err != nil {
			r.Infra("replay: %v", err)
			r.Finish()
		}
		obs := w.run(rc.Level, rc.Cell)
		r.Eval(1)
		for _, v := range obs.Viol {
			kv := strings.SplitN(v, " :: ", 2)
			r.Violation(kv[0], kv[1], rc)
		}
		b, _ := json.Marshal(obs)
		fmt.Println("replay observation:", string(b))
		r.Finish()
	}

	sizes := []int{2, 2, len(trustNames), len(identNames), len(expNames), len(ctimeNames), len(revNames), len(w.sits), len(critNames), len(tspolNames)}
	maxDev := 2
	if r.Thorough() {
		maxDev = len(sizes)
	}
	if e := r.Thorough(); e {
		r.SetDeadline(25 * time.Minute)
	}
	// enumerate cells in order of number of deviations
	var cells []cell
	var rec func(i int, cur []int, dev int)
	rec = func(i int, cur []int, dev int) {
		if i == len(sizes) {
			c := cell{Scheme: cur[0], Format: cur[1], Trust: cur[2], Ident: cur[3], Exp: cur[4], CTime: cur[5], Rev: cur[6], Plug: cur[7], Crit: cur[8], TSPol: cur[9]}
			if c.Crit == 3 && c.Format == 0 {
				return // integer labels exist in COSE only
			}
			cells = append(cells, c)
			return
		}
		for v := 0; v < sizes[i]; v++ {
			d := dev
			if v != 0 && i > 1 { // scheme and format are not deviations
				d++
			}
			if d > maxDev {
				continue
			}
			rec(i+1, append(cur, v), d)
		}
	}
	rec(0, nil, 0)
	devOf := func(c cell) int {
		n := 0
		for _, v := range []int{c.Trust, c.Ident, c.Exp, c.CTime, c.Rev, c.Plug, c.Crit, c.TSPol} {
			if v != 0 {
				n++
			}
		}
		return n
	}
	// histories on one verifier instance: every cell with 1..2 deviations (thorough: 1..3) is also judged after the
	// all-valid signature was verified by the same instance
	priorMax := 2
	if r.Thorough() {
		priorMax = 3
	}
	for _, c := range append([]cell(nil), cells...) {
		if d := devOf(c); d >= 1 && d <= priorMax {
			c.Prior = 1
			cells = append(cells, c)
			c.Prior = 2
			cells = append(cells, c)
			if d <= 2 {
				c.Prior = 3
				cells = append(cells, c)
			}
			if c.Exp != 0 || c.CTime != 0 || c.Rev != 0 || (c.Trust != 0 && c.Trust != 5) {
				c.Prior = 4
				cells = append(cells, c)
			}
		}
	}
	sort.SliceStable(cells, func(i, j int) bool { return devOf(cells[i]) < devOf(cells[j]) })
	r.Extra["cells"] = len(cells)
	r.Extra["levels"] = len(levels)
	r.Extra["max_deviations"] = maxDev
	r.Extra["plugin_situations"] = len(w.sits)

	var controls, controlsOK int64
	var mu sync.Mutex
	completedDev := -1
	r.Parallel(len(cells), func(i int) {
		c := cells[i]
		if r.Expired() {
			r.Capped(fmt.Sprintf("deadline: cells in deviation order, stopped inside deviation level %d", devOf(c)))
			return
		}
		s := w.sits[c.Plug]
		accepts := make([]bool, len(levels))
		for li, lv := range levels {
			obs := w.run(lv, c)
			r.Eval(1)
			accepts[li] = obs.Accept
			for _, k := range obs.Rec {
				r.Outcome("recorded:" + k)
			}
			for _, v := range obs.Viol {
				kv := strings.SplitN(v, " :: ", 2)
				if strings.HasPrefix(kv[0], "infra/") {
					r.Infra("%s", v)
					continue
				}
				r.Violation(kv[0], kv[1]+" | cell: "+c.String(w.sits)+" | level: "+lv.String(), replayCase{c, lv, c.String(w.sits)})
			}
			if obs.Accept {
				r.Outcome("accepted")
			} else {
				r.Outcome("rejected:" + errClass(obs.Err))
			}
			if devOf(c) > 0 {
				r.Nontrivial(fmt.Sprintf("%v|%s|%s", c, lv.Base, lv.String()))
			} else {
				mu.Lock()
				controls++
				if obs.Accept {
					controlsOK++
				}
				mu.Unlock()
			}
			r.State(1)
		}
		// monotonicity over the observed verdicts: accepted under m' and m <= m' pointwise => accepted under m
		for a := range levels {
			if !accepts[a] {
				continue
			}
			for b := range levels {
				if !accepts[b] && vt.LE(levels[b].Map, levels[a].Map) {
					r.Violation("monotonicity/accepted-under-stricter-rejected-under-laxer", fmt.Sprintf("cell %s accepted under %v but rejected under %v", c.String(w.sits), levels[a], levels[b]), replayCase{c, levels[b], c.String(w.sits)})
				}
			}
		}
		mu.Lock()
		if d := devOf(c); d > completedDev {
			completedDev = d
		}
		mu.Unlock()
		if i%389 == 0 {
			r.Sample(map[string]any{"cell": c.String(w.sits), "plugin": s.Label, "levels": len(levels)})
		}
	}, nil)
	r.Extra["all_valid_controls"] = controls
	r.Extra["all_valid_controls_accepted"] = controlsOK
	if controlsOK == 0 {
		r.Infra("vacuous run: the all-valid cell was never accepted (%d controls)", controls)
	}
	r.Finish()
}

func errClass(e string) string {
	switch {
	case strings.Contains(e, "plugin"):
		return "plugin"
	case strings.Contains(e, "extended critical attribute"):
		return "critical-attribute"
	case strings.Contains(e, "revo"):
		return "revocation"
	case strings.Contains(e, "expired on"):
		return "expiry"
	case strings.Contains(e, "validity period"):
		return "authentic-timestamp"
	case strings.Contains(e, "trust") || strings.Contains(e, "authenticity") || strings.Contains(e, "identit") || strings.Contains(e, "store"):
		return "authenticity"
	}
	return "other"
}
