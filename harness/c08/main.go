// C08 — the policy statement applied is the one scoped to the artifact's repository.
//
// E3: all documents over the scope alphabet x all permutations x all references,
// against an exact-membership reference; E2: select/mutate/select histories for
// the private-copy clause; the same for blob documents.
package main

import (
	"context"
	"encoding/json"
	"errors"
	"fmt"
	"reflect"
	"sort"
	"strings"
	"time"

	"github.com/notaryproject/notation-go"
	"github.com/notaryproject/notation-go/verifier"
	"github.com/notaryproject/notation-go/verifier/trustpolicy"
	"github.com/notaryproject/notation-go/zzverif/lib/forge"
	"github.com/notaryproject/notation-go/zzverif/lib/hx"
	"github.com/notaryproject/notation-go/zzverif/lib/mocks"
	"github.com/notaryproject/notation-go/zzverif/lib/pki"
	"github.com/opencontainers/go-digest"
	ocispec "github.com/opencontainers/image-spec/specs-go/v1"
)

const dg = "sha256:9f86d081884c7d659a2feaa0c55ad015a3bf4f1b2b0b822cd15d6c15b0f00a08"

var scopesAll = []string{"reg.io/a", "reg.io/a/b", "reg.io/a/bc", "reg.io/a/b/c", "reg.io/ab", "reg.io:5000/a/b", "other.io/a/b"}

// ref is a reference with its hand-written label: the repository path it
// denotes ("" + valid=false when it must be refused as unparseable).
type ref struct {
	Ref   string
	Label string
	Path  string
	Valid bool
}

func refsFor(scopes []string) []ref {
	var rs []ref
	for _, s := range scopesAll { // all seven, also those not used by the document (unlisted)
		rs = append(rs, ref{s + "@" + dg, "listed-or-sibling:" + s, s, true})
	}
	rs = append(rs,
		ref{"reg.io/a/b/d@" + dg, "extension-of-listed", "reg.io/a/b/d", true},
		ref{"reg.io/a/b/c/d@" + dg, "extension-deep", "reg.io/a/b/c/d", true},
		ref{"reg.io/b@" + dg, "unlisted", "reg.io/b", true},
		ref{"REG.IO/a/b@" + dg, "case-domain", "REG.IO/a/b", true}, // domain grammar allows upper case; it is another string
		ref{"reg.io/A/b@" + dg, "case-repo", "", false},
		ref{"reg.io/a/b:tag", "tag-only", "", false},
		ref{"reg.io/a/b:tag@" + dg, "tag-and-digest", "", false},
		ref{"reg.io/a/b", "no-digest", "", false},
		ref{"@" + dg, "empty-path", "", false},
		ref{"reg.io@" + dg, "no-repository", "", false},
		ref{"reg.io/a/b@" + dg + "@" + dg, "double-at", "", false},
		ref{"reg.io/a/*@" + dg, "star-inside", "", false},
		ref{"*@" + dg, "star-path", "", false},
		ref{"", "empty", "", false},
		ref{"reg.io/a/b @" + dg, "trailing-blank", "", false},
		ref{"https://reg.io/a/b@" + dg, "scheme", "", false},
	)
	return rs
}

func stmt(name string, scopes []string) trustpolicy.OCITrustPolicy {
	return trustpolicy.OCITrustPolicy{
		Name:                  name,
		SignatureVerification: trustpolicy.SignatureVerification{VerificationLevel: "strict", Override: map[trustpolicy.ValidationType]trustpolicy.ValidationAction{trustpolicy.TypeRevocation: trustpolicy.ActionSkip}, VerifyTimestamp: trustpolicy.OptionAlways},
		TrustStores:           []string{"ca:" + name, "tsa:t"},
		TrustedIdentities:     []string{"x509.subject:C=US,ST=WA,O=" + name, "x509.subject:C=US,ST=CA,O=" + name},
		RegistryScopes:        scopes,
	}
}

func deepCopyDoc(d *trustpolicy.OCIDocument) *trustpolicy.OCIDocument {
	b, _ := json.Marshal(d)
	var c trustpolicy.OCIDocument
	_ = json.Unmarshal(b, &c)
	return &c
}

func permutations(n int) [][]int {
	var out [][]int
	var rec func(p []int, used []bool)
	rec = func(p []int, used []bool) {
		if len(p) == n {
			out = append(out, append([]int(nil), p...))
			return
		}
		for i := 0; i < n; i++ {
			if !used[i] {
				used[i] = true
				rec(append(p, i), used)
				used[i] = false
			}
		}
	}
	rec(nil, make([]bool, n))
	return out
}

type docSpec struct {
	Assign   []int `json:"assign"` // per scope: 0 none, k = ordinary statement k
	Wildcard bool  `json:"wildcard"`
	Perm     []int `json:"perm"`
}

func buildDoc(scopes []string, sp docSpec) (*trustpolicy.OCIDocument, map[string]string) {
	owner := map[string]string{} // scope -> statement name
	byStmt := map[int][]string{}
	maxk := 0
	for i, k := range sp.Assign {
		if k > 0 {
			byStmt[k] = append(byStmt[k], scopes[i])
			owner[scopes[i]] = fmt.Sprintf("s%d", k)
			if k > maxk {
				maxk = k
			}
		}
	}
	var sts []trustpolicy.OCITrustPolicy
	for k := 1; k <= maxk; k++ {
		sts = append(sts, stmt(fmt.Sprintf("s%d", k), byStmt[k]))
	}
	if sp.Wildcard {
		sts = append(sts, stmt("w", []string{"*"}))
	}
	doc := &trustpolicy.OCIDocument{Version: "1.0"}
	if sp.Perm == nil {
		doc.TrustPolicies = sts
	} else {
		for _, j := range sp.Perm {
			doc.TrustPolicies = append(doc.TrustPolicies, sts[j])
		}
	}
	return doc, owner
}

type ociCase struct {
	Kind   string   `json:"kind"`
	Scopes []string `json:"scopes"`
	Doc    docSpec  `json:"doc"`
	Ref    ref      `json:"ref"`
}

// checkSelect evaluates one (document, reference) pair; returns "" or a violation (key, text).
func checkSelect(doc *trustpolicy.OCIDocument, owner map[string]string, wildcard bool, r ref) (class, key, what string) {
	want := ""
	if r.Valid {
		if n, ok := owner[r.Path]; ok {
			want = n
		} else if wildcard {
			want = "w"
		}
	}
	got, err := doc.GetApplicableTrustPolicy(r.Ref)
	switch {
	case want == "" && err != nil:
		return "refused", "", ""
	case want == "" && err == nil:
		return "", "oci-select/accepted-instead-of-refused:" + r.Label, fmt.Sprintf("reference %q must have no applicable statement but %q was selected", r.Ref, got.Name)
	case err != nil:
		return "", "oci-select/refused-instead-of-selected:" + r.Label, fmt.Sprintf("reference %q must select %q but got error %v", r.Ref, want, err)
	case got == nil:
		return "", "oci-select/nil-result:" + r.Label, "nil statement without error"
	case got.Name != want:
		return "", "oci-select/wrong-statement:" + r.Label, fmt.Sprintf("reference %q must select %q, selected %q", r.Ref, want, got.Name)
	}
	// the statement handed out equals the statement of the document
	for i := range doc.TrustPolicies {
		if doc.TrustPolicies[i].Name == want {
			if !sameOCI(*got, doc.TrustPolicies[i]) {
				return "", "oci-select/copy-differs-from-statement:" + r.Label, fmt.Sprintf("selected statement %q differs from the document's: %+v vs %+v", want, *got, doc.TrustPolicies[i])
			}
		}
	}
	if want == "w" {
		return "wildcard", "", ""
	}
	return "exact", "", ""
}

// enumAmbiguous: selection is only well defined because validation guarantees that every scope (and the
// wildcard scope) belongs to one statement. Every document of the valid grammar is made ambiguous in every
// possible way - a scope of one statement copied into another one (adjacent or not), a second wildcard
// statement - and must then be refused by Validate and by the verifier constructor.
func enumAmbiguous(r *hx.Run) {
	scopes := scopesAll[:5]
	var specs []docSpec
	var rec func(i int, a []int, maxk int)
	rec = func(i int, a []int, maxk int) {
		if i == len(scopes) {
			if maxk >= 1 {
				specs = append(specs, docSpec{Assign: append([]int(nil), a...), Wildcard: true}, docSpec{Assign: append([]int(nil), a...), Wildcard: false})
			}
			return
		}
		for k := 0; k <= maxk+1 && k <= 3; k++ {
			nm := maxk
			if k > maxk {
				nm = k
			}
			rec(i+1, append(a, k), nm)
		}
	}
	rec(0, nil, 0)
	n := 0
	for _, sp := range specs {
		base, _ := buildDoc(scopes, sp)
		if base.Validate() != nil {
			continue
		}
		var variants []*trustpolicy.OCIDocument
		for i := range base.TrustPolicies {
			for j := range base.TrustPolicies {
				if i == j {
					continue
				}
				src, dst := base.TrustPolicies[i], base.TrustPolicies[j]
				if src.RegistryScopes[0] == "*" {
					if dst.RegistryScopes[0] == "*" {
						continue
					}
					// a second wildcard statement in place of statement j
					d := deepCopyDoc(base)
					d.TrustPolicies[j].RegistryScopes = []string{"*"}
					variants = append(variants, d)
					continue
				}
				if dst.RegistryScopes[0] == "*" {
					continue // a wildcard scope must stand alone: another rule
				}
				d := deepCopyDoc(base)
				d.TrustPolicies[j].RegistryScopes = append(append([]string(nil), dst.RegistryScopes...), src.RegistryScopes[0])
				variants = append(variants, d)
			}
		}
		for _, d := range variants {
			n++
			r.Eval(1)
			b, _ := json.Marshal(d)
			if err := d.Validate(); err == nil {
				r.Violation("oci-ambiguous/document-with-a-scope-in-two-statements-accepted", "Validate accepted a document in which one scope (or the wildcard scope) belongs to two statements, selection is then order dependent: "+string(b), histCase{"oci-ambiguous", []string{string(b)}})
				continue
			}
			if _, err := verifier.NewVerifierWithOptions(mocks.NewTrustStore(), verifier.VerifierOptions{OCITrustPolicy: d}); err == nil {
				r.Violation("oci-ambiguous/verifier-constructed-with-ambiguous-document", string(b), histCase{"oci-ambiguous", []string{string(b)}})
				continue
			}
			r.Outcome("oci-ambiguous:refused")
			r.Nontrivial("amb|" + string(b))
		}
	}
	r.Extra["ambiguous_documents"] = n
}

func enumOCI(r *hx.Run) {
	scopes := scopesAll
	maxStmts := 3
	if !r.Thorough() {
		scopes = scopesAll[:5]
		maxStmts = 2
	}
	refs := refsFor(scopes)
	// enumerate canonical assignments
	var specs []docSpec
	n := len(scopes)
	var rec func(i int, a []int, maxk int)
	rec = func(i int, a []int, maxk int) {
		if i == n {
			for _, w := range []bool{false, true} {
				if maxk == 0 && !w {
					continue
				}
				specs = append(specs, docSpec{Assign: append([]int(nil), a...), Wildcard: w})
			}
			return
		}
		for k := 0; k <= maxk+1 && k <= maxStmts; k++ {
			nm := maxk
			if k > maxk {
				nm = k
			}
			rec(i+1, append(a, k), nm)
		}
	}
	rec(0, nil, 0)
	permCache := map[int][][]int{}
	for k := 1; k <= maxStmts+1; k++ {
		permCache[k] = permutations(k)
	}
	r.Extra["oci_documents"] = len(specs)
	r.Extra["oci_references"] = len(refs)
	r.Parallel(len(specs), func(i int) {
		sp := specs[i]
		base, owner := buildDoc(scopes, sp)
		if err := base.Validate(); err != nil {
			r.Outcome("generator-document-rejected-by-Validate(skipped; C09 judges)")
			return
		}
		r.State(1)
		nst := len(base.TrustPolicies)
		for _, perm := range permCache[nst] {
			sp.Perm = perm
			doc, _ := buildDoc(scopes, sp)
			pristine := deepCopyDoc(doc)
			for _, rf := range refs {
				class, key, what := checkSelect(doc, owner, sp.Wildcard, rf)
				r.Eval(1)
				if key != "" {
					r.Violation(key, what, ociCase{"oci", scopes, sp, rf})
					continue
				}
				r.Outcome("oci:" + class)
				if class != "refused" {
					r.Nontrivial(fmt.Sprintf("%v|%v|%s", sp.Assign, sp.Wildcard, rf.Label))
				}
			}
			if !reflect.DeepEqual(doc, pristine) {
				r.Violation("oci-select/document-changed-by-selection", "document differs after selections", ociCase{"oci", scopes, sp, ref{}})
			}
		}
		if i%97 == 0 {
			r.Sample(map[string]any{"scopes": scopes, "assign": sp.Assign, "wildcard": sp.Wildcard, "permutations": len(permCache[nst]), "references": len(refs)})
		}
	}, nil)
}

// ---- copy semantics (E2): histories of select / mutate ----

type mutation struct {
	Name string
	F    func(p *trustpolicy.OCITrustPolicy)
}

var ociMutations = []mutation{
	{"name", func(p *trustpolicy.OCITrustPolicy) { p.Name = "evil" }},
	{"stores[0]", func(p *trustpolicy.OCITrustPolicy) { p.TrustStores[0] = "ca:evil" }},
	{"stores-append", func(p *trustpolicy.OCITrustPolicy) { p.TrustStores = append(p.TrustStores[:1], "ca:evil2") }},
	{"identities[0]", func(p *trustpolicy.OCITrustPolicy) { p.TrustedIdentities[0] = "*" }},
	{"identities-append", func(p *trustpolicy.OCITrustPolicy) { p.TrustedIdentities = append(p.TrustedIdentities[:1], "*") }},
	{"scopes[0]", func(p *trustpolicy.OCITrustPolicy) { p.RegistryScopes[0] = "evil.io/x" }},
	{"scopes-append", func(p *trustpolicy.OCITrustPolicy) { p.RegistryScopes = append(p.RegistryScopes[:1], "evil.io/y") }},
	{"level", func(p *trustpolicy.OCITrustPolicy) { p.SignatureVerification.VerificationLevel = "skip" }},
	{"override-set", func(p *trustpolicy.OCITrustPolicy) {
		if p.SignatureVerification.Override != nil {
			p.SignatureVerification.Override[trustpolicy.TypeAuthenticity] = trustpolicy.ActionLog
		}
	}},
	{"override-change", func(p *trustpolicy.OCITrustPolicy) {
		if p.SignatureVerification.Override != nil {
			p.SignatureVerification.Override[trustpolicy.TypeRevocation] = trustpolicy.ActionLog
		}
	}},
	{"override-delete", func(p *trustpolicy.OCITrustPolicy) {
		delete(p.SignatureVerification.Override, trustpolicy.TypeRevocation)
	}},
	{"verifyTimestamp", func(p *trustpolicy.OCITrustPolicy) { p.SignatureVerification.VerifyTimestamp = "" }},
}

type histCase struct {
	Kind string   `json:"kind"`
	Ops  []string `json:"ops"`
}

// runOCIHistory replays ops ("sel:<ref index>" or "mut:<mutation index>") on a fresh
// document and returns a violation or the canonical state.
func ociHistoryDoc() (*trustpolicy.OCIDocument, []string) {
	doc := &trustpolicy.OCIDocument{Version: "1.0", TrustPolicies: []trustpolicy.OCITrustPolicy{
		stmt("s1", []string{"reg.io/a", "reg.io/a/b"}),
		stmt("s2", []string{"reg.io/ab"}),
		stmt("w", []string{"*"}),
	}}
	// one statement without override map (nil map must stay nil-equivalent)
	doc.TrustPolicies[1].SignatureVerification.Override = nil
	refs := []string{"reg.io/a@" + dg, "reg.io/a/b@" + dg, "reg.io/ab@" + dg, "reg.io/zzz@" + dg}
	return doc, refs
}

func runOCIHistory(ops []string) (key, what string) {
	doc, refs := ociHistoryDoc()
	pristine := deepCopyDoc(doc)
	var last *trustpolicy.OCITrustPolicy
	for step, op := range ops {
		var kind string
		var idx int
		fmt.Sscanf(strings.Replace(op, ":", " ", 1), "%s %d", &kind, &idx)
		switch kind {
		case "sel":
			p, err := doc.GetApplicableTrustPolicy(refs[idx])
			if err != nil {
				return "oci-copy/select-error-after-mutation", fmt.Sprintf("step %d %s: %v", step, op, err)
			}
			last = p
			want, _ := pristine.GetApplicableTrustPolicy(refs[idx])
			// compare against the pristine document's statement (through JSON, so nil/empty maps are equal)
			a, _ := json.Marshal(p)
			b, _ := json.Marshal(want)
			if string(a) != string(b) {
				return "oci-copy/later-selection-affected", fmt.Sprintf("step %d %s: selection %s differs from pristine %s", step, op, a, b)
			}
		case "mut":
			if last == nil {
				continue
			}
			ociMutations[idx].F(last)
		}
		a, _ := json.Marshal(doc)
		b, _ := json.Marshal(pristine)
		if string(a) != string(b) {
			return "oci-copy/document-changed-through-copy:" + ociMutationName(ops[:step+1]), fmt.Sprintf("after step %d (%s) the document differs from its pristine copy: %s", step, op, a)
		}
	}
	return "", ""
}

func ociMutationName(ops []string) string {
	// name of the last mutation applied (the stable class of the failing history)
	for i := len(ops) - 1; i >= 0; i-- {
		if strings.HasPrefix(ops[i], "mut:") {
			var idx int
			fmt.Sscanf(ops[i], "mut:%d", &idx)
			return ociMutations[idx].Name
		}
	}
	return "none"
}

func enumHistories(r *hx.Run) {
	_, refs := ociHistoryDoc()
	var alphabet []string
	for i := range refs {
		alphabet = append(alphabet, fmt.Sprintf("sel:%d", i))
	}
	for i := range ociMutations {
		alphabet = append(alphabet, fmt.Sprintf("mut:%d", i))
	}
	depth := 3
	if r.Thorough() {
		depth = 4
	}
	var hists [][]string
	var rec func(h []string)
	rec = func(h []string) {
		if len(h) > 0 {
			hists = append(hists, append([]string(nil), h...))
		}
		if len(h) == depth {
			return
		}
		for _, a := range alphabet {
			if len(h) == 0 && strings.HasPrefix(a, "mut") {
				continue // nothing selected yet
			}
			rec(append(h, a))
		}
	}
	rec(nil)
	r.Extra["oci_copy_histories"] = len(hists)
	r.Parallel(len(hists), func(i int) {
		h := hists[i]
		r.Eval(1)
		r.Transition(len(h))
		if key, what := runOCIHistory(h); key != "" {
			r.Violation(key, what, histCase{"oci-history", h})
			return
		}
		r.Outcome("oci-copy:ok")
		nm := 0
		for _, o := range h {
			if strings.HasPrefix(o, "mut") {
				nm++
			}
		}
		if nm > 0 && strings.HasPrefix(h[len(h)-1], "sel") {
			r.Nontrivial("hist|" + strings.Join(h, ","))
		}
		if i%5003 == 0 {
			r.Sample(map[string]any{"history": h})
		}
	}, nil)
}

// ---- blob documents ----

func bstmt(name string, global bool) trustpolicy.BlobTrustPolicy {
	return trustpolicy.BlobTrustPolicy{
		Name:                  name,
		SignatureVerification: trustpolicy.SignatureVerification{VerificationLevel: "strict", Override: map[trustpolicy.ValidationType]trustpolicy.ValidationAction{trustpolicy.TypeRevocation: trustpolicy.ActionSkip}},
		TrustStores:           []string{"ca:" + strings.TrimSpace(name) + "x"},
		TrustedIdentities:     []string{"*"},
		GlobalPolicy:          global,
	}
}

type blobCase struct {
	Kind   string   `json:"kind"`
	Names  []string `json:"names"`
	Global int      `json:"global"`
	Req    string   `json:"req"`
	Ops    []string `json:"ops,omitempty"`
}

func enumBlob(r *hx.Run) {
	names := []string{"a", "A", "ab", "a ", "b"}
	reqs := []struct {
		s     string
		blank bool
	}{{"a", false}, {"A", false}, {"ab", false}, {"a ", false}, {"b", false}, {" a", false}, {"aa", false}, {"a\n", false}, {"", true}, {" ", true}, {"\t", true}}
	type spec struct {
		names  []string
		global int // index of the global statement or -1
	}
	var specs []spec
	maxN := 3
	// all ordered selections of 1..3 distinct names
	var rec func(cur []string)
	rec = func(cur []string) {
		if len(cur) > 0 {
			for g := -1; g < len(cur); g++ {
				specs = append(specs, spec{append([]string(nil), cur...), g})
			}
		}
		if len(cur) == maxN {
			return
		}
		for _, n := range names {
			dup := false
			for _, c := range cur {
				if c == n {
					dup = true
				}
			}
			if !dup {
				rec(append(cur, n))
			}
		}
	}
	rec(nil)
	r.Extra["blob_documents"] = len(specs)
	r.Parallel(len(specs), func(i int) {
		sp := specs[i]
		doc := &trustpolicy.BlobDocument{Version: "1.0"}
		for j, n := range sp.names {
			doc.TrustPolicies = append(doc.TrustPolicies, bstmt(n, j == sp.global))
		}
		if err := doc.Validate(); err != nil {
			r.Outcome("generator-document-rejected-by-Validate(skipped; C09 judges)")
			return
		}
		r.State(1)
		pb, _ := json.Marshal(doc)
		for _, q := range reqs {
			r.Eval(1)
			want := -1
			if !q.blank {
				for j, n := range sp.names {
					if n == q.s {
						want = j
					}
				}
			}
			got, err := doc.GetApplicableTrustPolicy(q.s)
			c := blobCase{"blob", sp.names, sp.global, q.s, nil}
			switch {
			case want < 0 && err == nil:
				r.Violation("blob-select/accepted-instead-of-refused", fmt.Sprintf("request %q selected %q from %q", q.s, got.Name, sp.names), c)
			case want >= 0 && err != nil:
				r.Violation("blob-select/refused-instead-of-selected", fmt.Sprintf("request %q refused: %v (names %q)", q.s, err, sp.names), c)
			case want >= 0 && (got == nil || !sameBlob(*got, doc.TrustPolicies[want])):
				r.Violation("blob-select/wrong-statement", fmt.Sprintf("request %q selected %+v, want statement %q", q.s, got, sp.names[want]), c)
			case want >= 0:
				r.Outcome("blob:exact")
				r.Nontrivial(fmt.Sprintf("blob|%q|%d|%q", sp.names, sp.global, q.s))
			default:
				r.Outcome("blob:refused")
			}
		}
		// global
		r.Eval(1)
		g, err := doc.GetGlobalTrustPolicy()
		c := blobCase{"blob-global", sp.names, sp.global, "", nil}
		switch {
		case sp.global < 0 && err == nil:
			r.Violation("blob-global/accepted-without-global", fmt.Sprintf("no global statement but %q returned", g.Name), c)
		case sp.global >= 0 && err != nil:
			r.Violation("blob-global/refused", err.Error(), c)
		case sp.global >= 0 && (g == nil || !sameBlob(*g, doc.TrustPolicies[sp.global])):
			r.Violation("blob-global/wrong-statement", fmt.Sprintf("got %+v", g), c)
		case sp.global >= 0:
			r.Outcome("blob:global")
			r.Nontrivial(fmt.Sprintf("blobglobal|%q|%d", sp.names, sp.global))
		default:
			r.Outcome("blob:no-global")
		}
		// private copy: mutate everything reachable from both results, then compare
		mutateBlob := func(p *trustpolicy.BlobTrustPolicy) {
			if p == nil {
				return
			}
			p.Name = "evil"
			p.TrustStores[0] = "ca:evil"
			p.TrustedIdentities[0] = "x509.subject:C=US,ST=WA,O=evil"
			p.GlobalPolicy = !p.GlobalPolicy
			p.SignatureVerification.VerificationLevel = "audit"
			if p.SignatureVerification.Override != nil {
				p.SignatureVerification.Override[trustpolicy.TypeRevocation] = trustpolicy.ActionLog
				p.SignatureVerification.Override[trustpolicy.TypeExpiry] = trustpolicy.ActionLog
			}
		}
		p1, _ := doc.GetApplicableTrustPolicy(sp.names[0])
		mutateBlob(p1)
		mutateBlob(g)
		r.Eval(1)
		pa, _ := json.Marshal(doc)
		if string(pa) != string(pb) {
			r.Violation("blob-copy/document-changed-through-copy", fmt.Sprintf("document after mutating handed-out statements: %s, before: %s", pa, pb), blobCase{"blob-copy", sp.names, sp.global, sp.names[0], nil})
		} else {
			r.Outcome("blob-copy:ok")
		}
		if i%53 == 0 {
			r.Sample(map[string]any{"blob_names": sp.names, "global_index": sp.global, "requests": len(reqs)})
		}
	}, nil)
}

// ---- end to end: the statement the verifier APPLIES is the one the reference selects ----
//
// Every statement lists its own store "ca:<statement name>"; the signer's root is in every store, so the
// store the verifier loads identifies the statement it applied. A refused reference must surface as
// ErrorNoApplicableTrustPolicy without any trust-store access.

type e2eWorld struct {
	chain *pki.Chain
	desc  ocispec.Descriptor
	envs  [2][]byte
}

func newE2E() *e2eWorld {
	w := &e2eWorld{chain: pki.NewChain(pki.ChainOpts{Len: 2, Prefix: "c08"})}
	d, _ := digest.Parse(dg)
	w.desc = ocispec.Descriptor{MediaType: "application/vnd.oci.image.manifest.v1+json", Digest: d, Size: 7}
	for f := 0; f < 2; f++ {
		w.envs[f] = forge.Build(forge.Spec{Format: forge.Formats[f], Chain: w.chain.X509(), Key: w.chain.Leaf().Key, Payload: forge.PayloadFor(w.desc), SigningTime: time.Now().Add(-time.Hour)})
	}
	return w
}

func (w *e2eWorld) store(names ...string) *mocks.TrustStore {
	ts := mocks.NewTrustStore()
	for _, n := range names {
		ts.Put("ca", n, w.chain.Root().Cert)
	}
	return ts
}

func enumE2E(r *hx.Run) {
	w := newE2E()
	scopes := scopesAll[:5]
	refs := refsFor(scopes)
	var specs []docSpec
	var rec func(i int, a []int, maxk int)
	rec = func(i int, a []int, maxk int) {
		if i == len(scopes) {
			for _, wc := range []bool{false, true} {
				if maxk == 0 && !wc {
					continue
				}
				specs = append(specs, docSpec{Assign: append([]int(nil), a...), Wildcard: wc})
			}
			return
		}
		for k := 0; k <= maxk+1 && k <= 2; k++ {
			nm := maxk
			if k > maxk {
				nm = k
			}
			rec(i+1, append(a, k), nm)
		}
	}
	rec(0, nil, 0)
	r.Extra["e2e_documents"] = len(specs)
	ctx := context.Background()
	r.Parallel(len(specs), func(i int) {
		sp := specs[i]
		doc, owner := buildDoc(scopes, sp)
		// reverse order for every other document: order must not matter end to end either
		if i%2 == 1 {
			for a, b := 0, len(doc.TrustPolicies)-1; a < b; a, b = a+1, b-1 {
				doc.TrustPolicies[a], doc.TrustPolicies[b] = doc.TrustPolicies[b], doc.TrustPolicies[a]
			}
		}
		for j := range doc.TrustPolicies {
			doc.TrustPolicies[j].TrustStores = []string{"ca:" + doc.TrustPolicies[j].Name} // no tsa store here
			doc.TrustPolicies[j].SignatureVerification = trustpolicy.SignatureVerification{VerificationLevel: "strict"}
			doc.TrustPolicies[j].TrustedIdentities = []string{"*"}
		}
		ts := w.store("s1", "s2", "s3", "w")
		v, err := verifier.NewVerifierWithOptions(ts, verifier.VerifierOptions{OCITrustPolicy: doc, RevocationCodeSigningValidator: mocks.AllOK()})
		if err != nil {
			r.Outcome("e2e:generator-document-rejected(skipped; C09 judges)")
			return
		}
		for k, rf := range refs {
			want := ""
			if rf.Valid {
				if n, ok := owner[rf.Path]; ok {
					want = n
				} else if sp.Wildcard {
					want = "w"
				}
			}
			ts.Calls = nil
			f := (i + k) % 2
			c := ociCase{"oci-e2e", scopes, sp, rf}
			// the other entry point that selects a statement: the skip decision notation.Verify asks for before it
			// lists any signature. No applicable statement is a refusal there as well (otherwise an artifact without
			// signatures is reported as "no signature" instead of "no applicable policy").
			if sk, ok := any(v).(interface {
				SkipVerify(context.Context, notation.VerifierVerifyOptions) (bool, *trustpolicy.VerificationLevel, error)
			}); ok {
				r.Eval(1)
				skip, lvl, serr := sk.SkipVerify(ctx, notation.VerifierVerifyOptions{ArtifactReference: rf.Ref, SignatureMediaType: forge.Formats[f]})
				var np notation.ErrorNoApplicableTrustPolicy
				switch {
				case want == "" && serr == nil:
					r.Violation("oci-e2e/skip-decision-made-without-applicable-statement:"+rf.Label, fmt.Sprintf("reference %q has no applicable statement but SkipVerify answered skip=%v level=%v without error", rf.Ref, skip, lvl), c)
				case want == "" && rf.Valid && !errors.As(serr, &np):
					r.Violation("oci-e2e/refusal-is-not-a-no-applicable-policy-error:"+rf.Label, fmt.Sprintf("SkipVerify(%q): %T %v", rf.Ref, serr, serr), c)
				case want != "" && serr != nil:
					r.Violation("oci-e2e/skip-decision-refused-although-a-statement-applies:"+rf.Label, fmt.Sprintf("SkipVerify(%q): %v", rf.Ref, serr), c)
				case want != "" && (skip || lvl == nil || lvl.Name != "strict"):
					r.Violation("oci-e2e/skip-decision-under-wrong-statement:"+rf.Label, fmt.Sprintf("SkipVerify(%q): skip=%v level=%v, the applicable statement %q is strict", rf.Ref, skip, lvl, want), c)
				default:
					r.Outcome("e2e:skip-decision-consistent")
				}
			}
			r.Eval(1)
			_, verr := v.Verify(ctx, w.desc, w.envs[f], notation.VerifierVerifyOptions{ArtifactReference: rf.Ref, SignatureMediaType: forge.Formats[f]})
			var loaded []string
			for _, cl := range ts.Calls {
				loaded = append(loaded, cl.Name)
			}
			if want == "" {
				var np notation.ErrorNoApplicableTrustPolicy
				switch {
				case verr == nil:
					r.Violation("oci-e2e/verified-instead-of-refused:"+rf.Label, fmt.Sprintf("reference %q has no applicable statement but verification succeeded (stores loaded %v)", rf.Ref, loaded), c)
				case len(loaded) > 0:
					r.Violation("oci-e2e/statement-applied-instead-of-refused:"+rf.Label, fmt.Sprintf("reference %q has no applicable statement but stores %v were loaded", rf.Ref, loaded), c)
				case rf.Valid && !errors.As(verr, &np):
					// a well-formed reference without applicable statement: the statement names the error;
					// for malformed references any refusal will do
					r.Violation("oci-e2e/refusal-is-not-a-no-applicable-policy-error:"+rf.Label, fmt.Sprintf("reference %q: %T %v", rf.Ref, verr, verr), c)
				default:
					r.Outcome("e2e:refused")
				}
				continue
			}
			switch {
			case !onlyStore(loaded, want):
				r.Violation("oci-e2e/wrong-statement-applied:"+rf.Label, fmt.Sprintf("reference %q must be verified under statement %q, stores loaded: %v (err=%v)", rf.Ref, want, loaded, verr), c)
			case verr != nil:
				// positive control, not part of the statement: the right statement was applied, something else failed
				r.Outcome("recorded:control/oci-e2e-verification-failed-under-right-statement")
			default:
				r.Outcome("e2e:verified-under-selected-statement")
				r.Nontrivial(fmt.Sprintf("e2e|%v|%v|%s", sp.Assign, sp.Wildcard, rf.Label))
			}
		}
	}, nil)
	// blob: named statement / global statement through verifier.VerifyBlob
	names := []string{"a", "A", "ab", "b"}
	for g := -1; g < len(names); g++ {
		doc := &trustpolicy.BlobDocument{Version: "1.0"}
		for j, n := range names {
			doc.TrustPolicies = append(doc.TrustPolicies, trustpolicy.BlobTrustPolicy{Name: n, SignatureVerification: trustpolicy.SignatureVerification{VerificationLevel: "strict"}, TrustStores: []string{"ca:st" + fmt.Sprint(j)}, TrustedIdentities: []string{"*"}, GlobalPolicy: j == g})
		}
		ts := w.store("st0", "st1", "st2", "st3")
		v, err := verifier.NewVerifierWithOptions(ts, verifier.VerifierOptions{BlobTrustPolicy: doc, RevocationCodeSigningValidator: mocks.AllOK()})
		if err != nil {
			r.Infra("blob e2e verifier: %v", err)
			continue
		}
		for _, q := range []string{"a", "A", "ab", "b", "aa", " a", "", " "} {
			want := -1
			for j, n := range names {
				if n == q {
					want = j
				}
			}
			if q == "" {
				want = g
			}
			ts.Calls = nil
			r.Eval(1)
			content := []byte("c08 blob")
			gen := func(alg digest.Algorithm) (ocispec.Descriptor, error) {
				return ocispec.Descriptor{MediaType: "application/octet-stream", Digest: alg.FromBytes(content), Size: int64(len(content))}, nil
			}
			_, verr := v.VerifyBlob(ctx, gen, w.envs[0], notation.BlobVerifierVerifyOptions{SignatureMediaType: forge.JWS, TrustPolicyName: q})
			var loaded []string
			for _, cl := range ts.Calls {
				loaded = append(loaded, cl.Name)
			}
			c := blobCase{"blob-e2e", names, g, q, nil}
			var np notation.ErrorNoApplicableTrustPolicy
			switch {
			case want < 0 && verr != nil && len(loaded) == 0 && !errors.As(verr, &np):
				r.Outcome("recorded:blob-e2e-refused-with-another-error-type")
			case want < 0 && (len(loaded) > 0 || verr == nil):
				r.Violation("blob-e2e/statement-applied-instead-of-refused", fmt.Sprintf("request %q global=%d: stores %v err=%v", q, g, loaded, verr), c)
			case want >= 0 && !onlyStore(loaded, "st"+fmt.Sprint(want)):
				r.Violation("blob-e2e/wrong-statement-applied", fmt.Sprintf("request %q global=%d must apply statement %q, stores loaded %v (err=%v)", q, g, names[want], loaded, verr), c)
			case want >= 0:
				r.Outcome("e2e-blob:applied-selected-statement")
				r.Nontrivial(fmt.Sprintf("e2eblob|%d|%q", g, q))
			default:
				r.Outcome("e2e-blob:refused")
			}
		}
	}
}

// onlyStore: the stores consulted are those of the wanted statement (asked at least once, however often).
func onlyStore(loaded []string, want string) bool {
	for _, l := range loaded {
		if l != want {
			return false
		}
	}
	return len(loaded) > 0
}

func sameStrings(a, b []string) bool { // nil and empty are the same list
	if len(a) != len(b) {
		return false
	}
	for i := range a {
		if a[i] != b[i] {
			return false
		}
	}
	return true
}

func sameSV(a, b trustpolicy.SignatureVerification) bool {
	if a.VerificationLevel != b.VerificationLevel || a.VerifyTimestamp != b.VerifyTimestamp || len(a.Override) != len(b.Override) {
		return false
	}
	for k, v := range a.Override {
		if w, ok := b.Override[k]; !ok || w != v {
			return false
		}
	}
	return true
}

// sameOCI / sameBlob: the handed-out statement says what the document's statement says (a nil and an empty list are
// the same list: how a copy represents "no element" is not part of the statement).
func sameOCI(a, b trustpolicy.OCITrustPolicy) bool {
	return a.Name == b.Name && sameStrings(a.RegistryScopes, b.RegistryScopes) && sameStrings(a.TrustStores, b.TrustStores) && sameStrings(a.TrustedIdentities, b.TrustedIdentities) && sameSV(a.SignatureVerification, b.SignatureVerification)
}

func sameBlob(a, b trustpolicy.BlobTrustPolicy) bool {
	return a.Name == b.Name && a.GlobalPolicy == b.GlobalPolicy && sameStrings(a.TrustStores, b.TrustStores) && sameStrings(a.TrustedIdentities, b.TrustedIdentities) && sameSV(a.SignatureVerification, b.SignatureVerification)
}

// enumAmbiguousBlob: "the single global statement" is only well defined because validation admits at most one.
// Every document of 2..5 statements in which two or more statements are global - adjacent or separated by plain
// ones, at every position - and every document with a repeated name must be refused by Validate and by the verifier
// constructor; an accepted one makes GetGlobalTrustPolicy / selection by name depend on statement order.
func enumAmbiguousBlob(r *hx.Run) {
	n := 0
	names := []string{"a", "b", "c", "d", "e"}
	for k := 2; k <= 5; k++ {
		for mask := 0; mask < 1<<k; mask++ {
			globals := 0
			for j := 0; j < k; j++ {
				if mask>>j&1 == 1 {
					globals++
				}
			}
			for dup := -1; dup < k-1; dup++ { // dup >= 0: the last statement repeats the name of statement dup
				if globals < 2 && dup < 0 {
					continue
				}
				doc := &trustpolicy.BlobDocument{Version: "1.0"}
				for j := 0; j < k; j++ {
					nm := names[j]
					if dup >= 0 && j == k-1 {
						nm = names[dup]
					}
					doc.TrustPolicies = append(doc.TrustPolicies, bstmt(nm, mask>>j&1 == 1))
				}
				n++
				r.Eval(1)
				b, _ := json.Marshal(doc)
				what := "two-or-more-global-statements"
				if globals < 2 {
					what = "repeated-statement-name"
				}
				if err := doc.Validate(); err == nil {
					r.Violation("blob-ambiguous/document-accepted:"+what, "Validate accepted a blob document whose global statement / named statement is not unique, selection is then order dependent: "+string(b), histCase{"blob-ambiguous", []string{string(b)}})
					continue
				}
				if _, err := verifier.NewVerifierWithOptions(mocks.NewTrustStore(), verifier.VerifierOptions{BlobTrustPolicy: doc}); err == nil {
					r.Violation("blob-ambiguous/verifier-constructed-with-ambiguous-document:"+what, string(b), histCase{"blob-ambiguous", []string{string(b)}})
					continue
				}
				r.Outcome("blob-ambiguous:refused")
				r.Nontrivial("bamb|" + string(b))
			}
		}
	}
	r.Extra["blob_ambiguous_documents"] = n
}

func replay(r *hx.Run) {
	var probe struct {
		Kind string `json:"kind"`
	}
	if err := r.LoadReplay(&probe); err != nil {
		r.Infra("replay: %v", err)
		return
	}
	switch probe.Kind {
	case "oci":
		var c ociCase
		_ = r.LoadReplay(&c)
		doc, owner := buildDoc(c.Scopes, c.Doc)
		r.Eval(1)
		if c.Ref.Label == "" {
			fmt.Println("replay: document-level case; re-run the check")
			return
		}
		if _, key, what := checkSelect(doc, owner, c.Doc.Wildcard, c.Ref); key != "" {
			r.Violation(key, what, c)
		} else {
			fmt.Println("replay: holds")
		}
	case "oci-history":
		var c histCase
		_ = r.LoadReplay(&c)
		r.Eval(1)
		if key, what := runOCIHistory(c.Ops); key != "" {
			r.Violation(key, what, c)
		} else {
			fmt.Println("replay: holds")
		}
	case "oci-e2e", "blob-e2e":
		fmt.Println("replay: end-to-end cases are re-run by the full end-to-end pass (about a second)")
		enumE2E(r)
	case "oci-ambiguous":
		fmt.Println("replay: ambiguous documents are re-run by the full family (sub-second)")
		enumAmbiguous(r)
	case "blob-ambiguous":
		fmt.Println("replay: ambiguous blob documents are re-run by the full family (sub-second)")
		enumAmbiguousBlob(r)
	default:
		fmt.Println("replay: blob cases are re-run by the full check (sub-second)")
		enumBlob(r)
	}
}

func main() {
	r := hx.New("C08")
	r.Rule = "every (document, permutation, reference) triple over the scope alphabet is evaluated once against the exact-membership reference; non-trivial = distinct (document, reference) pairs where a statement is selected, select-after-mutate histories, blob requests that select"
	r.Assumptions = []string{"documents are built as Go values (JSON loading is C12's domain)", "scope/reference labels (valid path or not) are hand-written in the harness"}
	if r.Replay != "" {
		replay(r)
		r.Finish()
	}
	enumOCI(r)
	enumHistories(r)
	enumBlob(r)
	enumE2E(r)
	enumAmbiguous(r)
	enumAmbiguousBlob(r)
	_ = sort.Strings
	r.Finish()
}
