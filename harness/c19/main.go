// C19 — stored signatures round-trip byte-for-byte and stay with their artifact.
//
// E2: explicit-state search over push histories on REAL stores (oras memory
// store, on-disk OCI layout through registry.NewOCIRepository – also re-opened
// from disk –, and the memory store behind a GraphTarget whose Predecessors
// answers by digest only). State = history; successor = fresh store + replay;
// canonical state = multiset of manifests per subject (count per operation kind).
// After every history, for every subject, the listing and every fetch are
// compared with the model  subject -> multiset of (media type, bytes, annotations).
//
// E3: hand-written hostile referrer manifests of the Notation type (0 / 2 blobs,
// declared or real sizes over the caps, …) behind a logging GraphTarget: the
// refusal must come before any Fetch of the blob (and of an oversized manifest).
// The blob list of a hostile manifest is a dimension of its own (entryKinds):
// what the entries next to the envelope ARE (the OCI empty-descriptor placeholder,
// the manifest's own config, a zero-length blob, a blob of another media type, the
// subject, a descriptor of content that is not in the store, …), where they stand
// (before / after the envelope), how many there are (2, 3), and how an empty list
// is written (absent, null, []).
package main

import (
	"bytes"
	"context"
	"encoding/json"
	"fmt"
	"io"
	"os"
	"path/filepath"
	"reflect"
	"sort"
	"strconv"
	"strings"
	"sync"
	"sync/atomic"
	"time"

	"github.com/notaryproject/notation-go/registry"
	"github.com/notaryproject/notation-go/zzverif/lib/hx"
	"github.com/opencontainers/go-digest"
	ocispec "github.com/opencontainers/image-spec/specs-go/v1"
	"oras.land/oras-go/v2"
	"oras.land/oras-go/v2/content/memory"
	"oras.land/oras-go/v2/content/oci"
	orasreg "oras.land/oras-go/v2/registry"
)

// hand-written constants (not taken from the code under test)
const (
	mtJWS        = "application/jose+json"
	mtCOSE       = "application/cose"
	mtImage      = "application/vnd.oci.image.manifest.v1+json"
	mtIndex      = "application/vnd.oci.image.index.v1+json"
	mtLegacy     = "application/vnd.oci.artifact.manifest.v1+json"
	typeNotation = "application/vnd.cncf.notary.signature"
	typeOther    = "application/vnd.example.sbom.v1"
	capManifest  = 4 * 1024 * 1024  // statement: "the size caps" = repository.go maxManifestSizeLimit
	capBlob      = 32 * 1024 * 1024 // repository.go maxBlobSizeLimit
)

var ctx = context.Background()

// ---------------------------------------------------------------------------
// hand-written manifests

type imageManifest struct {
	SchemaVersion int                  `json:"schemaVersion"`
	MediaType     string               `json:"mediaType"`
	ArtifactType  string               `json:"artifactType,omitempty"`
	Config        ocispec.Descriptor   `json:"config"`
	Layers        []ocispec.Descriptor `json:"layers"`
	Subject       *ocispec.Descriptor  `json:"subject,omitempty"`
	Annotations   map[string]string    `json:"annotations,omitempty"`
}

type legacyManifest struct {
	MediaType    string               `json:"mediaType"`
	ArtifactType string               `json:"artifactType"`
	Blobs        []ocispec.Descriptor `json:"blobs,omitempty"`
	Subject      *ocispec.Descriptor  `json:"subject,omitempty"`
	Annotations  map[string]string    `json:"annotations,omitempty"`
}

type indexManifest struct {
	SchemaVersion int                  `json:"schemaVersion"`
	MediaType     string               `json:"mediaType"`
	ArtifactType  string               `json:"artifactType,omitempty"`
	Manifests     []ocispec.Descriptor `json:"manifests"`
	Subject       *ocispec.Descriptor  `json:"subject,omitempty"`
}

// anyManifest is what the oracle reads back from the store.
type anyManifest struct {
	MediaType    string               `json:"mediaType"`
	ArtifactType string               `json:"artifactType"`
	Config       *ocispec.Descriptor  `json:"config"`
	Layers       []ocispec.Descriptor `json:"layers"`
	Blobs        []ocispec.Descriptor `json:"blobs"`
	Subject      *ocispec.Descriptor  `json:"subject"`
	Annotations  map[string]string    `json:"annotations"`
}

func descOf(mt string, b []byte) ocispec.Descriptor {
	return ocispec.Descriptor{MediaType: mt, Digest: digest.FromBytes(b), Size: int64(len(b))}
}

func same(a, b ocispec.Descriptor) bool {
	return a.MediaType == b.MediaType && a.Digest == b.Digest && a.Size == b.Size
}

func pushRaw(t oras.GraphTarget, d ocispec.Descriptor, b []byte) error {
	ok, err := t.Exists(ctx, d)
	if err != nil {
		return err
	}
	if ok {
		return nil
	}
	return t.Push(ctx, d, bytes.NewReader(b))
}

func fetchRaw(t oras.GraphTarget, d ocispec.Descriptor) ([]byte, error) {
	rc, err := t.Fetch(ctx, ocispec.Descriptor{MediaType: d.MediaType, Digest: d.Digest, Size: d.Size})
	if err != nil {
		return nil, err
	}
	defer rc.Close()
	return io.ReadAll(rc)
}

// pushSubjects stores three small real images (config blob, layer blob,
// manifest). The three manifests have the same media type and the same size:
// they differ in the digest only.
func pushSubjects(t oras.GraphTarget) ([3]ocispec.Descriptor, error) {
	out, blobs := subjectContent()
	for _, b := range blobs {
		if err := pushRaw(t, b.d, b.b); err != nil {
			return out, err
		}
	}
	if out[0].Size != out[1].Size || out[1].Size != out[2].Size {
		return out, fmt.Errorf("subjects must share size")
	}
	return out, nil
}

type blobContent struct {
	d ocispec.Descriptor
	b []byte
}

// subjectContent returns the three subject manifests and everything they consist of, in push order.
func subjectContent() (out [3]ocispec.Descriptor, blobs []blobContent) {
	for i := 1; i <= 3; i++ {
		cfg := []byte(fmt.Sprintf(`{"architecture":"amd64","os":"linux","rootfs":{"type":"layers","diff_ids":[]},"config":{"Labels":{"n":"%d"}}}`, i))
		layer := []byte(fmt.Sprintf("layer-of-subject-%d", i))
		cd := descOf("application/vnd.oci.image.config.v1+json", cfg)
		ld := descOf("application/vnd.oci.image.layer.v1.tar", layer)
		mb, _ := json.Marshal(imageManifest{SchemaVersion: 2, MediaType: mtImage, Config: cd, Layers: []ocispec.Descriptor{ld}})
		md := descOf(mtImage, mb)
		blobs = append(blobs, blobContent{cd, cfg}, blobContent{ld, layer}, blobContent{md, mb})
		out[i-1] = md
	}
	return out, blobs
}

// writeNestedLayout writes, file by file, an OCI layout as multi-platform tools write it: the three subjects
// are the children of one image index and index.json lists only that index - the subjects are present in
// the layout without being roots of index.json.
func writeNestedLayout(dir string) error {
	subj, blobs := subjectContent()
	var children []ocispec.Descriptor
	for i, d := range subj {
		d.Platform = &ocispec.Platform{OS: "linux", Architecture: []string{"amd64", "arm64", "s390x"}[i]}
		children = append(children, d)
	}
	ib, _ := json.Marshal(indexManifest{SchemaVersion: 2, MediaType: mtIndex, Manifests: children})
	id := descOf(mtIndex, ib)
	blobs = append(blobs, blobContent{id, ib})
	if err := os.MkdirAll(filepath.Join(dir, "blobs", "sha256"), 0o755); err != nil {
		return err
	}
	for _, b := range blobs {
		if err := os.WriteFile(filepath.Join(dir, "blobs", "sha256", b.d.Digest.Encoded()), b.b, 0o644); err != nil {
			return err
		}
	}
	if err := os.WriteFile(filepath.Join(dir, "oci-layout"), []byte(`{"imageLayoutVersion":"1.0.0"}`), 0o644); err != nil {
		return err
	}
	id.Annotations = map[string]string{"org.opencontainers.image.ref.name": "multi"}
	top, _ := json.Marshal(indexManifest{SchemaVersion: 2, Manifests: []ocispec.Descriptor{id}})
	return os.WriteFile(filepath.Join(dir, "index.json"), top, 0o644)
}

// overBy is by how much a really oversized object exceeds its cap: well beyond cap+1, so that an
// implementation that reads through a reader limited to cap+1 bytes does not read it completely.
const overBy = 64 * 1024

var emptyConfig = []byte("{}")

func pushNotationConfig(t oras.GraphTarget, mediaType string) (ocispec.Descriptor, error) {
	d := descOf(mediaType, emptyConfig)
	return d, pushRaw(t, d, emptyConfig)
}

// ---------------------------------------------------------------------------
// targets

// looseTarget answers Predecessors by digest only: every node that points at
// any descriptor sharing the digest is returned (what a GraphTarget without an
// exact-descriptor index does; the PredecessorFinder contract only says
// "nodes directly pointing to the current node").
type looseTarget struct {
	oras.GraphTarget
	alias map[digest.Digest][]ocispec.Descriptor
}

func (l *looseTarget) Predecessors(c context.Context, node ocispec.Descriptor) ([]ocispec.Descriptor, error) {
	seen := map[digest.Digest]bool{}
	var out []ocispec.Descriptor
	cands := append([]ocispec.Descriptor{node}, l.alias[node.Digest]...)
	for _, cd := range cands {
		ps, err := l.GraphTarget.Predecessors(c, cd)
		if err != nil {
			return nil, err
		}
		for _, p := range ps {
			if !seen[p.Digest] {
				seen[p.Digest] = true
				out = append(out, p)
			}
		}
	}
	sort.Slice(out, func(i, j int) bool { return out[i].Digest < out[j].Digest })
	return out, nil
}

// pagedTarget offers the referrers API itself (as a remote repository does): ListSignatures
// delegates to it, and the answer is delivered in pages of one descriptor.
type pagedTarget struct {
	oras.GraphTarget
}

func (p *pagedTarget) Referrers(c context.Context, desc ocispec.Descriptor, artifactType string, fn func([]ocispec.Descriptor) error) error {
	all, err := orasreg.Referrers(c, p.GraphTarget, desc, artifactType)
	if err != nil {
		return err
	}
	sort.Slice(all, func(i, j int) bool { return all[i].Digest < all[j].Digest })
	for i := range all {
		if err := fn(all[i : i+1]); err != nil {
			return err
		}
	}
	return nil
}

// logTarget counts Fetch calls and the bytes read per digest.
type logTarget struct {
	oras.GraphTarget
	mu      sync.Mutex
	fetches map[digest.Digest]int
	read    map[digest.Digest]int64
}

type countingReader struct {
	io.ReadCloser
	l  *logTarget
	dg digest.Digest
}

func (c *countingReader) Read(p []byte) (int, error) {
	n, err := c.ReadCloser.Read(p)
	c.l.mu.Lock()
	c.l.read[c.dg] += int64(n)
	c.l.mu.Unlock()
	return n, err
}

func (l *logTarget) Fetch(c context.Context, d ocispec.Descriptor) (io.ReadCloser, error) {
	l.mu.Lock()
	l.fetches[d.Digest]++
	l.mu.Unlock()
	rc, err := l.GraphTarget.Fetch(c, d)
	if err != nil {
		return nil, err
	}
	return &countingReader{ReadCloser: rc, l: l, dg: d.Digest}, nil
}

func (l *logTarget) reset() {
	l.mu.Lock()
	l.fetches = map[digest.Digest]int{}
	l.read = map[digest.Digest]int64{}
	l.mu.Unlock()
}

// bytesRead is the largest number of bytes of the object read since the last reset (summed over fetches).
func (l *logTarget) bytesRead(d digest.Digest) int64 {
	l.mu.Lock()
	defer l.mu.Unlock()
	return l.read[d]
}

func (l *logTarget) count(d digest.Digest) int {
	l.mu.Lock()
	defer l.mu.Unlock()
	return l.fetches[d]
}

// ---------------------------------------------------------------------------
// E2: histories

// the alphabet (11 operations)
var alphabet = []string{
	"push:1:jws", "push:1:cose", "push:2:jws", "push:2:cose", "push:3:jws", "push:3:cose",
	"foreign:image-other-type@1",    // image manifest, other config media type (artifact type), subject S1
	"foreign:legacy-other-type@3",   // legacy artifact manifest, other artifact type, subject S3
	"foreign:legacy-notation@2",     // legacy artifact manifest of the Notation type, subject S2: MUST be listed
	"foreign:notation@s1prime-mt",   // Notation image manifest, subject = S1's digest+size with another media type; its single layer IS S1 (so the store's graph returns it for S1)
	"foreign:notation@s1prime-size", // Notation image manifest, subject = S1's digest+media type with another size
}

// the retry family adds pushes that fail part-way and pushes of bytes that are already in the layout
var alphabetRetry = append(append([]string(nil), alphabet...), "push-invalid:1:jws", "push-again:1:jws", "push-again:2:cose")

const (
	subjS1pMT   = 3
	subjS1pSize = 4
)

type rec struct {
	Class     string // sig-api | sig-legacy | other-type | s1prime
	Op        string
	Subject   int // 0..2 real subjects, 3 = S1' (media type), 4 = S1' (size)
	Manifest  ocispec.Descriptor
	BlobDesc  ocispec.Descriptor
	MediaType string
	Envelope  []byte
	Ann       map[string]string
}

type world struct {
	kind   string
	dir    string
	target oras.GraphTarget
	repo   registry.Repository
	subj   [5]ocispec.Descriptor
	sbytes [3][]byte // the subjects' manifest bytes
	recs   []rec
	evals  int
	notes  map[string]int // outcome classes observed while applying operations
	few    bool           // long (frontier) histories: two equivalent descriptors per subject instead of all
}

type viol struct{ key, what string }

func newWorld(kind, dir string) (*world, error) {
	w := &world{kind: kind, dir: dir, notes: map[string]int{}}
	var loose *looseTarget
	switch kind {
	case "memory":
		st := memory.New()
		w.target = st
		w.repo = registry.NewRepository(st)
	case "paged":
		pt := &pagedTarget{GraphTarget: memory.New()}
		w.target = pt
		w.repo = registry.NewRepository(pt)
	case "loose":
		loose = &looseTarget{GraphTarget: memory.New(), alias: map[digest.Digest][]ocispec.Descriptor{}}
		w.target = loose
		w.repo = registry.NewRepository(loose)
	case "disk", "nested":
		if err := os.MkdirAll(dir, 0o755); err != nil {
			return nil, err
		}
		if kind == "nested" {
			if err := writeNestedLayout(dir); err != nil {
				return nil, err
			}
		}
		repo, err := registry.NewOCIRepository(dir, registry.RepositoryOptions{})
		if err != nil {
			return nil, err
		}
		if t, ok := repo.(oras.GraphTarget); ok {
			w.target, w.repo = t, repo
		} else {
			// the repository value does not expose the store it wraps (not required by anything): the live phase
			// then runs on an OCI store opened by the harness; NewOCIRepository is exercised by the re-opened phase
			st, err := oci.New(dir)
			if err != nil {
				return nil, err
			}
			w.target, w.repo = st, registry.NewRepository(st)
			w.notes["recorded:disk-live-phase-on-a-store-opened-by-the-harness"]++
		}
	default:
		return nil, fmt.Errorf("unknown store kind %q", kind)
	}
	s, err := pushSubjects(w.target)
	if err != nil {
		return nil, err
	}
	copy(w.subj[:3], s[:])
	w.subj[subjS1pMT] = ocispec.Descriptor{MediaType: mtIndex, Digest: s[0].Digest, Size: s[0].Size}
	w.subj[subjS1pSize] = ocispec.Descriptor{MediaType: mtImage, Digest: s[0].Digest, Size: s[0].Size + 1}
	if loose != nil {
		loose.alias[s[0].Digest] = []ocispec.Descriptor{w.subj[0], w.subj[subjS1pMT], w.subj[subjS1pSize]}
	}
	// every subject is tagged with a full descriptor, as an index.json entry carries one: Resolve(tag)
	// then hands out a descriptor of the artifact that differs from the plain one in non-identity fields
	for i := 0; i < 3; i++ {
		b, err := fetchRaw(w.target, s[i])
		if err != nil {
			return nil, err
		}
		w.sbytes[i] = b
		full := s[i]
		full.Annotations = map[string]string{"org.opencontainers.image.created": "2020-01-01T00:00:00Z", "example.org/tagged": "yes"}
		full.ArtifactType = "application/vnd.oci.image.config.v1+json"
		if kind == "nested" {
			continue // tagging would make the subject a root of index.json
		}
		if err := w.target.Tag(ctx, full, fmt.Sprintf("s%d", i+1)); err != nil {
			return nil, err
		}
	}
	return w, nil
}

// descriptorVariants returns descriptors that all denote subject si (same media type, digest, size) and
// differ in the fields that do not identify content. Resolve answers are included when they denote the subject.
func (w *world) descriptorVariants(repo registry.Repository, si int) (names []string, ds []ocispec.Descriptor) {
	p := w.subj[si]
	add := func(n string, d ocispec.Descriptor) { names = append(names, n); ds = append(ds, d) }
	d := p
	d.Annotations = map[string]string{"org.opencontainers.image.ref.name": "v1", "x": ""}
	add("with-annotations", d)
	if w.few {
		w.evals++
		if rd, err := repo.Resolve(ctx, fmt.Sprintf("s%d", si+1)); err == nil && same(rd, p) {
			add("resolved-by-tag", rd)
		}
		return names, ds
	}
	d = p
	d.URLs = []string{"https://example.org/blob"}
	add("with-urls", d)
	d = p
	d.ArtifactType = "application/vnd.example.thing"
	add("with-artifact-type", d)
	d = p
	d.Platform = &ocispec.Platform{Architecture: "amd64", OS: "linux"}
	add("with-platform", d)
	d = p
	d.Data = w.sbytes[si]
	add("with-data", d)
	d = p
	d.Annotations = map[string]string{}
	d.URLs = []string{}
	add("with-empty-non-nil-fields", d)
	for _, q := range []struct{ n, ref string }{{"resolved-by-tag", fmt.Sprintf("s%d", si+1)}, {"resolved-by-digest", p.Digest.String()}} {
		w.evals++
		if rd, err := repo.Resolve(ctx, q.ref); err == nil && same(rd, p) {
			add(q.n, rd)
		}
	}
	return names, ds
}

// pushSubject is the descriptor of subject si handed to the push of a step: plain, as resolved by tag, or hand-made full.
func (w *world) pushSubject(step, si int) ocispec.Descriptor {
	p := w.subj[si]
	switch step % 3 {
	case 1:
		w.evals++
		if rd, err := w.repo.Resolve(ctx, fmt.Sprintf("s%d", si+1)); err == nil && same(rd, p) {
			return rd
		}
		p.Annotations = map[string]string{"org.opencontainers.image.ref.name": fmt.Sprintf("s%d", si+1)}
	case 2:
		p.Annotations = map[string]string{"example.org/pushed-with": "full descriptor"}
		p.URLs = []string{"https://example.org/" + strconv.Itoa(step)}
		p.Platform = &ocispec.Platform{Architecture: "arm64", OS: "linux", Variant: "v8"}
		p.ArtifactType = "application/vnd.example.thing"
	}
	return p
}

func (w *world) close() {
	if w.dir != "" {
		_ = os.RemoveAll(w.dir)
	}
}

var envelopeSizes = []int{900, 120, 900, 4000, 64, 2000, 120, 300, 4000, 64, 1000, 900}

// envelope returns the distinct envelope of a step (binary). The sizes go up and down with the step and
// several steps share a size, whatever the operation (same size, other content).
//
// The first and last bytes are the kind a careless layer would "clean up": white space of every sort
// (ASCII, NEL, NBSP), NUL; one step pushes an envelope that is white space only, one an empty envelope.
func envelope(step int, tag string) []byte {
	switch step % 12 {
	case 4:
		return []byte(" \r\n\t \n")
	case 3:
		return []byte{}
	}
	e := envelopeEdges[step%len(envelopeEdges)]
	b := []byte(e[0] + fmt.Sprintf("env-%03d-%s\x00\xff", step, tag))
	n := envelopeSizes[step%len(envelopeSizes)] - len(e[1])
	for len(b) < n {
		b = append(b, byte('a'+(step+len(b))%26))
	}
	return append(b, e[1]...)
}

var envelopeEdges = [][2]string{
	{"", "\n"}, {"\t ", " "}, {"\n", "\r"}, {"", ""}, {"\xc2\xa0", "\xc2\x85"}, {"\x00", "\x00"}, {"\v", "\f"},
}

const annCreated = "org.opencontainers.image.created"

// annotationsFor returns the annotations pushed at a step. Every variant differs from every other one
// (other values for the same key, keys present on one push only); the values must come back byte for
// byte: numeric zone offsets, fractional seconds, text that is no time, empty strings, unicode - for the
// creation time key and for other keys. refusable is the hand-written label "the creation time is not
// RFC 3339, oras-go refuses to pack such a manifest": a refused push is recorded, not judged.
func annotationsFor(step int) (ann map[string]string, refusable bool) {
	thumb := "io.cncf.notary.x509chain.thumbprint#S256"
	switch step % 8 {
	case 0:
		return nil, false
	case 1:
		return map[string]string{thumb: fmt.Sprintf(`["%064x"]`, step+1), annCreated: "2001-02-03T04:05:06+02:00", "example.org/time": "2001-02-03T04:05:06+02:00"}, false
	case 2:
		return map[string]string{
			thumb:                           fmt.Sprintf(`["%064x","%064x"]`, step+1, step+2),
			annCreated:                      "2001-02-03T04:05:06.123456789-07:00",
			"example.org/ünï \"q\"":         "välue \\ \" <&> ☃ " + strconv.Itoa(step),
			"example.org/empty":             "",
			"example.org/not-a-time":        " yesterday at noon \t",
			"example.org/other-time":        "2001-02-03T04:05:06.5Z",
			"example.org/\u00e9 vs e\u0301": "\u00e9 vs e\u0301",
		}, false
	case 3:
		return map[string]string{}, false
	case 4:
		return map[string]string{thumb: fmt.Sprintf(`["%064x"]`, 1000+step), fmt.Sprintf("example.org/only-on-push-%d", step): "x", annCreated: "2001-02-03T04:05:06Z"}, false
	case 5:
		return map[string]string{thumb: fmt.Sprintf(`["%064x"]`, step+1), annCreated: "yesterday"}, true
	case 6:
		return map[string]string{annCreated: "2001-02-03T23:59:60.000+00:00", "example.org/step": strconv.Itoa(step)}, true
	}
	return map[string]string{annCreated: "", "example.org/step": strconv.Itoa(step)}, true
}

func sortedKeys(m map[string]string) []string {
	ks := make([]string, 0, len(m))
	for k := range m {
		ks = append(ks, k)
	}
	sort.Strings(ks)
	return ks
}

func mapsEqual(a, b map[string]string) bool {
	if len(a) != len(b) {
		return false
	}
	for k, v := range a {
		if w, ok := b[k]; !ok || w != v {
			return false
		}
	}
	return true
}

func showMap(m map[string]string) string {
	var sb strings.Builder
	sb.WriteByte('{')
	for i, k := range sortedKeys(m) {
		if i > 0 {
			sb.WriteString(", ")
		}
		v := m[k]
		if len(v) > 24 {
			v = v[:10] + "…" + v[len(v)-10:]
		}
		fmt.Fprintf(&sb, "%q:%q", k, v)
	}
	sb.WriteByte('}')
	return sb.String()
}

func copyMap(m map[string]string) map[string]string {
	if m == nil {
		return nil
	}
	c := make(map[string]string, len(m))
	for k, v := range m {
		c[k] = v
	}
	return c
}

// push calls PushSignature and records what the model has to know.
func (w *world) push(step int, op string, si int, format string, env []byte, ann map[string]string, refusable bool) {
	mt := mtJWS
	if format == "cose" {
		mt = mtCOSE
	}
	subject := w.pushSubject(step, si)
	givenBlob, givenAnn := append([]byte(nil), env...), copyMap(ann)
	w.evals++
	bd, md, err := w.repo.PushSignature(ctx, mt, givenBlob, subject, givenAnn)
	// the caller re-uses the buffer it handed in (the envelope that was pushed is the one of the call).
	// The annotations map is left alone: oras-go keeps the caller's map in the descriptors it hands out,
	// so scribbling over it would make the harness itself change what a store reports.
	for i := range givenBlob {
		givenBlob[i] = 0xEE
	}
	if err != nil {
		// the statement speaks about what holds after pushes, not about which pushes succeed: a refused push is
		// recorded; should its manifest be listed for its subject all the same, that is recorded too
		if refusable {
			w.notes["push refused: creation time annotation is not RFC 3339 (not judged)"]++
		} else {
			w.notes["recorded:push/error"]++
		}
		w.recs = append(w.recs, rec{Class: "sig-failed", Op: op, Subject: si, MediaType: mt, Envelope: env, Ann: ann})
		return
	}
	if !same(bd, descOf(mt, env)) {
		w.notes["recorded:push/returned-blob-descriptor-differs-from-pushed-bytes"]++
	}
	w.recs = append(w.recs, rec{Class: "sig-api", Op: op, Subject: si, Manifest: md, BlobDesc: bd, MediaType: mt, Envelope: env, Ann: ann})
}

// apply executes one operation; a non-nil viol means the real code misbehaved,
// an error means the harness could not build the case.
func (w *world) apply(step int, op string) (*viol, error) {
	switch {
	case strings.HasPrefix(op, "push:"):
		f := strings.Split(op, ":")
		si, _ := strconv.Atoi(f[1])
		ann, refusable := annotationsFor(step)
		w.push(step, op, si-1, f[2], envelope(step, f[2]), ann, refusable)
		return nil, nil
	case strings.HasPrefix(op, "push-invalid:"):
		// a push that fails part-way: the creation time is hand-labelled "not RFC 3339", oras-go refuses to pack
		// the manifest after the envelope blob has been stored
		f := strings.Split(op, ":")
		si, _ := strconv.Atoi(f[1])
		w.push(step, op, si-1, f[2], envelope(step, f[2]), map[string]string{annCreated: "not a time", "example.org/step": strconv.Itoa(step)}, true)
		return nil, nil
	case strings.HasPrefix(op, "push-again:"):
		// the retry: a push whose envelope bytes are already present in the layout as a blob, but not as a stored
		// signature (left behind by a push that failed, or the blob of a foreign referrer), now with good annotations
		f := strings.Split(op, ":")
		si, _ := strconv.Atoi(f[1])
		stored := map[string]bool{}
		for i := range w.recs {
			if isSig(w.recs[i].Class) {
				stored[string(w.recs[i].Envelope)] = true
			}
		}
		for i := len(w.recs) - 1; i >= 0; i-- {
			if !isSig(w.recs[i].Class) && !stored[string(w.recs[i].Envelope)] {
				w.push(step, op, si-1, f[2], w.recs[i].Envelope, map[string]string{"example.org/retry-of": w.recs[i].Op, annCreated: "2002-03-04T05:06:07Z"}, false)
				return nil, nil
			}
		}
		w.notes["push-again: no blob in the layout to push again (no operation)"]++
		return nil, nil
	}
	name := strings.TrimPrefix(op, "foreign:")
	env := envelope(step, name)
	ann := map[string]string{"harness.step": strconv.Itoa(step)}
	var (
		mb    []byte
		md    ocispec.Descriptor
		r     = rec{Op: op, Envelope: env, Ann: ann}
		blob  = descOf(mtJWS, env)
		class string
	)
	if err := pushRaw(w.target, blob, env); err != nil {
		return nil, err
	}
	r.MediaType = blob.MediaType
	switch name {
	case "image-other-type@1":
		cfg, err := pushNotationConfig(w.target, typeOther)
		if err != nil {
			return nil, err
		}
		class, r.Subject = "other-type", 0
		sv := w.pushSubject(step, 0)
		mb, _ = json.Marshal(imageManifest{SchemaVersion: 2, MediaType: mtImage, Config: cfg, Layers: []ocispec.Descriptor{blob}, Subject: &sv, Annotations: ann})
		md = descOf(mtImage, mb)
	case "legacy-other-type@3":
		class, r.Subject = "other-type", 2
		sv := w.pushSubject(step, 2)
		mb, _ = json.Marshal(legacyManifest{MediaType: mtLegacy, ArtifactType: typeOther, Blobs: []ocispec.Descriptor{blob}, Subject: &sv, Annotations: ann})
		md = descOf(mtLegacy, mb)
	case "legacy-notation@2":
		class, r.Subject = "sig-legacy", 1
		sv := w.pushSubject(step, 1)
		mb, _ = json.Marshal(legacyManifest{MediaType: mtLegacy, ArtifactType: typeNotation, Blobs: []ocispec.Descriptor{blob}, Subject: &sv, Annotations: ann})
		md = descOf(mtLegacy, mb)
	case "notation@s1prime-mt":
		cfg, err := pushNotationConfig(w.target, typeNotation)
		if err != nil {
			return nil, err
		}
		class, r.Subject = "s1prime", subjS1pMT
		// single "layer" = S1 itself (exact descriptor): the store's graph returns this manifest as a predecessor of S1
		mb, _ = json.Marshal(imageManifest{SchemaVersion: 2, MediaType: mtImage, Config: cfg, Layers: []ocispec.Descriptor{w.subj[0]}, Subject: &w.subj[subjS1pMT], Annotations: ann})
		md = descOf(mtImage, mb)
	case "notation@s1prime-size":
		cfg, err := pushNotationConfig(w.target, typeNotation)
		if err != nil {
			return nil, err
		}
		class, r.Subject = "s1prime", subjS1pSize
		mb, _ = json.Marshal(imageManifest{SchemaVersion: 2, MediaType: mtImage, Config: cfg, Layers: []ocispec.Descriptor{blob}, Subject: &w.subj[subjS1pSize], Annotations: ann})
		md = descOf(mtImage, mb)
	default:
		return nil, fmt.Errorf("unknown operation %q", op)
	}
	if err := pushRaw(w.target, md, mb); err != nil {
		return nil, err
	}
	r.Class, r.Manifest, r.BlobDesc = class, md, blob
	w.recs = append(w.recs, r)
	return nil, nil
}

func listAll(repo registry.Repository, d ocispec.Descriptor) ([]ocispec.Descriptor, error) {
	var out []ocispec.Descriptor
	err := repo.ListSignatures(ctx, d, func(page []ocispec.Descriptor) error {
		out = append(out, page...)
		return nil
	})
	return out, err
}

func isSig(c string) bool { return c == "sig-api" || c == "sig-legacy" }

func sat(n int) string {
	if n >= 2 {
		return "2+"
	}
	return strconv.Itoa(n)
}

// check compares the repository view with the model. outcomes receives class names.
//
// Only what the statement of C19 says is a violation; observations about HOW the current code does it
// (what PushSignature returns, the shape of the stored manifest, exact descriptor fields, object identity
// of maps, the S1' queries, legacy artifact manifests being listed) are recorded as "recorded:<key>".
func (w *world) check(repo registry.Repository, raw oras.GraphTarget, phase string, outcomes map[string]int) []viol {
	var vs []viol
	sfx := ""
	if phase != "live" {
		sfx = ":" + phase
	}
	add := func(key, format string, a ...any) {
		vs = append(vs, viol{key + sfx, fmt.Sprintf("[%s store, %s] ", w.kind, phase) + fmt.Sprintf(format, a...)})
	}
	record := func(key string) { outcomes["recorded:"+key]++ }

	// identification of a listed descriptor with the operation that pushed it: hand-written manifests by
	// their digest; API pushes by the digest PushSignature returned (a hint), else by the envelope the
	// stored manifest names, else by the envelope FetchSignatureBlob returns (envelopes are distinct).
	// Every hint is verified by the fetch comparison afterwards.
	byDigest := map[digest.Digest]int{}
	byEnvelope := map[digest.Digest]int{}
	for i := range w.recs {
		if w.recs[i].Manifest.Digest != "" {
			byDigest[w.recs[i].Manifest.Digest] = i
		}
		ed := digest.FromBytes(w.recs[i].Envelope)
		if _, known := byEnvelope[ed]; isSig(w.recs[i].Class) || (w.recs[i].Class == "sig-failed" && !known) {
			byEnvelope[ed] = i
		}
	}
	readManifest := func(d ocispec.Descriptor) ([]byte, *anyManifest) {
		mb, err := fetchRaw(raw, d)
		if err != nil {
			if i, ok := byDigest[d.Digest]; ok {
				mb, err = fetchRaw(raw, w.recs[i].Manifest)
			}
		}
		if err != nil {
			return nil, nil
		}
		var m anyManifest
		if json.Unmarshal(mb, &m) != nil {
			return mb, nil
		}
		return mb, &m
	}
	identify := func(d ocispec.Descriptor) int {
		if i, ok := byDigest[d.Digest]; ok {
			return i
		}
		if _, m := readManifest(d); m != nil {
			for _, l := range append(append([]ocispec.Descriptor(nil), m.Layers...), m.Blobs...) {
				if i, ok := byEnvelope[l.Digest]; ok {
					return i
				}
			}
		}
		w.evals++
		if b, _, err := repo.FetchSignatureBlob(ctx, d); err == nil {
			if i, ok := byEnvelope[digest.FromBytes(b)]; ok {
				return i
			}
		}
		return -1
	}

	// what a listed descriptor says about its manifest
	judgeListed := func(label string, listed []ocispec.Descriptor) {
		for i, d := range listed {
			mb, m := readManifest(d)
			if m == nil {
				record("list/listed-manifest-unreadable-underneath-the-api")
				continue
			}
			if digest.FromBytes(mb) != d.Digest || int64(len(mb)) != d.Size || m.MediaType != d.MediaType {
				record("list/descriptor-differs-from-stored-manifest")
			}
			// a listed descriptor may carry no annotations or some of them; it must not carry a value its own manifest does not have
			bad := ""
			for _, k := range sortedKeys(d.Annotations) {
				if mv, ok := m.Annotations[k]; !ok || mv != d.Annotations[k] {
					bad = k
					break
				}
			}
			switch {
			case bad != "":
				add("list/descriptor-annotations-not-of-its-manifest", "listing %s: descriptor of %s carries annotation %q=%q, its stored manifest has %s", label, d.Digest, bad, d.Annotations[bad], showMap(m.Annotations))
			case len(d.Annotations) == 0:
				outcomes["listed descriptor annotations: absent"]++
			case mapsEqual(d.Annotations, m.Annotations):
				outcomes["listed descriptor annotations: exactly those of its stored manifest"]++
			default:
				outcomes["listed descriptor annotations: some of those of its stored manifest"]++
			}
			for j := 0; j < i; j++ {
				o := listed[j]
				if o.Digest != d.Digest && o.Annotations != nil && d.Annotations != nil &&
					reflect.ValueOf(o.Annotations).Pointer() == reflect.ValueOf(d.Annotations).Pointer() {
					record("list/descriptors-alias-one-annotations-map")
					break
				}
			}
		}
	}
	// what the API handed out is kept and looked at again after all later calls
	type keptFetch struct {
		rc   *rec
		d    ocispec.Descriptor
		b    []byte
		pass string
	}
	type keptList struct {
		label string
		list  []ocispec.Descriptor
		snap  string
	}
	var fetched []keptFetch
	var lists []keptList
	snapshot := func(l []ocispec.Descriptor) string { // which manifests a listing named
		var sb strings.Builder
		for _, d := range l {
			sb.WriteString(d.Digest.String())
			sb.WriteByte(' ')
		}
		return sb.String()
	}
	// judgeSet compares a listing of subject si with the model: every signature pushed through the API for
	// si is named; nothing of another subject, another type, S1' or of unknown origin is named. A legacy
	// artifact manifest of the Notation type (a foreign referrer in the quantifier) may or may not be listed.
	judgeSet := func(si int, listed []ocispec.Descriptor, query string) (ids []int) {
		q := ""
		if query != "" {
			q = " by a descriptor " + query
		}
		got := map[int]int{}
		for _, d := range listed {
			id := identify(d)
			ids = append(ids, id)
			if id >= 0 {
				got[id]++
			}
			var rc *rec
			if id >= 0 {
				rc = &w.recs[id]
			}
			switch {
			case rc == nil:
				add("list/unknown-manifest-listed", "listing S%d%s yields %s which no operation pushed", si+1, q, d.Digest)
			case rc.Class == "other-type":
				add("list/foreign-type-listed", "listing S%d%s yields %s pushed by %q (another artifact type, subject S%d)", si+1, q, d.Digest, rc.Op, rc.Subject+1)
			case rc.Class == "s1prime":
				add("list/shared-field-subject-listed:"+strings.TrimPrefix(rc.Op, "foreign:notation@"), "listing S%d%s yields %s pushed by %q whose subject only shares fields with S1: %+v vs %+v", si+1, q, d.Digest, rc.Op, w.subj[rc.Subject], w.subj[0])
			case rc.Subject != si:
				add("list/other-subject-listed", "listing S%d%s yields %s pushed by %q for S%d", si+1, q, d.Digest, rc.Op, rc.Subject+1)
			case rc.Class == "sig-failed":
				record("list/manifest-of-a-push-that-reported-an-error-listed")
			case got[id] == 2:
				record("list/duplicate")
			}
		}
		for i := range w.recs {
			rc := &w.recs[i]
			if rc.Subject != si || got[i] > 0 {
				continue
			}
			switch {
			case rc.Class == "sig-api" && query == "":
				add("list/pushed-signature-not-listed:"+rc.Class, "listing S%d lacks the signature pushed by %q (listed: %d manifests)", si+1, rc.Op, len(listed))
			case rc.Class == "sig-api":
				add("list/incomplete-for-equivalent-descriptor:"+query, "listing S%d by a descriptor %s lacks the signature pushed by %q (listed: %d manifests)", si+1, query, rc.Op, len(listed))
			case rc.Class == "sig-legacy":
				record("list/legacy-notation-artifact-manifest-not-listed")
			}
		}
		return ids
	}
	for si := 0; si < 3; si++ {
		w.evals++
		before := len(vs)
		listed, err := listAll(repo, w.subj[si])
		if err != nil {
			add("list/error", "ListSignatures(S%d) failed: %v", si+1, err)
			continue
		}
		nwant, nother := 0, 0
		for i := range w.recs {
			if w.recs[i].Subject == si && isSig(w.recs[i].Class) {
				nwant++
			} else {
				nother++
			}
		}
		ids := judgeSet(si, listed, "")
		judgeListed(fmt.Sprintf("S%d", si+1), listed)
		lists = append(lists, keptList{fmt.Sprintf("S%d", si+1), listed, snapshot(listed)})
		// the same artifact named by other descriptors (equal media type, digest, size): the listing is the same
		vnames, vds := w.descriptorVariants(repo, si)
		for vi, vd := range vds {
			w.evals++
			b2 := len(vs)
			l2, err := listAll(repo, vd)
			if err != nil {
				add("list/error:query-"+vnames[vi], "ListSignatures(S%d %s) failed: %v", si+1, vnames[vi], err)
				continue
			}
			judgeSet(si, l2, vnames[vi])
			if len(vs) == b2 {
				outcomes["list by an equivalent descriptor ("+vnames[vi]+"): same signatures"]++
			}
		}
		if len(vs) == before {
			outcomes[fmt.Sprintf("list: exactly the %s signature(s) of the subject, %s other manifest(s) in the store", sat(nwant), sat(nother))]++
		}
		// every listed signature of the subject: fetch and compare
		for li, d := range listed {
			if ids[li] < 0 {
				continue
			}
			rc := &w.recs[ids[li]]
			if !isSig(rc.Class) || rc.Subject != si {
				continue
			}
			if !same(d, rc.Manifest) {
				record("list/descriptor-differs-from-push-result")
			}
			w.evals++
			b, bd, err := repo.FetchSignatureBlob(ctx, d)
			switch {
			case err != nil && rc.Class == "sig-legacy":
				record("fetch/error:listed-legacy-notation-artifact-manifest") // a foreign referrer in the quantifier
			case err != nil:
				add("fetch/error:"+rc.Class, "FetchSignatureBlob(%s) of %q failed: %v", d.Digest, rc.Op, err)
			case !bytes.Equal(b, rc.Envelope):
				add("fetch/bytes-differ", "FetchSignatureBlob(%s) of %q returned %d bytes %.40q, pushed %d bytes %.40q", d.Digest, rc.Op, len(b), b, len(rc.Envelope), rc.Envelope)
			case bd.MediaType != rc.MediaType:
				add("fetch/media-type-differs", "FetchSignatureBlob(%s) of %q returned media type %q, pushed %q", d.Digest, rc.Op, bd.MediaType, rc.MediaType)
			default:
				if !same(bd, rc.BlobDesc) {
					record("fetch/blob-descriptor-differs-from-push-result")
				}
				outcomes[fmt.Sprintf("fetch: identical bytes+media type (%s, %s)", rc.Class, rc.MediaType)]++
				fetched = append(fetched, keptFetch{rc, d, b, "listing order"})
			}
			// the manifest as stored (read underneath the API)
			_, m := readManifest(d)
			if m == nil {
				record("push/manifest-unreadable-underneath-the-api")
				continue
			}
			for _, k := range sortedKeys(rc.Ann) {
				if gv, ok := m.Annotations[k]; !ok || gv != rc.Ann[k] {
					add("push/annotations-not-on-manifest", "manifest %s of %q: annotation %q = %q (present %v), pushed %q", d.Digest, rc.Op, k, gv, ok, rc.Ann[k])
					break
				}
			}
			if rc.Class == "sig-api" {
				if m.Subject == nil || !same(*m.Subject, w.subj[si]) {
					record("push/manifest-subject-differs")
				}
				if len(m.Layers) != 1 || !same(m.Layers[0], descOf(rc.MediaType, rc.Envelope)) {
					record("push/manifest-layer-differs")
				}
				if m.Config == nil || m.Config.MediaType != typeNotation {
					record("push/manifest-artifact-type-differs")
				}
			}
		}
	}
	// S1': a descriptor that shares fields with S1 and names no artifact of the store. The statement speaks
	// about listing the signatures of an artifact; what such a query yields is recorded, not judged.
	for _, si := range []int{subjS1pMT, subjS1pSize} {
		label := "s1prime-mt"
		if si == subjS1pSize {
			label = "s1prime-size"
		}
		w.evals++
		listed, err := listAll(repo, w.subj[si])
		if err != nil {
			outcomes[fmt.Sprintf("list(%s): error (not judged)", label)]++
			continue
		}
		own, foreign := 0, 0
		lists = append(lists, keptList{label, listed, snapshot(listed)})
		for _, d := range listed {
			if id, ok := byDigest[d.Digest]; ok && w.recs[id].Subject == si {
				own++
			} else {
				foreign++
			}
		}
		if foreign > 0 {
			record("list/query-" + label + "-yields-manifests-of-other-subjects")
		}
		outcomes[fmt.Sprintf("list(%s): own manifests listed=%s (not judged)", label, sat(own))]++
	}
	// second round of fetches on the same repository value, largest envelope first (equal sizes: by digest),
	// then every envelope and listing handed out so far is compared once more
	if n := len(fetched); n > 1 {
		order := append([]keptFetch(nil), fetched...)
		sort.SliceStable(order, func(i, j int) bool {
			if len(order[i].rc.Envelope) != len(order[j].rc.Envelope) {
				return len(order[i].rc.Envelope) > len(order[j].rc.Envelope)
			}
			return order[i].d.Digest < order[j].d.Digest
		})
		for _, k := range order {
			w.evals++
			b, _, err := repo.FetchSignatureBlob(ctx, k.d)
			switch {
			case err != nil:
				add("fetch/error-on-second-fetch", "second FetchSignatureBlob(%s) of %q failed: %v", k.d.Digest, k.rc.Op, err)
			case !bytes.Equal(b, k.rc.Envelope):
				add("fetch/bytes-differ", "second FetchSignatureBlob(%s) of %q returned %d bytes %.40q, pushed %d bytes %.40q", k.d.Digest, k.rc.Op, len(b), b, len(k.rc.Envelope), k.rc.Envelope)
			default:
				fetched = append(fetched, keptFetch{k.rc, k.d, b, "decreasing size"})
			}
		}
		changed := false
		for _, k := range fetched {
			if !bytes.Equal(k.b, k.rc.Envelope) {
				add("fetch/bytes-changed-after-later-fetch", "the bytes returned by FetchSignatureBlob(%s) of %q (%s) were identical to the pushed envelope and are not any more after later fetches on the same repository: %d bytes %.40q, pushed %.40q", k.d.Digest, k.rc.Op, k.pass, len(k.b), k.b, k.rc.Envelope)
				changed = true
				break
			}
		}
		if !changed {
			outcomes["fetch: all envelopes handed out still identical after all later fetches"]++
		}
	}
	for _, l := range lists {
		if snapshot(l.list) != l.snap {
			add("list/result-changed-after-later-call", "the manifests named by ListSignatures(%s) changed after later calls: %s, before %s", l.label, snapshot(l.list), l.snap)
			break
		}
	}
	if len(vs) == 0 {
		outcomes[fmt.Sprintf("history judged, all checks passed: %s store, %s", w.kind, phase)]++
	}
	return vs
}

type histCase struct {
	Kind  string   `json:"kind"`
	Store string   `json:"store"`
	Ops   []string `json:"ops"`
}

var scratchSeq struct {
	sync.Mutex
	n int
}

func scratchDir() string {
	scratchSeq.Lock()
	scratchSeq.n++
	n := scratchSeq.n
	scratchSeq.Unlock()
	return filepath.Join(hx.Scratch(), fmt.Sprintf("c19-%d-%d", os.Getpid(), n))
}

// runHistory replays ops on a fresh store of the kind and judges the final state.
func runHistory(kind string, ops []string, few bool) (vs []viol, outcomes map[string]int, evals int, nsig, nother int, infra error) {
	outcomes = map[string]int{}
	// "<store>+observed": the same history with every subject listed and every signature fetched on the SAME
	// repository value before the first and after every operation (list - push - list ...), not only at the end
	observed := strings.HasSuffix(kind, "+observed")
	label := kind
	kind = strings.TrimSuffix(kind, "+observed")
	dir := ""
	onDisk := kind == "disk" || kind == "nested"
	if onDisk {
		dir = scratchDir()
	}
	w, err := newWorld(kind, dir)
	if err != nil {
		if dir != "" {
			_ = os.RemoveAll(dir)
		}
		return nil, outcomes, 0, 0, 0, err
	}
	defer w.close()
	w.few = few || observed
	w.kind = label
	seen := map[string]bool{}
	merge := func(more []viol) {
		for _, v := range more {
			if !seen[v.key] {
				seen[v.key] = true
				vs = append(vs, v)
			}
		}
	}
	for step, op := range ops {
		if observed {
			merge(w.check(w.repo, w.target, "live", outcomes))
		}
		v, err := w.apply(step, op)
		if err != nil {
			return nil, outcomes, w.evals, 0, 0, fmt.Errorf("step %d %s: %w", step, op, err)
		}
		if v != nil {
			return []viol{*v}, outcomes, w.evals, 0, 0, nil
		}
	}
	for i := range w.recs {
		if isSig(w.recs[i].Class) {
			nsig++
		} else {
			nother++
		}
	}
	for k, n := range w.notes {
		outcomes[k] += n
	}
	merge(w.check(w.repo, w.target, "live", outcomes))
	if onDisk {
		repo2, err := registry.NewOCIRepository(dir, registry.RepositoryOptions{})
		if err != nil {
			// oras-go refuses to load a layout that holds a referrer whose subject names an existing
			// digest with another size (index loading verifies the size); nothing can be listed then.
			// Not judged: the statement speaks about listings, and the refusal is oras-go's.
			has := false
			for _, op := range ops {
				if op == "foreign:notation@s1prime-size" {
					has = true
				}
			}
			if !has {
				return vs, outcomes, w.evals, nsig, nother, fmt.Errorf("re-open failed: %w", err)
			}
			outcomes["disk/reopened: layout refused by oras-go on open (holds a referrer whose subject has S1's digest and another size) (not judged)"]++
		} else {
			t2, ok := repo2.(oras.GraphTarget)
			if !ok { // raw reads underneath the API through a store opened by the harness
				st, err := oci.New(dir)
				if err != nil {
					return vs, outcomes, w.evals, nsig, nother, fmt.Errorf("re-open for raw reads failed: %w", err)
				}
				t2 = st
			}
			merge(w.check(repo2, t2, "reopened", outcomes))
		}
	}
	return vs, outcomes, w.evals, nsig, nother, nil
}

func canon(ops []string) string {
	cnt := make([]int, len(alphabetRetry))
	for _, op := range ops {
		for i, a := range alphabetRetry {
			if a == op {
				cnt[i]++
			}
		}
	}
	var sb strings.Builder
	for _, c := range cnt {
		sb.WriteString(strconv.Itoa(c))
		sb.WriteByte(',')
	}
	return sb.String()
}

type pend struct {
	idx  int
	v    viol
	repl any
}

type collector struct {
	mu      sync.Mutex
	pending []pend
}

func (c *collector) add(idx int, v viol, repl any) {
	c.mu.Lock()
	c.pending = append(c.pending, pend{idx, v, repl})
	c.mu.Unlock()
}

// flush reports in case order, so the replay file of a key is the first (shortest) failing case.
func (c *collector) flush(r *hx.Run) {
	c.mu.Lock()
	defer c.mu.Unlock()
	sort.SliceStable(c.pending, func(i, j int) bool { return c.pending[i].idx < c.pending[j].idx })
	for _, p := range c.pending {
		r.Violation(p.v.key, p.v.what, p.repl)
	}
	c.pending = nil
}

func decode(i, length int) []string {
	ops := make([]string, length)
	for k := length - 1; k >= 0; k-- {
		ops[k] = alphabet[i%len(alphabet)]
		i /= len(alphabet)
	}
	return ops
}

func pow(b, e int) int {
	p := 1
	for ; e > 0; e-- {
		p *= b
	}
	return p
}

var (
	statesMu sync.Mutex
	states   = map[string]struct{}{}
	outMu    sync.Mutex
	outAgg   = map[string]int{}
)

func mergeOutcomes(m map[string]int) {
	outMu.Lock()
	for k, v := range m {
		outAgg[k] += v
	}
	outMu.Unlock()
}

// flushOutcomes hands the aggregated histogram to the run (hx counts one observation per call).
func flushOutcomes(r *hx.Run) {
	outMu.Lock()
	defer outMu.Unlock()
	keys := make([]string, 0, len(outAgg))
	for k := range outAgg {
		keys = append(keys, k)
	}
	sort.Strings(keys)
	for _, k := range keys {
		for n := outAgg[k]; n > 0; n-- {
			r.Outcome(k)
		}
	}
	outAgg = map[string]int{}
}

// frontierHistories: beyond the all-orders bound. Every count vector in {0,1,2}^11 (0, 1 or 2
// manifests of each operation kind) with lo <= total <= hi operations, each in two orders
// (kind by kind in alphabet order; round-robin in reverse alphabet order).
func frontierHistories(lo, hi int) [][]string {
	var out [][]string
	cnt := make([]int, len(alphabet))
	var rec func(k, total int)
	rec = func(k, total int) {
		if k == len(alphabet) {
			if total < lo {
				return
			}
			var a, b []string
			for i, c := range cnt {
				for j := 0; j < c; j++ {
					a = append(a, alphabet[i])
				}
			}
			for round := 1; round <= 2; round++ {
				for i := len(alphabet) - 1; i >= 0; i-- {
					if cnt[i] >= round {
						b = append(b, alphabet[i])
					}
				}
			}
			out = append(out, a, b)
			return
		}
		for c := 0; c <= 2 && total+c <= hi; c++ {
			cnt[k] = c
			rec(k+1, total+c)
		}
		cnt[k] = 0
	}
	rec(0, 0)
	return out
}

// retryHistories: every sequence of length <= depth over the 14 operations that contains a push-again.
func retryHistories(depth int) [][]string {
	var out [][]string
	var rec func(h []string, has bool)
	rec = func(h []string, has bool) {
		if has {
			out = append(out, append([]string(nil), h...))
		}
		if len(h) == depth {
			return
		}
		for _, a := range alphabetRetry {
			rec(append(h, a), has || strings.HasPrefix(a, "push-again:"))
		}
	}
	rec(nil, false)
	return out
}

// pileHistories: many signatures on ONE artifact (what a listing does may depend on how many there are):
// for every subject, 1..n pushes in a row, formats alternating. Some steps push annotations that oras-go
// refuses, so the numbers of stored signatures reached are 1..about 2n/3, every one of them.
func pileHistories(n int) [][]string {
	var out [][]string
	for si := 1; si <= 3; si++ {
		var h []string
		for k := 0; k < n; k++ {
			h = append(h, fmt.Sprintf("push:%d:%s", si, []string{"jws", "cose"}[k%2]))
			out = append(out, append([]string(nil), h...))
		}
	}
	return out
}

func explorePiles(r *hx.Run, kind string, n int) {
	exploreLevels(r, kind+"#piles", -1, pileHistories(n))
	r.Extra["piles_"+kind] = fmt.Sprintf("for each subject, 1..%d pushes in a row on that one subject", n)
}

func exploreRetry(r *hx.Run, kind string, depth int) {
	exploreLevels(r, kind+"#retry", -1, retryHistories(depth))
	r.Extra["retry_"+kind] = fmt.Sprintf("every sequence of length <= %d over the 11 operations + push-invalid (fails after the blob was stored) + 2 push-again (envelope bytes already in the layout) that contains a push-again", depth)
}

func explore(r *hx.Run, kind string, depth int) {
	exploreLevels(r, kind, depth, nil)
}

func exploreFrontier(r *hx.Run, kind string, lo, hi int) {
	exploreLevels(r, kind+"#frontier", -1, frontierHistories(lo, hi))
	r.Extra["frontier_"+kind] = fmt.Sprintf("every combination of 0, 1 or 2 manifests of each of the 11 operation kinds with %d..%d operations in total, two orders each (not all orders)", lo, hi)
}

func exploreLevels(r *hx.Run, label string, depth int, fixed [][]string) {
	kind := label
	if i := strings.IndexByte(label, '#'); i >= 0 {
		kind = label[:i]
	}
	col := &collector{}
	var okControls, sequences int64
	var cmu sync.Mutex
	levels := depth
	if fixed != nil {
		levels = 0
	}
	for length := 0; length <= levels; length++ {
		n := pow(len(alphabet), length)
		if fixed != nil {
			n = len(fixed)
		}
		var skipped atomic.Int64
		r.Parallel(n, func(i int) {
			if r.Expired() {
				skipped.Add(1)
				return
			}
			var ops []string
			if fixed != nil {
				ops = fixed[i]
			} else {
				ops = decode(i, length)
			}
			vs, outcomes, evals, nsig, nother, infra := runHistory(kind, ops, fixed != nil)
			r.Eval(evals)
			r.Transition(1)
			if infra != nil {
				r.Infra("%s %v: %v", kind, ops, infra)
				return
			}
			cn := canon(ops)
			statesMu.Lock()
			states[kind+"|"+cn] = struct{}{}
			statesMu.Unlock()
			for _, v := range vs {
				col.add(i, v, histCase{"history", kind, ops})
			}
			mergeOutcomes(outcomes)
			cmu.Lock()
			sequences++
			if len(vs) == 0 && nsig > 0 {
				okControls++
			}
			cmu.Unlock()
			if nsig > 0 && (nother > 0 || nsig > 1) {
				r.Nontrivial(kind + "|" + cn)
			}
			if (length == depth || fixed != nil) && i%(n/3+1) == n/7 {
				r.Sample(map[string]any{"store": kind, "history": ops, "signatures": nsig, "other_manifests": nother, "violations": len(vs)})
			}
		}, func(i int, v any, stack string) {
			ops := []string(nil)
			if fixed != nil {
				ops = fixed[i]
			} else {
				ops = decode(i, length)
			}
			col.add(i, viol{"history/panic", fmt.Sprintf("[%s store] panic: %v\n%s", kind, v, stack)}, histCase{"history", kind, ops})
		})
		col.flush(r)
		if k := skipped.Load(); k > 0 {
			r.Capped(fmt.Sprintf("%s: internal deadline, %d of %d histories of level %d not run", label, k, n, length))
		}
	}
	r.Extra["sequences_"+label] = sequences
	if fixed == nil {
		r.Extra["depth_all_orders_"+label] = depth
	}
	r.Extra["histories_with_signatures_all_checks_passed_"+label] = okControls
	if okControls == 0 && r.Violations() == 0 && !r.Expired() {
		r.Infra("%s: no history with a signature passed all checks (positive control)", label)
	}
}

// ---------------------------------------------------------------------------
// E3: hostile manifests

type hostileCase struct {
	Kind         string `json:"kind"`
	Store        string `json:"store"`
	Name         string `json:"name"`
	Format       string `json:"format"` // image | legacy | index
	NBlobs       int    `json:"nblobs"`
	DeclManifest string `json:"declared_manifest_size"`    // true | over
	DeclBlob     string `json:"declared_blob_size"`        // true | over
	Real         string `json:"real,omitempty"`            // big-manifest | big-blob | cap-manifest | cap-blob
	Special      string `json:"special,omitempty"`         // no-subject-layer-is-s1 | subject-s2-layer-is-s1
	BlobMT       string `json:"blob_media_type,omitempty"` // media type the blobs declare; "" = JWS
	// Entries, when set, spells out the layers/blobs list entry by entry (kinds of entryKinds, in list order)
	Entries []string `json:"entries,omitempty"`
	// ListForm, for a manifest without blobs: how the empty layers/blobs list is written (absent | null | empty)
	ListForm string `json:"list_form,omitempty"`
}

const (
	mtOCIEmpty   = "application/vnd.oci.empty.v1+json" // OCI image-spec v1.1 "empty descriptor": this media type, the digest of "{}", size 2
	mtImageLayer = "application/vnd.oci.image.layer.v1.tar"
)

// entryKinds: what an entry of a hostile manifest's layers/blobs list may be, next to one ordinary JWS envelope
// ("envelope"). Hand-written labels:
//   - judged: the entry is a blob of its own, so a list of the envelope and such an entry does not carry
//     exactly one blob (the referrer must be refused);
//   - ordinary: the entry's bytes are stored, non-empty and shared with nothing else in the store, so "its
//     content was read completely before the refusal" can be told from the read log by digest.
//
// The two kinds that name the ENVELOPE'S OWN bytes a second time are not judged: "does not carry exactly one
// blob" can be read per entry or per blob there.
var entryKinds = []struct {
	name             string
	judged, ordinary bool
}{
	{"envelope-cose", true, true},           // a second envelope, of the other envelope media type
	{"other-media-type", true, true},        // application/octet-stream next to the JWS envelope (mixed media types)
	{"image-layer", true, true},             // an image layer tar next to the envelope
	{"oci-empty", true, false},              // the OCI v1.1 empty descriptor (its bytes "{}" are in every layout that holds a signature: the config)
	{"oci-empty-inline-data", true, false},  // the same with the content inlined in the descriptor's data field
	{"config-again", true, false},           // the manifest's own config descriptor listed as a layer/blob
	{"zero-length", true, false},            // a stored blob of 0 bytes
	{"subject-itself", true, false},         // the subject manifest S1 listed as a layer/blob
	{"absent-from-store", true, false},      // a descriptor whose content is not in the store
	{"annotated-placeholder", true, true},   // an ordinary stored blob whose descriptor carries annotations calling it a placeholder
	{"same-entry-again", false, false},      // the envelope's descriptor a second time (not judged)
	{"same-bytes-other-type", false, false}, // the envelope's digest and size under the other envelope media type (not judged)
}

func entryKind(name string) (judged, ordinary, ok bool) {
	if name == "envelope" {
		return true, true, true
	}
	for _, k := range entryKinds {
		if k.name == name {
			return k.judged, k.ordinary, true
		}
	}
	return false, false, false
}

// media types a hostile blob may declare besides the two envelope types
var otherBlobTypes = []struct{ label, mt string }{
	{"octet-stream", "application/octet-stream"}, {"custom-envelope", "application/vnd.example.envelope+json"}, {"cose-uppercase", "APPLICATION/COSE"},
}

func hostileCases() []hostileCase {
	var cs []hostileCase
	for _, store := range []string{"memory", "disk"} {
		for _, format := range []string{"image", "legacy"} {
			for n := 0; n <= 2; n++ {
				for _, dm := range []string{"true", "over"} {
					for _, db := range []string{"true", "over"} {
						if n == 0 && db == "over" {
							continue
						}
						cs = append(cs, hostileCase{Kind: "hostile", Store: store, Format: format, NBlobs: n, DeclManifest: dm, DeclBlob: db,
							Name: fmt.Sprintf("%s-%dblobs-manifestsize-%s-blobsize-%s", format, n, dm, db)})
					}
				}
			}
		}
		cs = append(cs, hostileCase{Kind: "hostile", Store: store, Format: "index", NBlobs: 0, DeclManifest: "true", DeclBlob: "true", Name: "index-of-notation-type"})
		for _, sp := range []string{"no-subject-layer-is-s1", "subject-s2-layer-is-s1"} {
			cs = append(cs, hostileCase{Kind: "hostile", Store: store, Format: "image", NBlobs: 1, DeclManifest: "true", DeclBlob: "true", Special: sp, Name: sp})
		}
	}
	for _, format := range []string{"image", "legacy"} {
		for _, real := range []string{"big-manifest", "cap-manifest", "big-blob", "cap-blob"} {
			cs = append(cs, hostileCase{Kind: "hostile", Store: "memory", Format: format, NBlobs: 1, DeclManifest: "true", DeclBlob: "true", Real: real, Name: format + "-real-" + real})
		}
	}
	// the blob declares another media type than JWS: the caps and the blob count do not depend on it
	for ti, t := range otherBlobTypes {
		for _, format := range []string{"image", "legacy"} {
			for _, db := range []string{"true", "over"} {
				for _, n := range []int{1, 2} {
					if n == 2 && db == "over" {
						continue
					}
					cs = append(cs, hostileCase{Kind: "hostile", Store: "memory", Format: format, NBlobs: n, DeclManifest: "true", DeclBlob: db, BlobMT: t.mt,
						Name: fmt.Sprintf("%s-%dblobs-blobsize-%s-blobtype-%s", format, n, db, t.label)})
				}
			}
			if (ti+len(format))%2 == 0 || format == "image" && ti == 0 { // really oversized blobs are costly: a covering subset
				cs = append(cs, hostileCase{Kind: "hostile", Store: "memory", Format: format, NBlobs: 1, DeclManifest: "true", DeclBlob: "true", Real: "big-blob", BlobMT: t.mt,
					Name: format + "-real-big-blob-blobtype-" + t.label})
			}
		}
	}
	// the composition of the blob list: the envelope and one entry of every kind, in both positions, in both
	// manifest formats, on both stores; three entries (kind, envelope, kind) on the memory store
	for _, store := range []string{"memory", "disk"} {
		for _, format := range []string{"image", "legacy"} {
			for _, k := range entryKinds {
				lists := [][]string{{"envelope", k.name}, {k.name, "envelope"}}
				if store == "memory" {
					lists = append(lists, []string{k.name, "envelope", k.name})
				}
				for _, es := range lists {
					cs = append(cs, hostileCase{Kind: "hostile", Store: store, Format: format, NBlobs: len(es), DeclManifest: "true", DeclBlob: "true", Entries: es,
						Name: format + "-entries-" + strings.Join(es, "+")})
				}
			}
		}
	}
	// no blob at all, the empty list written in the other ways (the cases above write layers:[] and omit blobs)
	for _, f := range []struct{ format, form string }{{"image", "null"}, {"image", "absent"}, {"legacy", "null"}, {"legacy", "empty"}} {
		cs = append(cs, hostileCase{Kind: "hostile", Store: "memory", Format: f.format, NBlobs: 0, DeclManifest: "true", DeclBlob: "true", ListForm: f.form,
			Name: f.format + "-0blobs-list-" + f.form})
	}
	return cs
}

// runHostile returns violations and an outcome class.
func runHostile(c hostileCase) (vs []viol, outcome string, recorded []string, evals int, infra error) {
	add := func(key, format string, a ...any) {
		vs = append(vs, viol{key, fmt.Sprintf("[%s store, %s] ", c.Store, c.Name) + fmt.Sprintf(format, a...)})
	}
	var inner oras.GraphTarget
	switch c.Store {
	case "memory":
		inner = memory.New()
	case "disk":
		dir := scratchDir()
		if err := os.MkdirAll(dir, 0o755); err != nil {
			return nil, "", nil, 0, err
		}
		defer os.RemoveAll(dir)
		st, err := oci.New(dir)
		if err != nil {
			return nil, "", nil, 0, err
		}
		inner = st
	default:
		return nil, "", nil, 0, fmt.Errorf("unknown store %q", c.Store)
	}
	subj, err := pushSubjects(inner)
	if err != nil {
		return nil, "", nil, 0, err
	}
	// blobs
	blobMT := c.BlobMT
	if blobMT == "" {
		blobMT = mtJWS
	}
	var blobs []ocispec.Descriptor
	var blobBytes [][]byte
	var readJudged []bool // per entry: reading its content completely before the refusal can be told from the read log
	oneBlobTwice := false // some entry names the envelope's own bytes a second time: not judged
	if len(c.Entries) > 0 {
		if c.NBlobs != len(c.Entries) {
			return nil, "", nil, 0, fmt.Errorf("case %s: nblobs %d, %d entries", c.Name, c.NBlobs, len(c.Entries))
		}
		envBytes := []byte("hostile-env-0-" + c.Name)
		for k, e := range c.Entries {
			judged, ordinary, ok := entryKind(e)
			if !ok {
				return nil, "", nil, 0, fmt.Errorf("case %s: unknown entry kind %q", c.Name, e)
			}
			if !judged {
				oneBlobTwice = true
			}
			b := []byte(fmt.Sprintf("hostile-entry-%d-%s-%s", k, e, c.Name))
			var d ocispec.Descriptor
			store := true
			switch e {
			case "envelope":
				b = envBytes
				d = descOf(mtJWS, b)
			case "envelope-cose":
				d = descOf(mtCOSE, b)
			case "other-media-type":
				d = descOf("application/octet-stream", b)
			case "image-layer":
				d = descOf(mtImageLayer, b)
			case "oci-empty":
				b = emptyConfig
				d = descOf(mtOCIEmpty, b)
			case "oci-empty-inline-data":
				b = emptyConfig
				d = descOf(mtOCIEmpty, b)
				d.Data = b
			case "config-again":
				b = emptyConfig
				d = descOf(typeNotation, b)
			case "zero-length":
				b = []byte{}
				d = descOf(mtJWS, b)
			case "subject-itself":
				b, store = nil, false
				d = subj[0]
			case "absent-from-store":
				store = false
				d = descOf(mtJWS, b)
			case "annotated-placeholder":
				d = descOf(mtJWS, b)
				d.Annotations = map[string]string{"org.example.placeholder": "true", "org.opencontainers.image.title": "placeholder"}
			case "same-entry-again":
				b = envBytes
				d = descOf(mtJWS, b)
			case "same-bytes-other-type":
				b = envBytes
				d = descOf(mtCOSE, b)
			}
			if store {
				if err := pushRaw(inner, ocispec.Descriptor{MediaType: d.MediaType, Digest: d.Digest, Size: d.Size}, b); err != nil {
					return nil, "", nil, 0, err
				}
			}
			blobs = append(blobs, d)
			blobBytes = append(blobBytes, b)
			readJudged = append(readJudged, ordinary)
		}
	}
	for k := 0; k < c.NBlobs && len(c.Entries) == 0; k++ {
		b := []byte(fmt.Sprintf("hostile-env-%d-%s", k, c.Name))
		switch c.Real {
		case "big-blob":
			b = append(b, make([]byte, capBlob+overBy-len(b))...)
		case "cap-blob":
			b = append(b, make([]byte, capBlob-len(b))...)
		}
		d := descOf(blobMT, b)
		if err := pushRaw(inner, d, b); err != nil {
			return nil, "", nil, 0, err
		}
		if c.DeclBlob == "over" {
			d.Size = capBlob + 1
		}
		blobs = append(blobs, d)
		blobBytes = append(blobBytes, b)
		readJudged = append(readJudged, true)
	}
	subject := &subj[0]
	switch c.Special {
	case "no-subject-layer-is-s1":
		subject = nil
		blobs = []ocispec.Descriptor{subj[0]}
	case "subject-s2-layer-is-s1":
		subject = &subj[1]
		blobs = []ocispec.Descriptor{subj[0]}
	}
	build := func(pad int) ([]byte, ocispec.Descriptor, error) {
		var ann map[string]string
		if pad >= 0 {
			ann = map[string]string{"pad": strings.Repeat("p", pad)}
		}
		var mb []byte
		mt := mtImage
		switch c.Format {
		case "image":
			cfg, err := pushNotationConfig(inner, typeNotation)
			if err != nil {
				return nil, ocispec.Descriptor{}, err
			}
			ls := blobs
			if ls == nil {
				ls = []ocispec.Descriptor{}
			}
			mb, _ = json.Marshal(imageManifest{SchemaVersion: 2, MediaType: mtImage, Config: cfg, Layers: ls, Subject: subject, Annotations: ann})
		case "legacy":
			mt = mtLegacy
			mb, _ = json.Marshal(legacyManifest{MediaType: mtLegacy, ArtifactType: typeNotation, Blobs: blobs, Subject: subject, Annotations: ann})
		case "index":
			mt = mtIndex
			mb, _ = json.Marshal(indexManifest{SchemaVersion: 2, MediaType: mtIndex, ArtifactType: typeNotation, Manifests: []ocispec.Descriptor{}, Subject: subject})
		}
		if c.ListForm != "" {
			// the empty list of blobs written another way (object keys come out sorted: deterministic bytes)
			var obj map[string]json.RawMessage
			if err := json.Unmarshal(mb, &obj); err != nil {
				return nil, ocispec.Descriptor{}, err
			}
			key := "layers"
			if c.Format == "legacy" {
				key = "blobs"
			}
			switch c.ListForm {
			case "absent":
				delete(obj, key)
			case "null":
				obj[key] = json.RawMessage("null")
			case "empty":
				obj[key] = json.RawMessage("[]")
			default:
				return nil, ocispec.Descriptor{}, fmt.Errorf("unknown list form %q", c.ListForm)
			}
			mb, _ = json.Marshal(obj)
		}
		return mb, descOf(mt, mb), nil
	}
	pad := -1
	switch c.Real {
	case "big-manifest", "cap-manifest":
		mb, _, err := build(0)
		if err != nil {
			return nil, "", nil, 0, err
		}
		pad = capManifest - len(mb)
		if c.Real == "big-manifest" {
			pad += overBy
		}
	}
	mb, md, err := build(pad)
	if err != nil {
		return nil, "", nil, 0, err
	}
	switch c.Real {
	case "big-manifest":
		if md.Size != capManifest+overBy {
			return nil, "", nil, 0, fmt.Errorf("generator: manifest size %d", md.Size)
		}
	case "cap-manifest":
		if md.Size != capManifest {
			return nil, "", nil, 0, fmt.Errorf("generator: manifest size %d", md.Size)
		}
	}
	if err := pushRaw(inner, md, mb); err != nil {
		return nil, "", nil, 0, err
	}
	if c.Special != "" {
		// a well-formed signature of S1 next to it, so that the listing decodes both manifests
		cb := []byte("companion-env-" + c.Name)
		cd := descOf(mtCOSE, cb)
		cfg, err := pushNotationConfig(inner, typeNotation)
		if err != nil {
			return nil, "", nil, 0, err
		}
		if err := pushRaw(inner, cd, cb); err != nil {
			return nil, "", nil, 0, err
		}
		cm, _ := json.Marshal(imageManifest{SchemaVersion: 2, MediaType: mtImage, Config: cfg, Layers: []ocispec.Descriptor{cd}, Subject: &subj[0], Annotations: map[string]string{"companion": "1"}})
		if err := pushRaw(inner, descOf(mtImage, cm), cm); err != nil {
			return nil, "", nil, 0, err
		}
	}
	hand := md
	if c.DeclManifest == "over" {
		hand.Size = capManifest + 1
	}
	lt := &logTarget{GraphTarget: inner, fetches: map[digest.Digest]int{}, read: map[digest.Digest]int64{}}
	repo := registry.NewRepository(lt)

	manifestOver := c.DeclManifest == "over" || c.Real == "big-manifest"
	mustRefuse := (c.NBlobs != 1 && !oneBlobTwice) || manifestOver || c.DeclBlob == "over" || c.Real == "big-blob" || c.Format == "index"
	atCap := c.Real == "cap-manifest" || c.Real == "cap-blob"

	judgeFetch := func(via string, d ocispec.Descriptor) string {
		lt.reset()
		evals++
		b, bd, err := repo.FetchSignatureBlob(ctx, d)
		k := c.Name
		if via != "direct" {
			k += ":" + via
		}
		switch {
		case mustRefuse:
			// "refused before its content is used": the call fails, and the content of the object that makes
			// the referrer unacceptable (a really oversized manifest or blob; any blob of a referrer without
			// exactly one) has not been read completely. Mere Fetch calls, partial reads (a size-limited
			// reader) and reads of an object whose size is only DECLARED too large are recorded.
			bad := false
			if err == nil {
				add("hostile/accepted:"+k, "FetchSignatureBlob returned %d bytes (%s) for a referrer that must be refused", len(b), bd.MediaType)
				bad = true
			}
			for bi, bl := range blobs {
				n, real := lt.bytesRead(bl.Digest), int64(len(blobBytes[bi]))
				switch {
				case n >= real && readJudged[bi] && (c.NBlobs != 1 || c.Real == "big-blob"):
					add("hostile/blob-read-before-refusal:"+k, "blob %s (declared %d bytes, real %d) was read completely (%d bytes, %d fetches); result error: %v", bl.Digest, bl.Size, real, n, lt.count(bl.Digest), err)
					bad = true
				case n > 0 || lt.count(bl.Digest) > 0:
					recorded = append(recorded, "recorded:hostile/blob-fetched-or-partly-read-before-refusal")
				}
				if bad {
					break
				}
			}
			if manifestOver {
				n := lt.bytesRead(md.Digest)
				switch {
				case n >= md.Size && c.Real == "big-manifest":
					add("hostile/manifest-read-before-refusal:"+k, "manifest %s (real %d bytes) was read completely (%d bytes); result error: %v", md.Digest, md.Size, n, err)
					bad = true
				case n > 0 || lt.count(md.Digest) > 0:
					recorded = append(recorded, "recorded:hostile/manifest-fetched-or-partly-read-before-refusal")
				}
			}
			if bad {
				return "hostile: not refused in time"
			}
			return "hostile: refused before the content was used"
		case c.Special != "":
			return "hostile: special (fetch not judged)"
		case oneBlobTwice:
			// the list has two or three entries and they name one blob: whether that is "exactly one blob" is not
			// fixed by the statement
			if err != nil {
				return "hostile: entries that name the envelope's bytes twice: refused (not judged)"
			}
			return "hostile: entries that name the envelope's bytes twice: served (not judged)"
		case atCap:
			if err != nil {
				return "hostile: exactly at the cap refused (not judged)"
			}
			return "hostile: exactly at the cap accepted (not judged)"
		default: // positive control: a well-formed hand-written Notation manifest round-trips
			switch {
			case err != nil && c.BlobMT != "":
				// whether a blob of another media type than the envelope types is served is not fixed by the statement
				recorded = append(recorded, "recorded:fetch/error:hand-written-blob-of-another-media-type")
				return "hostile: control with another blob media type refused (not judged)"
			case err != nil && c.Format == "legacy":
				// a legacy artifact manifest is a foreign referrer in the quantifier: support for it is recorded
				recorded = append(recorded, "recorded:fetch/error:hand-written-legacy")
				return "hostile: legacy control refused (not judged)"
			case err != nil:
				add("fetch/error:hand-written-"+c.Format, "FetchSignatureBlob of a well-formed %s Notation manifest failed: %v", c.Format, err)
			case !bytes.Equal(b, blobBytes[0]):
				add("fetch/bytes-differ", "hand-written %s manifest: %d bytes returned, %d stored", c.Format, len(b), len(blobBytes[0]))
			case bd.MediaType != blobMT:
				add("fetch/media-type-differs", "hand-written %s manifest: media type %q, stored %q", c.Format, bd.MediaType, blobMT)
			default:
				return "hostile: control accepted with identical bytes"
			}
			return "hostile: control failed"
		}
	}
	outcome = judgeFetch("direct", hand)

	// through the listing
	lt.reset()
	evals++
	listed, lerr := listAll(repo, subj[0])
	if c.Real == "big-manifest" {
		if n := lt.bytesRead(md.Digest); n >= md.Size {
			add("hostile/manifest-read-before-refusal:"+c.Name+":listing", "ListSignatures read the %d byte manifest completely (%d bytes; error: %v)", md.Size, n, lerr)
		} else if lt.count(md.Digest) > 0 {
			recorded = append(recorded, "recorded:hostile/manifest-fetched-or-partly-read-before-refusal")
		}
	}
	found := false
	for _, d := range listed {
		if d.Digest == md.Digest {
			found = true
		}
	}
	switch {
	case c.Special != "":
		// a Notation manifest that points at S1 by a layer edge only must not be listed for S1
		if found {
			key := "list/other-subject-listed:"
			if c.Special == "no-subject-layer-is-s1" {
				key = "list/no-subject-listed:"
			}
			add(key+c.Name, "listing S1 yields %s (%s)", md.Digest, c.Name)
		}
	case c.Format == "index":
		// whether an image index of the Notation type is listed is not fixed by the statement
	case oneBlobTwice && !found:
		// not judged (see judgeFetch)
	case c.Real == "big-manifest":
		if found && lerr == nil {
			add("hostile/accepted:"+c.Name+":listing", "ListSignatures yields the %d byte manifest", md.Size)
		}
	case c.DeclManifest != "true":
		// the declared manifest size is a property of the hand-made descriptor only
	case found && lerr == nil:
		o2 := judgeFetch("listed", md2(listed, md.Digest))
		if o2 != outcome {
			outcome += " / listed: " + strings.TrimPrefix(o2, "hostile: ")
		}
	case !mustRefuse && !atCap && c.BlobMT != "":
		recorded = append(recorded, "recorded:list/manifest-with-blob-of-another-media-type-not-listed")
	case !mustRefuse && !atCap && c.Format == "legacy":
		recorded = append(recorded, "recorded:list/legacy-notation-artifact-manifest-not-listed")
	case !mustRefuse && !atCap:
		add("list/pushed-signature-not-listed:hand-written-"+c.Format, "listing S1 lacks the well-formed %s Notation manifest (error: %v)", c.Format, lerr)
	}
	return vs, outcome, recorded, evals, nil
}

func md2(list []ocispec.Descriptor, dg digest.Digest) ocispec.Descriptor {
	for _, d := range list {
		if d.Digest == dg {
			return d
		}
	}
	return ocispec.Descriptor{}
}

func exploreHostile(r *hx.Run) {
	cs := hostileCases()
	col := &collector{}
	var mu sync.Mutex
	controls, refused := 0, 0
	r.Parallel(len(cs), func(i int) {
		vs, outcome, recorded, evals, infra := runHostile(cs[i])
		r.Eval(evals)
		if infra != nil {
			r.Infra("hostile %s/%s: %v", cs[i].Store, cs[i].Name, infra)
			return
		}
		for _, v := range vs {
			col.add(i, v, cs[i])
		}
		r.Outcome(outcome)
		for _, k := range recorded {
			r.Outcome(k)
		}
		r.Nontrivial("hostile|" + cs[i].Store + "|" + cs[i].Name)
		mu.Lock()
		if strings.Contains(outcome, "control accepted") {
			controls++
		}
		if strings.HasPrefix(outcome, "hostile: refused before the content was used") {
			refused++
		}
		mu.Unlock()
		if i%11 == 3 {
			r.Sample(map[string]any{"hostile": cs[i], "outcome": outcome})
		}
	}, func(i int, v any, stack string) {
		col.add(i, viol{"hostile/panic:" + cs[i].Name, fmt.Sprintf("panic: %v\n%s", v, stack)}, cs[i])
	})
	col.flush(r)
	r.Extra["hostile_cases"] = len(cs)
	nEntries, nForms := 0, 0
	var kinds []string
	for _, k := range entryKinds {
		kinds = append(kinds, k.name)
	}
	for _, c := range cs {
		if len(c.Entries) > 0 {
			nEntries++
		}
		if c.ListForm != "" {
			nForms++
		}
	}
	r.Extra["hostile_entry_kinds"] = kinds
	r.Extra["hostile_blob_list_composition_cases"] = nEntries
	r.Extra["hostile_empty_list_form_cases"] = nForms
	r.Extra["hostile_controls_accepted"] = controls
	r.Extra["hostile_refused_before_fetch"] = refused
	if controls == 0 && r.Violations() == 0 {
		r.Infra("hostile part: no well-formed control was accepted")
	}
}

// ---------------------------------------------------------------------------

func replay(r *hx.Run) {
	var probe struct {
		Kind string `json:"kind"`
	}
	if err := r.LoadReplay(&probe); err != nil {
		r.Infra("replay: %v", err)
		return
	}
	switch probe.Kind {
	case "history":
		var c histCase
		_ = r.LoadReplay(&c)
		vs, outcomes, evals, _, _, infra := runHistory(c.Store, c.Ops, false)
		r.Eval(evals)
		if infra != nil {
			r.Infra("replay: %v", infra)
			return
		}
		mergeOutcomes(outcomes)
		for _, v := range vs {
			r.Violation(v.key, v.what, c)
		}
		flushOutcomes(r)
		if len(vs) == 0 {
			fmt.Println("replay: holds")
		}
	case "hostile":
		var c hostileCase
		_ = r.LoadReplay(&c)
		vs, outcome, recorded, evals, infra := runHostile(c)
		r.Eval(evals)
		if infra != nil {
			r.Infra("replay: %v", infra)
			return
		}
		r.Outcome(outcome)
		for _, k := range recorded {
			r.Outcome(k)
		}
		for _, v := range vs {
			r.Violation(v.key, v.what, c)
		}
		if len(vs) == 0 {
			fmt.Println("replay: holds")
		}
	default:
		r.Infra("replay: unknown case kind %q", probe.Kind)
	}
}

func main() {
	r := hx.New("C19")
	r.Rule = "every sequence of length 0..d over the 11 operations is replayed on a fresh real store and judged in its final state (so every state after every operation is judged once per history reaching it); canonical state = count per operation kind (the multiset of manifests per subject; exact for content-addressed stores, whose content does not depend on the push order - confirmed by running all orders up to depth d); the same histories to a smaller depth are run observed (full check on the same repository value before the first and after every operation: list - push - list); beyond d (frontier): every combination of 0, 1 or 2 manifests per operation kind up to 12 operations (quick: 6) in two fixed orders, which is NOT all orders; non-trivial = distinct (store kind, canonical state) with at least one signature and at least one other manifest or second signature, plus every hostile manifest case; hostile manifests (E3) = blob count 0/1/2 x declared manifest size x declared blob size x format x store, really oversized objects, blobs of other media types, and the COMPOSITION of the blob list: one JWS envelope together with one entry of every kind of entry_kinds (a second envelope of the other type, octet-stream, image layer, the OCI v1.1 empty descriptor with and without inline data, the manifest's own config, a zero-length blob, the subject itself, a descriptor of content absent from the store, an ordinary blob annotated as a placeholder) before and after the envelope in image and legacy manifests on the memory and the disk store, lists of three (kind, envelope, kind), and the empty list written as [] / null / absent: every such referrer with two or more distinct blobs or none must be refused by FetchSignatureBlob (handed the descriptor directly and as listed) without an ordinary entry's content having been read completely"
	r.Assumptions = []string{
		"envelopes are opaque distinct byte strings (the registry layer does not parse them)",
		"size caps 4 MiB (manifest) and 32 MiB (blob) are written into the harness from repository.go",
		"the manifest creation time annotation added by oras-go is not judged; pushed annotations must be contained in the stored manifest's annotations",
		"listing a descriptor that shares only fields with S1 (S1') is judged only for not yielding S1's manifests",
		"store kind 'loose' = oras memory store behind a GraphTarget whose Predecessors answers by digest only",
		"store kind 'paged' = oras memory store behind a GraphTarget that offers the referrers API itself (oras-go's registry.Referrers) and delivers one descriptor per callback page",
		"a listed descriptor's annotations may be absent; when present they must equal the stored manifest's annotations exactly",
		"a push whose creation time annotation is hand-labelled 'not RFC 3339' may be refused (oras-go refuses to pack it): recorded, not judged; if accepted, the value must round-trip like every other",
		"descriptors with equal media type, digest and size denote the same artifact: listing by any of them (other annotations, urls, artifact type, platform, data; Resolve by tag / by digest) must yield the same signatures",
		"a layout that oras-go refuses to open (referrer whose subject has a real digest and a wrong size) is recorded, not judged",
		"'carries exactly one blob' is counted over the entries of layers/blobs whatever an entry is (placeholder, config, empty, absent, foreign media type): hand-labelled per entry kind; a list whose entries all name the envelope's own bytes (same descriptor again, same digest under the other envelope media type) is recorded, not judged",
		"reads before a refusal are judged only for entries whose bytes are stored, non-empty and shared with no other object of the store (the read log is by digest; '{}' is also the config, the subject is also listed)",
	}
	if r.Replay != "" {
		replay(r)
		r.Finish()
	}
	dMem, dLoose, dDisk, dPaged := 3, 2, 3, 2
	fLo, fHi := 4, 6
	if r.Thorough() {
		dMem, dLoose, dDisk, dPaged = 5, 4, 4, 3
		fLo, fHi = 6, 12
	}
	r.Extra["alphabet"] = alphabet
	if r.Thorough() {
		r.SetDeadline(8 * time.Minute)
	} else {
		r.SetDeadline(40 * time.Second)
	}
	exploreHostile(r)
	explore(r, "memory", dMem)
	explore(r, "loose", dLoose)
	explore(r, "paged", dPaged)
	dObs := 0
	if r.Thorough() {
		dObs = 1
	}
	explore(r, "memory+observed", 3+dObs)
	explore(r, "disk+observed", 2+dObs)
	explore(r, "loose+observed", 2+dObs)
	explore(r, "paged+observed", 2+dObs)
	explore(r, "disk", dDisk)
	explore(r, "nested", 2+dObs)
	explore(r, "nested+observed", 2)
	for _, k := range []string{"memory", "disk", "nested", "loose", "paged"} {
		explorePiles(r, k, 21)
	}
	exploreRetry(r, "memory", 3+dObs)
	exploreRetry(r, "disk", 3)
	exploreRetry(r, "disk+observed", 2+dObs)
	exploreFrontier(r, "memory", fLo, fHi)
	if r.Thorough() {
		exploreFrontier(r, "disk", 5, 7)
	}
	flushOutcomes(r)
	statesMu.Lock()
	r.State(len(states))
	statesMu.Unlock()
	r.Finish()
}
