package main

// Hand-labelled component alphabets. Every label is written by hand from the
// property statement ("supported version", "a known level", "known type,
// file-name-safe name", "x509.subject identities parse, contain C, ST and O",
// "a valid repository path", ...). Only clear-cut members are listed. The
// reference validator looks strings up here and never parses them.

import (
	"fmt"

	"github.com/notaryproject/notation-go/zzverif/lib/hx"
)

// Bad == "" means valid; otherwise the name of the violated rule variant.

type verMember struct{ V, Bad string }

var verAlphabet = []verMember{
	{"1.0", ""},
	{"", "empty"},
	{"2.0", "unsupported"},
	{"1.1", "unsupported"},
	{"1", "unsupported"},
	{"v1.0", "unsupported"},
}

type levelMember struct {
	V, Bad string
	Skip   bool
}

var levelAlphabet = []levelMember{
	{"strict", "", false},
	{"permissive", "", false},
	{"audit", "", false},
	{"skip", "", true},
	{"", "empty", false},
	{"Strict", "unknown", false},
	{"paranoid", "unknown", false},
	{"custom", "unknown", false}, // the name GetVerificationLevel gives to overridden levels is not a level of the policy language
	{"SKIP", "unknown", false},
}

type vtsMember struct{ V, Bad string }

var vtsAlphabet = []vtsMember{
	{"", ""}, // unset
	{"always", ""},
	{"afterCertExpiry", ""},
	{"Always", "unknown"},
	{"never", "unknown"},
	{"aftercertexpiry", "unknown"},
}

type ovTypeMember struct {
	V                            string
	Known, Integrity, Revocation bool
}

var ovTypeAlphabet = []ovTypeMember{
	{"integrity", true, true, false},
	{"authenticity", true, false, false},
	{"authenticTimestamp", true, false, false},
	{"expiry", true, false, false},
	{"revocation", true, false, true},
	{"Revocation", false, false, false},
	{"signature", false, false, false},
	{"", false, false, false},
}

type ovActionMember struct {
	V           string
	Known, Skip bool
}

var ovActionAlphabet = []ovActionMember{
	{"enforce", true, false},
	{"log", true, false},
	{"skip", true, true},
	{"Skip", false, false},
	{"warn", false, false},
	{"", false, false},
}

type storeMember struct{ V, Bad string }

var storeAlphabet = []storeMember{
	{"ca:a", ""},
	{"tsa:t", ""},
	{"signingAuthority:s.1_x-", ""},
	{"ca:A-b_c.9", ""},
	{"a", "no-separator"},
	{"", "no-separator"},
	{"x509:a", "type-unknown"},
	{"CA:a", "type-unknown"},
	{":a", "type-unknown"},
	{" ca:a", "type-unknown"},
	{"ca:", "name-empty"},
	{"ca:a/b", "name-unsafe"},
	{"ca:../x", "name-unsafe"},
	{"ca:a\\b", "name-unsafe"},
	{"ca:a b", "name-blank"}, // unstated: a blank is a legal file-name character everywhere
	// everything after the FIRST ':' is the store name: a second ':' is not a file-name-safe character
	{"ca:a:b", "name-unsafe"},
	{"ca:a:../../x", "name-unsafe"},
	{"tsa:t:", "name-unsafe"},
	{"ca:a\n", "name-unsafe"},
	{"ca:a\x00", "name-unsafe"},
	{"ca:\u00e4", "name-non-ascii"},           // unstated: a letter outside ASCII
	{"ca:v\u0430lid-store", "name-non-ascii"}, // Cyrillic homoglyph of "valid-store": a legal, separator-free file name everywhere
	{"tsa:store-\u0661", "name-non-ascii"},    // a decimal digit outside ASCII
	{"ca:.", "name-dot"},
	{"ca:..", "name-dot"},
	{"tsa:..", "name-dot"},
}

const (
	idWild = iota
	idX509
	idOther
	idBad
)

type idLabel struct {
	V        string
	Tag      string // short stable name used in operator names
	Kind     int
	Bad      string
	Attrs    [][2]string // x509.subject: the attribute set, written by hand (S is stateOrProvince = ST)
	SVariant string      // the same identity written with S instead of ST
	Alt      string      // non-empty: another spelling of a DN of the alphabet (unstated whether/how it is read)
}

const (
	dnA     = "x509.subject:C=US,ST=WA,O=acme"
	dnAs    = "x509.subject:C=US,S=WA,O=acme"
	dnAsp   = "x509.subject:C=US, ST=WA, O=acme" // the spelling of the Notary Project specification's examples
	dnAcn   = "x509.subject:C=US,ST=WA,O=acme,CN=build"
	dnAcnS  = "x509.subject:C=US,S=WA,O=acme,CN=build"
	dnAcnR  = "x509.subject:CN=build,O=acme,ST=WA,C=US"
	dnB     = "x509.subject:C=US,ST=CA,O=acme"
	dnBs    = "x509.subject:C=US,S=CA,O=acme"
	dnC     = "x509.subject:C=DE,ST=BY,O=other,OU=dev"
	dnCs    = "x509.subject:C=DE,S=BY,O=other,OU=dev"
	dnCsub  = "x509.subject:C=DE,ST=BY,O=other"
	dnE     = "x509.subject:C=FR,ST=IDF,O=tiers,OU=x,CN=y"
	dnNoST  = "x509.subject:C=US,O=acme"
	dnMulti = "x509.subject:C=US+ST=WA,O=acme"
)

var (
	attrsA   = [][2]string{{"C", "US"}, {"ST", "WA"}, {"O", "acme"}}
	attrsAcn = [][2]string{{"C", "US"}, {"ST", "WA"}, {"O", "acme"}, {"CN", "build"}}
	attrsB   = [][2]string{{"C", "US"}, {"ST", "CA"}, {"O", "acme"}}
	attrsC   = [][2]string{{"C", "DE"}, {"ST", "BY"}, {"O", "other"}, {"OU", "dev"}}
	attrsCs  = [][2]string{{"C", "DE"}, {"ST", "BY"}, {"O", "other"}}
	attrsE   = [][2]string{{"C", "FR"}, {"ST", "IDF"}, {"O", "tiers"}, {"OU", "x"}, {"CN", "y"}}
)

var idAlphabet = []idLabel{
	{V: "*", Tag: "wildcard", Kind: idWild},
	{V: dnA, Tag: "A", Kind: idX509, Attrs: attrsA, SVariant: dnAs},
	{V: dnAs, Tag: "A-with-S", Kind: idX509, Attrs: attrsA, Alt: "S-for-ST"},
	{V: dnAsp, Tag: "A-blank-after-comma", Kind: idX509, Attrs: attrsA, Alt: "blank-after-comma"},
	{V: dnAcn, Tag: "A+CN", Kind: idX509, Attrs: attrsAcn, SVariant: dnAcnS},
	{V: dnAcnS, Tag: "A+CN-with-S", Kind: idX509, Attrs: attrsAcn, Alt: "S-for-ST"},
	{V: dnAcnR, Tag: "A+CN-reordered", Kind: idX509, Attrs: attrsAcn, Alt: "reordered"},
	{V: dnB, Tag: "B", Kind: idX509, Attrs: attrsB, SVariant: dnBs},
	{V: dnBs, Tag: "B-with-S", Kind: idX509, Attrs: attrsB, Alt: "S-for-ST"},
	{V: dnC, Tag: "C", Kind: idX509, Attrs: attrsC, SVariant: dnCs},
	{V: dnCs, Tag: "C-with-S", Kind: idX509, Attrs: attrsC, Alt: "S-for-ST"},
	{V: dnCsub, Tag: "C-without-OU", Kind: idX509, Attrs: attrsCs},
	{V: dnE, Tag: "E", Kind: idX509, Attrs: attrsE},
	{V: "unknown-prefix:x", Tag: "other-prefix", Kind: idOther},
	{V: "email:dev@example.com", Tag: "other-prefix-email", Kind: idOther},
	{V: "", Tag: "empty", Kind: idBad, Bad: "empty"},
	{V: "nocolon", Tag: "nocolon", Kind: idBad, Bad: "no-separator"},
	{V: "x509.subject", Tag: "prefix-only", Kind: idBad, Bad: "no-separator"},
	{V: "x509.subject:", Tag: "no-value", Kind: idBad, Bad: "x509-no-value"},
	{V: "x509.subject:C=US,ST=WA,acme", Tag: "unparseable", Kind: idBad, Bad: "x509-unparseable"},
	{V: "x509.subject:,,,", Tag: "unparseable-commas", Kind: idBad, Bad: "x509-unparseable"},
	{V: "x509.subject:ST=WA,O=acme", Tag: "no-C", Kind: idBad, Bad: "x509-missing-C"},
	{V: dnNoST, Tag: "no-ST", Kind: idBad, Bad: "x509-missing-ST"},
	{V: "x509.subject:C=US,ST=WA", Tag: "no-O", Kind: idBad, Bad: "x509-missing-O"},
	{V: "x509.subject:CN=build", Tag: "only-CN", Kind: idBad, Bad: "x509-missing-C"},
	{V: "x509.subject:C=US,ST=WA,O=acme,O=other", Tag: "duplicate-O", Kind: idBad, Bad: "x509-duplicate-attribute"},
	{V: dnMulti, Tag: "multi-valued", Kind: idBad, Bad: "x509-multi-valued-rdn"},
	{V: "x509.subject:C=US,ST=WA,O=#61636d65", Tag: "hex-value", Kind: idBad, Bad: "x509-hex-value"},
}

type scopeMember struct {
	V    string
	Wild bool
	Bad  string
}

var scopeAlphabet = []scopeMember{
	{"*", true, ""},
	{"reg.io/a", false, ""},
	{"reg.io/a/b", false, ""},
	{"reg.io/b", false, ""},
	{"reg.io:5000/a/b", false, ""},
	{"other.io/lib/app_1.x-y", false, ""},
	{"localhost/x1", false, ""},
	{"zzz.io/z", false, ""},
	{"reg.io", false, "no-repository"},
	{"reg.io/", false, "no-repository"},
	{"/a", false, "no-domain"},
	{"", false, "empty"},
	{"reg.io/A", false, "upper-case-repository"},
	{"reg.io/a/*", false, "star-inside"},
	{"**", false, "star-inside"},
	{"https://reg.io/a", false, "scheme"},
	{"reg.io/a:tag", false, "tag"},
	{"reg.io/a b", false, "blank"},
}

// unstatedRules: labels the reference can produce for which the property statement names NO rule.
// A reasonable implementation may accept or reject such documents without breaking the statement,
// so they are never the reason for a VIOLATION; the code's behaviour on them is recorded.
var unstatedRules = map[string]string{
	"override-type-unknown":             "the statement restricts overrides (not on skip, not integrity, skip only for revocation) but names no 'known type' rule",
	"override-action-unknown":           "no 'known action' rule in the statement",
	"empty-override-map-on-skip":        "an empty override object on a skip statement: no override is present, but its mere presence may be refused",
	"identity:empty":                    "the statement speaks of x509.subject identities and the wildcard only",
	"identity:no-separator":             "the statement speaks of x509.subject identities and the wildcard only",
	"identity:x509-duplicate-attribute": "such a DN parses and contains C, ST and O",
	"identity:x509-multi-valued-rdn":    "such a DN parses and contains C, ST and O",
	"identity:x509-hex-value":           "such a DN parses and contains C, ST and O",
	"identity-alternative-spelling":     "S for ST, other attribute order, blank after the comma: whether they parse and what they overlap with is not stated",
	"identity-wildcard-repeated":        "'*' listed twice: the wildcard has no company other than itself",
	"store:name-blank":                  "'file-name-safe' does not clearly exclude a blank",
	"store:name-non-ascii":              "'file-name-safe' does not clearly exclude letters or digits outside ASCII (legal, separator-free file names on every platform); the statement does not define the safe set",
	"store-repeated":                    "no rule about listing a store twice",
	"no-scopes":                         "the statement has no 'at least one scope' rule",
	"scope-repeated-in-statement":       "the same scope twice inside ONE statement is still used by one statement",
	"name-case-variant":                 "names differing in letter case only: unique as strings",
}

// Scopes composed as <domain>/<repository> from two hand-labelled component alphabets, so that every
// repository rule is exercised under every form of domain (registry host, host:port, single-label host,
// the "local" pseudo domain the library's own message mentions). A scope with a valid domain and an
// invalid repository is invalid for the repository's reason; with a valid repository it is valid.
var scopeDomains = []string{"reg.io", "reg.io:5000", "localhost", "localhost:5000", "local", "registry.local"}

var scopeRepos = []struct{ V, Bad string }{ // OCI distribution: lower-case alphanumerics joined by one of . _ __ -+, components joined by /
	{"my-layout", ""},
	{"a__b", ""},
	{"a.b_c-d", ""},
	{"x/y1", ""},
	{"MyLayout", "upper-case-repository"},
	{"my..layout", "repository-separator-run"},
	{"a___b", "repository-separator-run"},
	{"-a", "repository-leading-separator"},
	{"a_", "repository-trailing-separator"},
	{"...", "repository-separators-only"},
	{"a//b", "repository-empty-component"},
}

var composedValidScopes []string

var (
	verTab    = map[string]verMember{}
	levelTab  = map[string]levelMember{}
	vtsTab    = map[string]vtsMember{}
	ovTypeTab = map[string]ovTypeMember{}
	ovActTab  = map[string]ovActionMember{}
	storeTab  = map[string]storeMember{}
	idTab     = map[string]idLabel{}
	scopeTab  = map[string]scopeMember{}
)

func init() {
	for _, d := range scopeDomains {
		for _, r := range scopeRepos {
			scopeAlphabet = append(scopeAlphabet, scopeMember{d + "/" + r.V, false, r.Bad})
			if r.Bad == "" {
				composedValidScopes = append(composedValidScopes, d+"/"+r.V)
			}
		}
	}
	for _, m := range verAlphabet {
		verTab[m.V] = m
	}
	for _, m := range levelAlphabet {
		levelTab[m.V] = m
	}
	for _, m := range vtsAlphabet {
		vtsTab[m.V] = m
	}
	for _, m := range ovTypeAlphabet {
		ovTypeTab[m.V] = m
	}
	for _, m := range ovActionAlphabet {
		ovActTab[m.V] = m
	}
	for _, m := range storeAlphabet {
		storeTab[m.V] = m
	}
	for _, m := range idAlphabet {
		idTab[m.V] = m
	}
	for _, m := range scopeAlphabet {
		scopeTab[m.V] = m
	}
}

func must[T any](tab map[string]T, what, v string) T {
	m, ok := tab[v]
	if !ok {
		panic(fmt.Sprintf("harness: %s %q has no label", what, v))
	}
	return m
}

func mustVer(v string) verMember           { return must(verTab, "version", v) }
func mustLevel(v string) levelMember       { return must(levelTab, "level", v) }
func mustVTS(v string) vtsMember           { return must(vtsTab, "verifyTimestamp", v) }
func mustOvType(v string) ovTypeMember     { return must(ovTypeTab, "override type", v) }
func mustOvAction(v string) ovActionMember { return must(ovActTab, "override action", v) }
func mustStore(v string) storeMember       { return must(storeTab, "store", v) }
func mustID(v string) idLabel              { return must(idTab, "identity", v) }
func mustScope(v string) scopeMember       { return must(scopeTab, "scope", v) }

// checkTables: the alphabets have no duplicate members and the S variants are labelled consistently.
func checkTables(r *hx.Run) {
	dup := func(what string, n, m int) {
		if n != m {
			r.Infra("harness: %s alphabet has duplicate members", what)
		}
	}
	dup("version", len(verAlphabet), len(verTab))
	dup("level", len(levelAlphabet), len(levelTab))
	dup("verifyTimestamp", len(vtsAlphabet), len(vtsTab))
	dup("override type", len(ovTypeAlphabet), len(ovTypeTab))
	dup("override action", len(ovActionAlphabet), len(ovActTab))
	dup("store", len(storeAlphabet), len(storeTab))
	dup("identity", len(idAlphabet), len(idTab))
	dup("scope", len(scopeAlphabet), len(scopeTab))
	for _, m := range idAlphabet {
		if m.SVariant != "" {
			alt, ok := idTab[m.SVariant]
			if !ok || alt.Kind != idX509 || !attrsSubset(alt.Attrs, m.Attrs) || !attrsSubset(m.Attrs, alt.Attrs) {
				r.Infra("harness: S variant of %q is not labelled with the same attributes", m.V)
			}
		}
	}
	r.Extra["alphabet_sizes"] = map[string]int{"version": len(verAlphabet), "level": len(levelAlphabet), "verifyTimestamp": len(vtsAlphabet),
		"override_type": len(ovTypeAlphabet), "override_action": len(ovActionAlphabet), "store": len(storeAlphabet), "identity": len(idAlphabet), "scope": len(scopeAlphabet)}
}
