// C09 — only well-formed trust policy documents are accepted (iff).
//
// E3, deviation bounded: a grammar of valid OCI and blob policy documents is
// built from hand-labelled component alphabets; every base document, every
// single edit (one operator per rule of the property statement, plus
// validity-preserving edits) and every pair of edits is handed to the real
// OCIDocument.Validate / BlobDocument.Validate and to
// verifier.NewVerifierWithOptions; in addition documents are assembled
// exhaustively from component alphabets that include invalid members.
// Oracle: reference() below, a validator over the LABELS of the alphabet
// members (tables.go) written from the property statement. It never looks
// inside a store, identity or scope string.
package main

import (
	"encoding/json"
	"fmt"
	"sort"
	"strings"
	"sync"

	"github.com/notaryproject/notation-go/verifier"
	"github.com/notaryproject/notation-go/verifier/trustpolicy"
	"github.com/notaryproject/notation-go/zzverif/lib/hx"
	"github.com/notaryproject/notation-go/zzverif/lib/mocks"
)

// ---------------------------------------------------------------- document specs

type ovEntry struct{ Type, Action string }

// stmtSpec is one statement as a selection of alphabet members.
type stmtSpec struct {
	Name     string
	Level    string
	Override []ovEntry // distinct types
	EmptyOv  bool      // non-nil empty override map
	VTS      string
	Stores   []string // nil and empty-non-nil are both "none"
	Ids      []string
	Scopes   []string // OCI only
	Global   bool     // blob only
}

type docSpec struct {
	Kind    string // "oci" | "blob"
	Version string
	Stmts   []stmtSpec
	EmptySt bool // empty non-nil statement list instead of nil
}

func cloneStrs(s []string) []string {
	if s == nil {
		return nil
	}
	return append([]string{}, s...)
}

func (d *docSpec) clone() *docSpec {
	c := &docSpec{Kind: d.Kind, Version: d.Version, EmptySt: d.EmptySt}
	for _, s := range d.Stmts {
		t := s
		t.Override = append([]ovEntry(nil), s.Override...)
		t.Stores, t.Ids, t.Scopes = cloneStrs(s.Stores), cloneStrs(s.Ids), cloneStrs(s.Scopes)
		c.Stmts = append(c.Stmts, t)
	}
	return c
}

func (s *stmtSpec) sv() trustpolicy.SignatureVerification {
	sv := trustpolicy.SignatureVerification{VerificationLevel: s.Level, VerifyTimestamp: trustpolicy.TimestampOption(s.VTS)}
	if len(s.Override) > 0 || s.EmptyOv {
		sv.Override = map[trustpolicy.ValidationType]trustpolicy.ValidationAction{}
		for _, e := range s.Override {
			sv.Override[trustpolicy.ValidationType(e.Type)] = trustpolicy.ValidationAction(e.Action)
		}
	}
	return sv
}

func (d *docSpec) oci() *trustpolicy.OCIDocument {
	doc := &trustpolicy.OCIDocument{Version: d.Version}
	if d.EmptySt {
		doc.TrustPolicies = []trustpolicy.OCITrustPolicy{}
	}
	for i := range d.Stmts {
		s := &d.Stmts[i]
		doc.TrustPolicies = append(doc.TrustPolicies, trustpolicy.OCITrustPolicy{Name: s.Name, SignatureVerification: s.sv(),
			TrustStores: cloneStrs(s.Stores), TrustedIdentities: cloneStrs(s.Ids), RegistryScopes: cloneStrs(s.Scopes)})
	}
	return doc
}

func (d *docSpec) blob() *trustpolicy.BlobDocument {
	doc := &trustpolicy.BlobDocument{Version: d.Version}
	if d.EmptySt {
		doc.TrustPolicies = []trustpolicy.BlobTrustPolicy{}
	}
	for i := range d.Stmts {
		s := &d.Stmts[i]
		doc.TrustPolicies = append(doc.TrustPolicies, trustpolicy.BlobTrustPolicy{Name: s.Name, SignatureVerification: s.sv(),
			TrustStores: cloneStrs(s.Stores), TrustedIdentities: cloneStrs(s.Ids), GlobalPolicy: s.Global})
	}
	return doc
}

func (d *docSpec) json() []byte {
	var b []byte
	if d.Kind == "oci" {
		b, _ = json.Marshal(d.oci())
	} else {
		b, _ = json.Marshal(d.blob())
	}
	return b
}

// ---------------------------------------------------------------- reference validator

// reference returns the labels of the rules NAMED IN THE PROPERTY STATEMENT that
// the document violates (sorted, unique); empty = obeys every stated rule.
func reference(d *docSpec) (reasons []string, skip []bool) {
	reasons, _, skip = referenceFull(d)
	return reasons, skip
}

// referenceFull consults only the hand-written labels of tables.go. hard = violated
// rules the statement names; soft = features on which the statement is silent
// (unstatedRules in tables.go): a document with soft labels only is not judged,
// what the code does with it is recorded as evidence. skip[i] tells whether
// statement i is a skip statement (by the label of its level).
func referenceFull(d *docSpec) (hard, soft []string, skip []bool) {
	set := map[string]bool{}
	add := func(r string) { set[r] = true }

	// supported version
	if v := mustVer(d.Version); v.Bad != "" {
		add("version:" + v.Bad)
	}
	// at least one statement
	if len(d.Stmts) == 0 {
		add("zero-statements")
	}
	// unique non-empty names
	for i := range d.Stmts {
		if d.Stmts[i].Name == "" {
			add("name-empty")
		}
		for j := 0; j < i; j++ {
			if d.Stmts[i].Name == d.Stmts[j].Name {
				add("name-duplicate")
			} else if strings.EqualFold(d.Stmts[i].Name, d.Stmts[j].Name) {
				add("name-case-variant")
			}
		}
	}
	scopeUsers := map[string]int{}
	globals := 0
	skip = make([]bool, len(d.Stmts))
	for i := range d.Stmts {
		s := &d.Stmts[i]
		// a known level
		lv := mustLevel(s.Level)
		if lv.Bad != "" {
			add("level:" + lv.Bad)
		}
		skip[i] = lv.Bad == "" && lv.Skip
		// overrides only on non-skip levels, never for integrity, skip only for revocation, known type and action
		if len(s.Override) > 0 && skip[i] {
			add("override-on-skip")
		}
		if len(s.Override) == 0 && s.EmptyOv && skip[i] {
			add("empty-override-map-on-skip")
		}
		for _, e := range s.Override {
			t, a := mustOvType(e.Type), mustOvAction(e.Action)
			if !t.Known {
				add("override-type-unknown")
			}
			if !a.Known {
				add("override-action-unknown")
			}
			if t.Known && t.Integrity {
				add("override-integrity")
			}
			if t.Known && !t.Revocation && a.Known && a.Skip {
				add("override-skip-non-revocation")
			}
		}
		// a known verifyTimestamp option
		if v := mustVTS(s.VTS); v.Bad != "" {
			add("verifyTimestamp:" + v.Bad)
		}
		// stores and identities: presence
		if lv.Bad == "" {
			if skip[i] {
				if len(s.Stores) > 0 {
					add("skip-with-stores")
				}
				if len(s.Ids) > 0 {
					add("skip-with-identities")
				}
			} else {
				if len(s.Stores) == 0 {
					add("no-stores")
				}
				if len(s.Ids) == 0 {
					add("no-identities")
				}
			}
		}
		if !skip[i] {
			// type:name trust stores, known type, file-name-safe name
			for k, st := range s.Stores {
				if l := mustStore(st); l.Bad != "" {
					add("store:" + l.Bad)
				}
				if hasStr(s.Stores[:k], st) {
					add("store-repeated")
				}
			}
			// identities
			wild := 0
			var dns []idLabel
			for _, id := range s.Ids {
				l := mustID(id)
				switch l.Kind {
				case idWild:
					wild++
				case idBad:
					add("identity:" + l.Bad)
				case idX509:
					if l.Alt != "" {
						// another spelling of a DN (S for ST, other attribute order, blank after the comma):
						// whether it parses / what it overlaps with is not fixed by the statement
						add("identity-alternative-spelling")
					} else {
						dns = append(dns, l)
					}
				}
			}
			if wild > 0 && wild == len(s.Ids) && len(s.Ids) > 1 {
				add("identity-wildcard-repeated")
			} else if wild > 0 && len(s.Ids) > 1 {
				add("identity-wildcard-with-company")
			}
			for a := range dns {
				for b := a + 1; b < len(dns); b++ {
					if attrsSubset(dns[a].Attrs, dns[b].Attrs) || attrsSubset(dns[b].Attrs, dns[a].Attrs) {
						add("identity-overlap")
					}
				}
			}
		}
		if d.Kind == "oci" {
			if len(s.Scopes) == 0 {
				add("no-scopes")
			}
			wild := 0
			seen := map[string]bool{}
			for _, sc := range s.Scopes {
				l := mustScope(sc)
				if l.Wild {
					wild++
				} else if l.Bad != "" {
					add("scope:" + l.Bad)
				}
				if seen[sc] {
					add("scope-repeated-in-statement")
				}
				if !seen[sc] {
					scopeUsers[sc]++
				}
				seen[sc] = true
			}
			if wild > 0 && wild < len(s.Scopes) {
				add("scope-wildcard-with-company")
			}
		} else if s.Global {
			globals++
			if skip[i] {
				add("global-skip")
			}
		}
	}
	// every scope used by at most one statement
	for _, s := range d.Stmts {
		for _, sc := range s.Scopes {
			if scopeUsers[sc] > 1 {
				add("scope-shared")
			}
		}
	}
	if globals > 1 {
		add("global-multiple")
	}
	for r := range set {
		if _, unstated := unstatedRules[r]; unstated {
			soft = append(soft, r)
		} else {
			hard = append(hard, r)
		}
	}
	sort.Strings(hard)
	sort.Strings(soft)
	return hard, soft, skip
}

func attrsSubset(a, b [][2]string) bool {
	for _, x := range a {
		found := false
		for _, y := range b {
			if x == y {
				found = true
			}
		}
		if !found {
			return false
		}
	}
	return true
}

// ---------------------------------------------------------------- running the real code

type replayCase struct {
	Kind        string          `json:"kind"` // oci | blob | both
	Document    json.RawMessage `json:"document"`
	Document2   json.RawMessage `json:"blob_document,omitempty"` // kind both
	ExpectValid bool            `json:"expect_valid"`
	Reasons     []string        `json:"violated_rules"`
	Unstated    []string        `json:"unstated_features,omitempty"` // non-empty and no violated rule: not judged, recorded
	Origin      string          `json:"origin"`
	What        string          `json:"origin_class"` // label of the rejected-valid key
	Skip        []bool          `json:"skip_statements"`
}

var (
	sharedStore = func() *mocks.TrustStore { t := mocks.NewTrustStore(); t.NoLog = true; return t }()
	sharedRev   = mocks.AllOK()
	sharedMgr   = mocks.NewManager()
)

func newVerifier(o *trustpolicy.OCIDocument, b *trustpolicy.BlobDocument) error {
	_, err := verifier.NewVerifierWithOptions(sharedStore, verifier.VerifierOptions{
		OCITrustPolicy: o, BlobTrustPolicy: b, PluginManager: sharedMgr,
		RevocationCodeSigningValidator: sharedRev, RevocationTimestampingValidator: sharedRev,
	})
	return err
}

// tally collects the counters of one work unit; flush merges them into the
// run-wide totals under one lock (hx counters take a lock per call).
type tally struct {
	out      map[string]int64
	reasons  map[string]int // kind|rule -> documents rejected for (among others) this rule
	accepts  int
	vaccepts int // documents the verifier constructor accepted
	evals    int
}

func newTally() *tally { return &tally{out: map[string]int64{}, reasons: map[string]int{}} }

var st = struct {
	sync.Mutex
	tally
}{tally: *newTally()}

func (t *tally) flush() {
	st.Lock()
	for k, v := range t.out {
		st.out[k] += v
	}
	for k, v := range t.reasons {
		st.reasons[k] += v
	}
	st.accepts += t.accepts
	st.vaccepts += t.vaccepts
	st.evals += t.evals
	st.Unlock()
}

// Violations are collected and handed to the run at the end: per key the
// smallest failing document (shortest JSON, then lexicographically first) is
// the one written out, so the replay artefact does not depend on scheduling.
type found struct {
	what  string
	rc    replayCase
	count int
}

var (
	foundMu sync.Mutex
	founds  = map[string]*found{}
)

func report(key, what string, rc replayCase) {
	foundMu.Lock()
	defer foundMu.Unlock()
	f := founds[key]
	if f == nil {
		founds[key] = &found{what, rc, 1}
		return
	}
	f.count++
	a, b := string(rc.Document)+string(rc.Document2), string(f.rc.Document)+string(f.rc.Document2)
	if len(a) < len(b) || (len(a) == len(b) && a < b) || (a == b && rc.Origin < f.rc.Origin) {
		f.what, f.rc = what, rc
	}
}

func flushViolations(r *hx.Run) {
	keys := make([]string, 0, len(founds))
	for k := range founds {
		keys = append(keys, k)
	}
	sort.Strings(keys)
	for _, k := range keys {
		for i := 0; i < founds[k].count; i++ {
			r.Violation(k, founds[k].what, founds[k].rc)
		}
	}
}

// judge runs the real code on one document and compares with the expected verdict.
// what: class of the origin used in the rejected-valid key.
func judge(r *hx.Run, t *tally, kind string, o *trustpolicy.OCIDocument, b *trustpolicy.BlobDocument, expectValid bool, reasons, soft []string, skip []bool, what, origin string) {
	rc := func() replayCase {
		var raw []byte
		if kind == "oci" {
			raw, _ = json.Marshal(o)
		} else {
			raw, _ = json.Marshal(b)
		}
		return replayCase{Kind: kind, Document: raw, ExpectValid: expectValid, Reasons: reasons, Unstated: soft, Origin: origin, What: what, Skip: skip}
	}
	var err, verr error
	if kind == "oci" {
		err = o.Validate()
		verr = newVerifier(o, nil)
	} else {
		err = b.Validate()
		verr = newVerifier(nil, b)
	}
	t.evals += 2
	why := strings.Join(reasons, "+")
	switch {
	case err == nil && !expectValid:
		report(kind+"/accepted-invalid:"+why, fmt.Sprintf("Validate accepted a %s document that violates %v (%s): %s", kind, reasons, origin, rc().Document), rc())
	case !expectValid:
		t.out[kind+":rejected-invalid"]++
	case len(soft) > 0:
		// obeys every stated rule but has a feature the statement is silent about: evidence only
		verdict := map[bool]string{true: "accepted", false: "rejected"}[err == nil]
		for _, x := range soft {
			t.out["recorded:"+kind+"/"+verdict+"-with-unstated-feature:"+x]++
		}
	case err != nil:
		report(kind+"/rejected-valid:"+what, fmt.Sprintf("Validate rejected a well-formed %s document (%s) with %q: %s", kind, origin, err, rc().Document), rc())
	default:
		t.out[kind+":accepted-valid"]++
	}
	// the verifier constructor is the other place where a document is accepted: it must not take a
	// document that violates a stated rule. That it refuses a document Validate accepts (or accepts an
	// unjudged one) is recorded only: the constructor may have reasons of its own.
	switch {
	case verr == nil && !expectValid:
		report(kind+"/verifier-accepted-invalid:"+why, fmt.Sprintf("NewVerifierWithOptions accepted a %s document that violates %v (Validate: %v; %s): %s", kind, reasons, err, origin, rc().Document), rc())
	case (err == nil) != (verr == nil):
		t.out["recorded:"+kind+"/verifier-differs-from-validate:"+map[bool]string{true: "verifier-accepts", false: "verifier-rejects"}[verr == nil]]++
	}
	if verr == nil {
		t.vaccepts++
	}
	if err == nil || verr == nil {
		// every statement of an accepted document yields a level enforcing integrity unless skip
		n := 0
		if kind == "oci" {
			n = len(o.TrustPolicies)
		} else {
			n = len(b.TrustPolicies)
		}
		for i := 0; i < n; i++ {
			var sv *trustpolicy.SignatureVerification
			if kind == "oci" {
				sv = &o.TrustPolicies[i].SignatureVerification
			} else {
				sv = &b.TrustPolicies[i].SignatureVerification
			}
			lv, lerr := sv.GetVerificationLevel()
			t.evals++
			isSkip := i < len(skip) && skip[i]
			switch {
			case lerr != nil || lv == nil:
				report(kind+"/accepted-statement-without-level", fmt.Sprintf("statement %d of an accepted document: GetVerificationLevel: %v (%s)", i, lerr, origin), rc())
			case !isSkip && lv.Enforcement[trustpolicy.TypeIntegrity] != trustpolicy.ActionEnforce:
				report(kind+"/accepted-statement-not-enforcing-integrity", fmt.Sprintf("statement %d (level %q, not skip) of an accepted document has integrity=%q (%s)", i, sv.VerificationLevel, lv.Enforcement[trustpolicy.TypeIntegrity], origin), rc())
			case isSkip:
				t.out[kind+":statement-level-skip"]++
			default:
				t.out[kind+":statement-level-enforces-integrity"]++
			}
		}
	}
	if err == nil && expectValid && len(soft) == 0 {
		t.accepts++
	}
	if err != nil && !expectValid {
		for _, x := range reasons {
			t.reasons[kind+"|"+x]++
		}
	}
}

// judgeSpec = reference + real code on a spec.
func judgeSpec(r *hx.Run, t *tally, d *docSpec, what, origin string) (valid bool) {
	reasons, soft, skip := referenceFull(d)
	if d.Kind == "oci" {
		o := d.oci()
		raw, _ := json.Marshal(o)
		r.Nontrivial("oci|" + string(raw))
		judge(r, t, "oci", o, nil, len(reasons) == 0, reasons, soft, skip, what, origin)
	} else {
		b := d.blob()
		raw, _ := json.Marshal(b)
		r.Nontrivial("blob|" + string(raw))
		judge(r, t, "blob", nil, b, len(reasons) == 0, reasons, soft, skip, what, origin)
	}
	return len(reasons) == 0
}

// ---------------------------------------------------------------- grammar of valid documents

var (
	gLevels    = []string{"strict", "permissive", "audit"}
	gOverrides = [][]ovEntry{nil, {{"revocation", "skip"}}, {{"expiry", "log"}}, {{"authenticity", "log"}, {"authenticTimestamp", "log"}}}
	gVTS       = []string{"", "always", "afterCertExpiry"}
	gStores    = [][]string{{"ca:a"}, {"ca:a", "tsa:t"}, {"signingAuthority:s.1_x-"}}
	gIds       = [][]string{{"*"}, {dnA}, {dnA, dnB}, {dnC, "unknown-prefix:x"}, {"unknown-prefix:x"}, {"email:dev@example.com", "unknown-prefix:x"}}
	gScopes0   = [][]string{{"*"}, {"reg.io/a"}, {"reg.io/a/b", "reg.io:5000/a/b"}}
	gScopes1   = [][]string{{"*"}, {"other.io/lib/app_1.x-y"}, {"localhost/x1", "reg.io/b"}}
)

// baseStatements: the default choice, every single-dimension variation of it, a
// diagonal through the product, and the skip statements.
func baseStatements() [][6]int { // indices: level(3 = skip), override, vts, stores, ids, scopes
	dims := [6]int{len(gLevels), len(gOverrides), len(gVTS), len(gStores), len(gIds), len(gScopes0)}
	var out [][6]int
	seen := map[[6]int]bool{}
	put := func(t [6]int) {
		if !seen[t] {
			seen[t] = true
			out = append(out, t)
		}
	}
	put([6]int{})
	for d := 0; d < 6; d++ {
		for v := 1; v < dims[d]; v++ {
			var t [6]int
			t[d] = v
			put(t)
		}
	}
	for k := 1; k < 12; k++ {
		var t [6]int
		for d := 0; d < 6; d++ {
			t[d] = (k + d*(k/4)) % dims[d]
		}
		put(t)
	}
	for v := 0; v < 3; v++ { // skip statements: level index 3
		put([6]int{3, 0, v, 0, 0, v})
	}
	return out
}

func mkStmt(t [6]int, name string, second bool) stmtSpec {
	s := stmtSpec{Name: name, VTS: gVTS[t[2]]}
	if t[0] == 3 {
		s.Level = "skip"
	} else {
		s.Level = gLevels[t[0]]
		s.Override = append([]ovEntry(nil), gOverrides[t[1]]...)
		s.Stores = cloneStrs(gStores[t[3]])
		s.Ids = cloneStrs(gIds[t[4]])
	}
	if second {
		s.Scopes = cloneStrs(gScopes1[t[5]])
	} else {
		s.Scopes = cloneStrs(gScopes0[t[5]])
	}
	return s
}

type baseDoc struct {
	ID   string
	Spec *docSpec
}

func baseDocs(kind string) []baseDoc {
	sts := baseStatements()
	var out []baseDoc
	finish := func(id string, d *docSpec) {
		if kind == "oci" {
			out = append(out, baseDoc{id, d})
			return
		}
		for i := range d.Stmts {
			d.Stmts[i].Scopes = nil
		}
		out = append(out, baseDoc{id + "/g-", d})
		for g := range d.Stmts {
			if d.Stmts[g].Level != "skip" {
				c := d.clone()
				c.Stmts[g].Global = true
				out = append(out, baseDoc{fmt.Sprintf("%s/g%d", id, g), c})
			}
		}
	}
	for i, t := range sts {
		finish(fmt.Sprintf("%s-base[%d]", kind, i), &docSpec{Kind: kind, Version: "1.0", Stmts: []stmtSpec{mkStmt(t, "s0", false)}})
	}
	offs := []int{1, 5, 11}
	if kind == "blob" {
		offs = []int{1, 7}
	}
	for i, t := range sts {
		for _, off := range offs {
			j := (i + off) % len(sts)
			u := sts[j]
			if t[5] == 0 && u[5] == 0 { // two wildcard scopes: give the second a concrete one
				u[5] = 1
			}
			finish(fmt.Sprintf("%s-base[%d,%d]", kind, i, j), &docSpec{Kind: kind, Version: "1.0", Stmts: []stmtSpec{mkStmt(t, "s0", false), mkStmt(u, "s1", true)}})
		}
	}
	return out
}

// ---------------------------------------------------------------- edit operators

type edit struct {
	Op      string   // stable operator name: rule label (+ position)
	Rule    string   // violating edits: the rule label the reference must report; "" = validity-preserving
	Slots   []string // fields written; two edits writing the same field are not combined
	Primary bool     // used for pairs in the quick tier
	Apply   func(d *docSpec)
}

func slotsConflict(a, b []string) bool {
	for _, x := range a {
		for _, y := range b {
			if x == y || (x == "doc.stmts" && strings.HasPrefix(y, "s")) || (y == "doc.stmts" && strings.HasPrefix(x, "s")) {
				return true
			}
		}
	}
	return false
}

func setOv(s *stmtSpec, e ovEntry) {
	for i := range s.Override {
		if s.Override[i].Type == e.Type {
			s.Override[i] = e
			return
		}
	}
	s.Override = append(s.Override, e)
}

func hasStr(l []string, x string) bool {
	for _, y := range l {
		if y == x {
			return true
		}
	}
	return false
}

func reversed(l []string) []string {
	o := make([]string, len(l))
	for i := range l {
		o[len(l)-1-i] = l[i]
	}
	return o
}

// editsFor lists every applicable (site, operator, parameter) edit of a base document.
func editsFor(base *docSpec) []edit {
	var es []edit
	add := func(e edit) { es = append(es, e) }
	viol := func(rule, pos string, primary bool, slots []string, f func(d *docSpec)) {
		op := rule
		if pos != "" {
			op += "@" + pos
		}
		add(edit{Op: op, Rule: rule, Slots: slots, Primary: primary, Apply: f})
	}
	keep := func(op string, primary bool, slots []string, f func(d *docSpec)) {
		add(edit{Op: "preserving:" + op, Slots: slots, Primary: primary, Apply: f})
	}
	kind := base.Kind

	// ---- document level
	for i, v := range verAlphabet {
		if v.Bad != "" {
			v := v
			viol("version:"+v.Bad, "", i < 3, []string{"doc.version"}, func(d *docSpec) { d.Version = v.V })
		}
	}
	viol("zero-statements", "nil", true, []string{"doc.stmts"}, func(d *docSpec) { d.Stmts = nil })
	viol("zero-statements", "empty-list", false, []string{"doc.stmts"}, func(d *docSpec) { d.Stmts = nil; d.EmptySt = true })
	if len(base.Stmts) == 2 {
		viol("name-duplicate", "", true, []string{"s1.name"}, func(d *docSpec) { d.Stmts[1].Name = d.Stmts[0].Name })
		keep("swap-statements", true, []string{"doc.order"}, func(d *docSpec) { d.Stmts[0], d.Stmts[1] = d.Stmts[1], d.Stmts[0] })
		keep("rename-to-case-variant-of-other", false, []string{"s1.name"}, func(d *docSpec) { d.Stmts[1].Name = strings.ToUpper(d.Stmts[0].Name) })
	}

	for si := range base.Stmts {
		si := si
		bs := base.Stmts[si]
		isSkip := bs.Level == "skip"
		sl := func(f string) []string { return []string{fmt.Sprintf("s%d.%s", si, f)} }

		viol("name-empty", fmt.Sprintf("s%d", si), true, sl("name"), func(d *docSpec) { d.Stmts[si].Name = "" })
		keep("rename", si == 0, sl("name"), func(d *docSpec) { d.Stmts[si].Name = fmt.Sprintf("renamed statement %d ", si) })

		// level
		first := true
		for _, l := range levelAlphabet {
			if l.Bad != "" {
				l := l
				viol("level:"+l.Bad, fmt.Sprintf("s%d", si), first, sl("level"), func(d *docSpec) { d.Stmts[si].Level = l.V })
				first = false
			}
		}
		// verifyTimestamp
		first = true
		for _, v := range vtsAlphabet {
			v := v
			if v.Bad != "" {
				viol("verifyTimestamp:"+v.Bad, fmt.Sprintf("s%d", si), first, sl("vts"), func(d *docSpec) { d.Stmts[si].VTS = v.V })
				first = false
			} else if v.V != bs.VTS {
				keep("verifyTimestamp-other-known", false, sl("vts"), func(d *docSpec) { d.Stmts[si].VTS = v.V })
			}
		}
		if len(bs.Override) == 0 {
			keep("empty-override-map", false, sl("override"), func(d *docSpec) { d.Stmts[si].EmptyOv = true })
		}

		if isSkip {
			for k, e := range []ovEntry{{"revocation", "skip"}, {"expiry", "log"}, {"authenticity", "enforce"}} {
				e := e
				viol("override-on-skip", fmt.Sprintf("s%d/%s=%s", si, e.Type, e.Action), k == 0, sl("override"), func(d *docSpec) { setOv(&d.Stmts[si], e) })
			}
			viol("skip-with-stores", fmt.Sprintf("s%d", si), true, sl("stores"), func(d *docSpec) { d.Stmts[si].Stores = []string{"ca:a"} })
			viol("skip-with-identities", fmt.Sprintf("s%d/wildcard", si), true, sl("ids"), func(d *docSpec) { d.Stmts[si].Ids = []string{"*"} })
			viol("skip-with-identities", fmt.Sprintf("s%d/dn", si), false, sl("ids"), func(d *docSpec) { d.Stmts[si].Ids = []string{dnA} })
			keep("skip-empty-lists", false, []string{fmt.Sprintf("s%d.stores", si), fmt.Sprintf("s%d.ids", si)}, func(d *docSpec) { d.Stmts[si].Stores = []string{}; d.Stmts[si].Ids = []string{} })
			if kind == "blob" && !bs.Global {
				viol("global-skip", fmt.Sprintf("s%d/set-global", si), true, sl("global"), func(d *docSpec) { d.Stmts[si].Global = true })
			}
		} else {
			// overrides
			for k, e := range []ovEntry{{"integrity", "log"}, {"integrity", "enforce"}, {"integrity", "skip"}} {
				e := e
				viol("override-integrity", fmt.Sprintf("s%d/%s", si, e.Action), k == 0, sl("override"), func(d *docSpec) { setOv(&d.Stmts[si], e) })
			}
			for k, ty := range []string{"expiry", "authenticity", "authenticTimestamp"} {
				ty := ty
				viol("override-skip-non-revocation", fmt.Sprintf("s%d/%s", si, ty), k == 0, sl("override"), func(d *docSpec) { setOv(&d.Stmts[si], ovEntry{ty, "skip"}) })
			}
			k := 0
			for _, t := range ovTypeAlphabet {
				if !t.Known {
					t := t
					viol("override-type-unknown", fmt.Sprintf("s%d/%q", si, t.V), k == 0, sl("override"), func(d *docSpec) { setOv(&d.Stmts[si], ovEntry{t.V, "log"}) })
					k++
				}
			}
			k = 0
			for _, a := range ovActionAlphabet {
				if !a.Known {
					a := a
					viol("override-action-unknown", fmt.Sprintf("s%d/%q", si, a.V), k == 0, sl("override"), func(d *docSpec) { setOv(&d.Stmts[si], ovEntry{"revocation", a.V}) })
					k++
				}
			}
			if len(bs.Override) > 0 {
				keep("remove-override", false, sl("override"), func(d *docSpec) { d.Stmts[si].Override = nil })
			}
			keep("override-revocation-log", false, sl("override"), func(d *docSpec) { setOv(&d.Stmts[si], ovEntry{"revocation", "log"}) })
			keep("other-non-skip-level", false, sl("level"), func(d *docSpec) {
				for i, l := range gLevels {
					if l == d.Stmts[si].Level {
						d.Stmts[si].Level = gLevels[(i+1)%len(gLevels)]
						return
					}
				}
			})
			// presence
			viol("no-stores", fmt.Sprintf("s%d/nil", si), true, sl("stores"), func(d *docSpec) { d.Stmts[si].Stores = nil })
			viol("no-stores", fmt.Sprintf("s%d/empty-list", si), false, sl("stores"), func(d *docSpec) { d.Stmts[si].Stores = []string{} })
			viol("no-identities", fmt.Sprintf("s%d/nil", si), true, sl("ids"), func(d *docSpec) { d.Stmts[si].Ids = nil })
			viol("no-identities", fmt.Sprintf("s%d/empty-list", si), false, sl("ids"), func(d *docSpec) { d.Stmts[si].Ids = []string{} })
			// stores: every invalid member, replacing the first / appended
			seenRule := map[string]bool{}
			for _, m := range storeAlphabet {
				if m.Bad == "" {
					continue
				}
				m := m
				rule := "store:" + m.Bad
				viol(rule, fmt.Sprintf("s%d/first", si), !seenRule[rule], sl("stores"), func(d *docSpec) { d.Stmts[si].Stores[0] = m.V })
				viol(rule, fmt.Sprintf("s%d/appended", si), false, sl("stores"), func(d *docSpec) { d.Stmts[si].Stores = append(d.Stmts[si].Stores, m.V) })
				seenRule[rule] = true
			}
			keep("add-valid-store", false, sl("stores"), func(d *docSpec) { d.Stmts[si].Stores = append(d.Stmts[si].Stores, "ca:A-b_c.9") })
			keep("repeat-first-store", false, sl("stores"), func(d *docSpec) { d.Stmts[si].Stores = append(d.Stmts[si].Stores, d.Stmts[si].Stores[0]) })
			if len(bs.Stores) > 1 {
				keep("reverse-stores", true, sl("stores"), func(d *docSpec) { d.Stmts[si].Stores = reversed(d.Stmts[si].Stores) })
			}
			// identities: invalid members
			for _, m := range idAlphabet {
				if m.Kind != idBad {
					continue
				}
				m := m
				rule := "identity:" + m.Bad
				viol(rule, fmt.Sprintf("s%d/first", si), !seenRule[rule], sl("ids"), func(d *docSpec) { d.Stmts[si].Ids[0] = m.V })
				if !hasStr(bs.Ids, "*") {
					viol(rule, fmt.Sprintf("s%d/appended", si), false, sl("ids"), func(d *docSpec) { d.Stmts[si].Ids = append(d.Stmts[si].Ids, m.V) })
				}
				seenRule[rule] = true
			}
			// identities: wildcard with company, overlap, additions
			if hasStr(bs.Ids, "*") {
				viol("identity-wildcard-with-company", fmt.Sprintf("s%d/wildcard-then-dn", si), true, sl("ids"), func(d *docSpec) { d.Stmts[si].Ids = append(d.Stmts[si].Ids, dnA) })
				viol("identity-wildcard-with-company", fmt.Sprintf("s%d/dn-then-wildcard", si), false, sl("ids"), func(d *docSpec) { d.Stmts[si].Ids = append([]string{dnA}, d.Stmts[si].Ids...) })
				viol("identity-wildcard-with-company", fmt.Sprintf("s%d/wildcard-then-other-prefix", si), false, sl("ids"), func(d *docSpec) { d.Stmts[si].Ids = append(d.Stmts[si].Ids, "unknown-prefix:x") })
				viol("identity-wildcard-repeated", fmt.Sprintf("s%d/wildcard-twice", si), false, sl("ids"), func(d *docSpec) { d.Stmts[si].Ids = append(d.Stmts[si].Ids, "*") })
			} else {
				viol("identity-wildcard-with-company", fmt.Sprintf("s%d/wildcard-appended", si), true, sl("ids"), func(d *docSpec) { d.Stmts[si].Ids = append(d.Stmts[si].Ids, "*") })
				viol("identity-wildcard-with-company", fmt.Sprintf("s%d/wildcard-prepended", si), false, sl("ids"), func(d *docSpec) { d.Stmts[si].Ids = append([]string{"*"}, d.Stmts[si].Ids...) })
				if len(bs.Ids) > 1 {
					viol("identity-wildcard-with-company", fmt.Sprintf("s%d/wildcard-in-the-middle", si), false, sl("ids"), func(d *docSpec) {
						ids := d.Stmts[si].Ids
						d.Stmts[si].Ids = append(append(append([]string{}, ids[:1]...), "*"), ids[1:]...)
					})
				}
				firstOverlap := true
				for _, m := range idAlphabet {
					if m.Kind != idX509 && m.Kind != idOther {
						continue
					}
					m := m
					if m.Alt != "" { // another spelling of a DN: recorded, not judged
						keep("add-alternative-spelling-identity/"+m.Tag, false, sl("ids"), func(d *docSpec) { d.Stmts[si].Ids = append(d.Stmts[si].Ids, m.V) })
						continue
					}
					rel := "" // relation of the new identity to the existing ones, decided on the labels
					for _, have := range bs.Ids {
						h := mustID(have)
						if m.Kind == idX509 && h.Kind == idX509 {
							sub, sup := attrsSubset(m.Attrs, h.Attrs), attrsSubset(h.Attrs, m.Attrs)
							switch {
							case sub && sup:
								rel = "equal-attributes"
							case sub && rel == "":
								rel = "new-is-subset"
							case sup && rel == "":
								rel = "new-is-superset"
							}
						}
					}
					if rel != "" {
						viol("identity-overlap", fmt.Sprintf("s%d/%s/appended/%s", si, rel, m.Tag), firstOverlap, sl("ids"), func(d *docSpec) { d.Stmts[si].Ids = append(d.Stmts[si].Ids, m.V) })
						viol("identity-overlap", fmt.Sprintf("s%d/%s/prepended/%s", si, rel, m.Tag), false, sl("ids"), func(d *docSpec) { d.Stmts[si].Ids = append([]string{m.V}, d.Stmts[si].Ids...) })
						firstOverlap = false
					} else {
						keep("add-disjoint-identity/"+m.Tag, false, sl("ids"), func(d *docSpec) { d.Stmts[si].Ids = append(d.Stmts[si].Ids, m.V) })
					}
				}
				for k, have := range bs.Ids {
					k := k
					if alt := mustID(have).SVariant; alt != "" {
						keep("S-for-ST", true, sl("ids"), func(d *docSpec) { d.Stmts[si].Ids[k] = alt })
					}
				}
				if len(bs.Ids) > 1 {
					keep("reverse-identities", true, sl("ids"), func(d *docSpec) { d.Stmts[si].Ids = reversed(d.Stmts[si].Ids) })
				}
			}
			if kind == "blob" {
				if bs.Global {
					keep("unset-global", false, sl("global"), func(d *docSpec) { d.Stmts[si].Global = false })
					viol("global-skip", fmt.Sprintf("s%d/global-statement-becomes-skip", si), true,
						[]string{fmt.Sprintf("s%d.level", si), fmt.Sprintf("s%d.override", si), fmt.Sprintf("s%d.stores", si), fmt.Sprintf("s%d.ids", si)},
						func(d *docSpec) { s := &d.Stmts[si]; s.Level, s.Override, s.Stores, s.Ids = "skip", nil, nil, nil })
				} else {
					other := false
					for j := range base.Stmts {
						if j != si && base.Stmts[j].Global {
							other = true
						}
					}
					if !other {
						keep("set-global", false, sl("global"), func(d *docSpec) { d.Stmts[si].Global = true })
					}
				}
			}
			if !bs.Global {
				keep("statement-becomes-skip", false,
					[]string{fmt.Sprintf("s%d.level", si), fmt.Sprintf("s%d.override", si), fmt.Sprintf("s%d.stores", si), fmt.Sprintf("s%d.ids", si)},
					func(d *docSpec) { s := &d.Stmts[si]; s.Level, s.Override, s.Stores, s.Ids = "skip", nil, nil, nil })
			}
		}

		if kind == "oci" {
			viol("no-scopes", fmt.Sprintf("s%d/nil", si), true, sl("scopes"), func(d *docSpec) { d.Stmts[si].Scopes = nil })
			viol("no-scopes", fmt.Sprintf("s%d/empty-list", si), false, sl("scopes"), func(d *docSpec) { d.Stmts[si].Scopes = []string{} })
			if hasStr(bs.Scopes, "*") {
				viol("scope-wildcard-with-company", fmt.Sprintf("s%d/wildcard-then-scope", si), true, sl("scopes"), func(d *docSpec) { d.Stmts[si].Scopes = append(d.Stmts[si].Scopes, "zzz.io/z") })
				viol("scope-wildcard-with-company", fmt.Sprintf("s%d/scope-then-wildcard", si), false, sl("scopes"), func(d *docSpec) { d.Stmts[si].Scopes = append([]string{"zzz.io/z"}, d.Stmts[si].Scopes...) })
			} else {
				viol("scope-wildcard-with-company", fmt.Sprintf("s%d/wildcard-appended", si), true, sl("scopes"), func(d *docSpec) { d.Stmts[si].Scopes = append(d.Stmts[si].Scopes, "*") })
				viol("scope-wildcard-with-company", fmt.Sprintf("s%d/wildcard-prepended", si), false, sl("scopes"), func(d *docSpec) { d.Stmts[si].Scopes = append([]string{"*"}, d.Stmts[si].Scopes...) })
				keep("add-valid-scope", false, sl("scopes"), func(d *docSpec) { d.Stmts[si].Scopes = append(d.Stmts[si].Scopes, "zzz.io/z") })
				for _, v := range composedValidScopes { // every valid repository form under every domain form
					v := v
					keep("add-valid-scope/"+v, false, sl("scopes"), func(d *docSpec) { d.Stmts[si].Scopes = append(d.Stmts[si].Scopes, v) })
				}
				if len(bs.Scopes) > 1 {
					viol("scope-wildcard-with-company", fmt.Sprintf("s%d/wildcard-in-the-middle", si), false, sl("scopes"), func(d *docSpec) {
						sc := d.Stmts[si].Scopes
						d.Stmts[si].Scopes = append(append(append([]string{}, sc[:1]...), "*"), sc[1:]...)
					})
				}
				if len(bs.Scopes) > 1 {
					keep("reverse-scopes", true, sl("scopes"), func(d *docSpec) { d.Stmts[si].Scopes = reversed(d.Stmts[si].Scopes) })
				}
			}
			seenRule := map[string]bool{}
			for _, m := range scopeAlphabet {
				if m.Bad == "" || m.Wild {
					continue
				}
				m := m
				rule := "scope:" + m.Bad
				viol(rule, fmt.Sprintf("s%d/first", si), !seenRule[rule], sl("scopes"), func(d *docSpec) { d.Stmts[si].Scopes[0] = m.V })
				if !hasStr(bs.Scopes, "*") {
					viol(rule, fmt.Sprintf("s%d/appended", si), false, sl("scopes"), func(d *docSpec) { d.Stmts[si].Scopes = append(d.Stmts[si].Scopes, m.V) })
				}
				seenRule[rule] = true
			}
			if si == 1 {
				// scope shared by two statements
				viol("scope-shared", "s1-takes-first-scope-of-s0", true, sl("scopes"), func(d *docSpec) { d.Stmts[1].Scopes = []string{d.Stmts[0].Scopes[0]} })
				if !hasStr(bs.Scopes, "*") && !hasStr(base.Stmts[0].Scopes, "*") {
					viol("scope-shared", "s1-also-lists-last-scope-of-s0", false, sl("scopes"), func(d *docSpec) {
						s0 := d.Stmts[0].Scopes
						d.Stmts[1].Scopes = append(d.Stmts[1].Scopes, s0[len(s0)-1])
					})
				}
			}
		}
	}
	if kind == "blob" && len(base.Stmts) == 2 {
		viol("global-multiple", "both-global", true, []string{"s0.global", "s1.global"}, func(d *docSpec) { d.Stmts[0].Global, d.Stmts[1].Global = true, true })
	}
	// the statement swap goes last so that statement indices of the other edit refer to the base document
	sort.SliceStable(es, func(i, j int) bool {
		return es[i].Op != "preserving:swap-statements" && es[j].Op == "preserving:swap-statements"
	})
	return es
}

func whatOf(ops ...string) string {
	var p []string
	for _, o := range ops {
		if strings.HasPrefix(o, "preserving:") {
			o = strings.TrimPrefix(o, "preserving:")
			if i := strings.Index(o, "/"); i > 0 {
				o = o[:i]
			}
			p = append(p, o)
		} else {
			p = append(p, "cancelled("+strings.SplitN(o, "@", 2)[0]+")")
		}
	}
	sort.Strings(p) // the class does not depend on the order or multiplicity of the edits
	q := p[:0]
	for i, x := range p {
		if i == 0 || x != p[i-1] {
			q = append(q, x)
		}
	}
	return strings.Join(q, "+")
}

func safeApply(e *edit, d *docSpec) (ok bool) {
	defer func() {
		if recover() != nil { // an earlier edit removed the site (index out of range)
			ok = false
		}
	}()
	e.Apply(d)
	return true
}

// submit hands the samples collected at fixed indices to the run in index order (deterministic).
func submit(r *hx.Run, samples []any) {
	for _, s := range samples {
		if s != nil {
			r.Sample(s)
		}
	}
}

func enumEdits(r *hx.Run, kind string) {
	bases := baseDocs(kind)
	edits := make([][]edit, len(bases))
	baseSamples := make([]any, len(bases))
	nEdits, nViol := 0, 0
	opNames := map[string]bool{}
	// base documents and single edits
	r.Parallel(len(bases), func(i int) {
		b := bases[i]
		t := newTally()
		defer t.flush()
		reasons, _ := reference(b.Spec)
		if len(reasons) != 0 {
			r.Infra("harness: base document %s is not valid by the reference: %v", b.ID, reasons)
			return
		}
		judgeSpec(r, t, b.Spec, "base", b.ID)
		edits[i] = editsFor(b.Spec)
		for k := range edits[i] {
			e := &edits[i][k]
			d := b.Spec.clone()
			if !safeApply(e, d) {
				r.Infra("harness: edit %s not applicable to its own base %s", e.Op, b.ID)
				continue
			}
			rs, sf, _ := referenceFull(d)
			if e.Rule != "" && !hasStr(rs, e.Rule) && !hasStr(sf, e.Rule) {
				r.Infra("harness: edit %s on %s must violate %s, reference says %v", e.Op, b.ID, e.Rule, rs)
				continue
			}
			if e.Rule == "" && len(rs) != 0 {
				r.Infra("harness: validity-preserving edit %s on %s gives %v", e.Op, b.ID, rs)
				continue
			}
			judgeSpec(r, t, d, whatOf(e.Op), b.ID+" + "+e.Op)
		}
		if i%41 == 0 {
			baseSamples[i] = map[string]any{"kind": kind, "base": b.ID, "document": json.RawMessage(b.Spec.json()), "single_edits": len(edits[i])}
		}
	}, nil)
	submit(r, baseSamples)
	for i := range edits {
		nEdits += len(edits[i])
		for _, e := range edits[i] {
			if e.Rule != "" {
				nViol++
				opNames[e.Rule] = true
			}
		}
	}
	r.Extra[kind+"_base_documents"] = len(bases)
	r.Extra[kind+"_single_edits"] = nEdits
	r.Extra[kind+"_single_edits_rule_violating"] = nViol
	r.Extra[kind+"_edit_operators(rules)"] = len(opNames)

	// pairs of edits
	type unit struct{ b, e int }
	var units []unit
	for i := range bases {
		// quick: primary parameters only
		for k := range edits[i] {
			if !r.Thorough() && !edits[i][k].Primary {
				continue
			}
			units = append(units, unit{i, k})
		}
	}
	unitSamples := make([]any, len(units))
	var pairs, cancelled, skipped int64
	var mu sync.Mutex
	r.Parallel(len(units), func(u int) {
		b := bases[units[u].b]
		es := edits[units[u].b]
		e1 := &es[units[u].e]
		t := newTally()
		defer t.flush()
		var np, nc, ns int64
		for k := units[u].e + 1; k < len(es); k++ {
			e2 := &es[k]
			if !r.Thorough() && !e2.Primary {
				continue
			}
			if slotsConflict(e1.Slots, e2.Slots) {
				ns++
				continue
			}
			d := b.Spec.clone()
			if !safeApply(e1, d) || !safeApply(e2, d) {
				ns++
				continue
			}
			np++
			valid := judgeSpec(r, t, d, whatOf(e1.Op, e2.Op), b.ID+" + "+e1.Op+" + "+e2.Op)
			if valid && (e1.Rule != "" || e2.Rule != "") {
				nc++
			}
			if np == 1 && u%997 == 0 {
				rs, _ := reference(d)
				unitSamples[u] = map[string]any{"kind": kind, "base": b.ID, "edits": []string{e1.Op, e2.Op}, "document": json.RawMessage(d.json()), "reference": rs}
			}
		}
		mu.Lock()
		pairs, cancelled, skipped = pairs+np, cancelled+nc, skipped+ns
		mu.Unlock()
	}, nil)
	submit(r, unitSamples)
	r.Extra[kind+"_edit_pairs"] = pairs
	r.Extra[kind+"_edit_pairs_same_field_not_combined"] = skipped
	r.Extra[kind+"_edit_pairs_violating_but_valid_together"] = cancelled
}

// ---------------------------------------------------------------- exhaustive assembly

type asmAlphabet struct {
	Levels    []string
	Overrides [][]ovEntry
	VTS       []string
	Stores    [][]string
	Ids       [][]string
	Scopes    [][]string
}

func asmSingle(thorough bool) asmAlphabet {
	a := asmAlphabet{
		Levels:    []string{"strict", "audit", "skip", "", "Strict"},
		Overrides: [][]ovEntry{nil, {{"revocation", "skip"}}, {{"expiry", "skip"}}, {{"integrity", "log"}}, {{"authenticity", "log"}, {"authenticTimestamp", "log"}}},
		VTS:       []string{"", "always", "never"},
		Stores:    [][]string{nil, {"ca:a"}, {"ca:a", "tsa:t"}, {"ca:a/b"}, {"x509:a"}},
		Ids:       [][]string{nil, {"*"}, {dnA}, {dnA, dnB}, {dnAcn, dnA}, {dnA, "*"}, {""}, {dnNoST}, {"unknown-prefix:x", "*"}},
		Scopes:    [][]string{nil, {"*"}, {"reg.io/a/b", "reg.io:5000/a/b"}, {"reg.io/a", "*"}, {"reg.io/A"}},
	}
	if thorough {
		a.Levels = append(a.Levels, "permissive", "custom", "paranoid")
		a.Overrides = append(a.Overrides, [][]ovEntry{{{"expiry", "log"}}, {{"Revocation", "log"}}, {{"revocation", "warn"}}, {{"revocation", "skip"}, {"authenticity", "skip"}}, {{"integrity", "enforce"}}}...)
		a.VTS = append(a.VTS, "afterCertExpiry", "Always")
		a.Stores = append(a.Stores, [][]string{{"signingAuthority:s.1_x-"}, {"ca:a", "a"}, {"ca:.."}, {"ca:"}}...)
		a.Ids = append(a.Ids, [][]string{{dnA, dnAcn}, {"*", dnA}, {dnA, "nocolon"}, {dnC, "unknown-prefix:x"}, {dnA, dnAs}, {dnMulti}, {"*", "unknown-prefix:x"}, {"unknown-prefix:x"}, {dnA, "*", dnB}}...)
		a.Scopes = append(a.Scopes, [][]string{{"reg.io/a"}, {"reg.io"}, {"https://reg.io/a"}, {"local/my-layout"}, {"local/my..layout"}}...)
	}
	return a
}

func asmPool(thorough bool) asmAlphabet {
	a := asmAlphabet{
		Levels:    []string{"strict", "skip", "Strict"},
		Overrides: [][]ovEntry{nil},
		VTS:       []string{""},
		Stores:    [][]string{nil, {"ca:a"}, {"ca:a/b"}},
		Ids:       [][]string{nil, {"*"}, {dnA, dnAcn}},
		Scopes:    [][]string{{"*"}, {"reg.io/a"}, {"reg.io/A"}},
	}
	if thorough {
		a.Overrides = append(a.Overrides, []ovEntry{{"revocation", "skip"}}, []ovEntry{{"expiry", "skip"}})
		a.VTS = append(a.VTS, "never")
		a.Ids = append(a.Ids, []string{dnA, dnB})
		a.Scopes = append(a.Scopes, []string{"reg.io/a", "reg.io/b"})
	}
	return a
}

func (a asmAlphabet) statements(kind string) []stmtSpec {
	var out []stmtSpec
	last := a.Scopes
	if kind == "blob" {
		last = [][]string{nil, {"GLOBAL"}}
	}
	for _, l := range a.Levels {
		for _, o := range a.Overrides {
			for _, v := range a.VTS {
				for _, s := range a.Stores {
					for _, id := range a.Ids {
						for _, x := range last {
							st := stmtSpec{Level: l, Override: o, VTS: v, Stores: s, Ids: id}
							if kind == "oci" {
								st.Scopes = x
							} else {
								st.Global = x != nil
							}
							out = append(out, st)
						}
					}
				}
			}
		}
	}
	return out
}

func enumAssembly(r *hx.Run, kind string) {
	single := asmSingle(r.Thorough()).statements(kind)
	r.Extra[kind+"_assembled_single_statement_documents"] = len(single)
	asmSamples := make([]any, len(single))
	const chunk = 128
	r.Parallel((len(single)+chunk-1)/chunk, func(c int) {
		t := newTally()
		defer t.flush()
		for i := c * chunk; i < (c+1)*chunk && i < len(single); i++ {
			d := (&docSpec{Kind: kind, Version: "1.0", Stmts: []stmtSpec{single[i]}}).clone()
			d.Stmts[0].Name = "a"
			judgeSpec(r, t, d, "assembled", fmt.Sprintf("%s-assembled-1[%d]", kind, i))
			if i%7919 == 0 {
				rs, _ := reference(d)
				asmSamples[i] = map[string]any{"kind": kind, "assembled": i, "document": json.RawMessage(d.json()), "reference": rs}
			}
		}
	}, nil)
	submit(r, asmSamples)
	pool := asmPool(r.Thorough()).statements(kind)
	type naming struct{ ver, n0, n1 string }
	namings := []naming{{"1.0", "a", "b"}, {"1.0", "a", "a"}}
	if r.Thorough() {
		namings = append(namings, naming{"2.0", "a", "b"}, naming{"1.0", "", "b"})
	}
	r.Extra[kind+"_assembled_two_statement_documents"] = len(pool) * len(pool) * len(namings)
	r.Parallel(len(pool), func(i int) {
		t := newTally()
		defer t.flush()
		for j := range pool {
			for ni, nm := range namings {
				d := (&docSpec{Kind: kind, Version: nm.ver, Stmts: []stmtSpec{pool[i], pool[j]}}).clone()
				d.Stmts[0].Name, d.Stmts[1].Name = nm.n0, nm.n1
				judgeSpec(r, t, d, "assembled", fmt.Sprintf("%s-assembled-2[%d,%d,%d]", kind, i, j, ni))
			}
		}
	}, nil)
	// documents without statements and the version alphabet
	t := newTally()
	defer t.flush()
	for _, v := range verAlphabet {
		for _, empty := range []bool{false, true} {
			judgeSpec(r, t, &docSpec{Kind: kind, Version: v.V, EmptySt: empty}, "assembled", kind+"-assembled-0")
		}
		one := mkStmt([6]int{}, "a", false)
		if kind == "blob" {
			one.Scopes = nil
		}
		judgeSpec(r, t, &docSpec{Kind: kind, Version: v.V, Stmts: []stmtSpec{one}}, "assembled-version", kind+"-assembled-version")
	}
}

// enumCross covers the rules that relate DIFFERENT statements (unique names, one statement per scope, the
// wildcard scope in one statement only, at most one global statement) on documents with 3 (thorough: also 4)
// statements, so that the two conflicting statements need not be adjacent or first: every statement
// independently takes one of the feature combinations below - the full product.
func enumCross(r *hx.Run, kind string) {
	type feat struct {
		dupName bool // name of statement 0 instead of an own name
		scope   int  // oci: 0 own scope, 1 the shared scope, 2 the wildcard scope
		global  bool // blob
		skip    bool // skip level (no stores, no identities)
	}
	var feats []feat
	for _, dn := range []bool{false, true} {
		for _, sk := range []bool{false, true} {
			if kind == "oci" {
				for sc := 0; sc < 3; sc++ {
					feats = append(feats, feat{dupName: dn, scope: sc, skip: sk})
				}
			} else {
				for _, g := range []bool{false, true} {
					feats = append(feats, feat{dupName: dn, global: g, skip: sk})
				}
			}
		}
	}
	own := []string{"reg.io/a", "reg.io/b", "other.io/lib/app_1.x-y", "localhost/x1"}
	sizes := []int{3}
	if r.Thorough() {
		sizes = []int{3, 4}
	}
	total := 0
	for _, k := range sizes {
		n := 1
		for i := 0; i < k; i++ {
			n *= len(feats)
		}
		total += n
		k := k
		const chunk = 256
		r.Parallel((n+chunk-1)/chunk, func(c int) {
			t := newTally()
			defer t.flush()
			for idx := c * chunk; idx < (c+1)*chunk && idx < n; idx++ {
				d := &docSpec{Kind: kind, Version: "1.0"}
				x := idx
				for i := 0; i < k; i++ {
					f := feats[x%len(feats)]
					x /= len(feats)
					st := stmtSpec{Name: fmt.Sprintf("s%d", i), Level: "strict", Stores: []string{"ca:a"}, Ids: []string{"*"}}
					if f.dupName && i > 0 {
						st.Name = "s0"
					}
					if f.skip {
						st.Level, st.Stores, st.Ids = "skip", nil, nil
					}
					if kind == "oci" {
						switch f.scope {
						case 0:
							st.Scopes = []string{own[i]}
						case 1:
							st.Scopes = []string{"reg.io/a/b"}
						case 2:
							st.Scopes = []string{"*"}
						}
					} else {
						st.Global = f.global
					}
					d.Stmts = append(d.Stmts, st)
				}
				judgeSpec(r, t, d, "cross-statement", fmt.Sprintf("%s-cross-%d[%d]", kind, k, idx))
			}
		}, nil)
	}
	r.Extra[kind+"_cross_statement_documents"] = total
}

// both documents handed to one verifier: accepted iff both are well-formed
func enumBoth(r *hx.Run) {
	ob, bb := baseDocs("oci"), baseDocs("blob")
	pick := func(bs []baseDoc) []*docSpec {
		var out []*docSpec
		for i := 0; i < len(bs); i += len(bs)/3 + 1 {
			out = append(out, bs[i].Spec)
			for k, e := range editsFor(bs[i].Spec) {
				if e.Rule != "" && e.Primary && k%5 == 0 {
					d := bs[i].Spec.clone()
					e.Apply(d)
					out = append(out, d)
				}
			}
		}
		return out
	}
	os, bls := pick(ob), pick(bb)
	r.Extra["both_kinds_pairs"] = len(os) * len(bls)
	t := newTally()
	defer t.flush()
	for _, o := range os {
		for _, b := range bls {
			ro, _ := reference(o)
			rb, _ := reference(b)
			want := len(ro) == 0 && len(rb) == 0
			od, bd := o.oci(), b.blob()
			err := newVerifier(od, bd)
			t.evals++
			or, _ := json.Marshal(od)
			br, _ := json.Marshal(bd)
			rc := replayCase{Kind: "both", Document: or, Document2: br, ExpectValid: want}
			for _, x := range ro {
				rc.Reasons = append(rc.Reasons, "oci:"+x)
			}
			for _, x := range rb {
				rc.Reasons = append(rc.Reasons, "blob:"+x)
			}
			switch {
			case err == nil && !want:
				report("both/verifier-accepted-invalid:"+strings.Join(rc.Reasons, "+"), fmt.Sprintf("NewVerifierWithOptions accepted oci %s blob %s", or, br), rc)
			case err != nil && want:
				// the constructor may have reasons of its own: evidence only
				t.out["recorded:both/verifier-rejected-valid"]++
			case err == nil:
				t.out["both:accepted-valid"]++
			default:
				t.out["both:rejected-invalid"]++
			}
		}
	}
}

// ---------------------------------------------------------------- replay

func replay(r *hx.Run) {
	var c replayCase
	if err := r.LoadReplay(&c); err != nil {
		r.Infra("replay: %v", err)
		return
	}
	t := newTally()
	defer func() {
		r.Eval(t.evals)
		flushViolations(r)
		if r.Violations() == 0 {
			fmt.Printf("replay: holds (expected valid=%v %v)\n", c.ExpectValid, c.Reasons)
		}
	}()
	switch c.Kind {
	case "oci":
		var o trustpolicy.OCIDocument
		if err := json.Unmarshal(c.Document, &o); err != nil {
			r.Infra("replay: %v", err)
			return
		}
		judge(r, t, "oci", &o, nil, c.ExpectValid, c.Reasons, c.Unstated, c.Skip, c.What, c.Origin)
	case "blob":
		var b trustpolicy.BlobDocument
		if err := json.Unmarshal(c.Document, &b); err != nil {
			r.Infra("replay: %v", err)
			return
		}
		judge(r, t, "blob", nil, &b, c.ExpectValid, c.Reasons, c.Unstated, c.Skip, c.What, c.Origin)
	case "both":
		var o trustpolicy.OCIDocument
		var b trustpolicy.BlobDocument
		if json.Unmarshal(c.Document, &o) != nil || json.Unmarshal(c.Document2, &b) != nil {
			r.Infra("replay: malformed documents")
			return
		}
		err := newVerifier(&o, &b)
		t.evals++
		switch {
		case err == nil && !c.ExpectValid:
			report("both/verifier-accepted-invalid:"+strings.Join(c.Reasons, "+"), fmt.Sprintf("NewVerifierWithOptions accepted oci %s blob %s", c.Document, c.Document2), c)
		}
	default:
		r.Infra("replay: unknown kind %q", c.Kind)
		return
	}
}

func main() {
	r := hx.New("C09")
	r.Rule = "every base document of the valid grammar, every applicable (site, operator, parameter) single edit, every pair of edits writing different fields (quick: only the primary parameter of every operator and site), and every document assembled from the component alphabets (<= 2 statements) is validated once directly and once through NewVerifierWithOptions and compared with the label-based reference; non-trivial = distinct documents (kind + JSON)"
	r.Assumptions = []string{
		"documents are built as Go values (JSON loading is C12's domain); nil and empty lists are both used",
		"every store, identity, scope, level, option, type and action string carries a hand-written label (tables.go); the reference never inspects the strings",
		"only rules named in the statement are enforced; features the statement is silent about (tables.go unstatedRules: unknown override type/action, empty or separator-less identity, DN with duplicate attribute / multi-valued RDN / '=#', other spellings of a DN such as S for ST, statement without scopes, repeated store / scope / wildcard, names differing in case only, blank or non-ASCII store name, empty override object on skip) make a document 'not judged' unless it also violates a stated rule; what the code does with them is recorded as outcome classes recorded:*",
		"identities with a prefix other than x509.subject obey every stated rule (valid)",
		"overlap = the hand-written attribute set of one DN contains the other's (identical DNs, DN and the same DN with one more attribute); DNs differing only in letter case of a value or compatible without containment are not in the alphabet",
		"store names are labelled not file-name-safe for: empty, '/', '\\\\', ':', control characters, '.', '..'",
		"NewVerifierWithOptions must not accept a document violating a stated rule; its refusing a document that Validate accepts is recorded only",
	}
	if r.Replay != "" {
		replay(r)
		r.Finish()
	}
	checkTables(r)
	for _, kind := range []string{"oci", "blob"} {
		enumEdits(r, kind)
		enumAssembly(r, kind)
		enumCross(r, kind)
	}
	enumBoth(r)
	// hand the violations and totals to the run (sorted, single-threaded)
	flushViolations(r)
	r.Eval(st.evals)
	classes := make([]string, 0, len(st.out))
	for k := range st.out {
		classes = append(classes, k)
	}
	sort.Strings(classes)
	for _, k := range classes {
		for n := int64(0); n < st.out[k]; n++ {
			r.Outcome(k)
		}
	}
	if st.accepts == 0 && r.Violations() == 0 {
		r.Infra("no valid document was accepted and nothing was reported: positive controls failed")
	}
	if st.vaccepts == 0 {
		// the constructor accepted nothing: the verifier-accepted-invalid clause was vacuous in this run (evidence, not an error)
		r.Outcome("recorded:verifier-constructor-accepted-no-document")
	}
	keys := make([]string, 0, len(st.reasons))
	for k := range st.reasons {
		keys = append(keys, k)
	}
	sort.Strings(keys)
	hist := map[string]int{}
	for _, k := range keys {
		hist[k] = st.reasons[k]
	}
	r.Extra["rejected_documents_per_violated_rule"] = hist
	r.Extra["distinct_rule_labels_exercised"] = len(keys)
	r.Extra["accepted_valid_documents"] = st.accepts
	r.Finish()
}
