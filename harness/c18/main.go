// C18 — the signer never returns plugin output it has not checked against the request.
//
// E3: exhaustive enumeration of ADVERSARIAL answers of an in-process scripted
// plugin.SignPlugin that holds a real key and a real certificate chain (so it can
// return CORRECTLY SIGNED wrong answers), over
//
//	key spec x envelope format x request descriptor x entry point x answer
//
// for both plugin paths (SIGNATURE_GENERATOR.ENVELOPE and SIGNATURE_GENERATOR.RAW). The
// request descriptor dimension (reqDescs) holds the everyday descriptors and VALUE
// descriptors with boundary sizes (2^31, 2^32, 2^53, 2^60, 2^63-1 ...), unusual
// annotations, digest algorithm and media type; the answers include signed sizes at
// small and at 2^32 distance of the requested one.
// The real PluginSigner.Sign / notation.SignBlob(PluginSigner) is run on every element.
//
// Oracle (implication only, and only what the statement says): no panic ever; if
// (sig, info, nil) is returned then sig is of the requested format, lib/refsig
// verifies it under its own leaf certificate, it has the Notary payload type, and its
// payload decoded STRICTLY (exact key spelling, no unknown members; duplicates =
// ambiguous = not judged) carries the requested mediaType / digest / size and every
// requested annotation; for raw-signature plugins additionally the describe-key answer
// the library relies on and the generate-signature answer named the requested key id,
// the described key spec is one of the six names and is the spec of the key that
// verifies the signature, and the leaf of the chain the plugin answered holds that
// key. Everything else that is observable (echoed envelope type field, signerInfo,
// byte identity of chains, number/order of plugin calls, error texts) is recorded in
// outcome classes "recorded:<key>" and never an alarm. Honest answers must succeed
// (positive controls). Every call of a two-call history on one PluginSigner is
// judged like a call on a fresh signer.
package main

import (
	"bytes"
	"context"
	"crypto"
	"crypto/ecdsa"
	"crypto/rand"
	"crypto/rsa"
	"crypto/x509"
	"encoding/asn1"
	"encoding/base64"
	"encoding/json"
	"errors"
	"fmt"
	"io"
	"math/big"
	"os"
	"runtime/debug"
	"sort"
	"strconv"
	"strings"
	"time"

	"github.com/fxamacker/cbor/v2"
	"github.com/notaryproject/notation-core-go/signature"
	"github.com/notaryproject/notation-go"
	"github.com/notaryproject/notation-go/signer"
	"github.com/notaryproject/notation-go/zzverif/lib/forge"
	"github.com/notaryproject/notation-go/zzverif/lib/hx"
	"github.com/notaryproject/notation-go/zzverif/lib/pki"
	"github.com/notaryproject/notation-go/zzverif/lib/refsig"
	fw "github.com/notaryproject/notation-plugin-framework-go/plugin"
	"github.com/opencontainers/go-digest"
	ocispec "github.com/opencontainers/image-spec/specs-go/v1"
)

const (
	mtManifest = "application/vnd.oci.image.manifest.v1+json"
	mtBlob     = "application/octet-stream"
	otherKeyID = "verif-key-2"

	famEnvelope = "envelope"
	famRaw      = "raw"
)

var (
	artifactContent = []byte("artifact A")
	blobContent     = []byte("C18 blob content: the quick brown fox jumps over the lazy dog")
	otherContent    = []byte("C18 some other content")
	reqAnnotations  = [][2]string{{"a", "1"}, {"b", "2"}}
	ctx             = context.Background()
)

// ---------------------------------------------------------------- request descriptors
//
// reqDesc is one value of the dimension "descriptor the CALLER requests". "plain" and
// "annotated" are the everyday descriptors (run through all three entry points). The
// others are VALUE descriptors: one attribute of the request takes a boundary / unusual
// value (sizes around 2^31, 2^32, 2^53 and 2^63, where 32-bit, float64 and int64
// representations of a JSON number stop being exact; annotation values and keys that
// collide with "absent" or with descriptor member names; a digest under another
// algorithm; an unregistered media type). A comparison of the signed descriptor with
// the request that is exact on everyday values only is invisible without them. They are
// run through the entry points where the caller states the whole descriptor (Sign and
// PluginSigner.SignBlob with a generator); notation.SignBlob measures size and digest itself.
type reqDesc struct {
	Name    string
	Ann     [][2]string
	HasSize bool
	Size    int64
	MT      string           // "" = the entry point's everyday media type
	SignAlg digest.Algorithm // "" = sha256: the algorithm of the digest in the descriptor handed to Sign
	Value   bool             // value descriptor (see above)
	Note    string
}

var reqDescs = []reqDesc{
	{Name: "plain"},
	{Name: "annotated", Ann: reqAnnotations},
	{Name: "size:0", Ann: reqAnnotations, HasSize: true, Size: 0, Value: true, Note: "zero = the value of an absent member"},
	{Name: "size:2^31", Ann: reqAnnotations, HasSize: true, Size: 1 << 31, Value: true, Note: "first value above int32"},
	{Name: "size:2^32+100", Ann: reqAnnotations, HasSize: true, Size: 1<<32 + 100, Value: true, Note: "low 32 bits = the everyday size 100"},
	{Name: "size:2^53-1", Ann: reqAnnotations, HasSize: true, Size: 1<<53 - 1, Value: true, Note: "largest integer below which float64 is exact on every neighbour"},
	{Name: "size:2^53", Ann: reqAnnotations, HasSize: true, Size: 1 << 53, Value: true, Note: "2^53+1 is not a float64"},
	{Name: "size:2^53+4", Ann: reqAnnotations, HasSize: true, Size: 1<<53 + 4, Value: true, Note: "float64 spacing 2: both neighbours round to it"},
	{Name: "size:2^60", Ann: reqAnnotations, HasSize: true, Size: 1 << 60, Value: true, Note: "float64 spacing 256"},
	{Name: "size:2^63-1", Ann: reqAnnotations, HasSize: true, Size: 1<<63 - 1, Value: true, Note: "largest int64"},
	{Name: "annotations:empty-value", Ann: [][2]string{{"a", ""}, {"b", "2"}}, Value: true, Note: "a requested annotation whose value equals the zero value of a missing map entry"},
	{Name: "annotations:named-like-descriptor-members", Ann: [][2]string{{"digest", "sha256:0000000000000000000000000000000000000000000000000000000000000000"}, {"size", "1"}}, Value: true, Note: "requested annotation keys that are also descriptor member names"},
	{Name: "digest:sha512", Ann: reqAnnotations, SignAlg: digest.SHA512, Value: true, Note: "Sign is handed a sha512 digest"},
	{Name: "mediatype:unregistered", Ann: reqAnnotations, MT: "application/vnd.Verif.Thing.v1+JSON; q=1", Value: true, Note: "mixed case, parameter, blank"},
}

func descOf(name string) *reqDesc {
	for i := range reqDescs {
		if reqDescs[i].Name == name {
			return &reqDescs[i]
		}
	}
	return nil
}

// entryApplies: value descriptors only where the caller states the whole descriptor.
func entryApplies(d *reqDesc, entry string) bool { return !d.Value || entry != "SignBlob" }

// requested is the descriptor the harness hands to Sign / answers from the generator of SignBlobDirect.
func requested(d *reqDesc, entry string, alg digest.Algorithm) ocispec.Descriptor {
	out := ocispec.Descriptor{Annotations: annMap(d.Ann)}
	if entry == "Sign" {
		if alg == "" {
			alg = digest.SHA256
		}
		out.MediaType, out.Size, out.Digest = mtManifest, 100, alg.FromBytes(artifactContent)
	} else {
		out.MediaType, out.Size, out.Digest = mtBlob, int64(len(blobContent)), alg.FromBytes(blobContent)
	}
	if d.HasSize {
		out.Size = d.Size
	}
	if d.MT != "" {
		out.MediaType = d.MT
	}
	return out
}

// ---------------------------------------------------------------- key material

type world struct {
	Spec       string
	KeyID      string // one key id and one plugin name per key: a library that remembers checked answers per (plugin, key id) stays correct
	PlugName   string
	FwSpec     fw.KeySpec
	key        crypto.Signer
	other      crypto.Signer
	chain      *pki.Chain // the plugin's chain, leaf holds key
	otherChain *pki.Chain // leaf holds other
	caLeaf     [][]byte   // chain whose leaf (for key) is a CA certificate
	noDSLeaf   [][]byte   // chain whose leaf (for key) lacks the digitalSignature key usage
}

var fwSpecs = map[string]fw.KeySpec{
	pki.RSA2048: fw.KeySpecRSA2048, pki.RSA3072: fw.KeySpecRSA3072, pki.RSA4096: fw.KeySpecRSA4096,
	pki.EC256: fw.KeySpecEC256, pki.EC384: fw.KeySpecEC384, pki.EC521: fw.KeySpecEC521,
}

// the Notary algorithm table, written out by hand (oracle side)
var specHash = map[fw.KeySpec]crypto.Hash{
	fw.KeySpecRSA2048: crypto.SHA256, fw.KeySpecRSA3072: crypto.SHA384, fw.KeySpecRSA4096: crypto.SHA512,
	fw.KeySpecEC256: crypto.SHA256, fw.KeySpecEC384: crypto.SHA384, fw.KeySpecEC521: crypto.SHA512,
}
var specAlg = map[fw.KeySpec]string{
	fw.KeySpecRSA2048: "PS256", fw.KeySpecRSA3072: "PS384", fw.KeySpecRSA4096: "PS512",
	fw.KeySpecEC256: "ES256", fw.KeySpecEC384: "ES384", fw.KeySpecEC521: "ES512",
}
var hashDigestAlg = map[crypto.Hash]digest.Algorithm{crypto.SHA256: digest.SHA256, crypto.SHA384: digest.SHA384, crypto.SHA512: digest.SHA512}
var hashName = map[string]crypto.Hash{"SHA-256": crypto.SHA256, "SHA-384": crypto.SHA384, "SHA-512": crypto.SHA512}

// a key spec of the other key type with the same hash / of the same type with another size
var otherTypeSpec = map[string]fw.KeySpec{
	pki.RSA2048: fw.KeySpecEC256, pki.RSA3072: fw.KeySpecEC384, pki.RSA4096: fw.KeySpecEC521,
	pki.EC256: fw.KeySpecRSA2048, pki.EC384: fw.KeySpecRSA3072, pki.EC521: fw.KeySpecRSA4096,
}
var otherSizeSpec = map[string]fw.KeySpec{
	pki.RSA2048: fw.KeySpecRSA3072, pki.RSA3072: fw.KeySpecRSA4096, pki.RSA4096: fw.KeySpecRSA2048,
	pki.EC256: fw.KeySpecEC384, pki.EC384: fw.KeySpecEC521, pki.EC521: fw.KeySpecEC256,
}

func specOfKey(pub crypto.PublicKey) fw.KeySpec {
	switch k := pub.(type) {
	case *rsa.PublicKey:
		return fw.KeySpec("RSA-" + strconv.Itoa(k.N.BitLen()))
	case *ecdsa.PublicKey:
		return fw.KeySpec("EC-" + strconv.Itoa(k.Curve.Params().BitSize))
	}
	return "unsupported"
}

func buildWorld(spec string) *world {
	w := &world{Spec: spec, FwSpec: fwSpecs[spec], KeyID: "verif-key-" + spec, PlugName: "verif-scripted-" + spec}
	// keys first, one after the other (RSA generation is slow the first time; cached on disk afterwards)
	w.key = pki.Key(spec, 0)
	w.other = pki.Key(spec, 1)
	w.chain = pki.NewChain(pki.ChainOpts{Len: 3, LeafSpec: spec, LeafIdx: 0, CAIdx: 0, Prefix: "C18 " + spec})
	w.otherChain = pki.NewChain(pki.ChainOpts{Len: 3, LeafSpec: spec, LeafIdx: 1, CAIdx: 1, Prefix: "C18 other " + spec})
	cas := w.chain.Certs[1:]
	caLeaf := pki.Make(pki.Tmpl{Subject: pki.Name("C18 " + spec + " leaf that is a CA"), CA: true, PathLen: -1}, w.key, cas[0])
	noDS := pki.Make(pki.Tmpl{Subject: pki.Name("C18 " + spec + " leaf without digitalSignature"), KeyUsage: x509.KeyUsageContentCommitment}, w.key, cas[0])
	w.caLeaf = [][]byte{caLeaf.Cert.Raw, cas[0].Cert.Raw, cas[1].Cert.Raw}
	w.noDSLeaf = [][]byte{noDS.Cert.Raw, cas[0].Cert.Raw, cas[1].Cert.Raw}
	if specOfKey(w.key.Public()) != w.FwSpec {
		panic("key cache returned a key of another spec for " + spec)
	}
	return w
}

func rawChain(c *pki.Chain) [][]byte {
	var out [][]byte
	for _, x := range c.Certs {
		out = append(out, x.Cert.Raw)
	}
	return out
}

// rawSign produces the raw signature a generate-signature plugin returns: RSASSA-PSS
// (salt = hash length) or ECDSA r||s over h(msg). alt: the other encoding/scheme
// (PKCS#1 v1.5 / ASN.1 DER), which the Notary specification does not allow.
func rawSign(key crypto.Signer, h crypto.Hash, msg []byte, alt bool) []byte {
	hh := h.New()
	hh.Write(msg)
	d := hh.Sum(nil)
	switch k := key.(type) {
	case *rsa.PrivateKey:
		var s []byte
		var err error
		if alt {
			s, err = rsa.SignPKCS1v15(rand.Reader, k, h, d)
		} else {
			s, err = rsa.SignPSS(rand.Reader, k, h, d, &rsa.PSSOptions{SaltLength: rsa.PSSSaltLengthEqualsHash})
		}
		if err != nil {
			panic(err)
		}
		return s
	case *ecdsa.PrivateKey:
		if alt {
			s, err := ecdsa.SignASN1(rand.Reader, k, d)
			if err != nil {
				panic(err)
			}
			return s
		}
		r, s, err := ecdsa.Sign(rand.Reader, k, d)
		if err != nil {
			panic(err)
		}
		n := (k.Curve.Params().BitSize + 7) / 8
		out := make([]byte, 2*n)
		r.FillBytes(out[:n])
		s.FillBytes(out[n:])
		return out
	}
	panic("unsupported key type")
}

// derSig is an ASN.1 DER ECDSA-Sig-Value (SEQUENCE of two INTEGERs), the other common
// encoding of signature values; a library that tries to be helpful with it meets r and
// s of any width and sign.
func derSig(r, s *big.Int) []byte {
	b, err := asn1.Marshal(struct{ R, S *big.Int }{r, s})
	if err != nil {
		panic(err)
	}
	return b
}

func wideInt(bytes int) *big.Int {
	x := new(big.Int).Lsh(big.NewInt(1), uint(8*bytes))
	return x.Sub(x, big.NewInt(1))
}

func filled(n int, b byte) []byte { return bytes.Repeat([]byte{b}, n) }

var cborDet = func() cbor.EncMode {
	m, err := cbor.CoreDetEncOptions().EncMode()
	if err != nil {
		panic(err)
	}
	return m
}()

// withContentTypeHeader takes a good envelope and re-signs it (with key) after the content type member of the
// protected header was changed: op = absent | empty | null | number.
func withContentTypeHeader(format string, env []byte, key crypto.Signer, op string) []byte {
	h := forge.HashOf(key.Public())
	if format == forge.JWS {
		p := forge.SplitJWS(env)
		pj, err := base64.RawURLEncoding.DecodeString(p.Protected)
		if err != nil {
			panic(err)
		}
		var m map[string]json.RawMessage
		if err := json.Unmarshal(pj, &m); err != nil {
			panic(err)
		}
		switch op {
		case "absent":
			delete(m, "cty")
		case "empty":
			m["cty"] = json.RawMessage(`""`)
		case "null":
			m["cty"] = json.RawMessage(`null`)
		case "number":
			m["cty"] = json.RawMessage(`0`)
		}
		nj, err := json.Marshal(m)
		if err != nil {
			panic(err)
		}
		p.Protected = base64.RawURLEncoding.EncodeToString(nj)
		p.Signature = base64.RawURLEncoding.EncodeToString(rawSign(key, h, []byte(p.Protected+"."+p.Payload), false))
		return p.Bytes()
	}
	p := forge.SplitCOSE(env)
	var prot []byte
	if err := cbor.Unmarshal(p.Protected, &prot); err != nil {
		panic(err)
	}
	var m map[any]cbor.RawMessage
	if err := cbor.Unmarshal(prot, &m); err != nil {
		panic(err)
	}
	const labelContentType = uint64(3)
	if _, ok := m[labelContentType]; !ok {
		panic("COSE protected header without content type label")
	}
	switch op {
	case "absent":
		delete(m, labelContentType)
	case "empty":
		m[labelContentType] = cbor.RawMessage{0x60} // ""
	case "null":
		m[labelContentType] = cbor.RawMessage{0xf6}
	case "number":
		m[labelContentType] = cbor.RawMessage{0x00} // CoAP content format 0
	}
	nprot, err := cborDet.Marshal(m)
	if err != nil {
		panic(err)
	}
	if p.Protected, err = cbor.Marshal(nprot); err != nil {
		panic(err)
	}
	tbs, err := cbor.Marshal([]any{"Signature1", nprot, []byte{}, p.Payload})
	if err != nil {
		panic(err)
	}
	p.Signature = rawSign(key, h, tbs, false)
	return p.Bytes()
}

func signingAlgName(pub crypto.PublicKey) fw.SignatureAlgorithm {
	n := map[crypto.Hash]string{crypto.SHA256: "256", crypto.SHA384: "384", crypto.SHA512: "512"}[forge.HashOf(pub)]
	if _, ok := pub.(*rsa.PublicKey); ok {
		return fw.SignatureAlgorithm("RSASSA-PSS-SHA-" + n)
	}
	return fw.SignatureAlgorithm("ECDSA-SHA-" + n)
}

// ---------------------------------------------------------------- hand-written JSON

type kv struct{ K, V string } // V is raw JSON

func q(s string) string {
	b, err := json.Marshal(s)
	if err != nil {
		panic(err)
	}
	return string(b)
}

func obj(m ...kv) string {
	var sb strings.Builder
	sb.WriteByte('{')
	for i, e := range m {
		if i > 0 {
			sb.WriteByte(',')
		}
		sb.WriteString(q(e.K))
		sb.WriteByte(':')
		sb.WriteString(e.V)
	}
	sb.WriteByte('}')
	return sb.String()
}

func annJSON(a [][2]string) string {
	var m []kv
	for _, e := range a {
		m = append(m, kv{e[0], q(e[1])})
	}
	return obj(m...)
}

// reqView is what the scripted plugin understood of the request payload.
type reqView struct {
	MT      string
	Digest  string
	Size    int64
	Ann     [][2]string // sorted by key
	Content []byte      // the content the request digest was computed from (the harness owns both sides)
}

func viewOf(payload []byte, content []byte) (reqView, error) {
	var p struct {
		TargetArtifact ocispec.Descriptor `json:"targetArtifact"`
	}
	if err := json.Unmarshal(payload, &p); err != nil {
		return reqView{}, err
	}
	v := reqView{MT: p.TargetArtifact.MediaType, Digest: string(p.TargetArtifact.Digest), Size: p.TargetArtifact.Size, Content: content}
	var keys []string
	for k := range p.TargetArtifact.Annotations {
		keys = append(keys, k)
	}
	sort.Strings(keys)
	for _, k := range keys {
		v.Ann = append(v.Ann, [2]string{k, p.TargetArtifact.Annotations[k]})
	}
	return v, nil
}

func (v reqView) alg() digest.Algorithm {
	if i := strings.IndexByte(v.Digest, ':'); i > 0 {
		return digest.Algorithm(v.Digest[:i])
	}
	return digest.SHA256
}
func (v reqView) otherDigest() string { return string(v.alg().FromBytes(otherContent)) }
func (v reqView) otherAlgDigest() string {
	a := digest.SHA512
	if v.alg() == digest.SHA512 {
		a = digest.SHA256
	}
	return string(a.FromBytes(v.Content))
}
func (v reqView) upperDigest() string {
	i := strings.IndexByte(v.Digest, ':')
	return v.Digest[:i+1] + strings.ToUpper(v.Digest[i+1:])
}

// dparts: a descriptor about to be written out by hand.
type dparts struct {
	kMT, kDG, kSZ, kAN     string
	mt, dg, sz             string // sz is a raw JSON number
	ann                    [][2]string
	annRaw                 string // verbatim annotations value when non-empty
	noMT, noDG, noSZ, noAN bool
	extra                  []kv
	reverse                bool
}

func (v reqView) parts() dparts {
	return dparts{kMT: "mediaType", kDG: "digest", kSZ: "size", kAN: "annotations",
		mt: v.MT, dg: v.Digest, sz: strconv.FormatInt(v.Size, 10), ann: append([][2]string(nil), v.Ann...), noAN: len(v.Ann) == 0}
}

func (d dparts) json() string {
	var m []kv
	if !d.noMT {
		m = append(m, kv{d.kMT, q(d.mt)})
	}
	if !d.noDG {
		m = append(m, kv{d.kDG, q(d.dg)})
	}
	if !d.noSZ {
		m = append(m, kv{d.kSZ, d.sz})
	}
	if d.annRaw != "" {
		m = append(m, kv{d.kAN, d.annRaw})
	} else if !d.noAN {
		m = append(m, kv{d.kAN, annJSON(d.ann)})
	}
	if d.reverse {
		for i, j := 0, len(m)-1; i < j; i, j = i+1, j-1 {
			m[i], m[j] = m[j], m[i]
		}
	}
	return obj(append(m, d.extra...)...)
}

func pl(desc string) []byte { return []byte(obj(kv{"targetArtifact", desc})) }

// ---------------------------------------------------------------- answers

const (
	kControl  = "control"         // honest: must succeed
	kAdv      = "adversarial"     // must not lead to a returned signature that breaks the statement
	kRecorded = "recorded"        // allowed / tolerated / ambiguous by the statement: outcome recorded, oracle still applied to whatever is returned
	kBreach   = "contract-breach" // (nil, nil) from a Go method: outside the stated alphabet; even a panic is only recorded
)

type answer struct {
	Name     string
	Kind     string
	NeedsAnn bool                                 // only meaningful when the request carries annotations
	Payload  func(v reqView) []byte               // envelope path: payload to sign instead of the request's
	Mode     string                               // every other deviation
	Spell    func(canon string) string            // raw path: describe-key spells its (true) key spec this way; everything else honest
	Sig      func(w *world, honest []byte) []byte // raw path: the signature value answered instead of the honest one; everything else honest
	Note     string                               // for the evidence
	Light    bool                                 // answer-local variation (one more value of a field): quick runs it as single calls only, thorough also in histories
}

func mod(f func(v reqView, d *dparts)) func(v reqView) []byte {
	return func(v reqView) []byte {
		d := v.parts()
		f(v, &d)
		return pl(d.json())
	}
}

func good(v reqView) string { return v.parts().json() }
func bad(v reqView) string {
	d := v.parts()
	d.dg = v.otherDigest()
	return d.json()
}

// farther: x+by, or x-by where x+by would leave int64.
func farther(x, by int64) int64 {
	if x > 1<<63-1-by {
		return x - by
	}
	return x + by
}

func fixed(s string) func(v reqView) []byte { return func(reqView) []byte { return []byte(s) } }

func envelopeAnswers() []answer {
	A := []answer{
		{Name: "honest-core", Kind: kControl, Mode: "core", Note: "request payload signed by notation-core-go's own signer"},
		{Name: "honest-forge", Kind: kControl, Note: "request payload signed by lib/forge"},
		{Name: "honest-members-reordered", Kind: kRecorded, Payload: mod(func(v reqView, d *dparts) { d.reverse = true }), Note: "same members in another order (semantically the request)"},

		// correctly signed over something else
		{Name: "digest-other", Kind: kAdv, Payload: mod(func(v reqView, d *dparts) { d.dg = v.otherDigest() })},
		{Name: "digest-other-algorithm", Kind: kAdv, Payload: mod(func(v reqView, d *dparts) { d.dg = v.otherAlgDigest() }), Note: "digest of the same content under another algorithm"},
		{Name: "digest-uppercase-hex", Kind: kAdv, Payload: mod(func(v reqView, d *dparts) { d.dg = v.upperDigest() })},
		{Name: "digest-omitted", Kind: kAdv, Payload: mod(func(v reqView, d *dparts) { d.noDG = true })},
		{Name: "size-plus-one", Kind: kAdv, Payload: mod(func(v reqView, d *dparts) { d.sz = strconv.FormatInt(v.Size+1, 10) })},
		{Name: "size-minus-one", Kind: kAdv, Light: true, Payload: mod(func(v reqView, d *dparts) { d.sz = strconv.FormatInt(v.Size-1, 10) })},
		{Name: "size-plus-100", Kind: kAdv, Light: true, Payload: mod(func(v reqView, d *dparts) { d.sz = strconv.FormatInt(farther(v.Size, 100), 10) }), Note: "minus 100 where plus would leave int64"},
		{Name: "size-plus-2^32", Kind: kAdv, Light: true, Payload: mod(func(v reqView, d *dparts) { d.sz = strconv.FormatInt(farther(v.Size, 1<<32), 10) }), Note: "same low 32 bits (minus 2^32 where plus would leave int64)"},
		{Name: "size-plus-one-half", Kind: kAdv, Light: true, Payload: mod(func(v reqView, d *dparts) { d.sz += ".5" }), Note: "not an integer"},
		{Name: "size-omitted", Kind: kAdv, Payload: mod(func(v reqView, d *dparts) { d.noSZ = true })},
		{Name: "size-negative", Kind: kAdv, Payload: mod(func(v reqView, d *dparts) { d.sz = "-" + d.sz })},
		{Name: "mediatype-other", Kind: kAdv, Payload: mod(func(v reqView, d *dparts) { d.mt = "application/vnd.oci.image.index.v1+json" })},
		{Name: "mediatype-omitted", Kind: kAdv, Payload: mod(func(v reqView, d *dparts) { d.noMT = true })},
		{Name: "mediatype-uppercase", Kind: kAdv, Payload: mod(func(v reqView, d *dparts) { d.mt = strings.ToUpper(d.mt) })},

		// annotations
		{Name: "annotation-dropped", Kind: kAdv, NeedsAnn: true, Payload: mod(func(v reqView, d *dparts) { d.ann = d.ann[1:] })},
		{Name: "annotations-all-dropped", Kind: kAdv, NeedsAnn: true, Payload: mod(func(v reqView, d *dparts) { d.noAN = true })},
		{Name: "annotations-null", Kind: kAdv, NeedsAnn: true, Payload: mod(func(v reqView, d *dparts) { d.annRaw = "null" })},
		{Name: "annotation-altered", Kind: kAdv, NeedsAnn: true, Payload: mod(func(v reqView, d *dparts) { d.ann[0][1] += "x" })},
		{Name: "annotation-key-case-changed", Kind: kAdv, NeedsAnn: true, Payload: mod(func(v reqView, d *dparts) { d.ann[0][0] = strings.ToUpper(d.ann[0][0]) })},
		{Name: "annotation-duplicate-key-bad-last", Kind: kAdv, NeedsAnn: true, Payload: mod(func(v reqView, d *dparts) { d.ann = append(d.ann, [2]string{d.ann[0][0], "9"}) }), Note: "ambiguous payload (duplicate member)"},
		{Name: "annotation-duplicate-key-good-last", Kind: kRecorded, NeedsAnn: true, Payload: mod(func(v reqView, d *dparts) {
			d.ann = append([][2]string{{d.ann[0][0], "9"}}, d.ann[1:]...)
			d.ann = append(d.ann, v.Ann[0])
		}), Note: "ambiguous payload (duplicate member): not judged"},
		{Name: "annotation-added", Kind: kRecorded, Payload: mod(func(v reqView, d *dparts) { d.ann = append(d.ann, [2]string{"c", "3"}); d.noAN = false }), Note: "allowed: plugins may append annotations"},

		// unknown members
		{Name: "extra-payload-member-last", Kind: kAdv, Payload: func(v reqView) []byte { return []byte(obj(kv{"targetArtifact", good(v)}, kv{"extra", "1"})) }},
		{Name: "extra-payload-member-first", Kind: kAdv, Payload: func(v reqView) []byte { return []byte(obj(kv{"extra", "1"}, kv{"targetArtifact", good(v)})) }},
		{Name: "extra-payload-member-null", Kind: kAdv, Payload: func(v reqView) []byte { return []byte(obj(kv{"targetArtifact", good(v)}, kv{"extra", "null"})) }},
		{Name: "extra-payload-member-descriptor", Kind: kAdv, Payload: func(v reqView) []byte {
			return []byte(obj(kv{"targetArtifact", good(v)}, kv{"subject", bad(v)}))
		}},
		{Name: "extra-descriptor-member", Kind: kAdv, Payload: mod(func(v reqView, d *dparts) { d.extra = []kv{{"foo", "1"}} })},
		{Name: "extra-descriptor-member-nested", Kind: kAdv, Payload: mod(func(v reqView, d *dparts) { d.extra = []kv{{"foo", obj(kv{"digest", q(v.otherDigest())})}} })},
		{Name: "extra-descriptor-member-empty-name", Kind: kAdv, Payload: mod(func(v reqView, d *dparts) { d.extra = []kv{{"", "1"}} })},

		// an added member named like a member that is known at the OTHER level (or at the same level, one level down)
		{Name: "extra-payload-member-named-annotations", Kind: kAdv, Light: true, Payload: func(v reqView) []byte {
			return []byte(obj(kv{"annotations", annJSON(append([][2]string{{"x", "y"}}, v.Ann...))}, kv{"targetArtifact", good(v)}))
		}},
		{Name: "extra-payload-member-named-digest", Kind: kAdv, Light: true, Payload: func(v reqView) []byte {
			return []byte(obj(kv{"targetArtifact", good(v)}, kv{"digest", q(v.otherDigest())}))
		}},
		{Name: "extra-payload-member-named-size", Kind: kAdv, Light: true, Payload: func(v reqView) []byte { return []byte(obj(kv{"targetArtifact", good(v)}, kv{"size", "1"})) }},
		{Name: "extra-payload-member-named-mediaType", Kind: kAdv, Light: true, Payload: func(v reqView) []byte {
			return []byte(obj(kv{"mediaType", q("application/vnd.oci.image.index.v1+json")}, kv{"targetArtifact", good(v)}))
		}},
		{Name: "extra-payload-member-named-urls", Kind: kAdv, Light: true, Payload: func(v reqView) []byte {
			return []byte(obj(kv{"targetArtifact", good(v)}, kv{"urls", `["https://example.com/x"]`}))
		}},
		{Name: "extra-payload-member-named-data", Kind: kAdv, Light: true, Payload: func(v reqView) []byte { return []byte(obj(kv{"targetArtifact", good(v)}, kv{"data", `"AAEC"`})) }},
		{Name: "extra-payload-member-named-platform", Kind: kAdv, Light: true, Payload: func(v reqView) []byte {
			return []byte(obj(kv{"targetArtifact", good(v)}, kv{"platform", `{"architecture":"amd64","os":"linux"}`}))
		}},
		{Name: "extra-payload-member-named-artifactType", Kind: kAdv, Light: true, Payload: func(v reqView) []byte {
			return []byte(obj(kv{"targetArtifact", good(v)}, kv{"artifactType", `"application/vnd.example"`}))
		}},
		{Name: "extra-descriptor-member-named-targetArtifact", Kind: kAdv, Light: true, Payload: mod(func(v reqView, d *dparts) { d.extra = []kv{{"targetArtifact", bad(v)}} })},
		{Name: "extra-descriptor-member-named-targetArtifact-same", Kind: kAdv, Light: true, Payload: mod(func(v reqView, d *dparts) { d.extra = []kv{{"targetArtifact", good(v)}} })},
		{Name: "added-annotation-named-like-a-descriptor-member", Kind: kRecorded, Light: true, Payload: mod(func(v reqView, d *dparts) {
			d.ann = append(d.ann, [2]string{"digest", v.otherDigest()})
			d.noAN = false
		}), Note: "an added ANNOTATION (allowed) whose key is 'digest'"},

		// malformed VALUES of the descriptor members (syntactically broken digests, media types, sizes, annotation values):
		// unvalidated plugin output that comparison, logging or error formatting code may trip over
		{Name: "digest-no-colon", Kind: kAdv, Light: true, Payload: mod(func(v reqView, d *dparts) { d.dg = v.Digest[strings.IndexByte(v.Digest, ':')+1:] }), Note: "bare hex"},
		{Name: "digest-dash-separator", Kind: kAdv, Light: true, Payload: mod(func(v reqView, d *dparts) { d.dg = strings.Replace(v.Digest, ":", "-", 1) })},
		{Name: "digest-word", Kind: kAdv, Light: true, Payload: mod(func(v reqView, d *dparts) { d.dg = "none" })},
		{Name: "digest-empty-algorithm", Kind: kAdv, Light: true, Payload: mod(func(v reqView, d *dparts) { d.dg = v.Digest[strings.IndexByte(v.Digest, ':'):] })},
		{Name: "digest-empty-encoded", Kind: kAdv, Light: true, Payload: mod(func(v reqView, d *dparts) { d.dg = v.Digest[:strings.IndexByte(v.Digest, ':')+1] })},
		{Name: "digest-only-colon", Kind: kAdv, Light: true, Payload: mod(func(v reqView, d *dparts) { d.dg = ":" })},
		{Name: "digest-unknown-algorithm", Kind: kAdv, Light: true, Payload: mod(func(v reqView, d *dparts) { d.dg = "md5:d41d8cd98f00b204e9800998ecf8427e" })},
		{Name: "digest-short-hex", Kind: kAdv, Light: true, Payload: mod(func(v reqView, d *dparts) { d.dg = v.Digest[:strings.IndexByte(v.Digest, ':')+9] })},
		{Name: "digest-non-hex", Kind: kAdv, Light: true, Payload: mod(func(v reqView, d *dparts) { d.dg = v.Digest[:len(v.Digest)-2] + "zz" })},
		{Name: "digest-two-colons", Kind: kAdv, Light: true, Payload: mod(func(v reqView, d *dparts) { d.dg = string(v.alg()) + ":" + v.Digest })},
		{Name: "digest-leading-blank", Kind: kAdv, Light: true, Payload: mod(func(v reqView, d *dparts) { d.dg = " " + v.Digest })},
		{Name: "digest-trailing-newline", Kind: kAdv, Light: true, Payload: mod(func(v reqView, d *dparts) { d.dg = v.Digest + "\n" })},
		{Name: "digest-very-long", Kind: kAdv, Light: true, Payload: mod(func(v reqView, d *dparts) { d.dg = v.Digest + strings.Repeat("0", 1<<16) })},
		{Name: "digest-null", Kind: kAdv, Light: true, Payload: mod(func(v reqView, d *dparts) { d.noDG = true; d.extra = []kv{{"digest", "null"}} })},
		{Name: "digest-number", Kind: kAdv, Light: true, Payload: mod(func(v reqView, d *dparts) { d.noDG = true; d.extra = []kv{{"digest", "1"}} })},
		{Name: "digest-array", Kind: kAdv, Light: true, Payload: mod(func(v reqView, d *dparts) { d.noDG = true; d.extra = []kv{{"digest", "[" + q(v.Digest) + "]"}} })},
		{Name: "mediatype-no-slash", Kind: kAdv, Light: true, Payload: mod(func(v reqView, d *dparts) { d.mt = "manifest" })},
		{Name: "mediatype-trailing-blank", Kind: kAdv, Light: true, Payload: mod(func(v reqView, d *dparts) { d.mt += " " })},
		{Name: "mediatype-control-and-format-characters", Kind: kAdv, Light: true, Payload: mod(func(v reqView, d *dparts) { d.mt += "\x00\n%s%d" })},
		{Name: "mediatype-null", Kind: kAdv, Light: true, Payload: mod(func(v reqView, d *dparts) { d.noMT = true; d.extra = []kv{{"mediaType", "null"}} })},
		{Name: "mediatype-number", Kind: kAdv, Light: true, Payload: mod(func(v reqView, d *dparts) { d.noMT = true; d.extra = []kv{{"mediaType", "1"}} })},
		{Name: "size-overflow", Kind: kAdv, Light: true, Payload: mod(func(v reqView, d *dparts) { d.sz = "9223372036854775808" })},
		{Name: "size-huge-exponent", Kind: kAdv, Light: true, Payload: mod(func(v reqView, d *dparts) { d.sz = "1e400" })},
		{Name: "size-string", Kind: kAdv, Light: true, Payload: mod(func(v reqView, d *dparts) { d.sz = q(d.sz) })},
		{Name: "size-null", Kind: kAdv, Light: true, Payload: mod(func(v reqView, d *dparts) { d.sz = "null" })},
		{Name: "size-max-int64", Kind: kAdv, Light: true, Payload: mod(func(v reqView, d *dparts) { d.sz = "9223372036854775807" })},
		{Name: "annotation-value-number", Kind: kAdv, Light: true, NeedsAnn: true, Payload: mod(func(v reqView, d *dparts) {
			d.annRaw = obj(kv{d.ann[0][0], "1"}, kv{d.ann[1][0], q(d.ann[1][1])})
		})},
		{Name: "annotation-value-null", Kind: kAdv, Light: true, NeedsAnn: true, Payload: mod(func(v reqView, d *dparts) {
			d.annRaw = obj(kv{d.ann[0][0], "null"}, kv{d.ann[1][0], q(d.ann[1][1])})
		})},
		{Name: "annotations-array", Kind: kAdv, Light: true, NeedsAnn: true, Payload: mod(func(v reqView, d *dparts) { d.annRaw = `[{"a":"1"},{"b":"2"}]` })},
		{Name: "annotations-string", Kind: kAdv, Light: true, NeedsAnn: true, Payload: mod(func(v reqView, d *dparts) { d.annRaw = `"a=1,b=2"` })},

		// known descriptor members nobody asked for: tolerated by the code, "known" by the statement
		{Name: "known-member-urls", Kind: kRecorded, Payload: mod(func(v reqView, d *dparts) { d.extra = []kv{{"urls", `["https://example.com/x"]`}} })},
		{Name: "known-member-data", Kind: kRecorded, Payload: mod(func(v reqView, d *dparts) { d.extra = []kv{{"data", `"AAEC"`}} })},
		{Name: "known-member-platform", Kind: kRecorded, Payload: mod(func(v reqView, d *dparts) { d.extra = []kv{{"platform", `{"architecture":"amd64","os":"linux"}`}} })},
		{Name: "known-member-artifactType", Kind: kRecorded, Payload: mod(func(v reqView, d *dparts) { d.extra = []kv{{"artifactType", `"application/vnd.example"`}} })},
		{Name: "known-members-all", Kind: kRecorded, Payload: mod(func(v reqView, d *dparts) {
			d.extra = []kv{{"urls", `["https://example.com/x"]`}, {"data", `"AAEC"`}, {"platform", `{"architecture":"amd64","os":"linux"}`}, {"artifactType", `"application/vnd.example"`}}
		})},

		// alternative spellings (encoding/json matches struct fields case-insensitively, incl. Unicode folding)
		{Name: "spelling-TargetArtifact", Kind: kAdv, Payload: func(v reqView) []byte { return []byte(obj(kv{"TargetArtifact", good(v)})) }, Note: "F-12c"},
		{Name: "spelling-targetartifact", Kind: kAdv, Payload: func(v reqView) []byte { return []byte(obj(kv{"targetartifact", good(v)})) }},
		{Name: "spelling-TARGETARTIFACT", Kind: kAdv, Payload: func(v reqView) []byte { return []byte(obj(kv{"TARGETARTIFACT", good(v)})) }},
		{Name: "spelling-MediaType", Kind: kAdv, Payload: mod(func(v reqView, d *dparts) { d.kMT = "MediaType" })},
		{Name: "spelling-Digest", Kind: kAdv, Payload: mod(func(v reqView, d *dparts) { d.kDG = "Digest" })},
		{Name: "spelling-Size", Kind: kAdv, Payload: mod(func(v reqView, d *dparts) { d.kSZ = "Size" })},
		{Name: "spelling-size-long-s", Kind: kAdv, Payload: mod(func(v reqView, d *dparts) { d.kSZ = "ſize" }), Note: "U+017F folds to 's'"},
		{Name: "spelling-digest-long-s", Kind: kAdv, Payload: mod(func(v reqView, d *dparts) { d.kDG = "digeſt" })},
		{Name: "spelling-Annotations", Kind: kAdv, NeedsAnn: true, Payload: mod(func(v reqView, d *dparts) { d.kAN = "Annotations" })},
		{Name: "mixed-spelling-good-then-bad", Kind: kAdv, Payload: func(v reqView) []byte {
			return []byte(obj(kv{"targetArtifact", good(v)}, kv{"TargetArtifact", bad(v)}))
		}},
		{Name: "mixed-spelling-bad-then-good", Kind: kAdv, Payload: func(v reqView) []byte {
			return []byte(obj(kv{"TargetArtifact", bad(v)}, kv{"targetArtifact", good(v)}))
		}},

		// duplicates: ambiguous payloads
		{Name: "duplicate-targetArtifact-good-then-bad", Kind: kAdv, Payload: func(v reqView) []byte {
			return []byte(obj(kv{"targetArtifact", good(v)}, kv{"targetArtifact", bad(v)}))
		}, Note: "ambiguous payload (duplicate member)"},
		{Name: "duplicate-targetArtifact-bad-then-good", Kind: kRecorded, Payload: func(v reqView) []byte {
			return []byte(obj(kv{"targetArtifact", bad(v)}, kv{"targetArtifact", good(v)}))
		}, Note: "ambiguous payload (duplicate member): not judged"},
		{Name: "duplicate-digest-good-then-bad", Kind: kAdv, Payload: mod(func(v reqView, d *dparts) { d.extra = []kv{{"digest", q(v.otherDigest())}} }), Note: "ambiguous payload (duplicate member)"},
		{Name: "duplicate-digest-bad-then-good", Kind: kRecorded, Payload: mod(func(v reqView, d *dparts) { d.dg = v.otherDigest(); d.extra = []kv{{"digest", q(v.Digest)}} }), Note: "ambiguous payload (duplicate member): not judged"},

		// targetArtifact of another JSON type
		{Name: "targetArtifact-null", Kind: kAdv, Payload: fixed(`{"targetArtifact":null}`)},
		{Name: "targetArtifact-array", Kind: kAdv, Payload: fixed(`{"targetArtifact":[]}`)},
		{Name: "targetArtifact-string", Kind: kAdv, Payload: fixed(`{"targetArtifact":"x"}`)},
		{Name: "targetArtifact-number", Kind: kAdv, Payload: fixed(`{"targetArtifact":1}`)},
		{Name: "targetArtifact-absent", Kind: kAdv, Payload: fixed(`{}`)},
		{Name: "targetArtifact-in-array", Kind: kAdv, Payload: func(v reqView) []byte { return []byte("[" + string(pl(good(v))) + "]") }},
		{Name: "payload-not-json", Kind: kAdv, Payload: fixed(`this is not JSON`)},
		{Name: "payload-json-null", Kind: kAdv, Payload: fixed(`null`)},
		{Name: "payload-json-string", Kind: kAdv, Payload: fixed(`"targetArtifact"`)},
		{Name: "payload-trailing-garbage", Kind: kAdv, Payload: func(v reqView) []byte { return append(pl(good(v)), []byte(" x")...) }},
		{Name: "payload-two-values", Kind: kAdv, Payload: func(v reqView) []byte { return append(pl(good(v)), pl(bad(v))...) }},
		{Name: "payload-empty", Kind: kAdv, Payload: fixed(``)},

		// response level
		{Name: "echo-other-format", Kind: kAdv, Mode: "echo-other", Note: "good envelope of the requested format, response names the other format"},
		{Name: "echo-empty", Kind: kAdv, Mode: "echo-empty"},
		{Name: "envelope-other-format-echo-requested", Kind: kAdv, Mode: "other-format-lying"},
		{Name: "envelope-other-format-echo-true", Kind: kAdv, Mode: "other-format-true"},
		{Name: "signature-corrupted", Kind: kAdv, Mode: "corrupt-sig"},
		{Name: "content-type-json", Kind: kAdv, Mode: "cty-json"},
		{Name: "content-type-other-notary-version", Kind: kAdv, Mode: "cty-v2"},
		{Name: "content-type-with-suffix", Kind: kAdv, Mode: "cty-suffix", Note: "the Notary type followed by one more character"},
		{Name: "content-type-without-json-suffix", Kind: kAdv, Mode: "cty-prefix"},
		// absent member vs empty value vs other JSON/CBOR type: an otherwise perfect, correctly signed envelope that declares no payload type
		{Name: "content-type-absent", Kind: kAdv, Mode: "cty-edit:absent"},
		{Name: "content-type-empty", Kind: kAdv, Mode: "cty-edit:empty"},
		{Name: "content-type-null", Kind: kAdv, Mode: "cty-edit:null"},
		{Name: "content-type-number", Kind: kAdv, Mode: "cty-edit:number"},
		{Name: "key-not-matching-chain", Kind: kAdv, Mode: "key-mismatch", Note: "signed by another key of the same spec, chain of the plugin's key"},
		{Name: "envelope-nil", Kind: kAdv, Mode: "env-nil"},
		{Name: "envelope-empty", Kind: kAdv, Mode: "env-empty"},
		{Name: "envelope-garbage", Kind: kAdv, Mode: "env-garbage"},
		{Name: "envelope-truncated", Kind: kAdv, Mode: "env-truncated"},
		{Name: "plugin-error", Kind: kAdv, Mode: "error"},
		{Name: "metadata-error", Kind: kAdv, Mode: "meta-error"},
		{Name: "generate-envelope-nil-response", Kind: kBreach, Mode: "nil-response", Note: "(nil, nil): outside the stated alphabet, recorded only"},
	}
	return A
}

func rawAnswers() []answer {
	return []answer{
		{Name: "honest", Kind: kControl},
		// describe-key
		{Name: "describe-key-other-key-id", Kind: kAdv, Mode: "dk-other-id"},
		{Name: "describe-key-empty-key-id", Kind: kAdv, Mode: "dk-empty-id"},
		{Name: "describe-key-unknown-spec", Kind: kAdv, Mode: "dk-unknown-spec"},
		{Name: "describe-key-empty-spec", Kind: kAdv, Mode: "dk-empty-spec"},
		{Name: "describe-key-lowercase-spec", Kind: kAdv, Mode: "dk-lower-spec"},
		// near-canonical spellings of the TRUE key spec (hand-labelled: none of them is one of the six key spec names,
		// so by the statement they are undecodable and signing must fail); the plugin is honest otherwise
		{Name: "describe-key-spec-leading-zero", Kind: kAdv, Mode: "dk-spell", Spell: func(c string) string { return strings.Replace(c, "-", "-0", 1) }},
		{Name: "describe-key-spec-leading-zeros", Kind: kAdv, Mode: "dk-spell", Spell: func(c string) string { return strings.Replace(c, "-", "-000", 1) }},
		{Name: "describe-key-spec-plus-sign", Kind: kAdv, Mode: "dk-spell", Spell: func(c string) string { return strings.Replace(c, "-", "-+", 1) }},
		{Name: "describe-key-spec-double-dash", Kind: kAdv, Mode: "dk-spell", Spell: func(c string) string { return strings.Replace(c, "-", "--", 1) }},
		{Name: "describe-key-spec-leading-blank", Kind: kAdv, Mode: "dk-spell", Spell: func(c string) string { return " " + c }},
		{Name: "describe-key-spec-trailing-blank", Kind: kAdv, Mode: "dk-spell", Spell: func(c string) string { return c + " " }},
		{Name: "describe-key-spec-trailing-newline", Kind: kAdv, Mode: "dk-spell", Spell: func(c string) string { return c + "\n" }},
		{Name: "describe-key-spec-trailing-nul", Kind: kAdv, Mode: "dk-spell", Spell: func(c string) string { return c + "\x00" }},
		{Name: "describe-key-spec-blank-after-dash", Kind: kAdv, Mode: "dk-spell", Spell: func(c string) string { return strings.Replace(c, "-", "- ", 1) }},
		{Name: "describe-key-spec-blank-before-dash", Kind: kAdv, Mode: "dk-spell", Spell: func(c string) string { return strings.Replace(c, "-", " -", 1) }},
		{Name: "describe-key-spec-underscore", Kind: kAdv, Mode: "dk-spell", Spell: func(c string) string { return strings.Replace(c, "-", "_", 1) }},
		{Name: "describe-key-spec-no-dash", Kind: kAdv, Mode: "dk-spell", Spell: func(c string) string { return strings.Replace(c, "-", "", 1) }},
		{Name: "describe-key-spec-blank-for-dash", Kind: kAdv, Mode: "dk-spell", Spell: func(c string) string { return strings.Replace(c, "-", " ", 1) }},
		{Name: "describe-key-spec-decimal-point", Kind: kAdv, Mode: "dk-spell", Spell: func(c string) string { return c + ".0" }},
		{Name: "describe-key-spec-exponent", Kind: kAdv, Mode: "dk-spell", Spell: func(c string) string { return c + "e0" }},
		{Name: "describe-key-spec-digit-separator", Kind: kAdv, Mode: "dk-spell", Spell: func(c string) string { return c[:len(c)-2] + "_" + c[len(c)-2:] }},
		{Name: "describe-key-spec-hexadecimal", Kind: kAdv, Mode: "dk-spell", Spell: func(c string) string {
			i := strings.IndexByte(c, '-')
			n, _ := strconv.Atoi(c[i+1:])
			return c[:i+1] + "0x" + strconv.FormatInt(int64(n), 16)
		}},
		{Name: "describe-key-spec-fullwidth-digits", Kind: kAdv, Mode: "dk-spell", Spell: func(c string) string {
			return strings.Map(func(r rune) rune {
				if r >= '0' && r <= '9' {
					return r - '0' + 0xFF10
				}
				return r
			}, c)
		}},
		{Name: "describe-key-spec-title-case", Kind: kAdv, Mode: "dk-spell", Spell: func(c string) string { return c[:1] + strings.ToLower(c[1:]) }},
		{Name: "describe-key-spec-long-type-name", Kind: kAdv, Mode: "dk-spell", Spell: func(c string) string {
			if strings.HasPrefix(c, "EC-") {
				return "ECDSA-" + c[3:]
			}
			return "RSASSA-PSS-" + c[4:]
		}},
		{Name: "describe-key-spec-curve-name", Kind: kAdv, Mode: "dk-spell", Spell: func(c string) string {
			if strings.HasPrefix(c, "EC-") {
				return "EC-P" + c[3:]
			}
			return "RSA-" + c[4:] + "-bit"
		}},
		{Name: "describe-key-spec-quoted", Kind: kAdv, Mode: "dk-spell", Spell: func(c string) string { return "\"" + c + "\"" }},
		{Name: "describe-key-spec-twice", Kind: kAdv, Mode: "dk-spell", Spell: func(c string) string { return c + "," + c }},
		{Name: "describe-key-other-type", Kind: kAdv, Mode: "dk-other-type", Note: "key spec of the other key type, signature by the real key"},
		{Name: "describe-key-other-size/signed-with-real-hash", Kind: kAdv, Mode: "dk-other-size-real"},
		{Name: "describe-key-other-size/signed-with-requested-hash", Kind: kAdv, Mode: "dk-other-size-req", Note: "the real key signs with the hash the request names"},
		{Name: "describe-key-error", Kind: kAdv, Mode: "dk-error"},
		// generate-signature
		{Name: "generate-signature-other-key-id", Kind: kAdv, Mode: "gs-other-id"},
		{Name: "generate-signature-empty-key-id", Kind: kAdv, Mode: "gs-empty-id"},
		{Name: "signature-corrupted", Kind: kAdv, Mode: "sig-corrupt"},
		{Name: "signature-empty", Kind: kAdv, Mode: "sig-empty"},
		{Name: "signature-truncated", Kind: kAdv, Mode: "sig-truncated"},
		{Name: "signature-by-other-key", Kind: kAdv, Mode: "sig-other-key", Note: "another key of the same spec, chain of the plugin's key"},
		{Name: "signature-other-scheme", Kind: kAdv, Mode: "sig-alt", Note: "PKCS#1 v1.5 instead of PSS / ASN.1 DER instead of r||s"},
		{Name: "signature-over-other-bytes", Kind: kAdv, Mode: "sig-other-msg"},
		// signature VALUES of other lengths / other well-formed encodings with out-of-range integers (key id, key spec and
		// chain honest): whatever the library does with the bytes, it must end in an error, not in a panic
		{Name: "signature-one-byte-longer", Kind: kAdv, Mode: "sig-bytes", Sig: func(w *world, h []byte) []byte { return append(append([]byte(nil), h...), 0) }},
		{Name: "signature-leading-zero-byte", Kind: kAdv, Mode: "sig-bytes", Sig: func(w *world, h []byte) []byte { return append([]byte{0}, h...) }},
		{Name: "signature-single-byte", Kind: kAdv, Mode: "sig-bytes", Sig: func(w *world, h []byte) []byte { return []byte{1} }},
		{Name: "signature-twice-as-long", Kind: kAdv, Mode: "sig-bytes", Sig: func(w *world, h []byte) []byte { return append(append([]byte(nil), h...), h...) }},
		{Name: "signature-very-long", Kind: kAdv, Mode: "sig-bytes", Sig: func(w *world, h []byte) []byte { return filled(1<<16, 0xab) }},
		{Name: "signature-all-ff", Kind: kAdv, Mode: "sig-bytes", Sig: func(w *world, h []byte) []byte { return filled(len(h), 0xff) }, Note: "integers above the modulus / group order"},
		{Name: "signature-all-zero", Kind: kAdv, Mode: "sig-bytes", Sig: func(w *world, h []byte) []byte { return filled(len(h), 0) }},
		{Name: "signature-der-wide-integers", Kind: kAdv, Mode: "sig-bytes", Sig: func(w *world, h []byte) []byte { return derSig(wideInt(len(h)), wideInt(len(h))) }, Note: "DER SEQUENCE of two INTEGERs wider than the key"},
		{Name: "signature-der-one-wide-integer", Kind: kAdv, Mode: "sig-bytes", Sig: func(w *world, h []byte) []byte { return derSig(big.NewInt(1), wideInt(len(h)/2+1)) }, Note: "s one byte wider than the curve"},
		{Name: "signature-der-zero-integers", Kind: kAdv, Mode: "sig-bytes", Sig: func(w *world, h []byte) []byte { return derSig(big.NewInt(0), big.NewInt(0)) }},
		{Name: "signature-der-negative-integers", Kind: kAdv, Mode: "sig-bytes", Sig: func(w *world, h []byte) []byte { return derSig(big.NewInt(-1), new(big.Int).Neg(wideInt(len(h)))) }},
		{Name: "signature-der-trailing-bytes", Kind: kAdv, Mode: "sig-bytes", Sig: func(w *world, h []byte) []byte { return append(derSig(big.NewInt(1), big.NewInt(1)), 0, 0) }},
		{Name: "signature-der-of-the-honest-halves", Kind: kRecorded, Mode: "sig-bytes", Sig: func(w *world, h []byte) []byte {
			return derSig(new(big.Int).SetBytes(h[:len(h)/2]), new(big.Int).SetBytes(h[len(h)/2:]))
		}, Note: "the honest value in the other encoding: a library may convert it (then the signature verifies) or reject it"},
		{Name: "chain-nil", Kind: kAdv, Mode: "chain-nil"},
		{Name: "chain-empty-slice", Kind: kAdv, Mode: "chain-empty"},
		{Name: "chain-empty-element", Kind: kAdv, Mode: "chain-empty-elem"},
		{Name: "chain-undecodable-leaf", Kind: kAdv, Mode: "chain-bad-leaf"},
		{Name: "chain-undecodable-root", Kind: kAdv, Mode: "chain-bad-root"},
		{Name: "chain-wrong-order", Kind: kAdv, Mode: "chain-reversed", Note: "root first"},
		{Name: "chain-of-other-key", Kind: kAdv, Mode: "chain-other", Note: "leaf does not hold the signing key"},
		{Name: "chain-leaf-is-ca", Kind: kRecorded, Mode: "chain-ca-leaf", Note: "signature verifies under the leaf; chain policy is notation-core-go's: recorded"},
		{Name: "chain-leaf-without-digital-signature", Kind: kRecorded, Mode: "chain-no-ds", Note: "recorded"},
		{Name: "chain-leaf-only", Kind: kRecorded, Mode: "chain-leaf-only", Note: "incomplete chain: recorded"},
		{Name: "signing-algorithm-other-type", Kind: kRecorded, Mode: "alg-other", Note: "signingAlgorithm field of the other key type, everything else honest: the field is not in the statement"},
		{Name: "signing-algorithm-unknown", Kind: kRecorded, Mode: "alg-unknown"},
		{Name: "signing-algorithm-empty", Kind: kRecorded, Mode: "alg-empty"},
		{Name: "generate-signature-error", Kind: kAdv, Mode: "gs-error"},
		{Name: "metadata-error", Kind: kAdv, Mode: "meta-error"},
		{Name: "metadata-no-signing-capability", Kind: kAdv, Mode: "meta-nocap"},
		{Name: "metadata-nil-response", Kind: kBreach, Mode: "meta-nil", Note: "(nil, nil): outside the stated alphabet, recorded only"},
		{Name: "describe-key-nil-response", Kind: kBreach, Mode: "dk-nil", Note: "(nil, nil): outside the stated alphabet, recorded only"},
		{Name: "generate-signature-nil-response", Kind: kBreach, Mode: "gs-nil", Note: "(nil, nil): outside the stated alphabet, recorded only"},
	}
}

// ---------------------------------------------------------------- the scripted plugin

type plug struct {
	w      *world
	family string
	a      *answer
	entry  string

	// log of the current call (reset by begin)
	calls     []string
	delivered bool // the deviation reached the library
	dkCalled  bool // describe-key was asked during the current call
	// the most recent describe-key answer the library obtained on this signer (in this call or an earlier one)
	dkHas        bool
	dkID         string
	dkSpec       fw.KeySpec
	gsCalled     bool
	gsID         string
	gsChain      [][]byte
	geCalled     bool
	geReqType    string
	geEcho       string
	toolAltered  bool // the envelope notation-core-go's signer built for the "honest-core" answer does not state the descriptor of the request payload
	harnessPanic string
}

// begin starts the next call of a history on the same plugin object: the answer the
// plugin is going to give may change, the per-call log starts empty.
func (p *plug) begin(a *answer, entry string) {
	p.a, p.entry = a, entry
	p.calls, p.delivered = nil, false
	p.dkCalled = false
	p.gsCalled, p.gsID, p.gsChain = false, "", nil
	p.geCalled, p.geReqType, p.geEcho = false, "", ""
	p.toolAltered = false
}

func (p *plug) guard() func() {
	return func() {
		if v := recover(); v != nil {
			p.harnessPanic = fmt.Sprintf("%v\n%s", v, debug.Stack())
			panic(v)
		}
	}
}

func (p *plug) GetMetadata(_ context.Context, _ *fw.GetMetadataRequest) (*fw.GetMetadataResponse, error) {
	defer p.guard()()
	p.calls = append(p.calls, "get-plugin-metadata")
	m := &fw.GetMetadataResponse{Name: p.w.PlugName, Description: "scripted in-process plugin", Version: "1.0.0", URL: "https://example.com/verif", SupportedContractVersions: []string{"1.0"}}
	if p.family == famEnvelope {
		m.Capabilities = []fw.Capability{fw.CapabilityEnvelopeGenerator}
	} else {
		m.Capabilities = []fw.Capability{fw.CapabilitySignatureGenerator}
	}
	switch p.a.Mode {
	case "meta-error":
		p.delivered = true
		return nil, errors.New("scripted plugin: metadata unavailable")
	case "meta-nocap":
		p.delivered = true
		m.Capabilities = []fw.Capability{fw.CapabilityTrustedIdentityVerifier}
	case "meta-nil":
		p.delivered = true
		return nil, nil
	}
	return m, nil
}

func (p *plug) DescribeKey(_ context.Context, req *fw.DescribeKeyRequest) (*fw.DescribeKeyResponse, error) {
	defer p.guard()()
	p.calls = append(p.calls, "describe-key")
	resp := &fw.DescribeKeyResponse{KeyID: req.KeyID, KeySpec: p.w.FwSpec}
	if p.family == famRaw {
		dev := true
		switch p.a.Mode {
		case "dk-other-id":
			resp.KeyID = otherKeyID
		case "dk-empty-id":
			resp.KeyID = ""
		case "dk-unknown-spec":
			resp.KeySpec = "RSA-1024"
		case "dk-empty-spec":
			resp.KeySpec = ""
		case "dk-lower-spec":
			resp.KeySpec = fw.KeySpec(strings.ToLower(string(p.w.FwSpec)))
		case "dk-spell":
			resp.KeySpec = fw.KeySpec(p.a.Spell(string(p.w.FwSpec)))
		case "dk-other-type":
			resp.KeySpec = otherTypeSpec[p.w.Spec]
		case "dk-other-size-real", "dk-other-size-req":
			resp.KeySpec = otherSizeSpec[p.w.Spec]
		case "dk-error":
			p.delivered = true
			return nil, errors.New("scripted plugin: key not found")
		case "dk-nil":
			p.delivered = true
			return nil, nil
		default:
			dev = false
		}
		if dev {
			p.delivered = true
		}
	}
	p.dkCalled, p.dkHas, p.dkID, p.dkSpec = true, true, resp.KeyID, resp.KeySpec
	return resp, nil
}

func (p *plug) GenerateSignature(_ context.Context, req *fw.GenerateSignatureRequest) (*fw.GenerateSignatureResponse, error) {
	defer p.guard()()
	p.calls = append(p.calls, "generate-signature")
	w := p.w
	resp := &fw.GenerateSignatureResponse{KeyID: req.KeyID, SigningAlgorithm: signingAlgName(w.key.Public()), CertificateChain: rawChain(w.chain)}
	h := forge.HashOf(w.key.Public())
	key := w.key
	msg := req.Payload
	alt := false
	dev := true
	switch p.a.Mode {
	case "gs-error":
		p.delivered = true
		return nil, errors.New("scripted plugin: signing failed")
	case "gs-nil":
		p.delivered = true
		return nil, nil
	case "gs-other-id":
		resp.KeyID = otherKeyID
	case "gs-empty-id":
		resp.KeyID = ""
	case "dk-other-size-req":
		if rh, ok := hashName[string(req.Hash)]; ok {
			h = rh
		}
	case "sig-other-key":
		key = w.other
	case "sig-alt":
		alt = true
	case "sig-other-msg":
		msg = append(append([]byte(nil), msg...), 'x')
	case "chain-nil":
		resp.CertificateChain = nil
	case "chain-empty":
		resp.CertificateChain = [][]byte{}
	case "chain-empty-elem":
		resp.CertificateChain = [][]byte{nil}
	case "chain-bad-leaf":
		c := rawChain(w.chain)
		c[0] = []byte("this is not DER")
		resp.CertificateChain = c
	case "chain-bad-root":
		c := rawChain(w.chain)
		c[len(c)-1] = c[len(c)-1][:len(c[len(c)-1])/2]
		resp.CertificateChain = c
	case "chain-reversed":
		c := rawChain(w.chain)
		for i, j := 0, len(c)-1; i < j; i, j = i+1, j-1 {
			c[i], c[j] = c[j], c[i]
		}
		resp.CertificateChain = c
	case "chain-other":
		resp.CertificateChain = rawChain(w.otherChain)
	case "chain-ca-leaf":
		resp.CertificateChain = w.caLeaf
	case "chain-no-ds":
		resp.CertificateChain = w.noDSLeaf
	case "chain-leaf-only":
		resp.CertificateChain = rawChain(w.chain)[:1]
	case "alg-other":
		if _, isRSA := w.key.Public().(*rsa.PublicKey); isRSA {
			resp.SigningAlgorithm = fw.SignatureAlgorithmECDSA_SHA256
		} else {
			resp.SigningAlgorithm = fw.SignatureAlgorithmRSASSA_PSS_SHA256
		}
	case "alg-unknown":
		resp.SigningAlgorithm = "ED25519"
	case "alg-empty":
		resp.SigningAlgorithm = ""
	case "sig-corrupt", "sig-empty", "sig-truncated", "sig-bytes":
	default:
		dev = false
	}
	sig := rawSign(key, h, msg, alt)
	if p.a.Mode == "sig-bytes" {
		sig = p.a.Sig(w, sig)
	}
	switch p.a.Mode {
	case "sig-corrupt":
		sig[len(sig)/2] ^= 1
	case "sig-empty":
		sig = nil
	case "sig-truncated":
		sig = sig[:len(sig)-1]
	}
	resp.Signature = sig
	if dev {
		p.delivered = true
	}
	p.gsCalled, p.gsID, p.gsChain = true, resp.KeyID, resp.CertificateChain
	return resp, nil
}

func otherFormat(f string) string {
	if f == forge.JWS {
		return forge.COSE
	}
	return forge.JWS
}

func (p *plug) GenerateEnvelope(_ context.Context, req *fw.GenerateEnvelopeRequest) (*fw.GenerateEnvelopeResponse, error) {
	defer p.guard()()
	p.calls = append(p.calls, "generate-envelope")
	w := p.w
	a := p.a
	p.geCalled, p.geReqType = true, req.SignatureEnvelopeType
	switch a.Mode {
	case "error":
		p.delivered = true
		return nil, errors.New("scripted plugin: cannot sign")
	case "nil-response":
		p.delivered = true
		return nil, nil
	}
	content := artifactContent
	if p.entry != "Sign" {
		content = blobContent
	}
	view, err := viewOf(req.Payload, content)
	if err != nil {
		panic("scripted plugin cannot read the request payload: " + err.Error())
	}
	payload := req.Payload
	if a.Payload != nil {
		payload = a.Payload(view)
		p.delivered = true
	}
	format := req.SignatureEnvelopeType
	echo := format
	spec := forge.Spec{Format: format, Chain: w.chain.X509(), Key: w.key, Payload: payload, SigningTime: time.Now().Add(-2 * time.Hour), Agent: "verif-scripted/1.0"}
	dev := true
	switch a.Mode {
	case "echo-other":
		echo = otherFormat(format)
	case "echo-empty":
		echo = ""
	case "other-format-lying":
		spec.Format = otherFormat(format)
	case "other-format-true":
		spec.Format = otherFormat(format)
		echo = spec.Format
	case "corrupt-sig":
		spec.CorruptSig = true
	case "cty-json":
		spec.ContentType = "application/json"
	case "cty-v2":
		spec.ContentType = "application/vnd.cncf.notary.payload.v2+json"
	case "cty-suffix":
		spec.ContentType = forge.PayloadType + "2"
	case "cty-prefix":
		spec.ContentType = strings.TrimSuffix(forge.PayloadType, "+json")
	case "cty-edit:absent", "cty-edit:empty", "cty-edit:null", "cty-edit:number":
	case "key-mismatch":
		spec.Key = w.other
	case "env-nil", "env-empty", "env-garbage", "env-truncated":
	default:
		dev = false
	}
	var env []byte
	if a.Mode == "core" {
		env, err = forge.SignCore(format, w.chain.X509(), w.key, signature.SignRequest{
			Payload:     signature.Payload{ContentType: forge.PayloadType, Content: payload},
			SigningTime: time.Now().Add(-2 * time.Hour), SigningAgent: "verif-scripted/1.0"})
		if err != nil {
			panic("honest signer failed: " + err.Error())
		}
		// is the answer honest? notation-core-go's JWS signer re-encodes the payload through a generic JSON value
		// (numbers become float64): above 2^53 it may sign another size than the one it was given. Then this answer
		// is one more adversarial answer (correctly signed over another size), not a control.
		if got, err := refsig.Verify(format, env); err != nil || !samePayload(got.Payload, payload) {
			p.toolAltered, p.delivered = true, true
		}
	} else {
		env = forge.Build(spec)
	}
	if strings.HasPrefix(a.Mode, "cty-edit:") {
		env = withContentTypeHeader(format, env, w.key, strings.TrimPrefix(a.Mode, "cty-edit:"))
	}
	switch a.Mode {
	case "env-nil":
		env = nil
	case "env-empty":
		env = []byte{}
	case "env-garbage":
		env = []byte("garbage, neither JSON nor CBOR \xff\x00")
	case "env-truncated":
		env = env[:len(env)/2]
	}
	if dev {
		p.delivered = true
	}
	p.geEcho = echo
	return &fw.GenerateEnvelopeResponse{SignatureEnvelope: env, SignatureEnvelopeType: echo, Annotations: map[string]string{"verif.scripted": "1"}}, nil
}

// ---------------------------------------------------------------- strict payload decoder (oracle side)

type jnode struct {
	kind  byte // o a s n b 0
	keys  []string
	vals  []*jnode
	elems []*jnode
	str   string
	num   string
}

func parseValue(dec *json.Decoder) (*jnode, error) {
	tok, err := dec.Token()
	if err != nil {
		return nil, err
	}
	switch t := tok.(type) {
	case json.Delim:
		switch t {
		case '{':
			n := &jnode{kind: 'o'}
			for dec.More() {
				kt, err := dec.Token()
				if err != nil {
					return nil, err
				}
				k, ok := kt.(string)
				if !ok {
					return nil, errors.New("object key is not a string")
				}
				v, err := parseValue(dec)
				if err != nil {
					return nil, err
				}
				n.keys = append(n.keys, k)
				n.vals = append(n.vals, v)
			}
			if _, err := dec.Token(); err != nil {
				return nil, err
			}
			return n, nil
		case '[':
			n := &jnode{kind: 'a'}
			for dec.More() {
				v, err := parseValue(dec)
				if err != nil {
					return nil, err
				}
				n.elems = append(n.elems, v)
			}
			if _, err := dec.Token(); err != nil {
				return nil, err
			}
			return n, nil
		}
		return nil, fmt.Errorf("unexpected delimiter %v", t)
	case string:
		return &jnode{kind: 's', str: t}, nil
	case json.Number:
		return &jnode{kind: 'n', num: string(t)}, nil
	case bool:
		return &jnode{kind: 'b'}, nil
	case nil:
		return &jnode{kind: '0'}, nil
	}
	return nil, fmt.Errorf("unexpected token %T", tok)
}

func parseJSON(b []byte) (*jnode, error) {
	dec := json.NewDecoder(bytes.NewReader(b))
	dec.UseNumber()
	n, err := parseValue(dec)
	if err != nil {
		return nil, err
	}
	if _, err := dec.Token(); err != io.EOF {
		return nil, errors.New("data after the top-level value")
	}
	return n, nil
}

func hasDuplicates(n *jnode) bool {
	if n == nil {
		return false
	}
	seen := map[string]bool{}
	for i, k := range n.keys {
		if seen[k] {
			return true
		}
		seen[k] = true
		if hasDuplicates(n.vals[i]) {
			return true
		}
	}
	for _, e := range n.elems {
		if hasDuplicates(e) {
			return true
		}
	}
	return false
}

type strictDesc struct {
	MT, Digest  string
	Size        int64
	SizeText    string // the decimal text of the size member as signed
	Ann         map[string]string
	NullForZero bool // a member is JSON null where the caller requested the zero value of its type (0, "")
}

var knownUnrequested = map[string]bool{"urls": true, "data": true, "platform": true, "artifactType": true}

// strictDescriptor decodes a Notary payload with exact key spelling. It returns
// ambiguous=true when any object has a duplicate member (then nothing else is said),
// or a stable reason why the payload is not a clean Notary payload.
//
// JSON null: the decoder already reads an absent member as the zero value and
// "annotations": null as no annotations. It reads "size": null and a null annotation
// value the same way exactly where the CALLER requested that zero value (size 0, value
// ""), and notes it in NullForZero (recorded, not judged: decoded, the signed descriptor
// equals the requested one). Everywhere else null is "not a number" / "not a string".
func strictDescriptor(payload []byte, w *want) (d strictDesc, ambiguous bool, reason string) {
	n, err := parseJSON(payload)
	if err != nil {
		return d, false, "payload-not-json"
	}
	if hasDuplicates(n) {
		return d, true, ""
	}
	if n.kind != 'o' {
		return d, false, "payload-not-an-object"
	}
	var ta *jnode
	for i, k := range n.keys {
		if k == "targetArtifact" {
			ta = n.vals[i]
		} else {
			return d, false, "unknown-payload-member"
		}
	}
	if ta == nil {
		return d, false, "targetArtifact-missing"
	}
	if ta.kind != 'o' {
		return d, false, "targetArtifact-not-an-object"
	}
	for i, k := range ta.keys {
		v := ta.vals[i]
		switch k {
		case "mediaType":
			if v.kind != 's' {
				return d, false, "mediaType-not-a-string"
			}
			d.MT = v.str
		case "digest":
			if v.kind != 's' {
				return d, false, "digest-not-a-string"
			}
			d.Digest = v.str
		case "size":
			if v.kind == '0' && w != nil && w.Size == 0 {
				d.NullForZero = true
				continue
			}
			if v.kind != 'n' {
				return d, false, "size-not-a-number"
			}
			d.SizeText = v.num
			x, err := strconv.ParseInt(v.num, 10, 64)
			if err != nil {
				return d, false, "size-not-an-integer"
			}
			d.Size = x
		case "annotations":
			if v.kind == '0' {
				continue
			}
			if v.kind != 'o' {
				return d, false, "annotations-not-an-object"
			}
			d.Ann = map[string]string{}
			for j, ak := range v.keys {
				if v.vals[j].kind == '0' && w != nil && requestedEmpty(w.Ann, ak) {
					d.NullForZero = true
					d.Ann[ak] = ""
					continue
				}
				if v.vals[j].kind != 's' {
					return d, false, "annotation-value-not-a-string"
				}
				d.Ann[ak] = v.vals[j].str
			}
		default:
			if !knownUnrequested[k] {
				return d, false, "unknown-descriptor-member"
			}
		}
	}
	return d, false, ""
}

// samePayload: byte for byte, or two clean Notary payloads that state the same descriptor, sizes compared as
// decimal text (a signer may reorder members).
func samePayload(a, b []byte) bool {
	if bytes.Equal(a, b) {
		return true
	}
	da, ambA, whyA := strictDescriptor(a, nil)
	db, ambB, whyB := strictDescriptor(b, nil)
	if ambA || ambB || whyA != "" || whyB != "" || da.MT != db.MT || da.Digest != db.Digest || da.SizeText != db.SizeText || len(da.Ann) != len(db.Ann) {
		return false
	}
	for k, v := range da.Ann {
		if w, ok := db.Ann[k]; !ok || w != v {
			return false
		}
	}
	return true
}

func requestedEmpty(ann [][2]string, key string) bool {
	for _, e := range ann {
		if e[0] == key {
			return e[1] == ""
		}
	}
	return false
}

// float64Text is what a JSON number holding x becomes when it is decoded into a float64
// and encoded again by encoding/json (exact below 2^53).
func float64Text(x int64) string {
	b, err := json.Marshal(float64(x))
	if err != nil {
		panic(err)
	}
	return string(b)
}

// ---------------------------------------------------------------- cases

type caseT struct {
	Family string `json:"family"`
	Spec   string `json:"key_spec"`
	Format string `json:"format"`
	Desc   string `json:"descriptor"` // plain | annotated
	Entry  string `json:"entry"`      // Sign | SignBlob (notation.SignBlob) | SignBlobDirect (PluginSigner.SignBlob with a descriptor generator)
	Answer string `json:"answer"`
}

func (c caseT) String() string {
	return fmt.Sprintf("%s|%s|%s|%s|%s|%s", c.Family, c.Spec, short(c.Format), c.Desc, c.Entry, c.Answer)
}

// step is one signing call of a history; histT is a history of calls on ONE
// PluginSigner (and one plugin object, whose answers may change from call to call).
// A single call on a fresh signer is the history of length 1. This is the replay case.
type step struct {
	Entry  string `json:"entry"`
	Answer string `json:"answer"`
}

type histT struct {
	Family string `json:"family"`
	Spec   string `json:"key_spec"`
	Format string `json:"format"`
	Desc   string `json:"descriptor"`
	Shape  string `json:"shape"` // single | twice | honest-first | honest-last | entry-switch
	Calls  []step `json:"calls"`
}

func (h histT) call(i int) caseT {
	return caseT{Family: h.Family, Spec: h.Spec, Format: h.Format, Desc: h.Desc, Entry: h.Calls[i].Entry, Answer: h.Calls[i].Answer}
}

func (h histT) String() string {
	s := fmt.Sprintf("%s|%s|%s|%s|%s", h.Family, h.Spec, short(h.Format), h.Desc, h.Shape)
	for _, c := range h.Calls {
		s += "|" + c.Entry + ":" + c.Answer
	}
	return s
}

type histResult struct {
	h        histT
	calls    []result
	viols    []viol // history level (aliasing of returned values)
	recorded []string
	infra    string
	skip     bool // not run: internal deadline
}

func short(f string) string {
	if f == forge.JWS {
		return "jws"
	}
	return "cose"
}

type viol struct{ key, what string }

type result struct {
	c          caseT
	kind       string
	class      string // returned | returned-ambiguous-payload | rejected | panic | panic-recorded
	errText    string
	viols      []viol
	recorded   []string // observations beyond the statement: evidence only (outcome classes "recorded:<key>")
	infra      string
	nontrivial bool
	calls      string
	want       want // what the caller requested in this call (for looking at the returned bytes again later)
}

type want struct {
	MT      string
	Digest  string // exact digest when the caller stated it
	Content []byte // else: the digest must be the digest of this content under an available algorithm
	Size    int64
	Ann     [][2]string
}

func annMap(a [][2]string) map[string]string {
	if len(a) == 0 {
		return nil
	}
	m := map[string]string{}
	for _, e := range a {
		m[e[0]] = e[1]
	}
	return m
}

// wanted is the request as the CALLER stated it. Sign and SignBlobDirect state the
// whole descriptor; for notation.SignBlob the caller states the blob, its media type
// and the user metadata - which digest algorithm the library picks is its own business.
func wanted(c caseT, genAlg digest.Algorithm) want {
	d := descOf(c.Desc)
	var w want
	w.Ann = d.Ann
	if c.Entry == "Sign" {
		req := requested(d, "Sign", d.SignAlg)
		w.MT, w.Size, w.Digest = req.MediaType, req.Size, string(req.Digest)
		return w
	}
	w.MT, w.Size = mtBlob, int64(len(blobContent))
	if c.Entry == "SignBlobDirect" {
		req := requested(d, c.Entry, digest.SHA256)
		w.MT, w.Size = req.MediaType, req.Size
		if genAlg != "" {
			w.Digest = string(genAlg.FromBytes(blobContent)) // the caller's generator stated the descriptor itself
			return w
		}
	}
	w.Content = blobContent
	return w
}

// judgeEnvelope evaluates the clauses of the statement that speak about the returned
// bytes alone: requested format, verifies under its own leaf certificate, Notary
// payload type, signed descriptor = requested descriptor with every annotation and no
// unknown member.
func judgeEnvelope(c caseT, w want, sig []byte) (ref *refsig.Result, reasons, recorded []string, ambiguous bool) {
	add := func(s string) { reasons = append(reasons, s) }
	if len(sig) == 0 {
		add("returned-empty-signature")
		return
	}
	ref, err := refsig.Verify(c.Format, sig)
	if err != nil {
		if _, err2 := refsig.Verify(otherFormat(c.Format), sig); err2 == nil {
			add("returned-envelope-of-other-format")
		} else {
			add("returned-signature-that-does-not-verify")
		}
		return nil, reasons, nil, false
	}
	if ref.ContentType != forge.PayloadType {
		add("returned-wrong-payload-type")
	}
	d, amb, why := strictDescriptor(ref.Payload, &w)
	if amb {
		return ref, reasons, nil, true
	}
	// one more name for one class of "another size": the signed number is the requested size after a trip through
	// float64 (what a signer does that re-encodes the payload through a generic JSON value); exact below 2^53
	viaFloat := ""
	if d.SizeText != "" && d.SizeText != strconv.FormatInt(w.Size, 10) && d.SizeText == float64Text(w.Size) {
		viaFloat = ":float64-rendering-of-the-requested-size"
	}
	if why != "" {
		if why != "size-not-an-integer" {
			viaFloat = ""
		}
		add("returned-payload-not-strict:" + why + viaFloat)
		return
	}
	if d.NullForZero {
		recorded = append(recorded, "signed-null-where-the-zero-value-was-requested")
	}
	okDigest := false
	if w.Content == nil {
		okDigest = d.Digest == w.Digest
	} else if i := strings.IndexByte(d.Digest, ':'); i > 0 {
		if alg := digest.Algorithm(d.Digest[:i]); alg.Available() {
			okDigest = d.Digest == string(alg.FromBytes(w.Content))
		}
	}
	if !okDigest {
		add("returned-signature-over-other-digest")
	}
	if d.Size != w.Size {
		add("returned-signature-over-other-size" + viaFloat)
	}
	if d.MT != w.MT {
		add("returned-signature-over-other-media-type")
	}
	for _, e := range w.Ann {
		if got, ok := d.Ann[e[0]]; !ok || got != e[1] {
			add("returned-signature-with-annotation-dropped-or-altered")
			break
		}
	}
	return
}

func samePublicKey(a, b crypto.PublicKey) bool {
	type eq interface{ Equal(crypto.PublicKey) bool }
	x, ok := a.(eq)
	return ok && x.Equal(b)
}

// judge evaluates the statement on a returned signature. reasons: stable class names
// of why returning it violates C18. recorded: observations the statement does not
// speak about (evidence only). ambiguous: the payload has duplicate members.
func judge(c caseT, p *plug, w want, genAlg digest.Algorithm, sig []byte, info *signature.SignerInfo) (reasons, recorded []string, ambiguous bool) {
	add := func(s string) { reasons = append(reasons, s) }
	rec := func(s string) { recorded = append(recorded, s) }
	// ---- beyond the statement: recorded only
	if c.Family == famEnvelope && p.geCalled && p.geEcho != p.geReqType {
		rec("accepted-wrong-envelope-type-echo") // the statement speaks about the format of the envelope, not about the echoed field
	}
	if c.Family == famEnvelope && p.geCalled && p.geReqType != c.Format {
		rec("requested-other-envelope-type-than-the-caller")
	}
	if c.Family == famEnvelope && !p.geCalled {
		rec("returned-signature-without-asking-the-plugin")
	}
	if c.Entry == "SignBlobDirect" && genAlg == "" {
		rec("returned-signature-without-asking-for-the-descriptor")
	}
	if info == nil {
		rec("returned-nil-signer-info")
	}
	// ---- raw-signature plugins: "only if the plugin answered for the requested key id with a key spec and
	// certificate chain consistent with the signature"
	if c.Family == famRaw {
		// the key description the library relies on is the most recent describe-key answer it obtained on
		// this signer object (in this call or, if it remembers answers, in an earlier call of the history)
		if !p.dkHas {
			rec("returned-signature-without-a-key-description")
		} else {
			if p.dkID != p.w.KeyID {
				add("accepted-wrong-key-id:describe-key")
			}
			if _, canonical := specHash[p.dkSpec]; !canonical {
				add("accepted-undecodable-key-spec") // not one of the six key spec names
			}
		}
		if p.gsCalled && p.gsID != p.w.KeyID {
			add("accepted-wrong-key-id:generate-signature")
		}
		if !p.gsCalled {
			rec("returned-signature-without-asking-the-plugin")
		}
	}
	ref, why, alsoRecorded, amb := judgeEnvelope(c, w, sig)
	reasons = append(reasons, why...)
	recorded = append(recorded, alsoRecorded...)
	if ref == nil {
		return reasons, recorded, amb
	}
	if info != nil && (len(info.CertificateChain) == 0 || !bytes.Equal(info.CertificateChain[0].Raw, ref.Leaf.Raw)) {
		rec("returned-signer-info-of-another-chain")
	}
	if c.Family == famRaw {
		leafSpec := specOfKey(ref.Leaf.PublicKey)
		if p.dkHas && p.dkSpec != leafSpec {
			add("described-key-spec-inconsistent-with-signing-key")
		}
		if specAlg[leafSpec] != ref.Alg {
			rec("signature-algorithm-not-bound-to-signing-key")
		}
		if p.gsCalled {
			// the chain the plugin answered must be consistent with the signature: its leaf holds the verifying key
			consistent := false
			if len(p.gsChain) > 0 {
				if leaf, err := x509.ParseCertificate(p.gsChain[0]); err == nil {
					consistent = samePublicKey(leaf.PublicKey, ref.Leaf.PublicKey)
				}
			}
			if !consistent {
				add("plugin-chain-inconsistent-with-the-signature")
			}
			// byte identity of the returned chain with the answered chain is not demanded by the statement
			same := info != nil && len(info.CertificateChain) == len(p.gsChain) && len(p.gsChain) > 0 && bytes.Equal(ref.Leaf.Raw, p.gsChain[0])
			for i := 0; same && i < len(p.gsChain); i++ {
				same = bytes.Equal(info.CertificateChain[i].Raw, p.gsChain[i])
			}
			if !same {
				rec("returned-chain-differs-from-the-plugin's-answer")
			}
		}
	}
	return reasons, recorded, amb
}

func firstLine(s string, n int) string {
	if i := strings.IndexByte(s, '\n'); i >= 0 {
		s = s[:i]
	}
	if len(s) > n {
		s = s[:n] + "..."
	}
	return s
}

// runHistory runs the calls of h one after the other on one PluginSigner. Every call
// is judged exactly like a call on a fresh signer (the statement speaks about every
// call); what earlier calls returned is kept and looked at again afterwards.
func runHistory(h histT, worlds map[string]*world, answers map[string]*answer) (hr histResult) {
	hr.h = h
	w := worlds[h.Spec]
	if w == nil || len(h.Calls) == 0 {
		hr.infra = fmt.Sprintf("unknown key spec or empty history %v", h)
		return
	}
	p := &plug{w: w, family: h.Family}
	ps, err := signer.NewPluginSigner(p, w.KeyID, map[string]string{"cfg": "1"})
	if err != nil {
		hr.infra = "NewPluginSigner: " + err.Error()
		return
	}
	type kept struct {
		i        int
		sig, cpy []byte
	}
	var keep []kept
	for i := range h.Calls {
		c := h.call(i)
		a := answers[c.Family+"/"+c.Answer]
		if a == nil {
			hr.infra = fmt.Sprintf("unknown answer in %v", h)
			return
		}
		res, sig := runCall(c, a, p, ps, i, len(h.Calls))
		if res.infra != "" {
			hr.infra = res.infra
			return
		}
		hr.calls = append(hr.calls, res)
		if sig != nil {
			keep = append(keep, kept{i, sig, append([]byte(nil), sig...)})
		}
	}
	// what earlier calls returned is looked at again after the later calls: if the bytes the caller holds were
	// changed, they are judged again (the statement is about what the caller holds, not about byte identity)
	for _, k := range keep {
		if k.i < len(h.Calls)-1 && !bytes.Equal(k.sig, k.cpy) {
			hr.recorded = append(hr.recorded, h.Family+"/returned-signature-changed-by-a-later-call")
			if hr.calls[k.i].class == "returned" {
				_, reasons, _, _ := judgeEnvelope(h.call(k.i), hr.calls[k.i].want, k.sig)
				for _, why := range reasons {
					hr.viols = append(hr.viols, viol{h.Family + "/" + why,
						fmt.Sprintf("the signature returned by call %d of history %v was changed by the later calls and now: %s", k.i+1, h, why)})
				}
			}
		}
	}
	return
}

func runCall(c caseT, a *answer, p *plug, ps *signer.PluginSigner, idx, n int) (res result, retSig []byte) {
	res.c = c
	res.kind = a.Kind
	if c.Entry != "Sign" && c.Entry != "SignBlob" && c.Entry != "SignBlobDirect" {
		res.infra = fmt.Sprintf("unknown entry point in case %v", c)
		return
	}
	p.begin(a, c.Entry)
	where := ""
	if n > 1 {
		where = fmt.Sprintf("call %d of %d on one PluginSigner: ", idx+1, n)
	}
	rd := descOf(c.Desc)
	if rd == nil || !entryApplies(rd, c.Entry) {
		res.infra = fmt.Sprintf("unknown request descriptor, or one that entry point %s cannot state, in case %v", c.Entry, c)
		return
	}
	ann := annMap(rd.Ann)
	var sig []byte
	var info *signature.SignerInfo
	var serr error
	var panicked any
	var stack string
	var genAlg digest.Algorithm
	func() {
		defer func() {
			if v := recover(); v != nil {
				panicked, stack = v, string(debug.Stack())
			}
		}()
		opts := notation.SignerSignOptions{SignatureMediaType: c.Format}
		switch c.Entry {
		case "Sign":
			sig, info, serr = ps.Sign(ctx, requested(rd, "Sign", rd.SignAlg), opts)
		case "SignBlob":
			sig, info, serr = notation.SignBlob(ctx, ps, bytes.NewReader(blobContent), notation.SignBlobOptions{SignerSignOptions: opts, ContentMediaType: mtBlob, UserMetadata: ann})
		case "SignBlobDirect":
			gen := func(alg digest.Algorithm) (ocispec.Descriptor, error) {
				if !alg.Available() {
					return ocispec.Descriptor{}, fmt.Errorf("digest algorithm %q is not available", alg)
				}
				genAlg = alg
				return requested(rd, "SignBlobDirect", alg), nil
			}
			sig, info, serr = ps.SignBlob(ctx, gen, opts)
		}
	}()
	res.calls = strings.Join(p.calls, ",")
	if p.harnessPanic != "" {
		res.infra = fmt.Sprintf("the scripted plugin itself panicked in case %v: %s", c, p.harnessPanic)
		return
	}
	res.nontrivial = p.delivered
	if a.Kind == kControl && p.toolAltered {
		res.kind = kAdv
		res.recorded = append(res.recorded, c.Family+"/control-signer-altered-the-payload")
	}
	if panicked != nil {
		res.errText = firstLine(fmt.Sprint(panicked), 160)
		if a.Kind == kBreach {
			res.class = "panic-recorded"
			return
		}
		res.class = "panic"
		res.viols = append(res.viols, viol{c.Family + "/panic:" + a.Name,
			fmt.Sprintf("%s%s panicked on plugin answer %q (%s, %s, %s descriptor): %v :: at %s", where, c.Entry, a.Name, c.Spec, short(c.Format), c.Desc, panicked, strings.ReplaceAll(firstFrames(stack), "\n", " < "))})
		return
	}
	if serr != nil {
		res.class = "rejected"
		res.errText = firstLine(serr.Error(), 160)
		if sig != nil || info != nil {
			res.recorded = append(res.recorded, c.Family+"/signature-returned-together-with-an-error") // "returns an error" is all the statement says
		}
		return
	}
	res.nontrivial = true
	retSig = sig
	res.want = wanted(c, genAlg)
	reasons, recorded, amb := judge(c, p, res.want, genAlg, sig, info)
	for _, k := range recorded {
		res.recorded = append(res.recorded, c.Family+"/"+k)
	}
	res.class = "returned"
	if amb {
		res.class = "returned-ambiguous-payload"
	}
	for _, why := range reasons {
		res.viols = append(res.viols, viol{c.Family + "/" + why,
			fmt.Sprintf("%s%s returned a signature for plugin answer %q (%s, %s, %s descriptor; plugin calls in this call: [%s]): %s", where, c.Entry, a.Name, c.Spec, short(c.Format), c.Desc, res.calls, why)})
	}
	return
}

// firstFrames keeps the frames of the stack that lie in the repository.
func firstFrames(stack string) string {
	var keep []string
	for _, l := range strings.Split(stack, "\n") {
		l = strings.TrimSpace(l)
		// file:line lines only (no argument addresses, no pc offsets: the text must not vary between runs)
		if (strings.HasPrefix(l, "/repo/") || strings.Contains(l, "notation-core-go@")) && strings.Contains(l, ".go:") {
			if i := strings.Index(l, " +0x"); i > 0 {
				l = l[:i]
			}
			keep = append(keep, l)
			if len(keep) >= 4 {
				break
			}
		}
	}
	return strings.Join(keep, "\n")
}

func applicable(a *answer, desc string) bool {
	d := descOf(desc)
	return d != nil && (!a.NeedsAnn || len(d.Ann) >= 2)
}

func main() {
	r := hx.New("C18")
	r.Rule = "every element of (plugin path x key spec x envelope format x request descriptor x entry point x scripted plugin answer) is run once through the real PluginSigner on a fresh signer, and again inside every two-call history on ONE PluginSigner/plugin object (same answer twice; honest call first; honest call last; same answer through two entry points), every call judged like a call on a fresh signer; the request descriptor dimension holds the two everyday descriptors (plain, annotated: all three entry points) and VALUE descriptors in which one requested attribute takes a boundary value (sizes 0, 2^31, 2^32+100, 2^53-1, 2^53, 2^53+4, 2^60, 2^63-1; an empty annotation value; annotation keys named like descriptor members; a sha512 digest; an unregistered mixed-case media type with a parameter), run as single calls through the entry points where the caller states the whole descriptor, against every envelope-generator answer - among them signed sizes at distance -1, +1, +100, +2^32 and +0.5 of the requested size - so that a signed descriptor that differs from the requested one is met wherever an inexact representation (32-bit, float64) would make them compare equal; non-trivial = distinct cases in which the deviating answer was really delivered to the library (the scripted method carrying it was invoked) or a signature was returned (the oracle is evaluated there)"
	r.Assumptions = []string{
		"RSA-PSS/ECDSA/SHA-2 are sound; the plugin holds real keys, forgery without a key is not attempted",
		"oracle signature check is lib/refsig (standard library + cbor decoding only); the payload is decoded by a strict token-level decoder (exact key spelling, unknown members rejected except the known descriptor members urls/data/platform/artifactType, duplicates = ambiguous = not judged)",
		"annotations added by the plugin are allowed (signer/plugin.go: 'Plugins may append additional annotations'); known-but-unrequested descriptor members and an inconsistent signingAlgorithm response field are recorded, not judged",
		"a Go plugin method returning (nil, nil) is outside the stated alphabet of plugin answers: recorded only",
		"for notation.SignBlob the caller states blob, media type and metadata: the signed digest must be the blob's digest under any available algorithm; Sign and SignBlob-with-generator state the digest exactly",
		"only what the statement says is enforced; observations beyond it (echoed envelope type field, signerInfo contents, byte identity of the returned chain, algorithm/key-size binding, number and order of plugin calls, a value returned together with an error) are outcome classes 'recorded:<key>'",
		"a key spec string other than the six names RSA-2048/3072/4096, EC-256/384/521 is undecodable (hand-labelled near-canonical spellings); the key description the library relies on is the most recent describe-key answer it obtained on that signer object, so remembering an answer that was checked is not a violation, relying on one that was rejected is",
		"value descriptors (boundary sizes, unusual annotations / digest algorithm / media type) are requested through Sign and PluginSigner.SignBlob with a caller-supplied generator only: notation.SignBlob measures size and digest of the reader itself; they are not run inside two-call histories; on the raw-signature path they meet the honest and the recorded (tolerated) answers only, because there the library writes the payload itself and the oracle reads it from the returned envelope",
		"the oracle compares the signed size with the requested size as int64 decoded from the decimal text of the JSON number (strconv.ParseInt): no float64 on the oracle side",
		"histories have length 2; longer histories and concurrent calls on one signer are not explored",
	}

	envA, rawA := envelopeAnswers(), rawAnswers()
	answers := map[string]*answer{}
	for i := range envA {
		answers[famEnvelope+"/"+envA[i].Name] = &envA[i]
	}
	for i := range rawA {
		answers[famRaw+"/"+rawA[i].Name] = &rawA[i]
	}
	if len(answers) != len(envA)+len(rawA) {
		r.Infra("duplicate answer names")
		r.Finish()
	}

	worlds := map[string]*world{}
	need := func(spec string) {
		if worlds[spec] == nil {
			worlds[spec] = buildWorld(spec)
		}
	}

	report := func(hr histResult, verbose bool) {
		if hr.infra != "" {
			r.Infra("%s", hr.infra)
			return
		}
		nontrivial := false
		var classes []string
		for _, res := range hr.calls {
			r.Eval(1)
			nontrivial = nontrivial || res.nontrivial
			classes = append(classes, res.class)
			for _, v := range res.viols {
				r.Violation(v.key, v.what, hr.h)
			}
			for _, k := range res.recorded {
				r.Outcome("recorded:" + k)
			}
		}
		for _, v := range hr.viols {
			r.Violation(v.key, v.what, hr.h)
		}
		for _, k := range hr.recorded {
			r.Outcome("recorded:" + k)
		}
		if hr.h.Shape == "single" {
			r.Outcome(hr.h.Family + "/" + hr.h.Calls[0].Answer + ":" + classes[0])
		} else {
			r.Outcome("history/" + hr.h.Family + "/" + hr.h.Shape + ":" + strings.Join(classes, "+"))
		}
		r.Trace(1)
		if nontrivial {
			r.Nontrivial(hr.h.String())
		}
		if verbose {
			for i, res := range hr.calls {
				fmt.Printf("history %v call %d: %s plugin-calls=[%s] %s\n", hr.h, i+1, res.class, res.calls, res.errText)
			}
		}
	}

	if r.Replay != "" {
		var h histT
		if err := r.LoadReplay(&h); err != nil {
			r.Infra("replay: %v", err)
			r.Finish()
		}
		if _, ok := fwSpecs[h.Spec]; !ok {
			r.Infra("replay: unknown key spec %q", h.Spec)
			r.Finish()
		}
		if descOf(h.Desc) == nil {
			r.Infra("replay: unknown request descriptor %q", h.Desc)
			r.Finish()
		}
		need(h.Spec)
		report(runHistory(h, worlds, answers), true)
		r.Finish()
	}

	// ---- the space ----
	specs := pki.AllSpecs
	if !r.Thorough() {
		specs = []string{pki.RSA2048, pki.EC256, pki.EC384}
	}
	descs := []string{"plain", "annotated"}
	var valueDescs []string
	for _, d := range reqDescs {
		if d.Value {
			valueDescs = append(valueDescs, d.Name)
		}
	}
	entries := []string{"Sign", "SignBlob", "SignBlobDirect"}
	switches := [][2]string{{"Sign", "SignBlob"}, {"SignBlob", "Sign"}, {"Sign", "SignBlobDirect"}, {"SignBlobDirect", "SignBlob"}}
	honest := map[string]string{famEnvelope: "honest-forge", famRaw: "honest"}
	var singles, histories []histT
	// singles: one call on a fresh signer
	addSingles := func(spec, format, desc, entry string) {
		rd := descOf(desc)
		if !entryApplies(rd, entry) {
			return
		}
		for _, fam := range []string{famEnvelope, famRaw} {
			list := envA
			if fam == famRaw {
				list = rawA
			}
			for i := range list {
				// value descriptors meet every envelope-generator answer; on the raw-signature path the library writes
				// the payload itself, so they meet the answers that end in a returned signature (the oracle reads it)
				if rd.Value && fam == famRaw && list[i].Kind != kControl && list[i].Kind != kRecorded {
					continue
				}
				if applicable(&list[i], desc) {
					singles = append(singles, histT{Family: fam, Spec: spec, Format: format, Desc: desc, Shape: "single", Calls: []step{{entry, list[i].Name}}})
				}
			}
		}
	}
	// histories of two calls on ONE signer: the same answer twice; an honest call first; an honest call last;
	// the same answer through two different entry points
	addHistories := func(spec, format, desc string, ents []string, sw [][2]string) {
		for _, fam := range []string{famEnvelope, famRaw} {
			list := envA
			if fam == famRaw {
				list = rawA
			}
			for i := range list {
				a := &list[i]
				if !applicable(a, desc) || a.Kind == kBreach || (a.Light && !r.Thorough()) {
					continue
				}
				mk := func(shape string, c ...step) {
					histories = append(histories, histT{Family: fam, Spec: spec, Format: format, Desc: desc, Shape: shape, Calls: c})
				}
				for _, e := range ents {
					mk("twice", step{e, a.Name}, step{e, a.Name})
					if a.Kind != kControl {
						mk("honest-first", step{e, honest[fam]}, step{e, a.Name})
						mk("honest-last", step{e, a.Name}, step{e, honest[fam]})
					}
				}
				for _, p := range sw {
					mk("entry-switch", step{p[0], a.Name}, step{p[1], a.Name})
				}
			}
		}
	}
	for _, s := range specs {
		for _, f := range forge.Formats {
			for _, d := range descs {
				for _, e := range entries {
					addSingles(s, f, d, e)
				}
				if r.Thorough() {
					addHistories(s, f, d, entries, switches)
				}
			}
			// value descriptors: every key spec in thorough, EC-256 (cheapest key) in quick - what is compared
			// with the request does not depend on the key
			if r.Thorough() || s == pki.EC256 {
				for _, d := range valueDescs {
					for _, e := range entries {
						addSingles(s, f, d, e)
					}
				}
			}
		}
	}
	if !r.Thorough() {
		// one RSA-4096 diagonal
		addSingles(pki.RSA4096, forge.JWS, "plain", "SignBlob")
		addSingles(pki.RSA4096, forge.COSE, "annotated", "Sign")
		addSingles(pki.RSA4096, forge.JWS, "annotated", "SignBlobDirect")
		// histories: every shape and entry point on EC-256 (cheap) with the annotated descriptor (all answers
		// apply to it), one diagonal element for each other key spec of the quick tier
		for _, f := range forge.Formats {
			addHistories(pki.EC256, f, "annotated", entries, switches)
		}
		addHistories(pki.RSA2048, forge.JWS, "annotated", []string{"Sign"}, switches[:1])
		addHistories(pki.EC384, forge.COSE, "plain", []string{"SignBlob"}, switches[1:2])
		addHistories(pki.RSA4096, forge.COSE, "plain", []string{"SignBlobDirect"}, switches[3:4])
	}
	all := append(append([]histT(nil), singles...), histories...)
	// key material: sequentially, before anything runs in parallel
	for _, h := range all {
		need(h.Spec)
	}
	if r.Thorough() {
		r.SetDeadline(9 * time.Minute)
	} else {
		r.SetDeadline(35 * time.Second)
	}

	results := make([]histResult, len(all))
	r.Parallel(len(all), func(i int) {
		if r.Expired() {
			results[i] = histResult{h: all[i], skip: true}
			return
		}
		results[i] = runHistory(all[i], worlds, answers)
	},
		func(i int, v any, stack string) {
			results[i] = histResult{h: all[i], infra: fmt.Sprintf("harness panic in %v: %v\n%s", all[i], v, stack)}
		})

	// ---- report, in enumeration order (deterministic) ----
	var controls, controlsOK, skipped, ranSingles, ranHistories int
	var failedControls []string
	notJudged := map[string]bool{}
	dump := os.Getenv("VERIF_C18_DUMP") != ""
	for i, hr := range results {
		if hr.skip {
			skipped++
			continue
		}
		report(hr, dump)
		if hr.infra != "" {
			continue
		}
		if hr.h.Shape != "single" {
			ranHistories++
			if i%997 == 0 {
				var cl []string
				for _, res := range hr.calls {
					cl = append(cl, res.class+" ["+res.calls+"]")
				}
				r.Sample(map[string]any{"history": hr.h, "results": cl})
			}
			continue
		}
		ranSingles++
		res := hr.calls[0]
		if res.kind == kControl && descOf(res.c.Desc).Value && res.class != "returned" {
			// the statement is an implication: refusing to sign an unusual request through an honest plugin is
			// not a violation, and the everyday descriptors are the positive controls
			r.Outcome("recorded:" + res.c.Family + "/honest-answer-not-accepted-for-a-value-descriptor")
		} else if res.kind == kControl {
			controls++
			if res.class == "returned" {
				controlsOK++ // the control is "an honest answer yields a signature"; what is wrong with a returned signature is a violation, reported above
			} else if len(failedControls) < 5 {
				failedControls = append(failedControls, fmt.Sprintf("%v: %s %s", res.c, res.class, res.errText))
			}
		}
		if (res.kind == kRecorded || res.kind == kBreach) && res.class != "rejected" {
			notJudged[res.c.Family+"/"+res.c.Answer+":"+res.class] = true
		}
		if res.kind == kAdv && res.class == "returned-ambiguous-payload" {
			notJudged[res.c.Family+"/"+res.c.Answer+":"+res.class] = true
		}
		if i%397 == 0 {
			r.Sample(map[string]any{"case": res.c, "answer_kind": res.kind, "plugin_calls": res.calls, "result": res.class, "error": res.errText})
		}
	}
	if skipped > 0 {
		r.Capped(fmt.Sprintf("internal deadline: %d of %d single calls and %d of %d two-call histories were run (singles first, enumeration order)", ranSingles, len(singles), ranHistories, len(histories)))
	}
	var nj []string
	for k := range notJudged {
		nj = append(nj, k)
	}
	sort.Strings(nj)
	r.Extra["recorded_not_judged"] = nj
	r.Extra["key_specs"] = specs
	r.Extra["formats"] = len(forge.Formats)
	r.Extra["descriptors"] = descs
	var vd []string
	for _, d := range reqDescs {
		if d.Value {
			vd = append(vd, fmt.Sprintf("%s (%s)", d.Name, d.Note))
		}
	}
	r.Extra["value_descriptors"] = vd
	r.Extra["value_descriptors_bound"] = "single calls through Sign and PluginSigner.SignBlob(generator) (the entry points where the caller states size, digest and media type), both formats, every envelope-generator answer and the raw-signature answers that end in a returned signature; key specs: EC-256 in quick, all six in thorough"
	r.Extra["entry_points"] = entries
	r.Extra["envelope_generator_answers"] = len(envA)
	r.Extra["signature_generator_answers"] = len(rawA)
	r.Extra["single_calls"] = len(singles)
	r.Extra["two_call_histories_on_one_signer"] = len(histories)
	r.Extra["history_shapes"] = []string{"twice (same answer, same entry point)", "honest-first", "honest-last", "entry-switch " + fmt.Sprint(switches)}
	r.Extra["positive_controls"] = controls
	r.Extra["positive_controls_accepted"] = controlsOK
	if !r.Thorough() {
		r.Extra["quick_bound"] = "RSA-2048, EC-256, EC-384 full product over the everyday descriptors plus an RSA-4096 diagonal (JWS/plain/SignBlob, COSE/annotated/Sign, JWS/annotated/SignBlobDirect); two-call histories: all shapes on EC-256 x both formats x annotated descriptor, one entry point + one entry switch on RSA-2048/JWS, EC-384/COSE, RSA-4096/COSE; value descriptors: EC-256 x both formats x Sign and SignBlobDirect, single calls"
	}
	if controls == 0 || controlsOK == 0 {
		r.Infra("vacuous run: %d of %d positive controls (honest plugin answers) returned a signature", controlsOK, controls)
	} else if controlsOK != controls {
		r.Infra("%d of %d honest plugin answers were not accepted, the harness cannot judge: %s", controls-controlsOK, controls, strings.Join(failedControls, " ;; "))
	}
	r.Finish()
}
