// C15, two-instance and external-change histories.
//
// crl.FileCache is meant to be a view of a directory: several FileCache objects (of one process or of several
// processes) share a root, and the files below it may be replaced, damaged or removed by anybody. The single-object
// search of explore() cannot see state an OBJECT keeps between calls (a memo of parsed bundles, an index read at
// construction, remembered misses). Here every operation names the instance that performs it, and the directory is
// also changed from outside between operations:
//
//	set:<A|B>:<url>:<bundle>   Set through that instance        get:<A|B>:<url>   Get through that instance
//	ext-delete:<url>           the entry file is removed        ext-truncate:<url>  cut to half its length (in place)
//	ext-garbage:<url>          overwritten by non-JSON          ext-replace:<url>:<bundle>  replaced (temp file + rename,
//	                                                            as another process would) by the encoded file of another bundle
//
// ALL sequences up to the depth bound are run (no state deduplication: the hidden state is exactly what is looked for)
// and every step is judged against ONE map model: the last successful Set through ANY instance, or the last external
// change, decides what every later Get through any instance may return - exactly that bundle (or a miss per the
// expiry rule), a miss after a deletion, an error after damage; never what the instance has seen before.
// Instances are opened at their first operation (so B is opened after A's first operations); all histories one step
// shorter are also run with both instances opened up front on the empty root.
package main

import (
	"errors"
	"fmt"
	"os"
	"path/filepath"
	"strings"
	"sync/atomic"
	"time"

	corecrl "github.com/notaryproject/notation-core-go/revocation/crl"
	"github.com/notaryproject/notation-go/verifier/crl"
	"github.com/notaryproject/notation-go/zzverif/lib/hx"
)

const (
	iSet      = "set"
	iGet      = "get"
	iDelete   = "ext-delete"
	iTruncate = "ext-truncate"
	iGarbage  = "ext-garbage"
	iReplace  = "ext-replace"
)

type iop struct {
	Kind string
	Inst int // 0 = A, 1 = B (set/get only)
	U    int // index into instAlphabet.urls
	B    *bundleSpec
}

func (o iop) external() bool { return o.Kind != iSet && o.Kind != iGet }

type instAlphabet struct {
	a       *alphabet
	urls    []int // indices into a.urls
	bundles []*bundleSpec
	ops     []iop
	first   []int             // operations a history may start with (instance symmetry: the first instance is called A)
	files   map[string][]byte // "<url index>|<bundle name>" -> encoded entry file as Set writes it
	byName  map[string]*bundleSpec
}

func (ia *instAlphabet) opString(o iop) string {
	u := ia.a.urls[ia.urls[o.U]].Name
	switch o.Kind {
	case iSet:
		return fmt.Sprintf("%s:%c:%s:%s", o.Kind, 'A'+o.Inst, u, o.B.Name)
	case iGet:
		return fmt.Sprintf("%s:%c:%s", o.Kind, 'A'+o.Inst, u)
	case iReplace:
		return o.Kind + ":" + u + ":" + o.B.Name
	}
	return o.Kind + ":" + u
}

func (ia *instAlphabet) parseOp(s string) (iop, error) {
	f := strings.Split(s, ":")
	bad := fmt.Errorf("bad operation %q", s)
	url := func(n string) int {
		for i, u := range ia.urls {
			if ia.a.urls[u].Name == n {
				return i
			}
		}
		return -1
	}
	o := iop{Kind: f[0]}
	switch {
	case (o.Kind == iSet && len(f) == 4) || (o.Kind == iGet && len(f) == 3):
		if f[1] != "A" && f[1] != "B" {
			return o, bad
		}
		o.Inst = int(f[1][0] - 'A')
		o.U = url(f[2])
		if o.Kind == iSet {
			o.B = ia.a.bundleByName(f[3])
			if o.B == nil {
				return o, bad
			}
		}
	case o.Kind == iReplace && len(f) == 3:
		o.U = url(f[1])
		if o.B = ia.a.bundleByName(f[2]); o.B == nil {
			return o, bad
		}
	case (o.Kind == iDelete || o.Kind == iTruncate || o.Kind == iGarbage) && len(f) == 2:
		o.U = url(f[1])
	default:
		return o, bad
	}
	if o.U < 0 {
		return o, bad
	}
	return o, nil
}

// encodedFile returns what Set writes for (url, bundle), observed on a scratch cache.
func encodedFile(a *alphabet, url string, b *bundleSpec) ([]byte, error) {
	e, err := newEnv(a.scratch)
	if err != nil {
		return nil, err
	}
	defer e.cleanup()
	if err, pv := safeSet(e.cache, url, b.B); err != nil || pv != nil {
		return nil, fmt.Errorf("Set: %v %v", err, pv)
	}
	ents := e.files()
	if len(ents) != 1 {
		return nil, errLayout
	}
	return os.ReadFile(filepath.Join(e.root, ents[0]))
}

func newInstAlphabet(a *alphabet, bundleNames, replaceWith []string, external bool) (*instAlphabet, error) {
	ia := &instAlphabet{a: a, files: map[string][]byte{}}
	for _, n := range []string{"plain", "upper-scheme"} {
		ia.urls = append(ia.urls, a.urlByName(n))
	}
	for _, n := range bundleNames {
		b := a.bundleByName(n)
		if b == nil {
			return nil, fmt.Errorf("no bundle %q in the alphabet", n)
		}
		ia.bundles = append(ia.bundles, b)
	}
	for u := range ia.urls {
		for inst := 0; inst < 2; inst++ {
			for _, b := range ia.bundles {
				ia.ops = append(ia.ops, iop{iSet, inst, u, b})
			}
			ia.ops = append(ia.ops, iop{iGet, inst, u, nil})
		}
		if !external {
			continue
		}
		ia.ops = append(ia.ops, iop{iDelete, 0, u, nil}, iop{iTruncate, 0, u, nil}, iop{iGarbage, 0, u, nil})
		for _, n := range replaceWith {
			ia.ops = append(ia.ops, iop{iReplace, 0, u, a.bundleByName(n)})
		}
	}
	for i, o := range ia.ops {
		if !o.external() && o.Inst == 0 {
			ia.first = append(ia.first, i)
		}
	}
	return ia, nil
}

// prepare encodes the replacement files of the ext-replace operations.
func (ia *instAlphabet) prepare() error {
	for u, ui := range ia.urls {
		for _, o := range ia.ops {
			if o.Kind != iReplace || o.U != u {
				continue
			}
			b, err := encodedFile(ia.a, ia.a.urls[ui].URL, o.B)
			if err != nil {
				return err
			}
			ia.files[fmt.Sprintf("%d|%s", u, o.B.Name)] = b
		}
	}
	return nil
}

// applicable decides from the model alone whether every external change of the history finds a file to change
// (an external change of a URL without entry file is no operation; such sequences are not run).
func (ia *instAlphabet) applicable(seq []iop) bool {
	var has [2]bool
	for _, o := range seq {
		switch o.Kind {
		case iSet:
			has[o.U] = true
		case iGet:
		case iDelete:
			if !has[o.U] {
				return false
			}
			has[o.U] = false
		default:
			if !has[o.U] {
				return false
			}
		}
	}
	return true
}

// crossing reports whether some Get is performed by an instance that has read that URL before, after the entry
// was changed by somebody else in between (the non-trivial histories of this family).
func crossing(seq []iop) bool {
	var read [2][2]bool // [instance][url]: has read, nothing changed since
	var dirty [2][2]bool
	for _, o := range seq {
		switch {
		case o.Kind == iGet:
			if dirty[o.Inst][o.U] {
				return true
			}
			read[o.Inst][o.U] = true
		case o.Kind == iSet:
			if read[1-o.Inst][o.U] {
				dirty[1-o.Inst][o.U] = true
			}
		default:
			for i := 0; i < 2; i++ {
				if read[i][o.U] {
					dirty[i][o.U] = true
				}
			}
		}
	}
	return false
}

type instCase struct {
	Kind  string   `json:"kind"`
	Eager bool     `json:"both_instances_opened_first"`
	Ops   []string `json:"ops"`
}

const (
	mAbsent = iota
	mBundle
	mMalformed
)

type mstate struct {
	kind int
	b    *bundleSpec
	why  string
}

// runInstances executes one history; every step is judged.
func runInstances(ia *instAlphabet, seq []iop, eager, count bool) (vs []viol, evals int) {
	a := ia.a
	e, err := newEnv(a.scratch)
	if err != nil {
		return []viol{{"!infra", err.Error()}}, 0
	}
	defer e.cleanup()
	var inst [2]*crl.FileCache
	open := func(i int) *crl.FileCache {
		if inst[i] == nil {
			c, err := crl.NewFileCache(e.root)
			if err != nil {
				vs = append(vs, viol{"!infra", err.Error()})
				return nil
			}
			inst[i] = c
		}
		return inst[i]
	}
	if eager {
		open(0)
		open(1)
	}
	class := func(c string) {
		if count {
			cs.add("inst:" + c)
		}
	}
	rekey := func(v *viol) {
		if v != nil {
			vs = append(vs, viol{strings.Replace(v.key, "history/", "instances/", 1), v.what})
		}
	}
	var model [2]mstate
	var name [2]string // entry file of each URL, learnt by watching the directory
	var lastWriter [2]int
	for i := range lastWriter {
		lastWriter[i] = -1
	}
	for step, o := range seq {
		tag := fmt.Sprintf("step %d %s", step+1, ia.opString(o))
		url := a.urls[ia.urls[o.U]]
		path := filepath.Join(e.root, name[o.U])
		switch o.Kind {
		case iSet:
			c := open(o.Inst)
			if c == nil {
				return
			}
			evals++
			err, pv := safeSet(c, url.URL, o.B.B)
			switch {
			case pv != nil:
				vs = append(vs, viol{"instances/panic:set", fmt.Sprintf("%s panicked: %v", tag, pv)})
				return
			case err != nil:
				class("set:error(not judged)")
			default:
				model[o.U] = mstate{kind: mBundle, b: o.B}
				lastWriter[o.U] = o.Inst
				class("set:stored")
				if name[o.U] == "" {
					var fresh []string
					for _, en := range e.files() {
						if en != name[1-o.U] {
							fresh = append(fresh, en)
						}
					}
					if len(fresh) != 1 {
						// how many files an entry takes is not fixed by the statement; without knowing the file the
						// external changes cannot be applied: the rest of this history is not run
						class("recorded:entry-file-cannot-be-told(rest of the history not run)")
						layoutUnknown.Store(true)
						return
					}
					name[o.U] = fresh[0]
				}
			}
		case iGet:
			c := open(o.Inst)
			if c == nil {
				return
			}
			evals++
			got, gerr, pv := safeGet(c, url.URL)
			m := model[o.U]
			switch m.kind {
			case mAbsent:
				cl, v := judgeGet(tag+":", url.Name, got, gerr, pv, nil)
				rekey(v)
				if cl != "" {
					class("get:" + cl)
				}
			case mBundle:
				cl, v := judgeGet(tag+":", url.Name, got, gerr, pv, m.b)
				rekey(v)
				if cl != "" {
					if lastWriter[o.U] >= 0 && lastWriter[o.U] != o.Inst {
						cl += "(stored through the other instance)"
					} else if lastWriter[o.U] < 0 {
						cl += "(file replaced from outside)"
					}
					class("get:" + cl)
				}
			case mMalformed:
				switch {
				case pv != nil:
					vs = append(vs, viol{"instances/panic:get", fmt.Sprintf("%s panicked: %v", tag, pv)})
				case got != nil:
					vs = append(vs, viol{"instances/bundle-from-malformed-file", fmt.Sprintf("%s: the entry file was %s, yet Get returned a bundle (base CRL number %v)", tag, m.why, got.BaseCRL.Number)})
				case gerr == nil:
					vs = append(vs, viol{"instances/nil-bundle-without-error", tag + " returned (nil, nil)"})
				case errors.Is(gerr, corecrl.ErrCacheMiss):
					vs = append(vs, viol{"instances/miss-instead-of-error", fmt.Sprintf("%s: the entry file was %s; Get must report an error, it reported a cache miss", tag, m.why)})
				default:
					class("get:error(file damaged from outside)")
				}
			}
		default:
			if name[o.U] == "" || model[o.U].kind == mAbsent {
				return // not applicable (filtered before; only reachable when a Set failed)
			}
			var err error
			switch o.Kind {
			case iDelete:
				err = os.Remove(path)
				model[o.U] = mstate{kind: mAbsent}
				name[o.U] = ""
			case iTruncate:
				var fi os.FileInfo
				if fi, err = os.Stat(path); err == nil {
					err = os.Truncate(path, fi.Size()/2)
				}
				model[o.U] = mstate{kind: mMalformed, why: "truncated to half its length"}
			case iGarbage:
				err = os.WriteFile(path, []byte("garbage, not an entry\n"), 0o600)
				model[o.U] = mstate{kind: mMalformed, why: "overwritten by garbage"}
			case iReplace:
				tmp := filepath.Join(e.caseDir, "incoming")
				if err = os.WriteFile(tmp, ia.files[fmt.Sprintf("%d|%s", o.U, o.B.Name)], 0o600); err == nil {
					err = os.Rename(tmp, path)
				}
				model[o.U] = mstate{kind: mBundle, b: o.B}
			}
			lastWriter[o.U] = -1
			if err != nil {
				vs = append(vs, viol{"!infra", fmt.Sprintf("%s: %v", tag, err)})
				return
			}
			class(o.Kind)
		}
		// exactly one file per URL that has an entry
		want := 0
		for u := range model {
			if model[u].kind != mAbsent {
				want++
			}
		}
		if len(e.files()) != want {
			class("recorded:entry-count-differs-from-stored-urls") // not fixed by the statement
		}
	}
	s, err := e.snapshot()
	if err != nil {
		vs = append(vs, viol{"!infra", err.Error()})
	} else if len(s.outside) > 0 {
		vs = append(vs, viol{"instances/file-outside-root", fmt.Sprintf("after %s: outside the cache root: %q", ia.opString(seq[len(seq)-1]), s.outside)})
	}
	return
}

// enumerate runs all applicable histories of exactly the given length (every prefix is judged on the way).
func (ia *instAlphabet) enumerate(r *hx.Run, depth int, eager bool, label string) (run, skipped int64, complete bool) {
	n := len(ia.first)
	for i := 1; i < depth; i++ {
		n *= len(ia.ops)
	}
	var nRun, nSkip atomic.Int64
	var expired atomic.Bool
	r.Parallel(n, func(i int) {
		if i%256 == 0 && time.Now().After(familyDeadline) {
			expired.Store(true)
		}
		if expired.Load() {
			return
		}
		seq := make([]iop, depth)
		x := i
		for k := depth - 1; k >= 1; k-- {
			seq[k] = ia.ops[x%len(ia.ops)]
			x /= len(ia.ops)
		}
		seq[0] = ia.ops[ia.first[x]]
		if !ia.applicable(seq) {
			nSkip.Add(1)
			return
		}
		nRun.Add(1)
		vs, evals := runInstances(ia, seq, eager, true)
		r.Eval(evals)
		r.Transition(depth)
		strs := func() []string {
			out := make([]string, len(seq))
			for k, o := range seq {
				out[k] = ia.opString(o)
			}
			return out
		}
		if len(vs) > 0 {
			report(r, vs, instCase{"instances", eager, strs()})
		}
		if crossing(seq) {
			r.Nontrivial(fmt.Sprintf("i|%s|%d", label, i))
		}
		if i%200003 == 11 {
			r.Sample(map[string]any{"instance_history": strs(), "both_instances_opened_first": eager})
		}
	}, nil)
	return nRun.Load(), nSkip.Load(), !expired.Load()
}

var familyDeadline time.Time
var layoutUnknown atomic.Bool

// instanceFamily is called once from main (before the replay dispatch: it replays its own cases).
func instanceFamily(r *hx.Run, a *alphabet) {
	twins := []string{"base-fresh", "base-fresh-twin(same-issuer-number-dates,other-entries)", "base+delta-fresh", "base+delta-fresh-twin(same-base,delta-same-number-other-entries)"}
	wide := append(append([]string{}, twins...), "base-expired", "base-fresh+delta-expired")
	if r.Replay != "" {
		var c instCase
		if err := r.LoadReplay(&c); err != nil || c.Kind != "instances" {
			return // another family's case
		}
		ia, err := newInstAlphabet(a, wide, wide, true)
		if err == nil {
			err = ia.prepare()
		}
		if err != nil {
			r.Infra("replay: %v", err)
			r.Finish()
		}
		var seq []iop
		for _, s := range c.Ops {
			o, err := ia.parseOp(s)
			if err != nil {
				r.Infra("replay: %v", err)
				r.Finish()
			}
			seq = append(seq, o)
		}
		vs, evals := runInstances(ia, seq, c.Eager, false)
		r.Eval(evals)
		report(r, vs, c)
		if len(vs) == 0 {
			fmt.Println("replay: holds")
		}
		r.Finish()
	}
	// own time budget, so that this family (it runs first) never eats the time of the single-instance search
	familyDeadline = time.Now().Add(budget(20 * time.Second))
	if r.Thorough() {
		familyDeadline = time.Now().Add(budget(200 * time.Second))
	}
	type pass struct {
		label   string
		bundles []string
		replace []string
		depth   int
	}
	// quick: 2 instances x 2 URLs x the four twin bundles, depth 4; thorough: depth 4 with two expired bundles added
	// (as Set argument and as replacement file), and depth 5 over base-fresh and its twin
	passes := []pass{{"twins", twins, twins[1:2], 4}}
	if r.Thorough() {
		passes = []pass{{"twins+expired", wide, []string{twins[1], "base-expired", "base-fresh+delta-expired"}, 4}, {"base-fresh-and-twin", twins[:2], twins[1:2], 5}}
	}
	var evidence []map[string]any
	for _, p := range passes {
		ia, err := newInstAlphabet(a, p.bundles, p.replace, true)
		if err == nil {
			err = ia.prepare()
		}
		if errors.Is(err, errLayout) {
			r.Capped("two-instance family: external-change operations not run (" + err.Error() + ")")
			layoutUnknown.Store(true)
			ia, err = newInstAlphabet(a, p.bundles, nil, false)
		}
		if err != nil {
			if r.Violations() == 0 {
				cs.add("inst:skipped(an entry could not be stored; the single-instance family decides)")
			}
			return
		}
		for _, v := range []struct {
			eager bool
			depth int
		}{{false, p.depth}, {true, p.depth - 1}} {
			run, skipped, complete := ia.enumerate(r, v.depth, v.eager, fmt.Sprintf("%s/%d/%v", p.label, v.depth, v.eager))
			evidence = append(evidence, map[string]any{"alphabet": p.label, "operations": len(ia.ops), "length": v.depth, "both_instances_opened_first": v.eager,
				"histories_run": run, "not_applicable(external change without entry file)": skipped})
			if !complete {
				r.Capped(fmt.Sprintf("two-instance histories: pass %s length %d not completed", p.label, v.depth))
				break
			}
		}
	}
	r.Extra["instance_histories"] = evidence
	// controls of this family; they presuppose that one instance reads back what it stored itself - where even that
	// fails (this family runs first) the single-instance families decide, and their verdict must not be masked by exit 2
	if layoutUnknown.Load() {
		r.Capped("two-instance family: the entry file of a URL could not be told in some histories; their external changes were not applied")
	}
	if r.Violations() == 0 && cs.get("inst:get:bundle-faithful:base") > 0 {
		need := []string{"inst:get:bundle-faithful:base(stored through the other instance)", "inst:get:miss:never-stored"}
		if !layoutUnknown.Load() {
			need = append(need, "inst:get:bundle-faithful:base(file replaced from outside)", "inst:get:error(file damaged from outside)", "inst:ext-delete")
		}
		for _, c := range need {
			if cs.get(c) == 0 {
				// never an alarm: the statement does not demand that a fresh entry IS handed out (implication);
				// the evidence shows the family as not exhaustive instead
				r.Capped(fmt.Sprintf("two-instance family: control class %q was never observed", c))
			}
		}
	}
}
