// C15 — the CRL cache returns only fresh, byte-faithful bundles for the exact URL.
//
// E2: breadth-first explicit-state search over sequential histories of
// {Set(u,b), Get(u), Set(u,nil), Set(u,{BaseCRL:nil})} on the REAL crl.FileCache
// (state = canonical directory content, frontier deduplicated on it; a successor
// is computed in a fresh cache directory by replaying the shortest history and
// applying one more operation), judged against a map[url]bundle model and a
// containment invariant over a recursive snapshot of the scratch parent.
// E3: every truncation, every byte x {^1,^0x80} and a list of structural
// corruptions of one stored entry, judged against what encoding/json +
// x509.ParseRevocationList decode from the mutated file.
package main

import (
	"bytes"
	"context"
	"crypto"
	"crypto/rand"
	"crypto/sha256"
	"crypto/x509"
	"encoding/asn1"
	"encoding/base64"
	"encoding/hex"
	"encoding/json"
	"encoding/pem"
	"errors"
	"fmt"
	"io/fs"
	"math/big"
	"os"
	"path/filepath"
	"sort"
	"strings"
	"sync"
	"sync/atomic"
	"time"

	corecrl "github.com/notaryproject/notation-core-go/revocation/crl"
	"github.com/notaryproject/notation-go/verifier/crl"
	"github.com/notaryproject/notation-go/zzverif/engine/timeshim"
	"github.com/notaryproject/notation-go/zzverif/lib/hx"
	"github.com/notaryproject/notation-go/zzverif/lib/pki"
)

// Fixed instants: the DER bytes of all CRLs (and with them the corruption space)
// are the same on every run. Both are decades away from time.Now().
var (
	tThis    = time.Date(2020, 1, 2, 3, 4, 5, 0, time.UTC)
	tExpired = time.Date(2021, 3, 4, 5, 6, 7, 0, time.UTC)
	tFresh   = time.Date(2045, 6, 15, 12, 0, 0, 0, time.UTC)
)

var ctx = context.Background()

// ---------------------------------------------------------------- alphabets

type urlSpec struct {
	Name string
	URL  string
}

// bundleSpec is a bundle with its hand-written label (which CRL is past its
// next-update time); the oracle never computes freshness of alphabet bundles.
type bundleSpec struct {
	Name         string
	B            *corecrl.Bundle
	BaseExpired  bool
	DeltaExpired bool
	NoNextUpdate bool // base CRL without nextUpdate: freshness is not fixed by the statement
}

func (b *bundleSpec) expired() bool { return b.BaseExpired || b.DeltaExpired }

type alphabet struct {
	scratch   string
	absTarget string // empty directory an absolute-path URL points into
	urls      []urlSpec
	bundles   []bundleSpec // history alphabet
	foreign   bundleSpec   // another fresh base+delta entry (corruption family only)
	boundary  []bundleSpec // NextUpdate = now -/+ 1 h
	issuer    *pki.Cert
	now       time.Time
}

func serials(n int64) []*big.Int { return []*big.Int{big.NewInt(n*100 + 1), big.NewInt(n*100 + 2)} }

// stripNextUpdate removes the nextUpdate field of a CRL and signs it again
// (x509.CreateRevocationList refuses a template without NextUpdate).
func stripNextUpdate(c *x509.RevocationList, key crypto.Signer, issuer *x509.Certificate) (*x509.RevocationList, error) {
	var outer struct {
		TBS asn1.RawValue
		Alg asn1.RawValue
		Sig asn1.BitString
	}
	if _, err := asn1.Unmarshal(c.Raw, &outer); err != nil {
		return nil, err
	}
	var elems []asn1.RawValue
	if _, err := asn1.Unmarshal(outer.TBS.FullBytes, &elems); err != nil {
		return nil, err
	}
	var content []byte
	times := 0
	for _, e := range elems {
		if e.Class == asn1.ClassUniversal && (e.Tag == asn1.TagUTCTime || e.Tag == asn1.TagGeneralizedTime) {
			times++
			if times == 2 {
				continue
			}
		}
		content = append(content, e.FullBytes...)
	}
	if times != 2 {
		return nil, fmt.Errorf("expected two time fields, found %d", times)
	}
	tbs, err := asn1.Marshal(asn1.RawValue{Class: asn1.ClassUniversal, Tag: asn1.TagSequence, IsCompound: true, Bytes: content})
	if err != nil {
		return nil, err
	}
	h := sha256.Sum256(tbs)
	sig, err := key.Sign(rand.Reader, h[:], crypto.SHA256)
	if err != nil {
		return nil, err
	}
	der, err := asn1.Marshal(struct {
		TBS asn1.RawValue
		Alg asn1.RawValue
		Sig asn1.BitString
	}{asn1.RawValue{FullBytes: tbs}, asn1.RawValue{FullBytes: outer.Alg.FullBytes}, asn1.BitString{Bytes: sig, BitLength: len(sig) * 8}})
	if err != nil {
		return nil, err
	}
	out, err := x509.ParseRevocationList(der)
	if err != nil {
		return nil, err
	}
	if !out.NextUpdate.IsZero() {
		return nil, errors.New("nextUpdate still present")
	}
	if err := out.CheckSignatureFrom(issuer); err != nil {
		return nil, fmt.Errorf("re-signed CRL does not verify: %v", err)
	}
	return out, nil
}

func buildAlphabet(r *hx.Run) *alphabet {
	a := &alphabet{scratch: hx.Scratch(), now: time.Now()}
	a.absTarget = filepath.Join(a.scratch, "abs-target")
	if err := os.MkdirAll(a.absTarget, 0o755); err != nil {
		r.Infra("scratch: %v", err)
		return nil
	}
	if !tFresh.After(a.now.Add(time.Hour)) || !tExpired.Before(a.now.Add(-time.Hour)) {
		r.Infra("the fixed instants are not >= 1 h away from now (%v)", a.now)
		return nil
	}
	long := "http://h/a.crl?x" + strings.Repeat("a", 10000-len("http://h/a.crl?x"))
	a.urls = []urlSpec{
		{"plain", "http://h/a.crl"},
		{"upper-scheme", "HTTP://h/a.crl"},
		{"query", "http://h/a.crl?x"},
		{"dotdot", "../../../../x"},
		{"nul", "http://h/a.crl\x00"},
		{"trailing-slash", "http://h/a.crl/"},
		{"empty", ""},
		// DESIGN's "/abs/x": an absolute path that lands inside the observed scratch area
		{"abs", filepath.Join(a.absTarget, "x")},
		{"long10000", long},
	}
	// RSA (PKCS#1 v1.5) signatures are deterministic: with the cached key the DER
	// bytes, hence the truncation/bit-flip space and its histogram, are the same on every run.
	key := pki.Key(pki.RSA2048, 15)
	a.issuer = pki.Make(pki.Tmpl{Subject: pki.Name("c15 crl issuer"), CA: true, PathLen: -1}, key, nil)
	base := func(n int64, next time.Time) *x509.RevocationList {
		return pki.CRL(a.issuer, n, tThis, next, serials(n), 0)
	}
	delta := func(n int64, next time.Time) *x509.RevocationList { // proper delta of base n
		return pki.CRL(a.issuer, n+1, tThis, next, serials(n+1), n)
	}
	noNext, err := stripNextUpdate(base(60, tFresh), key, a.issuer.Cert)
	if err != nil {
		r.Infra("cannot build a CRL without nextUpdate: %v", err)
		return nil
	}
	a.bundles = []bundleSpec{
		{Name: "base-fresh", B: &corecrl.Bundle{BaseCRL: base(10, tFresh)}},
		{Name: "base+delta-fresh", B: &corecrl.Bundle{BaseCRL: base(20, tFresh), DeltaCRL: delta(20, tFresh)}},
		{Name: "base-expired", B: &corecrl.Bundle{BaseCRL: base(30, tExpired)}, BaseExpired: true},
		{Name: "base-fresh+delta-expired", B: &corecrl.Bundle{BaseCRL: base(40, tFresh), DeltaCRL: delta(40, tExpired)}, DeltaExpired: true},
		{Name: "base-expired+delta-fresh", B: &corecrl.Bundle{BaseCRL: base(50, tExpired), DeltaCRL: delta(50, tFresh)}, BaseExpired: true},
		{Name: "base-no-nextupdate", B: &corecrl.Bundle{BaseCRL: noNext}, NoNextUpdate: true},
		// twins: bundles that agree with another bundle in every field a shortcut might compare (issuer,
		// CRL number, thisUpdate, nextUpdate) and differ only in content - "last stored" means these bytes
		{Name: "base-fresh-twin(same-issuer-number-dates,other-entries)", B: &corecrl.Bundle{BaseCRL: pki.CRL(a.issuer, 10, tThis, tFresh, serials(11), 0)}},
		{Name: "base+delta-fresh-twin(same-base,delta-same-number-other-entries)", B: &corecrl.Bundle{BaseCRL: base(20, tFresh), DeltaCRL: pki.CRL(a.issuer, 21, tThis, tFresh, serials(23), 20)}},
	}
	a.foreign = bundleSpec{Name: "foreign-base+delta-fresh", B: &corecrl.Bundle{BaseCRL: base(70, tFresh), DeltaCRL: delta(70, tFresh)}}
	plus := a.now.Add(time.Hour + time.Minute).Truncate(time.Second)
	minus := a.now.Add(-time.Hour - time.Minute).Truncate(time.Second)
	this := a.now.Add(-48 * time.Hour).Truncate(time.Second)
	mk := func(n int64, next time.Time, deltaOf int64) *x509.RevocationList {
		return pki.CRL(a.issuer, n, this, next, serials(n), deltaOf)
	}
	a.boundary = []bundleSpec{
		{Name: "base-now+1h", B: &corecrl.Bundle{BaseCRL: mk(80, plus, 0)}},
		{Name: "base-now-1h", B: &corecrl.Bundle{BaseCRL: mk(82, minus, 0)}, BaseExpired: true},
		{Name: "base-now+1h+delta-now+1h", B: &corecrl.Bundle{BaseCRL: mk(84, plus, 0), DeltaCRL: mk(85, plus, 84)}},
		{Name: "base-now+1h+delta-now-1h", B: &corecrl.Bundle{BaseCRL: mk(86, plus, 0), DeltaCRL: mk(87, minus, 86)}, DeltaExpired: true},
		{Name: "base-now-1h+delta-now+1h", B: &corecrl.Bundle{BaseCRL: mk(88, minus, 0), DeltaCRL: mk(89, plus, 88)}, BaseExpired: true},
	}
	// all URL strings and all CRL encodings are pairwise distinct
	seen := map[string]bool{}
	for _, u := range a.urls {
		if seen["u"+u.URL] {
			r.Infra("duplicate URL in the alphabet: %q", u.Name)
		}
		seen["u"+u.URL] = true
	}
	for _, b := range append(append([]bundleSpec{a.foreign}, a.bundles...), a.boundary...) {
		// bundles must be pairwise distinct as (base bytes, delta bytes); a twin may share its base with another bundle
		k := "c" + string(b.B.BaseCRL.Raw) + "|"
		if b.B.DeltaCRL != nil {
			k += string(b.B.DeltaCRL.Raw)
		}
		if seen[k] {
			r.Infra("duplicate bundle encoding in the alphabet: %s", b.Name)
		}
		seen[k] = true
	}
	return a
}

func (a *alphabet) urlByName(n string) int {
	for i, u := range a.urls {
		if u.Name == n {
			return i
		}
	}
	return -1
}

func (a *alphabet) bundleByName(n string) *bundleSpec {
	for i := range a.bundles {
		if a.bundles[i].Name == n {
			return &a.bundles[i]
		}
	}
	for i := range a.boundary {
		if a.boundary[i].Name == n {
			return &a.boundary[i]
		}
	}
	if a.foreign.Name == n {
		return &a.foreign
	}
	return nil
}

// ---------------------------------------------------------------- counters

// counters aggregates outcome classes without the global lock of hx.Run.Outcome.
type counters struct {
	mu sync.RWMutex
	m  map[string]*atomic.Int64
}

func (c *counters) add(k string) {
	c.mu.RLock()
	p := c.m[k]
	c.mu.RUnlock()
	if p == nil {
		c.mu.Lock()
		if p = c.m[k]; p == nil {
			p = new(atomic.Int64)
			c.m[k] = p
		}
		c.mu.Unlock()
	}
	p.Add(1)
}

func (c *counters) get(k string) int64 {
	c.mu.RLock()
	defer c.mu.RUnlock()
	if p := c.m[k]; p != nil {
		return p.Load()
	}
	return 0
}

func (c *counters) flush(r *hx.Run) {
	keys := make([]string, 0, len(c.m))
	for k := range c.m {
		keys = append(keys, k)
	}
	sort.Strings(keys)
	for _, k := range keys {
		for n := c.m[k].Load(); n > 0; n-- {
			r.Outcome(k)
		}
	}
}

var cs = &counters{m: map[string]*atomic.Int64{}}

// ---------------------------------------------------------------- environment of one case

var caseCtr atomic.Int64

const rootRel = "l1/l2/l3/l4/cache"

type env struct {
	caseDir string
	root    string
	cache   *crl.FileCache
}

func newEnv(scratch string) (*env, error) {
	id := caseCtr.Add(1)
	// sharded parents: creating/removing siblings in one directory serialises on its lock
	e := &env{caseDir: filepath.Join(scratch, "case", fmt.Sprintf("s%d", id%251), fmt.Sprintf("%d", id))}
	e.root = filepath.Join(e.caseDir, filepath.FromSlash(rootRel))
	if err := os.MkdirAll(e.caseDir, 0o755); err != nil {
		return nil, err
	}
	c, err := crl.NewFileCache(e.root) // creates the nested root itself
	if err != nil {
		return nil, err
	}
	e.cache = c
	return e, nil
}

func (e *env) cleanup() { _ = os.RemoveAll(e.caseDir) }

// files lists the regular files below the root (paths relative to it), however the implementation lays them out.
func (e *env) files() []string {
	var out []string
	_ = filepath.WalkDir(e.root, func(p string, d fs.DirEntry, err error) error {
		if err == nil && d.Type().IsRegular() {
			rel, _ := filepath.Rel(e.root, p)
			out = append(out, rel)
		}
		return nil
	})
	return out
}

// errLayout: an entry is not kept as exactly one file - the byte-level corruption family and the external-change
// operations do not know which file to damage. Not an alarm: those families are reported as not run.
var errLayout = errors.New("an entry is not stored as exactly one regular file below the root")

// snap is a recursive snapshot of the case directory (the scratch parent of the cache root).
//
// The statement only fixes that nothing is read or written OUTSIDE the root: how many files an entry takes, what they
// are called, sub-directories, temporary or lock files below the root are the implementation's business.
type snap struct {
	entries []string // regular files anywhere below the root: "<path relative to the root>:<sha256 of content>"
	outside []string // anything outside the root (files, directories, links) except the chain of directories down to it
	dirs    []string // directories below the root (part of the state, never judged)
	key     string   // canonical form of everything above
}

func (e *env) snapshot() (snap, error) {
	var s snap
	err := filepath.WalkDir(e.caseDir, func(p string, d fs.DirEntry, err error) error {
		if err != nil {
			return err
		}
		rel, _ := filepath.Rel(e.caseDir, p)
		rel = filepath.ToSlash(rel)
		inside := strings.HasPrefix(rel, rootRel+"/")
		if d.IsDir() {
			switch {
			case inside:
				s.dirs = append(s.dirs, strings.TrimPrefix(rel, rootRel+"/"))
			case rel != "." && rel != rootRel && !strings.HasPrefix(rootRel, rel+"/"):
				s.outside = append(s.outside, rel+" (directory)")
			}
			return nil
		}
		if inside {
			if !d.Type().IsRegular() {
				s.entries = append(s.entries, strings.TrimPrefix(rel, rootRel+"/")+":"+d.Type().String())
				return nil
			}
			b, err := os.ReadFile(p)
			if err != nil {
				if errors.Is(err, fs.ErrNotExist) {
					return nil
				}
				return err
			}
			h := sha256.Sum256(b)
			s.entries = append(s.entries, strings.TrimPrefix(rel, rootRel+"/")+":"+hex.EncodeToString(h[:]))
			return nil
		}
		kind := "file"
		if !d.Type().IsRegular() {
			kind = d.Type().String()
		}
		s.outside = append(s.outside, rel+" ("+kind+")")
		return nil
	})
	h := sha256.New()
	for _, x := range s.entries {
		fmt.Fprintf(h, "e %s\n", x)
	}
	for _, x := range s.outside {
		fmt.Fprintf(h, "o %s\n", x)
	}
	for _, x := range s.dirs {
		fmt.Fprintf(h, "d %s\n", x)
	}
	s.key = hex.EncodeToString(h.Sum(nil))
	return s, err
}

func safeGet(c *crl.FileCache, u string) (b *corecrl.Bundle, err error, pv any) {
	defer func() {
		if v := recover(); v != nil {
			pv = v
		}
	}()
	b, err = c.Get(ctx, u)
	return
}

func safeSet(c *crl.FileCache, u string, b *corecrl.Bundle) (err error, pv any) {
	defer func() {
		if v := recover(); v != nil {
			pv = v
		}
	}()
	err = c.Set(ctx, u, b)
	return
}

type viol struct{ key, what string }

// ---------------------------------------------------------------- history family (E2)

const (
	opSet        = "set"
	opGet        = "get"
	opSetNil     = "setnil"
	opSetNilBase = "setnilbase"
)

type op struct {
	Kind string
	U    int // URL index
	B    *bundleSpec
}

func (a *alphabet) opString(o op) string {
	if o.Kind == opSet {
		return o.Kind + ":" + a.urls[o.U].Name + ":" + o.B.Name
	}
	return o.Kind + ":" + a.urls[o.U].Name
}

func (a *alphabet) parseOp(s string) (op, error) {
	f := strings.Split(s, ":")
	if len(f) < 2 {
		return op{}, fmt.Errorf("bad operation %q", s)
	}
	o := op{Kind: f[0], U: a.urlByName(f[1])}
	if o.U < 0 {
		return op{}, fmt.Errorf("unknown URL %q", f[1])
	}
	switch o.Kind {
	case opSet:
		if len(f) != 3 || a.bundleByName(f[2]) == nil {
			return op{}, fmt.Errorf("bad bundle in %q", s)
		}
		o.B = a.bundleByName(f[2])
	case opGet, opSetNil, opSetNilBase:
	default:
		return op{}, fmt.Errorf("bad operation %q", s)
	}
	return o, nil
}

func sameRaw(a, b *x509.RevocationList) bool {
	return a != nil && b != nil && string(a.Raw) == string(b.Raw)
}

// judgeGet compares one Get result with the model entry for the identical URL
// string (want == nil: never stored). The statement is an implication for fresh
// entries: a bundle, when returned, is the stored one; it demands a miss for
// expired and never-stored URLs.
func judgeGet(tag, urlName string, got *corecrl.Bundle, err error, pv any, want *bundleSpec) (class string, v *viol) {
	at := fmt.Sprintf("%s Get(%s)", tag, urlName)
	switch {
	case pv != nil:
		return "", &viol{"history/panic:get", fmt.Sprintf("%s panicked: %v", at, pv)}
	case got == nil && err == nil:
		return "", &viol{"history/nil-bundle-without-error", at + " returned (nil, nil)"}
	case got != nil && got.BaseCRL == nil:
		return "", &viol{"history/bundle-without-base", at + " returned a bundle without base CRL"}
	}
	if got != nil && err != nil {
		// a bundle handed out together with an error is judged as what it is, a bundle handed out (must be the stored
		// one and fresh); that an error accompanies a legitimate bundle is recorded only
		cs.add("recorded:bundle-together-with-error")
	}
	miss := got == nil && err != nil && errors.Is(err, corecrl.ErrCacheMiss)
	if want == nil {
		switch {
		case miss:
			return "miss:never-stored", nil
		case got != nil:
			return "", &viol{"history/stale-or-foreign-bundle", fmt.Sprintf("%s: nothing was stored under this exact URL, yet a bundle was returned (base CRL number %v)", at, got.BaseCRL.Number)}
		default:
			return "", &viol{"history/never-stored-url-not-a-miss", fmt.Sprintf("%s: nothing was stored under this URL, result must be ErrCacheMiss, got error: %v", at, err)}
		}
	}
	if got != nil {
		// whatever the freshness, a returned bundle must be the one last stored under the identical URL
		switch {
		case !sameRaw(got.BaseCRL, want.B.BaseCRL):
			return "", &viol{"history/stale-or-foreign-bundle", fmt.Sprintf("%s: base CRL (number %v) differs from the one last stored under this URL (%s, number %v)", at, got.BaseCRL.Number, want.Name, want.B.BaseCRL.Number)}
		case got.DeltaCRL == nil && want.B.DeltaCRL != nil:
			return "", &viol{"history/delta-dropped", fmt.Sprintf("%s: stored with a delta CRL (%s), returned without", at, want.Name)}
		case got.DeltaCRL != nil && want.B.DeltaCRL == nil:
			return "", &viol{"history/delta-invented", fmt.Sprintf("%s: stored without delta CRL (%s), returned with one", at, want.Name)}
		case got.DeltaCRL != nil && !sameRaw(got.DeltaCRL, want.B.DeltaCRL):
			return "", &viol{"history/stale-or-foreign-delta", fmt.Sprintf("%s: delta CRL differs from the one last stored under this URL (%s)", at, want.Name)}
		}
	}
	switch {
	case want.expired():
		which := "base"
		if !want.BaseExpired {
			which = "delta"
		}
		switch {
		case miss:
			return "miss:expired-" + which, nil
		case got != nil:
			return "", &viol{"history/expired-bundle-returned:" + which, fmt.Sprintf("%s: the %s CRL of the stored bundle (%s) is past its next-update time, yet the bundle was returned", at, which, want.Name)}
		default:
			return "", &viol{"history/expired-entry-not-a-miss", fmt.Sprintf("%s: stored bundle %s is expired, result must be ErrCacheMiss, got error: %v", at, want.Name, err)}
		}
	case want.NoNextUpdate:
		if got != nil {
			return "bundle-faithful:no-nextupdate(freshness not fixed by the statement)", nil
		}
		return "refused:no-nextupdate(miss or error, not fixed by the statement)", nil
	default:
		if got != nil {
			if got.DeltaCRL != nil {
				return "bundle-faithful:base+delta", nil
			}
			return "bundle-faithful:base", nil
		}
		// implication only: the statement does not demand that a cache keeps what it was given
		return "stored-fresh-entry-not-returned(not judged; positive control lost)", nil
	}
}

// controls counts, per URL and fresh bundle, the faithful returns seen (non-vacuity).
var controls sync.Map // "<url>|<bundle>" -> struct{}

type histResult struct {
	state string
	viols []viol
	evals int
}

// runHistory executes ops on a fresh cache directory. Steps >= judgeFrom are
// judged (operation result, containment snapshot, a probing Get of every URL of
// the alphabet); earlier steps only replay a history that was judged before.
func runHistory(a *alphabet, nURL int, ops []op, judgeFrom int, count bool) (res histResult) {
	e, err := newEnv(a.scratch)
	if err != nil {
		res.viols = append(res.viols, viol{"!infra", err.Error()})
		return
	}
	defer e.cleanup()
	add := func(v *viol) {
		if v != nil {
			res.viols = append(res.viols, *v)
		}
	}
	class := func(c string) {
		if count && c != "" {
			cs.add(c)
		}
	}
	model := map[int]*bundleSpec{}
	for i, o := range ops {
		judge := i >= judgeFrom
		tag := fmt.Sprintf("step %d", i+1)
		var before snap
		if judge && o.Kind != opSet {
			if before, err = e.snapshot(); err != nil {
				add(&viol{"!infra", err.Error()})
				return
			}
		}
		u := a.urls[o.U]
		// "distinct URLs never share or overwrite an entry": an entry that IS returned right before a Set under
		// another URL string must not be gone (or changed - judged by the probes anyway) right after it
		var heldBefore []int
		if judge && o.Kind == opSet {
			for v := 0; v < nURL; v++ {
				if m := model[v]; v != o.U && m != nil && !m.expired() && !m.NoNextUpdate {
					res.evals++
					if got, gerr, pv := safeGet(e.cache, a.urls[v].URL); pv == nil && gerr == nil && got != nil && sameRaw(got.BaseCRL, m.B.BaseCRL) {
						heldBefore = append(heldBefore, v)
					}
				}
			}
		}
		res.evals++
		switch o.Kind {
		case opSet:
			err, pv := safeSet(e.cache, u.URL, o.B.B)
			switch {
			case pv != nil:
				if judge {
					add(&viol{"history/panic:set", fmt.Sprintf("%s Set(%s,%s) panicked: %v", tag, u.Name, o.B.Name, pv)})
				}
			case err == nil:
				if judge {
					if model[o.U] != nil {
						class("set:overwrote")
					} else {
						class("set:stored")
					}
				}
				model[o.U] = o.B
			default:
				// not stored by its own account; the statement does not demand that Set succeeds
				if judge {
					class("set:error-on-valid-bundle(not judged)")
				}
			}
		case opSetNil, opSetNilBase:
			var b *corecrl.Bundle
			if o.Kind == opSetNilBase {
				b = &corecrl.Bundle{DeltaCRL: a.foreign.B.DeltaCRL}
			}
			err, pv := safeSet(e.cache, u.URL, b)
			if judge {
				// the statement says nothing about a Set without bundle / base CRL: what it answers is recorded;
				// what later Gets return is judged against the unchanged model as always
				switch {
				case pv != nil:
					class("recorded:nil-set-panicked")
				case err == nil:
					class("recorded:nil-set-reported-success")
				default:
					class("nil-set:refused")
				}
			}
		case opGet:
			got, err, pv := safeGet(e.cache, u.URL)
			if judge {
				c, v := judgeGet(tag, u.Name, got, err, pv, model[o.U])
				add(v)
				if c != "" {
					class("get:" + c)
				}
			}
		}
		if !judge {
			continue
		}
		after, err := e.snapshot()
		if err != nil {
			add(&viol{"!infra", err.Error()})
			return
		}
		what := fmt.Sprintf("after %s %s", tag, a.opString(o))
		if len(after.outside) > 0 {
			add(&viol{"history/file-outside-root", fmt.Sprintf("%s: outside the cache root (relative to its 5th ancestor): %q", what, after.outside)})
		}
		if ents, _ := os.ReadDir(a.absTarget); len(ents) > 0 {
			add(&viol{"history/file-outside-root", fmt.Sprintf("%s: the directory named by the absolute-path URL is not empty", what)})
		}
		// the number of files per entry and whether Get / a refused Set tidy up below the root are not fixed by the statement
		if len(after.entries) != len(model) {
			class("recorded:entry-count-differs-from-stored-urls")
		}
		if o.Kind != opSet && after.key != before.key {
			k := "get"
			if o.Kind != opGet {
				k = "nil-set"
			}
			class("recorded:directory-changed-by:" + k)
		}
		// probe every URL of the alphabet in the state reached
		for v := 0; v < nURL; v++ {
			got, err, pv := safeGet(e.cache, a.urls[v].URL)
			res.evals++
			c, vi := judgeGet(what+", probing", a.urls[v].Name, got, err, pv, model[v])
			add(vi)
			if strings.HasPrefix(c, "stored-fresh-entry-not-returned") {
				for _, h := range heldBefore {
					if h == v {
						add(&viol{"history/entry-lost-by-store-under-another-url", fmt.Sprintf("%s: Get(%s) returned the stored bundle right before this Set under another URL and does not return it any more (%v)", what, a.urls[v].Name, err)})
					}
				}
			}
			if c != "" {
				class("probe:" + c)
				if count && strings.HasPrefix(c, "bundle-faithful:base") {
					controls.Store(a.urls[v].Name+"|"+model[v].Name, struct{}{})
				}
			}
		}
		after2, err := e.snapshot()
		if err != nil {
			add(&viol{"!infra", err.Error()})
			return
		}
		if after2.key != after.key {
			class("recorded:directory-changed-by:get")
		}
		if len(after2.outside) > 0 && len(after.outside) == 0 {
			add(&viol{"history/file-outside-root", fmt.Sprintf("%s and the probing Gets: outside the cache root: %q", what, after2.outside)})
		}
		res.state = after.key
	}
	if len(ops) == 0 {
		s, _ := e.snapshot()
		res.state = s.key
	}
	return
}

type histCase struct {
	Kind string   `json:"kind"`
	URLs int      `json:"urls"` // size of the URL alphabet probed after every step
	Ops  []string `json:"ops"`
}

func report(r *hx.Run, vs []viol, c any) {
	for _, v := range vs {
		if v.key == "!infra" {
			r.Infra("%s", v.what)
			continue
		}
		r.Violation(v.key, v.what, c)
	}
}

func explore(r *hx.Run, a *alphabet) {
	// quick: the first 7 URLs (plain, upper-case scheme, query, ../ traversal, NUL, trailing slash, empty); thorough: all 9, one level deeper
	nURL, depth := 7, 3
	if r.Thorough() {
		nURL, depth = len(a.urls), 4
	}
	var ops []op
	for u := 0; u < nURL; u++ {
		for b := range a.bundles {
			ops = append(ops, op{opSet, u, &a.bundles[b]})
		}
		ops = append(ops, op{opGet, u, nil}, op{opSetNil, u, nil}, op{opSetNilBase, u, nil})
	}
	r.Extra["history_urls"] = nURL
	r.Extra["history_bundles"] = len(a.bundles)
	r.Extra["history_operations"] = len(ops)
	r.Extra["history_depth"] = depth

	seen := map[string]struct{}{}
	init := runHistory(a, nURL, nil, 0, false)
	report(r, init.viols, histCase{"history", nURL, nil})
	seen[init.state] = struct{}{}
	r.State(1)
	frontier := [][]int{{}}
	var levels []map[string]int
	completed := 0
	for level := 1; level <= depth && len(frontier) > 0; level++ {
		n := len(frontier) * len(ops)
		states := make([]string, n)
		var skipped atomic.Bool
		r.Parallel(n, func(i int) {
			if r.Expired() {
				skipped.Store(true)
				return
			}
			h := frontier[i/len(ops)]
			seq := make([]op, 0, len(h)+1)
			for _, j := range h {
				seq = append(seq, ops[j])
			}
			seq = append(seq, ops[i%len(ops)])
			res := runHistory(a, nURL, seq, len(seq)-1, true)
			r.Eval(res.evals)
			r.Transition(1)
			states[i] = res.state
			strs := make([]string, len(seq))
			for k, o := range seq {
				strs[k] = a.opString(o)
			}
			if len(res.viols) > 0 {
				report(r, res.viols, histCase{"history", nURL, strs})
			}
			if len(h) > 0 { // something is stored: the operation meets an existing entry
				r.Nontrivial("h|" + strings.Join(strs, ","))
			}
			if i%40009 == 7 {
				r.Sample(map[string]any{"history": strs, "probed_urls": nURL})
			}
		}, nil)
		if skipped.Load() {
			r.Capped(fmt.Sprintf("histories: all depths <= %d completed, depth %d partially", completed, level))
			break
		}
		var next [][]int
		for i, s := range states {
			if s == "" {
				continue
			}
			if _, ok := seen[s]; ok {
				continue
			}
			seen[s] = struct{}{}
			r.State(1)
			h := frontier[i/len(ops)]
			next = append(next, append(append(make([]int, 0, len(h)+1), h...), i%len(ops)))
		}
		levels = append(levels, map[string]int{"depth": level, "expanded_states": len(frontier), "transitions": n, "new_states": len(next)})
		frontier = next
		completed = level
	}
	r.Extra["history_levels"] = levels
	r.Extra["history_states"] = len(seen)

	// NextUpdate one hour (+1 min) before / after now: Set, Get, overwrite, Get
	for i := range a.boundary {
		for j := range a.boundary {
			seq := []op{{opSet, 0, &a.boundary[i]}, {opGet, 0, nil}, {opSet, 0, &a.boundary[j]}, {opGet, 0, nil}}
			res := runHistory(a, nURL, seq, 0, false)
			r.Eval(res.evals)
			r.Transition(len(seq))
			strs := make([]string, len(seq))
			for k, o := range seq {
				strs[k] = a.opString(o)
			}
			report(r, res.viols, histCase{"history", nURL, strs})
			if len(res.viols) == 0 {
				cs.add("boundary(now-/+1h):ok")
			}
		}
	}
}

// ---------------------------------------------------------------- corruption family (E3)

type corruption struct {
	Kind  string // stable class: trunc, flip01, flip80 or the name of a structural corruption
	Label string // full descriptor, e.g. "trunc:17"
	Data  []byte
}

type fileEntry struct {
	BaseCRL  []byte `json:"baseCRL"`
	DeltaCRL []byte `json:"deltaCRL,omitempty"`
}

// decoded is what the oracle reads from a (mutated) file.
type decoded struct {
	wellFormed bool
	why        string
	base       *x509.RevocationList
	delta      *x509.RevocationList // nil: entry without delta
	trailing   bool                 // the field holds bytes after the CRL that x509.ParseRevocationList ignores
	lenient    string               // non-empty: only a lenient (but reasonable) reader takes the file for an entry; error and this bundle are both accepted
}

func oracleDecode(data []byte) decoded {
	var f fileEntry
	var d decoded
	// The FILE is the entry: bytes other than white space after (or before) the JSON value make it something that is
	// not a well-formed entry, whatever a reader that stops after the first value would make of its beginning
	// (json.Unmarshal is strict about this; trailing white space is JSON).
	if err := json.Unmarshal(data, &f); err != nil {
		return decoded{why: "not JSON of an entry: " + err.Error()}
	}
	if f.DeltaCRL != nil && len(f.DeltaCRL) == 0 {
		// "deltaCRL":"" - present-but-empty or absent is the reader's choice
		f.DeltaCRL = nil
		d.lenient = "empty deltaCRL member read as absent"
	}
	var err error
	if d.base, err = x509.ParseRevocationList(f.BaseCRL); err != nil {
		return decoded{why: "base CRL: " + err.Error()}
	}
	d.trailing = len(d.base.Raw) != len(f.BaseCRL)
	if f.DeltaCRL != nil {
		if d.delta, err = x509.ParseRevocationList(f.DeltaCRL); err != nil {
			return decoded{why: "delta CRL: " + err.Error()}
		}
		d.trailing = d.trailing || len(d.delta.Raw) != len(f.DeltaCRL)
	}
	d.wellFormed = true
	return d
}

// freshness of a decoded (possibly mutated) CRL: -1 past, +1 future, 0 within an hour of now (not judged)
func (a *alphabet) freshness(c *x509.RevocationList) int {
	switch {
	case c.NextUpdate.Before(a.now.Add(-time.Hour)): // includes an absent nextUpdate
		return -1
	case c.NextUpdate.After(a.now.Add(time.Hour)):
		return 1
	}
	return 0
}

func entryJSON(base, delta any) []byte {
	m := map[string]any{"baseCRL": base}
	if delta != nil {
		m["deltaCRL"] = delta
	}
	b, _ := json.Marshal(m)
	return b
}

func b64(b []byte) string { return base64.StdEncoding.EncodeToString(b) }

func (a *alphabet) structural(entry *bundleSpec, file []byte, foreignFile []byte) []corruption {
	base := entry.B.BaseCRL.Raw
	var delta []byte
	if entry.B.DeltaCRL != nil {
		delta = entry.B.DeltaCRL.Raw
	} else {
		delta = a.foreign.B.DeltaCRL.Raw
	}
	fb, fd := a.foreign.B.BaseCRL.Raw, a.foreign.B.DeltaCRL.Raw
	expBase := a.bundleByName("base-expired").B.BaseCRL.Raw
	expDelta := a.bundleByName("base-fresh+delta-expired").B.DeltaCRL.Raw
	noNext := a.bundleByName("base-no-nextupdate").B.BaseCRL.Raw
	obj := func(s string) []byte { return []byte(s) }
	withoutBrace := strings.TrimSuffix(string(file), "}")
	list := []corruption{
		{Kind: "identity", Data: file},
		{Kind: "swapped-base-and-delta", Data: entryJSON(delta, base)},
		{Kind: "base-of-another-entry", Data: entryJSON(fb, delta)},
		{Kind: "delta-of-another-entry", Data: entryJSON(base, fd)},
		{Kind: "file-of-another-entry", Data: foreignFile},
		{Kind: "expired-base-swapped-in", Data: entryJSON(expBase, delta)},
		{Kind: "expired-delta-swapped-in", Data: entryJSON(base, expDelta)},
		{Kind: "base-without-nextupdate-swapped-in", Data: entryJSON(noNext, delta)},
		{Kind: "delta-without-nextupdate-swapped-in", Data: entryJSON(base, noNext)},
		{Kind: "foreign-json", Data: obj(`{"name":"x","items":[1,2,3],"nested":{"baseCRL":"AAAA"}}`)},
		{Kind: "empty-object", Data: obj(`{}`)},
		{Kind: "delta-null", Data: obj(`{"baseCRL":"` + b64(base) + `","deltaCRL":null}`)},
		{Kind: "delta-empty-string", Data: obj(`{"baseCRL":"` + b64(base) + `","deltaCRL":""}`)},
		{Kind: "base-null", Data: obj(`{"baseCRL":null,"deltaCRL":"` + b64(delta) + `"}`)},
		{Kind: "base-empty-string", Data: obj(`{"baseCRL":"","deltaCRL":"` + b64(delta) + `"}`)},
		{Kind: "base-missing", Data: obj(`{"deltaCRL":"` + b64(delta) + `"}`)},
		{Kind: "base-number", Data: obj(`{"baseCRL":12}`)},
		{Kind: "base-array-of-numbers", Data: obj(`{"baseCRL":[48,0]}`)},
		{Kind: "top-level-array-of-entry", Data: obj("[" + string(file) + "]")},
		{Kind: "top-level-empty-array", Data: obj(`[]`)},
		{Kind: "top-level-null", Data: obj(`null`)},
		{Kind: "top-level-string", Data: obj(`"` + b64(base) + `"`)},
		{Kind: "empty-file", Data: nil},
		{Kind: "raw-der-instead-of-json", Data: base},
		{Kind: "base-is-pem", Data: entryJSON(pem.EncodeToMemory(&pem.Block{Type: "X509 CRL", Bytes: base}), delta)},
		{Kind: "base-is-certificate", Data: entryJSON(a.issuer.Cert.Raw, delta)},
		{Kind: "base-is-tbs-only", Data: entryJSON(entry.B.BaseCRL.RawTBSRevocationList, delta)},
		{Kind: "base-with-trailing-bytes", Data: entryJSON(append(append([]byte(nil), base...), 0, 0), delta)},
		{Kind: "delta-with-trailing-bytes", Data: entryJSON(base, append(append([]byte(nil), delta...), 0x30, 0))},
		{Kind: "base-url-safe-base64", Data: obj(`{"baseCRL":"` + base64.URLEncoding.EncodeToString(base) + `"}`)},
		{Kind: "duplicate-base-member", Data: obj(`{"baseCRL":"` + b64(fb) + `","baseCRL":"` + b64(base) + `"}`)},
		{Kind: "trailing-garbage-after-object", Data: append(append([]byte(nil), file...), []byte("garbage")...)},
		{Kind: "second-object-appended", Data: append(append([]byte(nil), file...), foreignFile...)},
		{Kind: "bom-prefix", Data: append([]byte("\xef\xbb\xbf"), file...)},
		{Kind: "nul-padded", Data: append(append([]byte(nil), file...), 0, 0, 0, 0)},
		// a well-formed entry with an extra member / white space: whether Get accepts it is not fixed by the statement
		{Kind: "extra-member", Data: obj(withoutBrace + `,"x":1}`)},
		{Kind: "trailing-newline", Data: append(append([]byte(nil), file...), '\n')},
	}
	for i := range list {
		list[i].Label = "struct:" + list[i].Kind
	}
	return list
}

type corruptCase struct {
	Kind       string `json:"kind"`
	Entry      string `json:"entry"`
	Corruption string `json:"corruption"`
	Mutated    []byte `json:"mutated_file"` // exact file content (base64)
}

var corruptURL = "http://h/a.crl"

// runCorrupt stores entry under corruptURL in a fresh cache, replaces the
// content of the one file that appeared by data, and judges Get.
func runCorrupt(a *alphabet, entry *bundleSpec, c corruption) (class string, vs []viol) {
	e, err := newEnv(a.scratch)
	if err != nil {
		return "", []viol{{"!infra", err.Error()}}
	}
	defer e.cleanup()
	if err, pv := safeSet(e.cache, corruptURL, entry.B); err != nil || pv != nil {
		return "", []viol{{"!infra", fmt.Sprintf("cannot store the entry to corrupt: %v %v", err, pv)}}
	}
	ents := e.files()
	if len(ents) != 1 {
		return "skipped(" + errLayout.Error() + ")", nil
	}
	path := filepath.Join(e.root, ents[0])
	if err := os.WriteFile(path, c.Data, 0o600); err != nil {
		return "", []viol{{"!infra", err.Error()}}
	}
	before, _ := e.snapshot()
	got, gerr, pv := safeGet(e.cache, corruptURL)
	after, _ := e.snapshot()
	if after.key != before.key {
		cs.add("recorded:directory-changed-by-get-on-corrupted-entry") // e.g. a Get that removes what it cannot read: not fixed by the statement
	}
	if len(after.outside) > 0 {
		vs = append(vs, viol{"corrupt/file-outside-root:" + c.Kind, fmt.Sprintf("Get on entry corrupted by %s: outside the cache root: %q", c.Label, after.outside)})
	}
	d := oracleDecode(c.Data)
	at := fmt.Sprintf("entry %s corrupted by %s", entry.Name, c.Label)
	miss := got == nil && gerr != nil && errors.Is(gerr, corecrl.ErrCacheMiss)
	if got != nil && gerr != nil {
		cs.add("recorded:bundle-together-with-error") // judged as a bundle handed out
	}
	switch {
	case pv != nil:
		vs = append(vs, viol{"corrupt/panic:" + c.Kind, fmt.Sprintf("%s: Get panicked: %v", at, pv)})
	case got == nil && gerr == nil:
		vs = append(vs, viol{"corrupt/nil-bundle-without-error:" + c.Kind, at + ": Get returned (nil, nil)"})
	case got != nil:
		switch {
		case got.BaseCRL == nil:
			vs = append(vs, viol{"corrupt/bundle-differs-from-file:" + c.Kind, at + ": bundle without base CRL"})
		case !d.wellFormed:
			vs = append(vs, viol{"corrupt/bundle-from-malformed-file:" + c.Kind, fmt.Sprintf("%s: the file is not a well-formed entry (%s), yet Get returned a bundle", at, d.why)})
		case !sameRaw(got.BaseCRL, d.base) || (got.DeltaCRL == nil) != (d.delta == nil) || (d.delta != nil && !sameRaw(got.DeltaCRL, d.delta)):
			vs = append(vs, viol{"corrupt/bundle-differs-from-file:" + c.Kind, fmt.Sprintf("%s: the bundle returned (delta present: %v) does not have the bytes the file holds (delta present: %v)", at, got.DeltaCRL != nil, d.delta != nil)})
		case a.freshness(d.base) < 0 || (d.delta != nil && a.freshness(d.delta) < 0):
			if d.base.NextUpdate.IsZero() || (d.delta != nil && d.delta.NextUpdate.IsZero()) {
				class = "bundle-equals-file:no-nextupdate(freshness not fixed by the statement)"
			} else {
				vs = append(vs, viol{"corrupt/expired-bundle-returned:" + c.Kind, fmt.Sprintf("%s: the file decodes to a CRL past its next-update time, yet the bundle was returned", at)})
			}
		case d.trailing:
			class = "bundle-equals-parsed-file(bytes after the CRL ignored by x509.ParseRevocationList; not judged)"
		case d.lenient != "":
			class = "bundle-equals-file(lenient reading: " + d.lenient + "; not judged)"
		default:
			class = "bundle-equals-file"
		}
	case miss:
		switch {
		case !d.wellFormed:
			vs = append(vs, viol{"corrupt/miss-instead-of-error:" + c.Kind, fmt.Sprintf("%s: the file is not a well-formed entry (%s); Get must report an error, it reported a cache miss", at, d.why)})
		case a.freshness(d.base) <= 0 || (d.delta != nil && a.freshness(d.delta) <= 0):
			class = "miss(file decodes to an expired CRL)"
		default:
			class = "miss-for-well-formed-fresh-file(not judged)"
		}
	default:
		if d.wellFormed {
			class = "error(file still well-formed for the oracle; not judged)"
		} else {
			class = "error(file malformed)"
		}
	}
	return
}

func (a *alphabet) entryFile(b *bundleSpec) ([]byte, error) {
	e, err := newEnv(a.scratch)
	if err != nil {
		return nil, err
	}
	defer e.cleanup()
	if err, pv := safeSet(e.cache, corruptURL, b.B); err != nil || pv != nil {
		return nil, fmt.Errorf("Set: %v %v", err, pv)
	}
	ents := e.files()
	if len(ents) != 1 {
		return nil, errLayout
	}
	file, err := os.ReadFile(filepath.Join(e.root, ents[0]))
	if err != nil {
		return nil, err
	}
	// the oracle of this family knows one format (the JSON object with base64 members); if it cannot read back
	// what Set itself wrote, the format has changed and the family cannot judge
	if d := oracleDecode(file); !d.wellFormed || d.lenient != "" || !sameRaw(d.base, b.B.BaseCRL) || (d.delta == nil) != (b.B.DeltaCRL == nil) || (d.delta != nil && !sameRaw(d.delta, b.B.DeltaCRL)) {
		return nil, errFormat
	}
	return file, nil
}

var errFormat = errors.New("the entry file Set writes is not the JSON entry the oracle knows")

func (a *alphabet) corruptions(entry *bundleSpec) ([]corruption, error) {
	file, err := a.entryFile(entry)
	if err != nil {
		return nil, err
	}
	foreign, err := a.entryFile(&a.foreign)
	if err != nil {
		return nil, err
	}
	list := a.structural(entry, file, foreign)
	for n := 0; n < len(file); n++ {
		list = append(list, corruption{Kind: "trunc", Label: fmt.Sprintf("trunc:%d", n), Data: file[:n]})
	}
	// bytes before / after a complete entry: every single byte value, and every prefix of the entry glued on again
	// (a second, possibly torn, write appended instead of replacing)
	for b := 0; b < 256; b++ {
		list = append(list, corruption{Kind: "append", Label: fmt.Sprintf("append:%d", b), Data: append(append([]byte(nil), file...), byte(b))})
		list = append(list, corruption{Kind: "prepend", Label: fmt.Sprintf("prepend:%d", b), Data: append([]byte{byte(b)}, file...)})
	}
	for n := 1; n <= len(file); n++ {
		list = append(list, corruption{Kind: "glued-prefix", Label: fmt.Sprintf("glued-prefix:%d", n), Data: append(append([]byte(nil), file...), file[:n]...)})
	}
	for _, m := range []struct {
		name string
		mask byte
	}{{"flip01", 1}, {"flip80", 0x80}} {
		for i := range file {
			d := append([]byte(nil), file...)
			d[i] ^= m.mask
			list = append(list, corruption{Kind: m.name, Label: fmt.Sprintf("%s:%d", m.name, i), Data: d})
		}
	}
	return list, nil
}

var (
	notJudgedMu sync.Mutex
	notJudged   []string
)

var corruptSkipped bool

func corrupt(r *hx.Run, a *alphabet) {
	names := []string{"base+delta-fresh"}
	if r.Thorough() {
		names = append(names, "base-fresh+delta-expired", "base-fresh")
	}
	sizes := map[string]int{}
	for _, n := range names {
		entry := a.bundleByName(n)
		list, err := a.corruptions(entry)
		if errors.Is(err, errLayout) || errors.Is(err, errFormat) {
			r.Capped("corruption family not run: " + err.Error())
			corruptSkipped = true
			return
		}
		if err != nil {
			if r.Violations() > 0 { // the history family already shows why nothing can be stored
				cs.add("corrupt:skipped(the entry to corrupt could not be stored)")
				return
			}
			r.Infra("corruption family: %v", err)
			return
		}
		sizes[n] = len(list)
		r.Parallel(len(list), func(i int) {
			c := list[i]
			class, vs := runCorrupt(a, entry, c)
			r.Eval(2)
			report(r, vs, corruptCase{"corrupt", entry.Name, c.Label, c.Data})
			if class != "" {
				cs.add("corrupt:" + class)
				if strings.Contains(class, "not judged") {
					notJudgedMu.Lock()
					notJudged = append(notJudged, entry.Name+" / "+c.Label+" -> "+class)
					notJudgedMu.Unlock()
				}
				if strings.HasPrefix(class, "bundle-") || strings.HasPrefix(class, "miss") || strings.Contains(class, "still well-formed") {
					r.Nontrivial("c|" + entry.Name + "|" + c.Label)
				}
				if c.Kind == "identity" {
					cs.add("corrupt-control(unmodified file):" + class)
				}
			}
			if i%1201 == 5 {
				r.Sample(map[string]any{"entry": entry.Name, "corruption": c.Label, "result": class})
			}
		}, nil)
	}
	r.Extra["corruptions_per_entry"] = sizes
	sort.Strings(notJudged)
	if len(notJudged) > 60 {
		notJudged = append(notJudged[:60], "...")
	}
	r.Extra["corruptions_not_judged"] = notJudged
}

// ---------------------------------------------------------------- replay

func replay(r *hx.Run, a *alphabet) {
	var probe struct {
		Kind string `json:"kind"`
	}
	if err := r.LoadReplay(&probe); err != nil {
		r.Infra("replay: %v", err)
		return
	}
	switch probe.Kind {
	case "history":
		var c histCase
		_ = r.LoadReplay(&c)
		var seq []op
		for _, s := range c.Ops {
			o, err := a.parseOp(s)
			if err != nil {
				r.Infra("replay: %v", err)
				return
			}
			seq = append(seq, o)
		}
		if c.URLs <= 0 || c.URLs > len(a.urls) {
			c.URLs = len(a.urls)
		}
		res := runHistory(a, c.URLs, seq, 0, false)
		r.Eval(res.evals)
		report(r, res.viols, c)
		if len(res.viols) == 0 {
			fmt.Println("replay: holds")
		}
	case "corrupt":
		var c corruptCase
		_ = r.LoadReplay(&c)
		entry := a.bundleByName(c.Entry)
		if entry == nil {
			r.Infra("replay: unknown entry %q", c.Entry)
			return
		}
		kind := strings.TrimPrefix(c.Corruption, "struct:")
		if i := strings.IndexByte(kind, ':'); i >= 0 {
			kind = kind[:i]
		}
		class, vs := runCorrupt(a, entry, corruption{Kind: kind, Label: c.Corruption, Data: c.Mutated})
		r.Eval(2)
		report(r, vs, c)
		if len(vs) == 0 {
			fmt.Println("replay: holds (" + class + ")")
		}
	default:
		r.Infra("replay: unknown case kind %q", probe.Kind)
	}
}

// ---- clock-advance histories (clock seam) ----
//
// verifier/crl is compiled with its "time" import rewritten to engine/timeshim, so the harness decides what
// time.Now() returns inside FileCache. A stored entry is read before and after the clock passes (or has not
// yet reached) a next-update instant, on the same cache instance and on a fresh one: the answer must follow
// the clock of each Get - freshness is never remembered.
type clockCase struct {
	Kind   string `json:"kind"`
	Bundle string `json:"bundle"`
	URL    string `json:"url"`
	Years  []int  `json:"clock_years"`
}

func clockFamily(r *hx.Run, a *alphabet) {
	timeshim.SetOffset(0)
	probeRoot := filepath.Join(a.scratch, "clock-probe")
	pc, err := crl.NewFileCache(probeRoot)
	if err != nil {
		r.Infra("clock probe: %v", err)
		return
	}
	before := timeshim.Calls()
	_ = pc.Set(context.Background(), "http://h/probe", a.bundleByName("base-fresh").B)
	_, _ = pc.Get(context.Background(), "http://h/probe")
	_ = os.RemoveAll(probeRoot)
	if timeshim.Calls() == before {
		r.Capped("clock seam not active (overlay build failed or verifier/crl no longer reads package time): clock-advance histories not run")
		return
	}
	at := func(year int) { timeshim.SetOffset(time.Until(time.Date(year, 1, 1, 0, 0, 0, 0, time.UTC))) }
	defer timeshim.SetOffset(0)
	// the verdict of the reference for a bundle at a clock year: every next-update instant of the alphabet is 2021 or 2045
	freshAt := func(b *bundleSpec, year int) bool {
		ok := func(c *x509.RevocationList) bool { return c == nil || c.NextUpdate.Year() > year }
		return ok(b.B.BaseCRL) && ok(b.B.DeltaCRL)
	}
	years := [][]int{{2030, 2046}, {2046, 2030}, {2030, 2046, 2030}, {2020, 2030}, {2030, 2020}, {2020, 2046, 2020}}
	n := 0
	for bi := range a.bundles {
		b := &a.bundles[bi]
		if b.NoNextUpdate {
			continue
		}
		for ui, u := range a.urls[:2] {
			for _, ys := range years {
				for _, sameInstance := range []bool{true, false} {
					n++
					root := filepath.Join(a.scratch, "clock", fmt.Sprintf("c%d", n), "cache")
					c, err := crl.NewFileCache(root)
					if err != nil {
						r.Infra("clock family: %v", err)
						return
					}
					at(2030)
					r.Eval(1)
					if err := c.Set(context.Background(), u.URL, b.B); err != nil {
						r.Outcome("recorded:clock/set-failed") // the statement does not demand that Set accepts every bundle (e.g. an expired one)
						continue
					}
					for step, y := range ys {
						at(y)
						g := c
						if !sameInstance {
							if g, err = crl.NewFileCache(root); err != nil {
								r.Infra("clock family: %v", err)
								return
							}
						}
						r.Eval(1)
						got, gerr := g.Get(context.Background(), u.URL)
						want := freshAt(b, y)
						inst := map[bool]string{true: "same-instance", false: "fresh-instance"}[sameInstance]
						where := fmt.Sprintf("Get #%d of clock history %v (%s) for bundle %s under URL %s", step+1, ys, inst, b.Name, u.Name)
						switch {
						case want && got == nil:
							// "returned only while ..." is an implication: a cache that does not hand out a fresh entry
							// (a maximum age, a safety margin before next-update ...) keeps the property. Recorded.
							r.Outcome("recorded:clock/fresh-entry-not-returned:" + inst)
						case want && (!bytes.Equal(got.BaseCRL.Raw, b.B.BaseCRL.Raw) || (got.DeltaCRL == nil) != (b.B.DeltaCRL == nil) || (got.DeltaCRL != nil && !bytes.Equal(got.DeltaCRL.Raw, b.B.DeltaCRL.Raw))):
							r.Violation("clock/returned-bundle-differs:"+inst, where, clockCase{"clock", b.Name, u.Name, ys})
						case !want && got != nil:
							r.Violation("clock/expired-bundle-returned:"+inst, fmt.Sprintf("%s: at clock year %d a CRL of the entry has passed its next-update time, yet the bundle was returned", where, y), clockCase{"clock", b.Name, u.Name, ys})
						case !want && !errors.Is(gerr, corecrl.ErrCacheMiss):
							r.Violation("clock/expired-entry-not-a-miss:"+inst, fmt.Sprintf("%s: at clock year %d the result must be a cache miss, got %v", where, y, gerr), clockCase{"clock", b.Name, u.Name, ys})
						default:
							r.Outcome(fmt.Sprintf("clock:%s:fresh=%v", inst, want))
							r.Nontrivial(fmt.Sprintf("clock|%s|%d|%v|%v|%d", b.Name, ui, ys, sameInstance, step))
						}
					}
					at(2030)
					_ = os.RemoveAll(filepath.Dir(root))
				}
			}
		}
	}
	r.Extra["clock_histories"] = n

	// boundary instants (frozen clock, exact): just before / after the next-update instant of the base and of
	// the delta CRL. "Returned only while neither CRL has passed its next-update time; afterwards a miss":
	// one second after is a miss, one second before is a hit; the instant itself is recorded, not judged.
	defer timeshim.Unfreeze()
	nb := 0
	for _, name := range []string{"base-fresh", "base+delta-fresh", "base-fresh+delta-expired", "base-expired+delta-fresh"} {
		b := a.bundleByName(name)
		root := filepath.Join(a.scratch, "clock-boundary", name, "cache")
		timeshim.Freeze(time.Date(2020, 6, 1, 0, 0, 0, 0, time.UTC)) // before every next-update of the alphabet
		c, err := crl.NewFileCache(root)
		if err != nil {
			r.Infra("clock boundary: %v", err)
			return
		}
		if err := c.Set(context.Background(), "http://h/boundary", b.B); err != nil {
			r.Outcome("recorded:clock/set-failed")
			continue
		}
		edges := []time.Time{b.B.BaseCRL.NextUpdate}
		if b.B.DeltaCRL != nil {
			edges = append(edges, b.B.DeltaCRL.NextUpdate)
		}
		for _, edge := range edges {
			for _, d := range []time.Duration{-time.Hour, -time.Minute, -time.Second, 0, time.Second, time.Minute, 5*time.Minute - time.Second, 5*time.Minute + time.Second, time.Hour, 25 * time.Hour} {
				at := edge.Add(d)
				timeshim.Freeze(at)
				nb++
				r.Eval(1)
				got, gerr := c.Get(context.Background(), "http://h/boundary")
				want := !at.After(b.B.BaseCRL.NextUpdate) && (b.B.DeltaCRL == nil || !at.After(b.B.DeltaCRL.NextUpdate))
				exact := at.Equal(b.B.BaseCRL.NextUpdate) || (b.B.DeltaCRL != nil && at.Equal(b.B.DeltaCRL.NextUpdate))
				where := fmt.Sprintf("Get at next-update%+v (clock frozen at %s) of bundle %s", d, at.Format(time.RFC3339), name)
				switch {
				case exact:
					r.Outcome(fmt.Sprintf("clock-boundary:at-the-next-update-instant:returned=%v(not judged)", gerr == nil))
				case want && got == nil:
					r.Outcome("recorded:clock/fresh-entry-not-returned:boundary") // implication, see above
				case !want && got != nil:
					r.Violation("clock/expired-bundle-returned:boundary", where+": a CRL has passed its next-update time, yet the bundle was returned", clockCase{"clock-boundary", name, d.String(), nil})
				case !want && !errors.Is(gerr, corecrl.ErrCacheMiss):
					r.Violation("clock/expired-entry-not-a-miss:boundary", fmt.Sprintf("%s: got %v", where, gerr), clockCase{"clock-boundary", name, d.String(), nil})
				default:
					r.Outcome(fmt.Sprintf("clock-boundary:fresh=%v", want))
					r.Nontrivial(fmt.Sprintf("clockb|%s|%v|%v", name, edge, d))
				}
			}
		}
		timeshim.Unfreeze()
		_ = os.RemoveAll(filepath.Dir(root))
	}
	r.Extra["clock_boundary_reads"] = nb
}

// budget stretches a wall-clock allowance that does not go through r.SetDeadline (hx.Budget: machine load or
// VERIF_BUDGET_SCALE; the bounds stay the same).
func budget(d time.Duration) time.Duration { return hx.Budget(d) }

func main() {
	r := hx.New("C15")
	r.Rule = "breadth-first over the reachable directory states of crl.FileCache: every state reached by a history of Set/Get/nil-Set operations shorter than the depth bound is expanded by every operation of the alphabet (fresh cache directory, replay of the shortest history, one more operation, judged against the map model, recursive containment snapshot, probing Get of every URL); then every truncation, every byte x {^1,^0x80} and the structural corruptions of one stored entry. Non-trivial = transitions from a non-empty cache, and corruptions whose file the oracle (or Get) still reads as an entry or that end in a miss"
	r.Assumptions = []string{
		"the wall clock does not move by an hour during a run; fixed NextUpdate instants 2021-03-04 / 2045-06-15 and, in a small side family, now -/+ 61 min",
		"CRLs are < 1 KiB, RSA-2048/PKCS#1 v1.5 signed by a key cached under build/keys (deterministic DER)",
		"x509.CreateRevocationList refuses a template without NextUpdate; the CRL without nextUpdate is made by removing the field from the TBS and signing again",
		"the URL '/abs/x' of DESIGN.md is replaced by an absolute path into an (empty, watched) directory of the scratch area",
		"the statement is read as an implication for fresh stored entries (a returned bundle is the stored one); that a stored fresh entry IS returned is a counted positive control, not a judged clause",
		"well-formedness of a corrupted file is decided by encoding/json + x509.ParseRevocationList; whether Get must accept every file the oracle accepts is not judged",
	}
	a := buildAlphabet(r)
	if a == nil {
		r.Finish()
	}
	shapeFamily(r, a)    // shapes.go: bundle shapes (next-update along the time line, base/delta relations) and near-identical URL byte strings
	hostileFamily(r, a)  // hostile.go: path-special values in every component of the URL (replays its own cases)
	instanceFamily(r, a) // instances.go: two-instance / external-change histories (replays its own cases)
	if r.Replay != "" {
		replay(r, a)
		r.Finish()
	}
	if r.Thorough() {
		r.SetDeadline(9 * time.Minute)
	} else {
		r.SetDeadline(40 * time.Second)
	}
	explore(r, a)
	corrupt(r, a)
	clockFamily(r, a) // sequential: the displaced clock is process-global

	// non-vacuity (only when nothing was violated: a violation explains lost controls and must decide the exit code).
	// The controls ask for nothing the statement leaves open: SOME URL must have returned a stored base and a stored
	// base+delta bundle faithfully and a never-stored URL must have been a miss. URLs that never returned a fresh
	// bundle (an implementation may refuse to store under, say, the empty URL) are listed in the evidence only.
	ctlURLs := a.urls
	if !r.Thorough() {
		ctlURLs = a.urls[:7] // the quick history alphabet
	}
	var without []string
	for _, b := range []string{"base-fresh", "base+delta-fresh"} {
		seen := false
		for _, u := range ctlURLs {
			if _, ok := controls.Load(u.Name + "|" + b); ok {
				seen = true
			} else {
				without = append(without, u.Name+"|"+b)
			}
		}
		if !seen && r.Violations() == 0 {
			r.Infra("positive control failed: bundle %s was never returned under any URL it was stored under", b)
		}
	}
	r.Extra["urls_that_never_returned_a_stored_fresh_bundle"] = without
	need := []string{"probe:miss:never-stored", "boundary(now-/+1h):ok"}
	if !corruptSkipped {
		need = append(need, "corrupt-control(unmodified file):bundle-equals-file", "corrupt:error(file malformed)")
	}
	for _, c := range need {
		if cs.get(c) == 0 && r.Violations() == 0 {
			r.Infra("control class %q was never observed", c)
		}
	}
	r.Extra["stored_fresh_entry_not_returned"] = cs.get("get:stored-fresh-entry-not-returned(not judged; positive control lost)") + cs.get("probe:stored-fresh-entry-not-returned(not judged; positive control lost)")
	cs.flush(r)
	_ = os.RemoveAll(filepath.Join(a.scratch, "case"))
	r.Finish()
}
