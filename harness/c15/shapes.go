// C15, two further dimensions of the quantifier.
//
// (1) Bundle shapes. The history alphabet holds six bundles whose CRLs differ in freshness only, with next-update
// instants 2021 / 2045 and well-behaved numbers. An implementation may treat a bundle differently because of what is IN
// the CRLs: where on the time line the next-update instant lies (before the epoch, before 1678 / after 2262 where
// UnixNano is undefined, around the 32-bit limits, year 1, year 9999, UTCTime vs GeneralizedTime) - for base and delta
// independently - and how base and delta relate (delta number lower than / equal to / far above the base number, number
// 0, 20-octet numbers, a delta indicator naming another base, no indicator at all, the same CRL in both positions,
// another issuer, no revoked entries, many entries). Every shape is stored, read through the storing and through a
// fresh instance, replaced by an ordinary bundle, stored again and read again - judged by judgeGet with the hand-written
// freshness label of the shape (implication for fresh shapes, miss demanded for expired ones, exact bytes always).
//
// (2) Near-identical URL strings as BYTE strings. Everything a canonicaliser, an encoder or a sanitiser could merge:
// invalid UTF-8 bytes (which encoders replace by U+FFFD), the literal U+FFFD, overlong and surrogate encodings, NFC/NFD,
// case pairs outside ASCII, IDN vs punycode, white space and control characters around or inside, BOM, zero-width
// characters, percent-encoding case and equivalents, default port, trailing dot, empty query/fragment, dot segments,
// characters that JSON/HTML escaping rewrites. For EVERY ordered pair (u, v) of the list: Set(u,b0) Get(u) Get(v)=miss
// Set(v,twin) Get(u)=b0 (and not lost) Get(v)=twin, with the containment snapshot.
package main

import (
	"crypto/rand"
	"crypto/x509"
	"crypto/x509/pkix"
	"encoding/asn1"
	"fmt"
	"math/big"
	"strings"
	"time"

	corecrl "github.com/notaryproject/notation-core-go/revocation/crl"
	"github.com/notaryproject/notation-go/verifier/crl"
	"github.com/notaryproject/notation-go/zzverif/lib/hx"
	"github.com/notaryproject/notation-go/zzverif/lib/pki"
)

// ---------------------------------------------------------------- bundle shapes

type instant struct {
	name    string
	t       time.Time
	expired bool
}

func shapeInstants() []instant {
	d := func(y int, m time.Month, day, h, mi, s int) time.Time {
		return time.Date(y, m, day, h, mi, s, 0, time.UTC)
	}
	return []instant{
		{"0001-01-02", d(1, 1, 2, 0, 0, 0), true}, // (0001-01-01T00:00:00Z is Go's zero time, i.e. "no next-update")
		{"1443", d(1443, 5, 6, 7, 8, 9), true},
		{"1600", d(1600, 3, 1, 0, 0, 0), true},
		{"1677-09-21(UnixNano-lower-limit)", d(1677, 9, 21, 0, 12, 43), true},
		{"1700", d(1700, 3, 1, 0, 0, 0), true},
		{"1734", d(1734, 1, 1, 0, 0, 0), true},
		{"1901-12-13(int32-lower-limit)", d(1901, 12, 13, 20, 45, 51), true},
		{"1949-12-31(last-GeneralizedTime)", d(1949, 12, 31, 23, 59, 59), true},
		{"1950-01-01(first-UTCTime)", d(1950, 1, 1, 0, 0, 0), true},
		{"1969-12-31T23:59:59", d(1969, 12, 31, 23, 59, 59), true},
		{"1970-01-01T00:00:00(epoch)", d(1970, 1, 1, 0, 0, 0), true},
		{"1970-01-01T00:00:01", d(1970, 1, 1, 0, 0, 1), true},
		{"2001-09-09", d(2001, 9, 9, 1, 46, 40), true},
		{"2038-01-19T03:14:08(int32-limit)", d(2038, 1, 19, 3, 14, 8), false},
		{"2049-12-31(last-UTCTime)", d(2049, 12, 31, 23, 59, 59), false},
		{"2050-01-01(first-GeneralizedTime)", d(2050, 1, 1, 0, 0, 0), false},
		{"2106-02-07(uint32-limit)", d(2106, 2, 7, 6, 28, 16), false},
		{"2262-04-12(UnixNano-upper-limit)", d(2262, 4, 12, 0, 0, 0), false},
		{"2300", d(2300, 1, 1, 0, 0, 0), false},
		{"9999-12-31T23:59:59", d(9999, 12, 31, 23, 59, 59), false},
	}
}

// crlOpts describes one CRL of a shape.
type crlOpts struct {
	issuer   *pki.Cert
	number   *big.Int
	next     time.Time
	deltaOf  int64 // > 0: delta indicator naming that base number
	nRevoked int
}

func makeCRL(o crlOpts) (c *x509.RevocationList, err error) {
	this := o.next.Add(-time.Hour)
	t := &x509.RevocationList{Number: o.number, ThisUpdate: this, NextUpdate: o.next}
	for i := 0; i < o.nRevoked; i++ {
		t.RevokedCertificateEntries = append(t.RevokedCertificateEntries, x509.RevocationListEntry{SerialNumber: big.NewInt(int64(900000 + i)), RevocationTime: this})
	}
	if o.deltaOf > 0 {
		v, _ := asn1.Marshal(big.NewInt(o.deltaOf))
		t.ExtraExtensions = append(t.ExtraExtensions, pkix.Extension{Id: asn1.ObjectIdentifier{2, 5, 29, 27}, Critical: true, Value: v})
	}
	der, err := x509.CreateRevocationList(rand.Reader, t, o.issuer.Cert, o.issuer.Key)
	if err != nil {
		return nil, err
	}
	return x509.ParseRevocationList(der)
}

func (a *alphabet) shapes(r *hx.Run) []bundleSpec {
	var out []bundleSpec
	var skipped []string
	add := func(name string, base, delta *crlOpts, baseExp, deltaExp bool) {
		b, err := makeCRL(*base)
		var d *x509.RevocationList
		if err == nil && delta != nil {
			d, err = makeCRL(*delta)
		}
		if err != nil || (b.NextUpdate.IsZero()) || (d != nil && d.NextUpdate.IsZero()) {
			skipped = append(skipped, fmt.Sprintf("%s (%v)", name, err))
			return
		}
		out = append(out, bundleSpec{Name: name, B: &corecrl.Bundle{BaseCRL: b, DeltaCRL: d}, BaseExpired: baseExp, DeltaExpired: deltaExp})
	}
	n := func(v int64) *big.Int { return big.NewInt(v) }
	ord := func(num int64, next time.Time) *crlOpts {
		return &crlOpts{issuer: a.issuer, number: n(num), next: next, nRevoked: 2}
	}
	dlt := func(num, of int64, next time.Time) *crlOpts {
		return &crlOpts{issuer: a.issuer, number: n(num), next: next, deltaOf: of, nRevoked: 2}
	}
	// next-update instants along the time line, base and delta independently
	for i, in := range shapeInstants() {
		k := int64(1000 + 10*i)
		add("next-update:base@"+in.name, ord(k, in.t), nil, in.expired, false)
		add("next-update:base-fresh+delta@"+in.name, ord(k+1, tFresh), dlt(k+2, k+1, in.t), false, in.expired)
		add("next-update:base@"+in.name+"+delta-fresh", ord(k+3, in.t), dlt(k+4, k+3, tFresh), in.expired, false)
	}
	// how base and delta relate; each relation fresh, and with an expired delta (a dropped delta then shows as a bundle)
	big20 := new(big.Int).Sub(new(big.Int).Lsh(big.NewInt(1), 159), big.NewInt(1)) // 20 octets
	other := pki.Make(pki.Tmpl{Subject: pki.Name("c15 another issuer"), CA: true, PathLen: -1}, pki.Key(pki.EC256, 0), nil)
	for _, fr := range []struct {
		tag  string
		next time.Time
		exp  bool
	}{{"fresh", tFresh, false}, {"expired", tExpired, true}} {
		rel := func(name string, base, delta *crlOpts) {
			add("relation:"+name+":delta-"+fr.tag, base, delta, false, fr.exp)
		}
		rel("delta-number-lower-than-base", ord(50, tFresh), dlt(49, 50, fr.next))
		rel("delta-number-far-lower", ord(50, tFresh), dlt(3, 50, fr.next))
		rel("delta-number-zero", ord(50, tFresh), dlt(0, 50, fr.next))
		rel("delta-number-equal-to-base", ord(50, tFresh), dlt(50, 50, fr.next))
		rel("delta-number-far-above", ord(50, tFresh), dlt(5000000000, 50, fr.next))
		rel("numbers-20-octets", &crlOpts{issuer: a.issuer, number: new(big.Int).Sub(big20, n(1)), next: tFresh, nRevoked: 2}, &crlOpts{issuer: a.issuer, number: big20, next: fr.next, deltaOf: 50, nRevoked: 2})
		rel("base-number-zero", ord(0, tFresh), dlt(1, 1, fr.next))
		rel("indicator-names-another-base", ord(50, tFresh), dlt(51, 7, fr.next))
		rel("delta-without-indicator(two-base-CRLs)", ord(50, tFresh), ord(51, fr.next))
		rel("base-carries-delta-indicator", dlt(50, 40, tFresh), dlt(51, 50, fr.next))
		rel("delta-of-another-issuer", ord(50, tFresh), &crlOpts{issuer: other, number: n(51), next: fr.next, deltaOf: 50, nRevoked: 2})
		rel("no-revoked-entries", &crlOpts{issuer: a.issuer, number: n(50), next: tFresh}, &crlOpts{issuer: a.issuer, number: n(51), next: fr.next, deltaOf: 50})
		rel("many-entries", &crlOpts{issuer: a.issuer, number: n(50), next: tFresh, nRevoked: 300}, &crlOpts{issuer: a.issuer, number: n(51), next: fr.next, deltaOf: 50, nRevoked: 300})
	}
	// the same CRL in both positions
	if c, err := makeCRL(*ord(60, tFresh)); err == nil {
		out = append(out, bundleSpec{Name: "relation:same-CRL-as-base-and-delta:fresh", B: &corecrl.Bundle{BaseCRL: c, DeltaCRL: c}})
	}
	if c, err := makeCRL(*ord(61, tExpired)); err == nil {
		out = append(out, bundleSpec{Name: "relation:same-CRL-as-base-and-delta:expired", B: &corecrl.Bundle{BaseCRL: c, DeltaCRL: c}, BaseExpired: true, DeltaExpired: true})
	}
	r.Extra["bundle_shapes"] = len(out)
	if len(skipped) > 0 {
		r.Extra["bundle_shapes_not_constructible"] = skipped
	}
	return out
}

type shapeCase struct {
	Kind  string `json:"kind"`
	Shape string `json:"shape"`
}

func runShape(a *alphabet, s *bundleSpec) (vs []viol, evals int, class string) {
	e, err := newEnv(a.scratch)
	if err != nil {
		return []viol{{"!infra", err.Error()}}, 0, ""
	}
	defer e.cleanup()
	ord := a.bundleByName("base+delta-fresh")
	const url = "http://h/a.crl"
	get := func(tag string, c *crl.FileCache, want *bundleSpec) bool {
		got, gerr, pv := safeGet(c, url)
		evals++
		_, v := judgeGet(tag+" shape "+s.Name+":", "plain", got, gerr, pv, want)
		if v != nil {
			vs = append(vs, viol{strings.Replace(v.key, "history/", "shape/", 1), v.what})
		}
		return got != nil
	}
	set := func(b *bundleSpec) bool {
		evals++
		err, pv := safeSet(e.cache, url, b.B)
		if pv != nil {
			vs = append(vs, viol{"shape/panic:set", fmt.Sprintf("Set of shape %s panicked: %v", b.Name, pv)})
		}
		return err == nil && pv == nil
	}
	if !set(s) {
		get("after the refused Set of", e.cache, nil)
		return vs, evals, "set-refused(not judged)"
	}
	class = "stored-not-returned"
	if get("after Set of", e.cache, s) {
		class = "stored-and-returned"
	}
	if s.expired() {
		class = "stored-expired"
	}
	if c2, err := crl.NewFileCache(e.root); err == nil {
		get("through a fresh instance after Set of", c2, s)
	}
	if set(ord) {
		get("after replacing by an ordinary bundle,", e.cache, ord)
		if set(s) {
			get("after storing again", e.cache, s)
		}
	}
	if sn, err := e.snapshot(); err == nil && len(sn.outside) > 0 {
		vs = append(vs, viol{"shape/file-outside-root", fmt.Sprintf("shape %s: outside the cache root: %q", s.Name, sn.outside)})
	}
	return vs, evals, class
}

// ---------------------------------------------------------------- near-identical URL strings

type nearURL struct{ Name, URL string }

func nearURLs() []nearURL {
	const p = "http://h/ca"
	return []nearURL{
		{"plain", p + "x.crl"},
		// invalid UTF-8 and what replaces it
		{"invalid-utf8:ff", p + "\xff.crl"}, {"invalid-utf8:fe", p + "\xfe.crl"}, {"invalid-utf8:80", p + "\x80.crl"}, {"invalid-utf8:c0", p + "\xc0.crl"},
		{"invalid-utf8:ff-ff", p + "\xff\xff.crl"}, {"invalid-utf8:truncated-sequence", p + "\xe2\x82.crl"}, {"invalid-utf8:overlong-slash", p + "\xc0\xaf.crl"},
		{"invalid-utf8:surrogate", p + "\xed\xa0\x80.crl"}, {"literal-U+FFFD", p + "\ufffd.crl"}, {"literal-U+FFFD-twice", p + "\ufffd\ufffd.crl"},
		{"text-backslash-ufffd", p + "\\ufffd.crl"}, {"question-mark-for-invalid", p + "?.crl"},
		// normalisation and case outside ASCII
		{"nfc-e-acute", p + "\u00e9.crl"}, {"nfd-e-acute", p + "e\u0301.crl"}, {"plain-e", p + "e.crl"},
		{"K", p + "K.crl"}, {"kelvin-sign", p + "\u212a.crl"}, {"k", p + "k.crl"}, {"long-s", p + "\u017f.crl"}, {"s", p + "s.crl"},
		{"sharp-s", p + "\u00df.crl"}, {"ss", p + "ss.crl"}, {"fullwidth-x", p + "\uff58.crl"}, {"dotted-capital-I", p + "\u0130.crl"}, {"dotless-i", p + "\u0131.crl"},
		{"idn-host", "http://b\u00fccher.example/x.crl"}, {"punycode-host", "http://xn--bcher-kva.example/x.crl"},
		// white space, control and invisible characters
		{"trailing-space", p + "x.crl "}, {"leading-space", " " + p + "x.crl"}, {"trailing-tab", p + "x.crl\t"}, {"trailing-newline", p + "x.crl\n"},
		{"trailing-crlf", p + "x.crl\r\n"}, {"trailing-nul", p + "x.crl\x00"}, {"leading-bom", "\ufeff" + p + "x.crl"}, {"zero-width-space-inside", p + "\u200bx.crl"},
		{"inner-space", p + " x.crl"}, {"nbsp-inside", p + "\u00a0x.crl"}, {"del-inside", p + "\x7fx.crl"},
		// percent-encoding and URL syntax equivalents
		{"percent-78", p + "%78.crl"}, {"percent-2f-lower", p + "%2fx.crl"}, {"percent-2F-upper", p + "%2Fx.crl"}, {"slash", p + "/x.crl"},
		{"plus", p + "+x.crl"}, {"percent-20", p + "%20x.crl"}, {"default-port", "http://h:80/cax.crl"}, {"host-trailing-dot", "http://h./cax.crl"},
		{"upper-host", "http://H/cax.crl"}, {"empty-query", p + "x.crl?"}, {"empty-fragment", p + "x.crl#"}, {"dot-segment", "http://h/./cax.crl"},
		{"double-slash", "http://h//cax.crl"}, {"empty-userinfo", "http://@h/cax.crl"}, {"https", "https://h/cax.crl"},
		// characters that JSON / HTML escaping rewrites
		{"less-than", p + "<.crl"}, {"text-backslash-u003c", p + "\\u003c.crl"}, {"ampersand", p + "&.crl"}, {"text-amp-entity", p + "&amp;.crl"},
		{"quote", p + "\".crl"}, {"backslash-quote", p + "\\\".crl"}, {"backslash", p + "\\.crl"}, {"double-backslash", p + "\\\\.crl"},
		{"line-separator-U+2028", p + "\u2028.crl"}, {"text-backslash-u2028", p + "\\u2028.crl"},
	}
}

type pairCase struct {
	Kind string `json:"kind"`
	U    string `json:"first_url"` // names of nearURLs (the strings hold bytes JSON cannot carry)
	V    string `json:"second_url"`
}

func runPair(a *alphabet, u, v nearURL) (vs []viol, evals int, class string) {
	e, err := newEnv(a.scratch)
	if err != nil {
		return []viol{{"!infra", err.Error()}}, 0, ""
	}
	defer e.cleanup()
	b0 := a.bundleByName("base+delta-fresh")
	b1 := a.bundleByName("base+delta-fresh-twin(same-base,delta-same-number-other-entries)")
	lost := false
	get := func(tag string, x nearURL, want *bundleSpec) bool {
		got, gerr, pv := safeGet(e.cache, x.URL)
		evals++
		cl, vi := judgeGet(tag, x.Name, got, gerr, pv, want)
		if vi != nil {
			vs = append(vs, viol{strings.Replace(vi.key, "history/", "url-pair/", 1), vi.what})
		}
		lost = strings.HasPrefix(cl, "stored-fresh-entry-not-returned")
		return got != nil
	}
	set := func(x nearURL, b *bundleSpec) bool {
		evals++
		err, pv := safeSet(e.cache, x.URL, b.B)
		if pv != nil {
			vs = append(vs, viol{"url-pair/panic:set", fmt.Sprintf("Set(%s) panicked: %v", x.Name, pv)})
		}
		return err == nil && pv == nil
	}
	pair := fmt.Sprintf("pair (%s, %s):", u.Name, v.Name)
	if !set(u, b0) {
		return vs, evals, "first-set-refused(not judged)"
	}
	held := get(pair+" after Set(first),", u, b0)
	get(pair+" after Set(first),", v, nil)
	class = "first-stored"
	if set(v, b1) {
		class = "both-stored"
		get(pair+" after Set(second),", v, b1)
	}
	get(pair+" after Set(second),", u, b0)
	if held && lost {
		vs = append(vs, viol{"url-pair/entry-lost-by-store-under-another-url", fmt.Sprintf("%s Get(first) returned the stored bundle before the Set under the second URL and does not return it any more", pair)})
	}
	if sn, err := e.snapshot(); err == nil && len(sn.outside) > 0 {
		vs = append(vs, viol{"url-pair/file-outside-root", fmt.Sprintf("%s outside the cache root: %q", pair, sn.outside)})
	}
	return vs, evals, class
}

// shapeFamily is called once from main before the replay dispatch (it replays its own cases).
func shapeFamily(r *hx.Run, a *alphabet) {
	urls := nearURLs()
	byName := func(n string) *nearURL {
		for i := range urls {
			if urls[i].Name == n {
				return &urls[i]
			}
		}
		return nil
	}
	if r.Replay != "" {
		var probe struct {
			Kind string `json:"kind"`
		}
		if err := r.LoadReplay(&probe); err != nil {
			return
		}
		switch probe.Kind {
		case "shape":
			var c shapeCase
			_ = r.LoadReplay(&c)
			for _, s := range a.shapes(r) {
				if s.Name == c.Shape {
					vs, evals, class := runShape(a, &s)
					r.Eval(evals)
					report(r, vs, c)
					if len(vs) == 0 {
						fmt.Println("replay: holds (" + class + ")")
					}
					r.Finish()
				}
			}
			r.Infra("replay: no shape %q", c.Shape)
			r.Finish()
		case "url-pair":
			var c pairCase
			_ = r.LoadReplay(&c)
			u, v := byName(c.U), byName(c.V)
			if u == nil || v == nil {
				r.Infra("replay: unknown URL name in (%q, %q)", c.U, c.V)
				r.Finish()
			}
			vs, evals, class := runPair(a, *u, *v)
			r.Eval(evals)
			report(r, vs, c)
			if len(vs) == 0 {
				fmt.Println("replay: holds (" + class + ")")
			}
			r.Finish()
		}
		return
	}
	shapes := a.shapes(r)
	r.Parallel(len(shapes), func(i int) {
		vs, evals, class := runShape(a, &shapes[i])
		r.Eval(evals)
		r.Transition(evals)
		if len(vs) > 0 {
			report(r, vs, shapeCase{"shape", shapes[i].Name})
		}
		if class != "" {
			cs.add("shape:" + class)
			r.Nontrivial("shape|" + shapes[i].Name)
		}
		if i%37 == 5 {
			r.Sample(map[string]any{"bundle_shape": shapes[i].Name, "result": class})
		}
	}, nil)
	seen := map[string]bool{}
	for _, u := range urls {
		if seen[u.URL] {
			r.Infra("near-identical URL list: duplicate string %q", u.Name)
		}
		seen[u.URL] = true
	}
	n := len(urls)
	r.Extra["near_identical_urls"] = n
	r.Extra["near_identical_url_pairs"] = n * (n - 1)
	r.Parallel(n*n, func(i int) {
		u, v := urls[i/n], urls[i%n]
		if i/n == i%n {
			return
		}
		vs, evals, class := runPair(a, u, v)
		r.Eval(evals)
		r.Transition(evals)
		if len(vs) > 0 {
			report(r, vs, pairCase{"url-pair", u.Name, v.Name})
		}
		if class != "" {
			cs.add("url-pair:" + class)
			r.Nontrivial("pair|" + u.Name + "|" + v.Name)
		}
		if i%997 == 5 {
			r.Sample(map[string]any{"url_pair": []string{u.Name, v.Name}, "result": class})
		}
	}, nil)
}
