// C15, hostile-URL family: "no URL can make the cache read or write outside its root directory".
//
// The URL alphabet of the history search holds path-special text only as a WHOLE key ("../../../../x", an absolute
// path). An implementation that derives any part of the entry path from a COMPONENT of the URL (scheme, user, host,
// port, path segment, query, fragment) is only exercised by URLs whose component is path-special. This family builds
// the full product of a small grammar - every component takes ordinary and path-special values ("..", ".", "...",
// percent-encoded dots and slashes, back-slashes, empty, trailing dot, a NUL byte) - and runs one short history per URL
// in a fresh, deep cache root:
//
//	Get (never stored: miss)  Set(b0)  Get (b0)  Get of the plain reference URL (another string: miss)
//	Set(twin)  Get (twin)     -> recursive snapshot: nothing outside the root
//	then the entry file is moved OUT of the root: copies of the first file Set wrote are planted under the same
//	relative name in every ancestor directory of the root, the entry below the root is removed: Get must not return a bundle
//	(reading outside the root).
//
// Judged with the clauses of the history family (judgeGet, containment); nothing else.
package main

import (
	"fmt"
	"os"
	"path/filepath"
	"strings"

	"github.com/notaryproject/notation-go/zzverif/lib/hx"
)

type hostileCase struct {
	Kind string `json:"kind"`
	URL  string `json:"url"`
}

// hostileURLs is the product of the component alphabets (duplicates removed, order fixed).
func hostileURLs() []string {
	schemes := []string{"http://", "ldap://", "//", ""}
	users := []string{"", "user@", "..@"}
	hosts := []string{"h", "..", ".", "...", "%2e%2e", "..%2f..", "..\\..", "h.", "", "[::1]", "h\x00"}
	ports := []string{"", ":80", ":.."}
	paths := []string{"/a.crl", "/../../../../x", "/..", "", "/%2e%2e/%2e%2e/%2e%2e/%2e%2e/x", "\\..\\..\\..\\..\\x"}
	queries := []string{"", "?../../../../x"}
	frags := []string{"", "#/../../../../x"}
	seen := map[string]bool{}
	var out []string
	for _, s := range schemes {
		for _, u := range users {
			for _, h := range hosts {
				for _, p := range ports {
					for _, pa := range paths {
						for _, q := range queries {
							for _, f := range frags {
								url := s + u + h + p + pa + q + f
								if !seen[url] {
									seen[url] = true
									out = append(out, url)
								}
							}
						}
					}
				}
			}
		}
	}
	return out
}

const hostileRef = "http://h/a.crl"

func runHostile(a *alphabet, url string) (vs []viol, evals int, class string) {
	e, err := newEnv(a.scratch)
	if err != nil {
		return []viol{{"!infra", err.Error()}}, 0, ""
	}
	defer e.cleanup()
	b0 := a.bundleByName("base+delta-fresh")
	b1 := a.bundleByName("base+delta-fresh-twin(same-base,delta-same-number-other-entries)")
	name := fmt.Sprintf("%q", url)
	add := func(tag string, want *bundleSpec, u string, uname string) (returned bool) {
		got, gerr, pv := safeGet(e.cache, u)
		evals++
		_, v := judgeGet(tag, uname, got, gerr, pv, want)
		if v != nil {
			vs = append(vs, viol{strings.Replace(v.key, "history/", "hostile-url/", 1), v.what})
		}
		return got != nil
	}
	contain := func(tag string) bool {
		s, err := e.snapshot()
		if err != nil {
			vs = append(vs, viol{"!infra", err.Error()})
			return false
		}
		if len(s.outside) > 0 {
			vs = append(vs, viol{"hostile-url/file-outside-root", fmt.Sprintf("%s with URL %s: outside the cache root (relative to its 5th ancestor): %q", tag, name, s.outside)})
			return false
		}
		if ents, _ := os.ReadDir(a.absTarget); len(ents) > 0 {
			vs = append(vs, viol{"hostile-url/file-outside-root", fmt.Sprintf("%s with URL %s: the watched absolute directory is not empty", tag, name)})
			return false
		}
		return true
	}
	add("before any Set,", nil, url, name)
	evals++
	if err, pv := safeSet(e.cache, url, b0.B); pv != nil {
		vs = append(vs, viol{"hostile-url/panic:set", fmt.Sprintf("Set(%s) panicked: %v", name, pv)})
		return vs, evals, ""
	} else if err != nil {
		contain("after the refused Set")
		add("after the refused Set,", nil, url, name)
		return vs, evals, "set-refused(not judged)"
	}
	if !contain("after Set") {
		return vs, evals, ""
	}
	var first []byte // what Set wrote, when it is one file
	files := e.files()
	if len(files) == 1 {
		first, _ = os.ReadFile(filepath.Join(e.root, files[0]))
	}
	class = "stored-not-returned(not judged)"
	if add("after Set,", b0, url, name) {
		class = "stored-and-returned"
	}
	if url != hostileRef {
		add("after Set("+name+"),", nil, hostileRef, "the plain reference URL")
	}
	evals++
	if err, pv := safeSet(e.cache, url, b1.B); pv != nil {
		vs = append(vs, viol{"hostile-url/panic:set", fmt.Sprintf("second Set(%s) panicked: %v", name, pv)})
		return vs, evals, class
	} else if err == nil {
		add("after the second Set,", b1, url, name)
	}
	if !contain("after the second Set") || first == nil {
		return vs, evals, class
	}
	// the entry leaves the root: decoys (the first, by now replaced, file) under the same relative name in every ancestor
	files = e.files()
	if len(files) != 1 {
		return vs, evals, class
	}
	dir := e.root
	for i := 0; i < 5; i++ {
		dir = filepath.Dir(dir)
		p := filepath.Join(dir, files[0])
		_ = os.MkdirAll(filepath.Dir(p), 0o755)
		if err := os.WriteFile(p, first, 0o600); err != nil {
			vs = append(vs, viol{"!infra", err.Error()})
			return vs, evals, class
		}
	}
	if err := os.Remove(filepath.Join(e.root, files[0])); err != nil {
		vs = append(vs, viol{"!infra", err.Error()})
		return vs, evals, class
	}
	got, gerr, pv := safeGet(e.cache, url)
	evals++
	switch {
	case pv != nil:
		vs = append(vs, viol{"hostile-url/panic:get", fmt.Sprintf("Get(%s) panicked: %v", name, pv)})
	case got != nil:
		vs = append(vs, viol{"hostile-url/read-outside-root", fmt.Sprintf("Get(%s): the entry below the root was removed and entry files were planted in the ancestor directories of the root; a bundle was returned (base CRL number %v, error %v)", name, got.BaseCRL.Number, gerr)})
	default:
		class += "+decoys-ignored"
	}
	return vs, evals, class
}

// hostileFamily is called once from main before the replay dispatch (it replays its own cases).
func hostileFamily(r *hx.Run, a *alphabet) {
	if r.Replay != "" {
		var c hostileCase
		if err := r.LoadReplay(&c); err != nil || c.Kind != "hostile-url" {
			return
		}
		vs, evals, class := runHostile(a, c.URL)
		r.Eval(evals)
		report(r, vs, c)
		if len(vs) == 0 {
			fmt.Println("replay: holds (" + class + ")")
		}
		r.Finish()
	}
	urls := hostileURLs()
	r.Extra["hostile_urls"] = len(urls)
	r.Parallel(len(urls), func(i int) {
		vs, evals, class := runHostile(a, urls[i])
		r.Eval(evals)
		r.Transition(evals)
		if len(vs) > 0 {
			report(r, vs, hostileCase{"hostile-url", urls[i]})
		}
		if class != "" {
			cs.add("hostile-url:" + class)
			if strings.HasPrefix(class, "stored-and-returned") {
				r.Nontrivial("hu|" + urls[i])
			}
		}
		if i%1499 == 3 {
			r.Sample(map[string]any{"hostile_url": urls[i], "result": class})
		}
	}, nil)
}
