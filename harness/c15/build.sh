#!/bin/bash
# Builds the C15 harness with package verifier/crl compiled through the clock seam: its import "time" is
# rewritten (from the working tree as it is now) to engine/timeshim. Falls back to a plain build.
set -u
out=$1
VERIF=$(cd "$(dirname "$(readlink -f "$0")")/../.." && pwd)
cd "$VERIF"
export GOFLAGS="-mod=mod" GOPROXY=off GOSUMDB=off GOTOOLCHAIN=local
ovdir=$VERIF/build/c15-overlay${VERIF_BUILD_SUFFIX:-}
base=()
if [ -n "${VERIF_OVERLAY:-}" ]; then base=(-base "$VERIF_OVERLAY"); fi
go run ./cmd/genshim engine/timeshim time || exit 1
ov=$(go run ./cmd/osrewrite -out "$ovdir" "${base[@]}" -map "time=github.com/notaryproject/notation-go/zzverif/engine/timeshim" /repo/verifier/crl) || exit 1
if go build -overlay "$ov" -o "$out" ./harness/c15 2> "$ovdir/build.err"; then
  exit 0
fi
echo "C15: overlay build failed, falling back to a build without the clock seam:" >&2
head -20 "$ovdir/build.err" >&2
if [ -n "${VERIF_OVERLAY:-}" ]; then
  go build -overlay "$VERIF_OVERLAY" -o "$out" ./harness/c15
else
  go build -o "$out" ./harness/c15
fi
