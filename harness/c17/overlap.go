package main

import (
	"context"
	"fmt"
	"path/filepath"
	"runtime"
	"strings"
	"sync"
	"sync/atomic"
	"time"

	"github.com/notaryproject/notation-go/log"
	"github.com/notaryproject/notation-go/plugin"
)

// Overlapping calls. The statement is about every call, also one that overlaps another one: "succeeds only if
// the process exited successfully with a JSON reply of the expected shape", "the plugin's own structured error".
// Each call of an overlapping pair must therefore produce exactly what it produces alone (judge(), the same
// oracle as for the single calls, plus the field-by-field comparison of the decoded reply with what THAT plugin
// printed).
//
// Deterministic family: the seam is the caller-supplied logger (log.WithLogger). Call B runs completely inside
// the k-th log call of call A (k = 1: before A's process started, i.e. B then A on fresh objects; k = 2: after
// A's process ended and before A looked at its output; k = 3: last log call of the failure path) or right after
// A returned (k = 4; A's response is inspected only after B ended).
//
// Supplementary family: free-running goroutines (not deterministic, a miss proves nothing).

// fnLogger calls f on every log call.
type fnLogger struct{ f func() }

func (l *fnLogger) Debug(args ...interface{})                 { l.f() }
func (l *fnLogger) Debugf(format string, args ...interface{}) { l.f() }
func (l *fnLogger) Debugln(args ...interface{})               { l.f() }
func (l *fnLogger) Info(args ...interface{})                  { l.f() }
func (l *fnLogger) Infof(format string, args ...interface{})  { l.f() }
func (l *fnLogger) Infoln(args ...interface{})                { l.f() }
func (l *fnLogger) Warn(args ...interface{})                  { l.f() }
func (l *fnLogger) Warnf(format string, args ...interface{})  { l.f() }
func (l *fnLogger) Warnln(args ...interface{})                { l.f() }
func (l *fnLogger) Error(args ...interface{})                 { l.f() }
func (l *fnLogger) Errorf(format string, args ...interface{}) { l.f() }
func (l *fnLogger) Errorln(args ...interface{})               { l.f() }

// member behaviours of the overlap alphabet (per command)
type member struct{ Exit, Stdout, Stderr string }

func overlapMembers(thorough bool) []member {
	ms := []member{
		{"0", "valid", "empty"},
		{"0", "valid-b", "empty"},
		{"0", "valid-long", "empty"},
		{"0", "hashes-of-the-length-of-valid", "empty"},
		{"1", "empty", "err:TIMEOUT"},
		{"1", "empty", "err:THROTTLED"},
		{"1", "valid", "empty"},
	}
	if thorough {
		ms = append(ms, member{"0", "null", "empty"}, member{"1", "valid-b", "non-json"}, member{"killed", "valid", "err:ACCESS_DENIED"})
	}
	return ms
}

func enumerateOverlap(thorough bool) []Case {
	var out []Case
	ms := overlapMembers(thorough)
	for ci, cmd := range commands {
		others := []string{cmd}
		if thorough {
			others = append(others, commands[(ci+1)%len(commands)])
		}
		for _, ocmd := range others {
			for ai, a := range ms {
				for bi, b := range ms {
					if ai == bi && ocmd == cmd {
						continue
					}
					for hook := 1; hook <= 4; hook++ {
						o := Case{Cmd: ocmd, Exit: b.Exit, Stdout: b.Stdout, Stderr: b.Stderr, Timing: tImmediate, Ctx: cBackground, Req: "small"}
						out = append(out, Case{Cmd: cmd, Exit: a.Exit, Stdout: a.Stdout, Stderr: a.Stderr, Timing: tImmediate, Ctx: cBackground, Req: "small", Other: &o, Hook: hook})
					}
				}
			}
		}
	}
	return out
}

// runOverlap performs call A (c) with call B (c.Other) inside A's c.Hook-th log call, or after A for hook 4.
func runOverlap(root, id string, c Case) (resA, resB result, bRan bool) {
	dir := filepath.Join(root, id)
	marker := dir + "/"
	defer func() {
		killMarked(marker)
		removeAll(dir)
	}()
	b := *c.Other
	pathA, err := install(root, filepath.Join(dir, "a"), c)
	if err != nil {
		resA.Setup = "install A: " + err.Error()
		return
	}
	pathB, err := install(root, filepath.Join(dir, "b"), b)
	if err != nil {
		resA.Setup = "install B: " + err.Error()
		return
	}
	pA, err1 := plugin.NewCLIPlugin(context.Background(), pluginName, pathA)
	pB, err2 := plugin.NewCLIPlugin(context.Background(), pluginName, pathB)
	if err1 != nil || err2 != nil {
		resA.Setup = fmt.Sprintf("NewCLIPlugin: %v %v", err1, err2)
		return
	}
	type both struct {
		a, b callOut
		bRan bool
	}
	done := make(chan both, 1)
	go func() {
		var o both
		defer func() {
			if v := recover(); v != nil {
				o.a.pan = v
			}
			done <- o
		}()
		runB := func() {
			o.bRan = true
			o.b.resp, o.b.err = invoke(context.Background(), pB, b.Cmd, false)
		}
		ctx := context.Background()
		if c.Hook >= 1 && c.Hook <= 3 {
			n := 0
			ctx = log.WithLogger(ctx, &fnLogger{f: func() {
				n++
				if n == c.Hook {
					runB()
				}
			}})
		}
		o.a.resp, o.a.err = invoke(ctx, pA, c.Cmd, false)
		if c.Hook == 4 {
			runB()
		}
	}()
	t0 := time.Now()
	select {
	case o := <-done:
		if time.Since(t0) > 3*time.Second {
			// two plugins that answer at once took seconds: starved machine, nothing is judged (see driver.run)
			resA.Setup = "recorded:overlap/environment-failure - not judged"
			return
		}
		if o.a.pan != nil {
			panic(o.a.pan)
		}
		if environmentFailure(o.a.err, true) || environmentFailure(o.b.err, true) {
			resA.Setup = "recorded:overlap/environment-failure - not judged"
			return
		}
		// A's response is looked at only now, after B ended
		fillResult(c, o.a, &resA)
		if o.bRan {
			fillResult(b, o.b, &resB)
		}
		bRan = o.bRan
	case <-time.After(30 * time.Second):
		// e.g. an implementation that serialises plugin calls cannot run B inside A's log call: nothing to judge
		killMarked(marker)
		resA.Setup = "recorded:overlap/pair-did-not-complete"
	}
	return
}

// recordOverlap judges both calls of a pair with the single-call oracle.
func (d *driver) recordOverlap(c Case, resA, resB result, bRan bool, replaying bool) {
	d.r.Eval(1)
	if strings.HasPrefix(resA.Setup, "recorded:") {
		d.r.Outcome(fmt.Sprintf("%s|hook=%d", resA.Setup, c.Hook))
		return
	}
	if resA.Setup != "" {
		d.r.Infra("%s (%s)", resA.Setup, c.key())
		return
	}
	a := c
	a.Other, a.Hook = nil, 0
	report := func(who string, mc Case, res result) string {
		v := judge(mc, res)
		if v.Infra != "" {
			d.r.Infra("%s", v.Infra)
			return "INFRA"
		}
		for _, k := range v.Recorded {
			d.r.Outcome("recorded:overlap/" + k)
		}
		for _, x := range v.Viols {
			d.r.Violation("overlap/"+x.Key, fmt.Sprintf("call %s of an overlapping pair (B inside A's log call %d; 4 = after A): %s || pair %s", who, c.Hook, x.What, c.key()), c)
		}
		if v.Control && !v.ControlOK {
			d.r.Violation("overlap/control/honest-reply-refused-or-altered:"+mc.Cmd, fmt.Sprintf("call %s of an overlapping pair did not yield its own plugin's honest reply (success=%v decoded-as-printed=%v err=%q) || pair %s", who, res.Success, res.DecodedOK, res.Err, c.key()), c)
		}
		return v.Class
	}
	clA := report("A", a, resA)
	d.r.Outcome(fmt.Sprintf("overlap|hook=%d|A: %s", c.Hook, clA))
	if bRan {
		d.r.Eval(1)
		clB := report("B", *c.Other, resB)
		d.r.Outcome(fmt.Sprintf("overlap|hook=%d|B: %s", c.Hook, clB))
		d.r.Nontrivial(c.key())
	} else {
		d.r.Outcome(fmt.Sprintf("overlap|hook=%d|B: not run (A made fewer log calls)", c.Hook))
	}
	if replaying {
		fmt.Printf("replay: A %s -> success=%v class=%s code=%q decoded-as-printed=%v err=%q\n        B ran=%v success=%v class=%s code=%q decoded-as-printed=%v err=%q\n",
			a.key(), resA.Success, resA.ErrClass, resA.Code, resA.DecodedOK, resA.Err, bRan, resB.Success, resB.ErrClass, resB.Code, resB.DecodedOK, resB.Err)
	}
}

// ---- supplementary: free-running concurrent callers ----

type concStats struct {
	Groups, Rounds, Calls, Mismatches int64
}

// runConcurrent lets g goroutines call g different plugins (different commands, replies of different lengths and
// contents, failing ones among them) at the same time for some rounds; every call is judged as if alone. The
// callers log to a slow sink (a logger that sleeps), which keeps the calls inside the code under test for longer.
func (d *driver) runConcurrent(g, rounds, procs int) concStats {
	var st concStats
	st.Groups, st.Rounds = 1, int64(rounds)
	ms := overlapMembers(false)
	id := d.nextID("g")
	dir := filepath.Join(d.root, id)
	defer func() {
		killMarked(dir + "/")
		removeAll(dir)
	}()
	type caller struct {
		c Case
		p *plugin.CLIPlugin
	}
	var cs []caller
	for i := 0; i < g; i++ {
		m := ms[i%len(ms)]
		c := Case{Cmd: commands[(i/2)%len(commands)], Exit: m.Exit, Stdout: m.Stdout, Stderr: m.Stderr, Timing: tImmediate, Ctx: cBackground, Req: "small"}
		path, err := install(d.root, filepath.Join(dir, fmt.Sprint("p", i)), c)
		if err != nil {
			d.r.Infra("concurrent family: install: %v", err)
			return st
		}
		p, err := plugin.NewCLIPlugin(context.Background(), pluginName, path)
		if err != nil {
			d.r.Infra("concurrent family: %v", err)
			return st
		}
		cs = append(cs, caller{c, p})
	}
	old := runtime.GOMAXPROCS(procs)
	defer runtime.GOMAXPROCS(old)
	var calls, mism atomic.Int64
	for round := 0; round < rounds && !d.r.Expired(); round++ {
		var wg sync.WaitGroup
		start := make(chan struct{})
		for i := range cs {
			i := i
			wg.Add(1)
			go func() {
				defer wg.Done()
				defer func() {
					if v := recover(); v != nil {
						d.r.Infra("panic in the code under test (concurrent family): %v", v)
					}
				}()
				// slow sink; the delay differs per caller and round so that the calls slide over each other
				delay := time.Duration(1+(i+round)%4) * time.Millisecond
				ctx := log.WithLogger(context.Background(), &fnLogger{f: func() { time.Sleep(delay) }})
				<-start
				var o callOut
				tc := time.Now()
				o.resp, o.err = invoke(ctx, cs[i].p, cs[i].c.Cmd, false)
				if environmentFailure(o.err, true) || time.Since(tc) > 3*time.Second {
					d.r.Outcome("recorded:concurrent/environment-failure - not judged")
					return
				}
				var res result
				fillResult(cs[i].c, o, &res)
				calls.Add(1)
				d.r.Eval(1)
				v := judge(cs[i].c, res)
				bad := len(v.Viols) > 0 || (v.Control && !v.ControlOK)
				if bad {
					mism.Add(1)
				}
				rc := cs[i].c
				for _, k := range v.Recorded {
					d.r.Outcome("recorded:concurrent/" + k)
				}
				for _, x := range v.Viols {
					d.r.Violation("concurrent/"+x.Key, fmt.Sprintf("one of %d concurrent callers (GOMAXPROCS %d): %s", g, procs, x.What), rc)
				}
				if v.Control && !v.ControlOK {
					d.r.Violation("concurrent/control/honest-reply-refused-or-altered:"+rc.Cmd, fmt.Sprintf("one of %d concurrent callers (GOMAXPROCS %d) did not get its own plugin's honest reply (success=%v decoded-as-printed=%v err=%q): %s", g, procs, res.Success, res.DecodedOK, res.Err, rc.key()), rc)
				}
			}()
		}
		close(start)
		wg.Wait()
	}
	st.Calls, st.Mismatches = calls.Load(), mism.Load()
	return st
}
