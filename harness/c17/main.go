// C17 — plugin processes are contained: validated replies, bounded output, bounded time.
//
// E3: exhaustive enumeration of scripted plugin behaviours, every one run as a REAL
// process (cmd/plugbin, or a generated /bin/sh script where plugbin has no knob)
// through the REAL plugin.CLIPlugin and its execCommander; a hand-labelled
// classification model judges the outcome (alphabet.go, judge.go), a worker
// subprocess measures the host's peak RSS for the oversized streams, and the only
// timing oracle is "returned within 20 s of the context's end".
package main

import (
	"bytes"
	"context"
	"encoding/json"
	"fmt"
	"io"
	"os"
	"os/exec"
	"path/filepath"
	"runtime"
	"runtime/debug"
	"sort"
	"sync"
	"sync/atomic"
	"syscall"
	"time"

	"github.com/notaryproject/notation-go/zzverif/lib/hx"
)

// ---- worker subprocess: one oversized case, with VmHWM before/after ----

func workerMain() {
	// c17 --c17-worker <root> <id>   (case JSON on stdin, result JSON on stdout)
	debug.SetGCPercent(100)
	root, id := os.Args[2], os.Args[3]
	var c Case
	in, _ := io.ReadAll(os.Stdin)
	if err := json.Unmarshal(in, &c); err != nil {
		fmt.Fprintln(os.Stderr, "worker: bad case:", err)
		os.Exit(3)
	}
	// warm-up: an honest call, so that the baseline contains the runtime, os/exec and encoding/json
	warm := runCase(root, id+"-warm", Case{Cmd: c.Cmd, Exit: "0", Stdout: "valid", Stderr: "empty", Timing: tImmediate, Ctx: cBackground, Req: "small"})
	runtime.GC()
	before := vmHWM()
	res := runCase(root, id, c)
	res.HWMBeforeKB = before
	res.HWMAfterKB = vmHWM()
	if warm.Setup != "" || !warm.Success {
		res.Setup = "worker warm-up call failed: " + warm.Setup + warm.Err
	}
	out, _ := json.Marshal(res)
	os.Stdout.Write(out)
}

func runInWorker(root, id string, c Case) result {
	self, err := os.Executable()
	if err != nil {
		return result{Setup: "os.Executable: " + err.Error()}
	}
	ctx, cancel := context.WithTimeout(context.Background(), 5*time.Minute)
	defer cancel()
	cmd := exec.CommandContext(ctx, self, "--c17-worker", root, id)
	j, _ := json.Marshal(c)
	cmd.Stdin = bytes.NewReader(j)
	var stderr bytes.Buffer
	cmd.Stderr = &stderr
	cmd.Env = append(os.Environ(), "GOGC=100")
	out, err := cmd.Output()
	if err != nil {
		killMarked(filepath.Join(root, id))
		return result{Setup: fmt.Sprintf("worker failed: %v: %s", err, stderr.String())}
	}
	var res result
	if err := json.Unmarshal(out, &res); err != nil {
		return result{Setup: "worker output: " + err.Error()}
	}
	return res
}

func needsWorker(c Case) bool {
	so, se := soByName[c.Stdout], seByName[c.Stderr]
	return so.Pad || so.Garbage || se.Pad
}

// ---- enumeration ----

type spaces struct {
	cheap, big, timing []Case
}

func enumerate(thorough bool) (sp spaces, extra map[string]any) {
	sos, ses, exs := stdoutKinds(thorough), stderrKinds(thorough), exits(thorough)
	extra = map[string]any{}
	nso, nse := 0, 0
	// 1. full product of the cheap dimensions
	for _, cmd := range commands {
		for _, ex := range exs {
			for _, so := range sos {
				if so.Pad || so.Garbage || so.PairOnly || (so.MetaOnly && cmd != "get-plugin-metadata") {
					continue
				}
				for _, se := range ses {
					if se.Pad {
						continue
					}
					sp.cheap = append(sp.cheap, Case{Cmd: cmd, Exit: ex, Stdout: so.Name, Stderr: se.Name, Timing: tImmediate, Ctx: cBackground, Req: "small"})
				}
			}
		}
	}
	for _, so := range sos {
		if !so.Pad && !so.Garbage && !so.PairOnly {
			nso++
		}
	}
	for _, se := range ses {
		if !se.Pad {
			nse++
		}
	}
	if thorough {
		// a deadline that never fires must change nothing: the whole product once more under it
		n := len(sp.cheap)
		for i := 0; i < n; i++ {
			c := sp.cheap[i]
			c.Ctx = cFar
			sp.cheap = append(sp.cheap, c)
		}
		// the large request the plugin never reads, against every exit x stderr kind
		for _, cmd := range commands {
			for _, ex := range exs {
				for _, se := range ses {
					if !se.Pad {
						sp.cheap = append(sp.cheap, Case{Cmd: cmd, Exit: ex, Stdout: "valid", Stderr: se.Name, Timing: tImmediate, Ctx: cBackground, Req: "large"})
					}
				}
			}
		}
	}
	// 1b. deterministic contexts and the large (never read) request, crossed with representatives
	for _, cmd := range commands {
		for _, ex := range []string{"0", "1"} {
			for _, se := range []string{"empty", "err:ERROR"} {
				sp.cheap = append(sp.cheap, Case{Cmd: cmd, Exit: ex, Stdout: "valid", Stderr: se, Timing: tImmediate, Ctx: cBackground, Req: "large"})
				sp.cheap = append(sp.cheap, Case{Cmd: cmd, Exit: ex, Stdout: "valid", Stderr: se, Timing: tImmediate, Ctx: cFar, Req: "small"})
				sp.cheap = append(sp.cheap, Case{Cmd: cmd, Exit: ex, Stdout: "valid", Stderr: se, Timing: tImmediate, Ctx: cCancelled, Req: "small"})
			}
		}
	}
	// 1c. exit-status dimension: every special status / death by signal x every command x the WHOLE (non-oversized)
	// stderr alphabet under the honest reply, and x {empty, structured} stderr under unusable replies
	nSpecial := 0
	inProduct := map[string]bool{}
	for _, ex := range exs {
		inProduct[ex] = true
	}
	soReps := []string{"empty", "non-json"}
	if thorough {
		soReps = []string{"empty", "non-json", "null", "valid-then-garbage", "member-wrong-type"}
	}
	for _, cmd := range commands {
		for _, ex := range specialExits {
			if inProduct[ex] {
				continue // thorough: already a member of the full product above
			}
			for _, se := range ses {
				if !se.Pad {
					sp.cheap = append(sp.cheap, Case{Cmd: cmd, Exit: ex, Stdout: "valid", Stderr: se.Name, Timing: tImmediate, Ctx: cBackground, Req: "small"})
					nSpecial++
				}
			}
			for _, so := range soReps {
				for _, se := range []string{"empty", "err:ACCESS_DENIED"} {
					sp.cheap = append(sp.cheap, Case{Cmd: cmd, Exit: ex, Stdout: so, Stderr: se, Timing: tImmediate, Ctx: cBackground, Req: "small"})
					nSpecial++
				}
			}
		}
	}
	// 1d. file-name family: every hand-labelled (file name, announced name) row as a complete metadata reply with
	// exit 0 and empty stderr; and every file name x every command x {honest reply exit 0 (control), exit 1 with a
	// structured error, exit 1 with empty stderr}: the file name must change nothing else
	nNames := 0
	for _, row := range nameRows {
		sp.cheap = append(sp.cheap, Case{Cmd: "get-plugin-metadata", Exit: "0", Stdout: soAnnounces, Stderr: "empty", Timing: tImmediate, Ctx: cBackground, Req: "small", Plug: row.Plug, Announce: row.Announce})
		nNames++
		if thorough {
			for _, v := range [][2]string{{"0", "err:ERROR"}, {"0", "non-json"}, {"1", "err:ERROR"}, {"1", "empty"}, {"killed", "empty"}} {
				sp.cheap = append(sp.cheap, Case{Cmd: "get-plugin-metadata", Exit: v[0], Stdout: soAnnounces, Stderr: v[1], Timing: tImmediate, Ctx: cBackground, Req: "small", Plug: row.Plug, Announce: row.Announce})
				nNames++
			}
		}
	}
	for _, plug := range plugNames() {
		if plug == pluginName {
			continue // the product above
		}
		for _, cmd := range commands {
			for _, v := range [][2]string{{"0", "empty"}, {"1", "err:ERROR"}, {"1", "empty"}} {
				sp.cheap = append(sp.cheap, Case{Cmd: cmd, Exit: v[0], Stdout: "valid", Stderr: v[1], Timing: tImmediate, Ctx: cBackground, Req: "small", Plug: plug})
				nNames++
			}
		}
	}
	extra["alphabet_special_exit_statuses_and_signals"] = specialExits
	extra["cases_special_exit_statuses"] = nSpecial
	extra["alphabet_plugin_file_names"] = plugNames()
	extra["alphabet_file_name_x_announced_name_rows(hand-labelled)"] = len(nameRows)
	extra["cases_file_name_family"] = nNames
	// 2. oversized streams x one representative of the others
	sizes := func(cmd string, important bool) []int {
		if thorough || important {
			return []int{65, 512}
		}
		return []int{65}
	}
	for ci, cmd := range commands {
		// quick: the whole oversize family for two commands, its four key members for the others
		// (the pipe handling in run()/execCommander does not depend on the command)
		full := thorough || ci == 0 || ci == 3
		addBig := func(ex, so, se string, important bool) {
			if !full && !important {
				return
			}
			for _, mib := range sizes(cmd, important && full) {
				sp.big = append(sp.big, Case{Cmd: cmd, Exit: ex, Stdout: so, Stderr: se, Timing: tImmediate, Ctx: cBackground, Req: "small", BigMiB: mib})
			}
		}
		for _, ex := range []string{"0", "1"} {
			addBig(ex, "valid-plus-oversize-blanks", "empty", ex == "0")
			addBig(ex, "valid-plus-oversize-blanks", "err:ERROR", false)
			addBig(ex, "oversize-garbage", "empty", false)
			addBig(ex, "valid", "err-plus-oversize-blanks", ex == "1")
			addBig(ex, "valid-plus-oversize-blanks", "oversize-blanks", ex == "0")
		}
		for _, ex := range []string{"0", "1", "2", "killed"} {
			addBig(ex, "valid", "oversize-blanks", ex == "1")
		}
		// a plugin that ignores SIGPIPE and exits 0 although the host closed the pipe at the cap
		if full {
			for _, so := range []string{"valid-plus-oversize-blanks", "oversize-garbage"} {
				sp.big = append(sp.big, Case{Cmd: cmd, Exit: "0", Stdout: so, Stderr: "empty", Timing: tShIgnorePipe, Ctx: cBackground, Req: "small", BigMiB: 65})
			}
		}
		sp.big = append(sp.big, Case{Cmd: cmd, Exit: "0", Stdout: "valid-blanks-beyond-cap-then-garbage", Stderr: "empty", Timing: tShIgnorePipe, Ctx: cBackground, Req: "small", BigMiB: 65})
		if thorough {
			sp.big = append(sp.big, Case{Cmd: cmd, Exit: "1", Stdout: "valid-blanks-beyond-cap-then-garbage", Stderr: "err:ERROR", Timing: tShIgnorePipe, Ctx: cBackground, Req: "small", BigMiB: 65})
			sp.big = append(sp.big, Case{Cmd: cmd, Exit: "0", Stdout: "valid-blanks-beyond-cap-then-garbage", Stderr: "empty", Timing: tShIgnorePipe, Ctx: cBackground, Req: "small", BigMiB: 512})
		}
		if thorough {
			for _, so := range []string{"null", "non-json", "empty"} {
				for _, ex := range []string{"0", "1"} {
					addBig(ex, so, "oversize-blanks", false)
					addBig(ex, so, "err-plus-oversize-blanks", false)
				}
			}
		}
	}
	// 3. timing x context x one representative of the others
	ctxs := []string{cDeadline, cCancel}
	if thorough {
		ctxs = []string{"deadline-100ms", cDeadline, "deadline-1000ms", "cancel-100ms", cCancel, "cancel-1000ms"}
	}
	for _, cmd := range commands {
		t := func(ex, se, timing, ctx, req string) {
			sp.timing = append(sp.timing, Case{Cmd: cmd, Exit: ex, Stdout: "valid", Stderr: se, Timing: timing, Ctx: ctx, Req: req})
		}
		// context that never ends
		t("0", "empty", tSlow, cBackground, "small")
		t("0", "empty", tDescExit, cBackground, "small")
		t("1", "err:ERROR", tDescExit, cBackground, "small")
		for _, sh := range []string{tShStdout, tShStderr, tShSetsid} {
			t("0", "empty", sh, cBackground, "small")
			t("1", "err:ERROR", sh, cBackground, "small")
		}
		t("0", "empty", tShStdin, cBackground, "large")
		// context that ends while the plugin or its descendant is still there
		for _, ctx := range ctxs {
			t("0", "empty", tSleep, ctx, "small")
			t("0", "empty", tSleepNoTerm, ctx, "small")
			t("0", "empty", tDescExit, ctx, "small")
			t("1", "err:ERROR", tDescExit, ctx, "small")
			t("0", "empty", tDescSleep, ctx, "small")
			for _, sh := range []string{tShStdout, tShStderr, tShSetsid} {
				t("0", "empty", sh, ctx, "small")
			}
			t("0", "empty", tShStdin, ctx, "large")
			// killed by the context AFTER a complete stderr: crossed with the whole (non-oversized) stderr alphabet
			for _, se := range ses {
				if !se.Pad {
					sp.timing = append(sp.timing, Case{Cmd: cmd, Exit: "0", Stdout: "empty", Stderr: se.Name, Timing: tShErrSleep, Ctx: ctx, Req: "small"})
					sp.timing = append(sp.timing, Case{Cmd: cmd, Exit: "0", Stdout: "empty", Stderr: se.Name, Timing: tShErrSleepNoTerm, Ctx: ctx, Req: "small"})
				}
			}
			if thorough {
				t("1", "non-json", tDescExit, ctx, "small")
				t("killed", "empty", tDescExit, ctx, "small")
				t("1", "err:ERROR", tDescSleep, ctx, "small")
				t("0", "empty", tSleep, ctx, "large")
				for _, sh := range []string{tShStdout, tShStderr, tShSetsid} {
					t("1", "err:ERROR", sh, ctx, "small")
				}
			}
		}
	}
	// 4. busy host: K other calls inside plugins that do not answer, then a call whose context ends
	ks := []int{4, 16, 64}
	if thorough {
		ks = []int{1, 4, 8, 9, 16, 64, 128}
	}
	for i, k := range ks {
		for j, ctx := range []string{"deadline-1000ms", "cancel-1000ms"} {
			sp.timing = append(sp.timing, Case{Cmd: commands[(i+j)%len(commands)], Exit: "0", Stdout: "valid", Stderr: "empty", Timing: tBusyPrefix + itoa(k), Ctx: ctx, Req: "small"})
		}
	}
	extra["alphabet_commands"] = len(commands)
	extra["alphabet_exits"] = len(exs)
	extra["alphabet_stdout_cheap(metadata-only kinds included)"] = nso
	extra["alphabet_stderr_cheap"] = nse
	extra["cases_cheap_product"] = len(sp.cheap)
	extra["cases_oversize"] = len(sp.big)
	extra["cases_timing"] = len(sp.timing)
	return
}

// ---- driver ----

type driver struct {
	r    *hx.Run
	root string
	seq  atomic.Int64

	retries       atomic.Int64
	envRetries    atomic.Int64
	envFailed     atomic.Int64
	eventCases    atomic.Int64
	eventUnjudged atomic.Int64
	skipped       atomic.Int64

	mu           sync.Mutex
	controls     map[string][2]int // per command: ok, failed
	controlFails []Case
	maxAfterEnd  int64
	maxGrowthKB  int64
	sampled      map[string]bool
}

func (d *driver) nextID(prefix string) string { return fmt.Sprintf("%s%d", prefix, d.seq.Add(1)) }

func (d *driver) run(c Case) result {
	d.r.Eval(1)
	if needsWorker(c) {
		d.r.Eval(1) // warm-up call
		return runInWorker(d.root, d.nextID("w"), c)
	}
	if isBusyHost(c.Timing) {
		d.r.Eval(busyHolders(c.Timing))
		return runBusyHost(d.root, d.nextID("b"), c)
	}
	// a plugin that answers at once, yet the call took seconds: the machine is starving this process; the host's own
	// wall-clock pipe wait may then cut its readers short - nothing about such a call is judged
	starved := func(res result) bool { return c.Timing == tImmediate && res.Returned && res.ElapsedMS > 3000 }
	res := runCase(d.root, d.nextID("c"), c)
	res.EnvFailure = res.EnvFailure || starved(res)
	// the overloaded machine refused a process / starved the pipe readers: not a property of the code; try again
	for attempt := 1; attempt <= 3 && res.EnvFailure; attempt++ {
		time.Sleep(time.Duration(attempt) * 700 * time.Millisecond)
		d.r.Eval(1)
		d.envRetries.Add(1)
		res = runCase(d.root, d.nextID("c"), c)
		res.EnvFailure = res.EnvFailure || starved(res)
	}
	// "complete stderr, then killed by the context": when the machine is so loaded that the context ended before the
	// plugin had finished printing, the case was not realised; it is run again with the context's delay doubled
	// (a real context.WithTimeout / cancel every time; the 20 s bound is applied to every attempt)
	if isErrThenSleep(c.Timing) && isCtxLimited(c.Ctx) {
		kind, delay := ctxSpec(c.Ctx)
		if delay < hx.Budget(2*time.Second) {
			delay = hx.Budget(2 * time.Second) // what runCase used for the first attempt
		}
		// ... likewise when the call came back only seconds after its context had ended although nothing held the
		// pipes: the host's wall-clock pipe wait may have cut the starved readers short (slowReturn, see judge)
		for attempt := 1; attempt <= 6 && res.Setup == "" && res.Returned && (!res.Printed || slowReturn(res)); attempt++ {
			delay *= 2
			c2 := c
			c2.Ctx = fmt.Sprintf("%s-%dms", kind, delay.Milliseconds())
			d.r.Eval(1)
			d.retries.Add(1)
			res = runCase(d.root, d.nextID("c"), c2)
		}
	}
	return res
}

func (d *driver) record(c Case, res result, replaying bool) {
	if res.EnvFailure {
		// still failing for the machine's reasons after the retries: nothing to judge
		d.envFailed.Add(1)
		d.r.Outcome("recorded:environment-failure (no process/memory/descriptor, or pipe readers starved) - not judged")
		return
	}
	v := judge(c, res)
	if v.Infra != "" {
		d.r.Infra("%s", v.Infra)
		return
	}
	d.r.Outcome(v.Class)
	if isErrThenSleep(c.Timing) {
		d.eventCases.Add(1)
		if v.NotRealised {
			d.eventUnjudged.Add(1)
		}
	}
	for _, k := range v.Recorded {
		d.r.Outcome("recorded:" + k)
	}
	if v.Judged {
		d.r.Nontrivial(c.key())
	}
	d.mu.Lock()
	if v.Control {
		x := d.controls[c.Cmd]
		if v.ControlOK {
			x[0]++
		} else {
			x[1]++
			d.controlFails = append(d.controlFails, c)
		}
		d.controls[c.Cmd] = x
	}
	if res.AfterEndMS > d.maxAfterEnd {
		d.maxAfterEnd = res.AfterEndMS
	}
	if g := res.HWMAfterKB - res.HWMBeforeKB; res.HWMBeforeKB > 0 && g > d.maxGrowthKB {
		d.maxGrowthKB = g
	}
	// one written-out sample per outcome class family (deterministic: first case of the enumeration order is not
	// guaranteed under parallelism, so the sample key is the class and hx keeps 5)
	first := !d.sampled[v.Class]
	d.sampled[v.Class] = true
	d.mu.Unlock()
	if first && !replaying {
		d.r.Sample(map[string]any{"case": c, "class": v.Class, "error": res.Err})
	}
	for _, x := range v.Viols {
		d.r.Violation(x.Key, x.What, c)
	}
	if os.Getenv("C17_TRACE") != "" && (res.HWMBeforeKB > 0 || res.AfterEndMS >= 0) {
		fmt.Printf("trace %s elapsed=%dms after_end=%dms rss_growth=%dMiB -> %s\n", c.key(), res.ElapsedMS, res.AfterEndMS, (res.HWMAfterKB-res.HWMBeforeKB)>>10, res.ErrClass)
	}
	if replaying {
		fmt.Printf("replay: %s\n  result: returned=%v success=%v class=%s code=%q err=%q elapsed=%dms after_ctx_end=%dms rss_growth=%dKiB\n",
			v.Class, res.Returned, res.Success, res.ErrClass, res.Code, res.Err, res.ElapsedMS, res.AfterEndMS, res.HWMAfterKB-res.HWMBeforeKB)
		if len(v.Viols) == 0 {
			fmt.Println("replay: holds")
		}
	}
}

// limitedParallel runs f over cases with at most n at a time.
func limitedParallel(n int, cases []Case, f func(Case)) {
	sem := make(chan struct{}, n)
	var wg sync.WaitGroup
	for _, c := range cases {
		c := c
		wg.Add(1)
		sem <- struct{}{}
		go func() {
			defer wg.Done()
			defer func() { <-sem }()
			f(c)
		}()
	}
	wg.Wait()
}

func gcd(a, b int) int {
	for b != 0 {
		a, b = b, a%b
	}
	return a
}

func copyFileNoFork(dst, src string) error {
	b, err := os.ReadFile(src)
	if err != nil {
		return err
	}
	syscall.ForkLock.RLock()
	defer syscall.ForkLock.RUnlock()
	return os.WriteFile(dst, b, 0o755)
}

func main() {
	if len(os.Args) > 3 && os.Args[1] == "--c17-worker" {
		workerMain()
		return
	}
	r := hx.New("C17")
	r.Rule = "E3: every behaviour tuple (command, exit, stdout kind, stderr kind, timing, context, request size) of the stated alphabet is run once as a real process through the real CLIPlugin: full product command x exit x stdout x stderr for the cheap kinds; oversized streams (65 MiB, 512 MiB) and timing/context behaviours crossed with one representative of the other dimensions, except 'complete stderr, then sleeps past the end of the context' (and its SIGTERM-ignoring twin), which is crossed with the whole stderr alphabet for every command and every ending context. Exit-status dimension: 10 further statuses with a conventional shell/wrapper meaning (3, 64, 125, 126, 127, 128, 130, 137, 143, 255) and 5 deaths by a signal other than SIGKILL (TERM, INT, HUP, PIPE, SEGV; generated sh plugin that kills itself after writing both streams) x every command x the whole non-oversized stderr alphabet under the honest reply, and x {empty, structured} stderr under unusable replies - to the statement each is just a failing process. File-name family: the plugin executable installed as notation-<P> for 10 names P (plain, .exe, .EXE, .sh, .bat, two-dot, version-like extension, inner dash, a name that itself starts with notation-, upper case), in a directory bearing the ANNOUNCED name; every hand-labelled row (P, announced name: equal / mismatch by a named near-miss class / lenient) as a complete metadata reply, and every P x every command x {honest reply, exit 1 with structured error, exit 1 with empty stderr}. Overlapping pairs: every ordered pair of a 7-member behaviour alphabet per command, call B run completely inside A's k-th log call (k=1..3, caller-supplied logger as the seam) or right after A (k=4), each call judged as if alone; a free-running concurrent-callers family is supplementary (Extra). Non-trivial = distinct tuples on which at least one judged clause applied (success forbidden / control / error type / cap / bounded delay)."
	r.Assumptions = []string{
		"stdout/stderr kinds are hand-labelled (honest, invalid-metadata:<clause>, undecodable, oversize, unjudged; structured:<code>, unstructured, huge); the oracle never parses a reply",
		"file-name family: the plugin's file name is notation-<P> on this Unix host (an extension is part of P, as in CLIManager's naming); the rows (P, announced name) are written out by hand: equal => honest (positive control, the returned metadata must carry that name), mismatch => success forbidden (near misses: extension stripped/added, proper prefix either way, cut at a dash, prefix stripped twice), lenient => recorded only (letter case; the literal file name, prefix included)",
		"exit statuses other than 0 and deaths by any signal are all 'a failing process': a structured error on stderr must come back as the plugin's own error whatever the status; no status is given a meaning of its own",
		"null, {} and replies with extra members are recorded but not judged on the non-metadata commands; an honest reply with noise on stderr and exit 0 may be refused (implication)",
		"the only timing oracle: a call returns within 20 s of the end of its context (expected <= 5.3 s with WaitDelay = 5 s; the descendant holds the pipes for 60 s); contexts of 300 ms are only combined with behaviours that outlast them by 60 s",
		"cap monitor: peak RSS (VmHWM) growth of a dedicated worker process during the call <= 8 x 64 MiB per oversized stream; 512 MiB emitters make an unbounded buffer visible",
		"Linux /proc, /bin/sh and setsid available; plugin descendants are found and killed by the scratch path in their command line",
	}
	scratch := hx.Scratch()
	root := filepath.Join(scratch, "c17")
	_ = os.RemoveAll(root)
	if err := os.MkdirAll(root, 0o755); err != nil {
		r.Infra("scratch: %v", err)
		r.Finish()
	}
	if err := copyFileNoFork(filepath.Join(root, "plugbin"), hx.Plugbin()); err != nil {
		r.Infra("plugbin: %v", err)
		r.Finish()
	}
	d := &driver{r: r, root: root, controls: map[string][2]int{}, sampled: map[string]bool{}}
	finish := func() {
		left := killMarked(root + string(os.PathSeparator))
		r.Extra["leftover_processes_killed_at_end"] = left
		_ = os.RemoveAll(root)
		r.Finish()
	}

	if r.Replay != "" {
		var c Case
		if err := r.LoadReplay(&c); err != nil {
			r.Infra("replay: %v", err)
			finish()
		}
		func() {
			defer func() {
				if v := recover(); v != nil {
					r.Infra("panic in the code under test: %v\n%s", v, debug.Stack())
				}
			}()
			if c.Other != nil {
				resA, resB, bRan := runOverlap(d.root, d.nextID("o"), c)
				d.recordOverlap(c, resA, resB, bRan, true)
				if r.Violations() == 0 {
					fmt.Println("replay: holds")
				}
				return
			}
			d.record(c, d.run(c), true)
		}()
		finish()
	}

	sp, extra := enumerate(r.Thorough())
	for k, v := range extra {
		r.Extra[k] = v
	}
	onPanic := func(c Case) func() {
		return func() {
			if v := recover(); v != nil {
				r.Infra("panic in the code under test on %s: %v\n%s", c.key(), v, debug.Stack())
			}
		}
	}

	// timing cases: started first, all concurrently (they sleep), collected at the end
	var twg sync.WaitGroup
	tsem := make(chan struct{}, 160) // at most 160 of them (<= 320 sleeping processes) at a time
	twg.Add(1)
	go func() {
		defer twg.Done()
		for _, c := range sp.timing {
			c := c
			tsem <- struct{}{}
			twg.Add(1)
			go func() {
				defer twg.Done()
				defer func() { <-tsem }()
				defer onPanic(c)()
				d.record(c, d.run(c), false)
			}()
		}
	}()
	// let the contexts of the timing cases end before the CPU-heavy product starts (not an oracle)
	time.Sleep(1500 * time.Millisecond)

	// internal deadline: on an overloaded machine the run stops enumerating and reports exhaustive:false
	if r.Thorough() {
		r.SetDeadline(9 * time.Minute)
	} else {
		r.SetDeadline(36 * time.Second)
	}
	t0 := time.Now()
	var bwg sync.WaitGroup
	var bigSecs float64
	bwg.Add(1)
	go func() { // oversized streams: limited parallelism, alongside the cheap product
		defer bwg.Done()
		// same idea for the oversize family: a fixed stride order instead of command-major order
		bigOrder := make([]Case, 0, len(sp.big))
		bs := 13
		for len(sp.big) > 0 && gcd(bs, len(sp.big)) != 1 {
			bs++
		}
		for k := range sp.big {
			bigOrder = append(bigOrder, sp.big[(k*bs)%len(sp.big)])
		}
		limitedParallel(8, bigOrder, func(c Case) {
			defer onPanic(c)()
			if r.Expired() {
				d.skipped.Add(1)
				return
			}
			d.record(c, d.run(c), false)
		})
		bigSecs = time.Since(t0).Seconds()
	}()
	// the cheap product and the overlapping pairs (logger seam, deterministic family) share one work list whose order
	// spreads both families and all their dimensions evenly (fixed stride permutation): when the internal deadline
	// cuts the run on an overloaded machine, what was covered is a cross-section, not a prefix of one family
	ov := enumerateOverlap(r.Thorough())
	r.Extra["cases_overlapping_pairs"] = len(ov)
	total := len(sp.cheap) + len(ov)
	stride := 7919 // prime; made coprime to total below
	for gcd(stride, total) != 1 {
		stride++
	}
	r.Parallel(total, func(k int) {
		if r.Expired() {
			d.skipped.Add(1)
			return
		}
		i := int((int64(k) * int64(stride)) % int64(total))
		if i < len(sp.cheap) {
			c := sp.cheap[i]
			d.record(c, d.run(c), false)
			return
		}
		o := ov[i-len(sp.cheap)]
		resA, resB, bRan := runOverlap(d.root, d.nextID("o"), o)
		d.recordOverlap(o, resA, resB, bRan, false)
	}, func(k int, v any, stack string) {
		r.Infra("panic in the code under test (work item %d): %v\n%s", k, v, stack)
	})
	r.Extra["phase_cheap_product_and_overlapping_pairs_s(informational)"] = time.Since(t0).Seconds()
	var t1 time.Time
	bwg.Wait()
	r.Extra["phase_oversize_s(informational)"] = bigSecs
	t0 = time.Now()
	twg.Wait()
	r.Extra["phase_wait_for_timing_cases_s(informational)"] = time.Since(t0).Seconds()
	// supplementary, free-running: concurrent callers (a miss proves nothing; a hit is a violation)
	t1 = time.Now()
	rounds := 6
	if r.Thorough() {
		rounds = 40
	}
	var tot concStats
	for _, g := range []int{2, 4, 8} {
		for _, procs := range []int{1, 2, g} {
			st := d.runConcurrent(g, rounds, procs)
			tot.Groups += st.Groups
			tot.Calls += st.Calls
			tot.Mismatches += st.Mismatches
		}
	}
	r.Extra["supplementary_concurrent_family(free-running, not exhaustive)"] = map[string]any{
		"caller_groups": tot.Groups, "callers_per_group": []int{2, 4, 8}, "GOMAXPROCS": "1, 2, callers", "rounds_per_group": rounds,
		"calls": tot.Calls, "calls_not_as_alone": tot.Mismatches, "seconds": time.Since(t1).Seconds()}
	if n := d.skipped.Load(); n > 0 {
		r.Capped(fmt.Sprintf("internal deadline reached on a loaded machine: all %d timing/context cases and %d of the %d cheap/oversize/overlap cases were run, %d skipped", len(sp.timing), len(sp.cheap)+len(sp.big)+len(ov)-int(n), len(sp.cheap)+len(sp.big)+len(ov), n))
	}
	r.Extra["context_kill_cases_rerun_with_doubled_delay(informational)"] = d.retries.Load()
	r.Extra["calls_rerun_after_environment_failure(informational)"] = d.envRetries.Load()
	r.Extra["context_kill_cases_not_judged(plugin had not written before the context ended)"] = d.eventUnjudged.Load()
	if n, all := d.eventUnjudged.Load(), d.eventCases.Load(); n*10 > all {
		r.Capped(fmt.Sprintf("%d of the %d 'complete stderr, then killed by the context' cases could not be judged: the plugin had not written before the context ended", n, all))
	}
	if n := d.envFailed.Load(); n > 0 {
		r.Capped(fmt.Sprintf("%d cases could not be judged: the machine had no process/memory/descriptor left or starved the pipe readers, also on 3 retries", n))
	}

	// positive controls
	var cmds []string
	okTotal, failTotal := 0, 0
	for k := range d.controls {
		cmds = append(cmds, k)
	}
	sort.Strings(cmds)
	ctl := map[string]any{}
	for _, k := range cmds {
		x := d.controls[k]
		okTotal += x[0]
		failTotal += x[1]
		ctl[k] = map[string]int{"accepted": x[0], "refused": x[1]}
	}
	r.Extra["positive_controls"] = ctl
	if okTotal == 0 {
		r.Infra("no positive control succeeded (%d failed): the scripted plugin or the scratch directory is broken", failTotal)
	} else {
		for _, c := range d.controlFails {
			r.Violation("control/honest-reply-refused:"+c.Cmd, "the honest reply with exit 0 and empty stderr did not yield the reply's content: "+c.key(), c)
		}
	}
	r.Extra["max_return_delay_after_context_end_ms(informational)"] = d.maxAfterEnd
	r.Extra["max_peak_rss_growth_MiB(informational)"] = d.maxGrowthKB >> 10
	r.Extra["rss_bound_MiB_per_oversized_stream"] = rssBoundKB(1) >> 10
	finish()
}
