package main

import (
	"fmt"
)

type viol struct{ Key, What string }

// verdict of one case
type verdict struct {
	Class     string // outcome class for the histogram
	Viols     []viol
	Judged    bool // at least one judged clause of the oracle applied
	Control   bool // the case is a positive control (honest reply, exit 0, empty stderr, not cut by a context)
	ControlOK bool
	Infra     string // harness could not judge
}

func exitClass(e string) string {
	switch e {
	case "0":
		return "0"
	case "killed":
		return "killed"
	}
	return "nonzero"
}

func typedAny(cl string) bool {
	return cl == "request-error" || cl == "malformed" || cl == "executable-file"
}
func typedExec(cl string) bool { return cl == "malformed" || cl == "executable-file" }

// rssBoundKB: 4 x cap per oversized stream above the baseline (very coarse).
func rssBoundKB(streams int) int64 { return int64(streams) * 4 * (capBytes >> 10) }

// judge applies the classification model of C17 to one observed result.
func judge(c Case, res result) (v verdict) {
	so, se := soByName[c.Stdout], seByName[c.Stderr]
	soLabel, soField := so.labelFor(c.Cmd)
	exit0 := c.Exit == "0"
	limited := isCtxLimited(c.Ctx)
	faithful := (c.Timing == tImmediate || c.Timing == tSlow) && (c.Ctx == cBackground || c.Ctx == cFar)
	descNoEnd := isDesc(c.Timing) && !limited && c.Ctx != cCancelled
	add := func(key, what string) { v.Viols = append(v.Viols, viol{key, what}) }
	tuple := fmt.Sprintf("cmd=%s exit=%s stdout=%s stderr=%s timing=%s ctx=%s req=%s", c.Cmd, c.Exit, c.Stdout, c.Stderr, c.Timing, c.Ctx, c.Req)

	phase := "reply"
	switch {
	case soLabel == soOversize || se.Label == seHuge:
		phase = "cap"
	case !faithful:
		phase = "time"
	}
	prefix := fmt.Sprintf("%s|exit=%s|stdout=%s|stderr=%s", phase, exitClass(c.Exit), soLabel, se.Label)
	if phase == "time" {
		prefix = fmt.Sprintf("time|ctx=%s|timing=%s|exit=%s", c.Ctx, c.Timing, exitClass(c.Exit))
	}
	if isErrThenSleep(c.Timing) {
		prefix = fmt.Sprintf("time|ctx=%s|timing=%s|stderr=%s", c.Ctx, c.Timing, se.Label)
	}

	if res.Setup != "" {
		v.Infra = res.Setup + " (" + tuple + ")"
		v.Class = prefix + " -> INFRA"
		return
	}

	// ---- bounded-delay monitor ----
	if !res.Returned {
		switch {
		case limited:
			kind, _ := ctxSpec(c.Ctx)
			v.Judged = true
			word := "cancel"
			if kind == "deadline" {
				word = "deadline"
			}
			add("time/not-returned-after-"+word+":"+c.Timing, fmt.Sprintf("the call had not returned %v after its context ended (%s); the harness gave up and killed the plugin's processes", giveUpAfterCtxEnd, tuple))
			v.Class = prefix + " -> NOT RETURNED within 20s of the context's end"
		case descNoEnd:
			v.Class = prefix + " -> not returned within 25s (context never ends: not judged)"
		default:
			v.Infra = "case did not return within the safety limit: " + tuple
			v.Class = prefix + " -> INFRA"
		}
		return
	}
	if limited {
		v.Judged = true // the call returned inside the bound
	}

	// ---- positive control ----
	if faithful && exit0 && soLabel == soHonest && se.Label == seEmpty {
		v.Control = true
		v.Judged = true
		v.ControlOK = res.Success && res.DecodedOK
	}

	if res.Success {
		rc := "success"
		if !exit0 {
			v.Judged = true
			add("reply/success-despite-exit:"+exitClass(c.Exit), "the call succeeded although the plugin process did not exit successfully: "+tuple)
		}
		switch soLabel {
		case soInvalidMeta:
			v.Judged = true
			add("reply/accepted-invalid-metadata:"+soField, "get-plugin-metadata succeeded on a reply that breaks the stated metadata clause '"+soField+"': "+tuple)
		case soUndecodable:
			v.Judged = true
			add("reply/accepted-undecodable:"+c.Stdout, "the call succeeded although stdout is not a JSON value of the reply type: "+tuple)
		case soOversize:
			v.Judged = true
			add("cap/oversized-reply-accepted", "the call succeeded on a reply larger than the 64 MiB output cap: "+tuple)
		case soHonest:
			v.Judged = true
			if !res.DecodedOK {
				add("reply/decoded-differs:"+c.Cmd, "the response returned for the honest reply differs from the reply's content: "+tuple)
			}
		}
		if c.Cmd == "get-plugin-metadata" && res.MetaProblem != "" {
			v.Judged = true
			add("reply/returned-invalid-metadata:"+res.MetaProblem, "the metadata RETURNED by a successful call breaks the clause '"+res.MetaProblem+"': "+tuple)
		}
		if soLabel == soUnjudged {
			rc = "success(shape not judged)"
		}
		v.Class = prefix + " -> " + rc
	} else {
		rc := res.ErrClass
		if rc == "request-error" && phase != "time" {
			if se.Label == seStructured || se.Label == seLenient || se.Label == seHuge {
				rc = "request-error(plugin's own)"
			}
		}
		want := func(ok bool, key, expect string) {
			v.Judged = true
			if !ok {
				add(key, fmt.Sprintf("expected %s, got %s (code %q): %s [%s]", expect, res.ErrClass, res.Code, res.Err, tuple))
			}
		}
		switch {
		case isErrThenSleep(c.Timing) && limited && res.Printed:
			// the plugin had written its stderr completely before the context killed it: a failing process that
			// printed a structured error yields that error, whatever ended the process
			switch se.Label {
			case seStructured:
				want(res.ErrClass == "request-error" && res.Code == se.Code, "error/structured-error-lost-when-killed-by-context:"+se.Code, "proto.RequestError with code "+se.Code)
			case seLenient:
				want((res.ErrClass == "request-error" && res.Code == se.Code) || res.ErrClass == "malformed", "error/structured-error-lost-when-killed-by-context:"+se.Name, "proto.RequestError with the printed code (or a malformed-plugin error)")
			default:
				want(typedExec(res.ErrClass), "error/untyped-failure:killed-by-context-stderr-"+se.Name, "PluginExecutableFileError or PluginMalformedError")
			}
			if rc == "request-error" {
				rc = "request-error(plugin's own)"
			}
		case isErrThenSleep(c.Timing) && limited:
			want(typedAny(res.ErrClass), "error/untyped-failure:context-"+c.Ctx, "a typed error")
			rc = "typed-error (case not realised: killed before the plugin had finished printing, even with the delay doubled 6 times)"
		case !faithful && !descNoEnd:
			// cut by a context: the process may not have got as far as scripted; the statement still demands a typed error
			want(typedAny(res.ErrClass), "error/untyped-failure:context-"+c.Ctx, "a typed error (plugin's own / executable-file / malformed-plugin)")
			if typedAny(res.ErrClass) {
				rc = "typed-error" // which one depends on how far the process got before it was killed
			}
		case !exit0 && soLabel == soOversize:
			// the host closes the pipe at the cap, the plugin dies of SIGPIPE before it reaches its stderr output
			want(typedAny(res.ErrClass), "error/untyped-failure:oversize-stdout", "a typed error")
		case !exit0:
			switch se.Label {
			case seStructured:
				want(res.ErrClass == "request-error" && res.Code == se.Code, "error/structured-error-lost:"+se.Code, "proto.RequestError with code "+se.Code)
			case seLenient:
				want((res.ErrClass == "request-error" && res.Code == se.Code) || res.ErrClass == "malformed", "error/structured-error-lost:"+se.Name, "proto.RequestError with the printed code (or a malformed-plugin error)")
			case seEmpty, seUnstructured:
				want(typedExec(res.ErrClass), "error/untyped-failure:stderr-"+se.Name, "PluginExecutableFileError or PluginMalformedError")
			case seHuge:
				want(typedAny(res.ErrClass), "error/untyped-failure:stderr-"+se.Name, "a typed error")
			}
		case descNoEnd: // exit 0, pipes held: WaitDelay turns the call into a failure; only "typed" is demanded
			want(typedAny(res.ErrClass), "error/untyped-failure:descendant-holds-pipes", "a typed error")
		case se.Label == seHuge:
			want(typedAny(res.ErrClass), "error/untyped-failure:stderr-"+se.Name, "a typed error")
		case soLabel == soUndecodable:
			want(res.ErrClass == "malformed", "error/undecodable-reply-not-malformed:"+c.Stdout, "PluginMalformedError")
		case soLabel == soOversize:
			want(typedAny(res.ErrClass), "error/untyped-failure:oversize-stdout", "a typed error")
		case soLabel == soInvalidMeta:
			v.Judged = true // refused as demanded; the error type is not fixed by the statement
		case se.Label != seEmpty:
			// honest / unjudged reply, exit 0, noise on stderr: refusing is allowed by the implication
		}
		v.Class = prefix + " -> " + rc
	}

	// ---- cap monitor (worker measurements) ----
	if res.HWMAfterKB > 0 && res.HWMBeforeKB > 0 {
		streams := 0
		which := ""
		if soLabel == soOversize {
			streams++
			which = "stdout"
		}
		if se.Label == seHuge {
			streams++
			if which == "" {
				which = "stderr"
			} else {
				which = "both"
			}
		}
		if streams > 0 {
			v.Judged = true
			growth := res.HWMAfterKB - res.HWMBeforeKB
			if growth > rssBoundKB(streams) {
				add("cap/host-memory-grew-beyond-bound:"+which, fmt.Sprintf("peak RSS of the host grew by %d MiB during the call (bound %d MiB = 4 x cap per oversized stream): %s big=%dMiB", growth>>10, rssBoundKB(streams)>>10, tuple, c.BigMiB))
			}
		}
	}
	return
}
