package main

import (
	"fmt"

	"github.com/notaryproject/notation-go/zzverif/lib/hx"
)

type viol struct{ Key, What string }

// verdict of one case
type verdict struct {
	Class     string // outcome class for the histogram
	Viols     []viol
	Judged    bool // at least one judged clause of the oracle applied
	Control   bool // the case is a positive control (honest reply, exit 0, empty stderr, not cut by a context)
	ControlOK bool
	Infra     string // harness could not judge
	// observations that go beyond the literal statement (error type where the statement fixes none, lenient
	// denotations of a field/version, ...): evidence only, r.Outcome("recorded:<key>"), never a violation
	Recorded    []string
	NotRealised bool // a timing-dependent clause could not be judged because the observed events came in the wrong order
}

func exitClass(e string) string {
	switch e {
	case "0":
		return "0"
	case "killed":
		return "killed"
	}
	if isSignalExit(e) {
		return "signal"
	}
	return "nonzero"
}

func typedAny(cl string) bool {
	return cl == "request-error" || cl == "malformed" || cl == "executable-file"
}

// slowReturn: the call returned more than 2 s after the end of its context (only used to NOT judge, never to alarm)
func slowReturn(res result) bool { return res.AfterEndMS > 2000 }

func typedExec(cl string) bool { return cl == "malformed" || cl == "executable-file" }

// rssBoundKB: 8 x cap per oversized stream above the baseline. Deliberately very coarse: the statement bounds what the
// host BUFFERS, not how often it copies what it buffered (the unchanged code peaks at 3 x cap); an unbounded buffer
// is made visible by the 512 MiB emitters (growth > 1 GiB), not by a tight bound.
func rssBoundKB(streams int) int64 { return int64(streams) * 8 * (capBytes >> 10) }

// judge applies the classification model of C17 to one observed result.
func judge(c Case, res result) (v verdict) {
	so, _ := kindOf(c) // file-name family: the label of the hand-labelled (file name, announced name) row
	se := seByName[c.Stderr]
	soLabel, soField := so.labelFor(c.Cmd)
	exit0 := c.Exit == "0"
	limited := isCtxLimited(c.Ctx)
	faithful := (c.Timing == tImmediate || c.Timing == tSlow) && (c.Ctx == cBackground || c.Ctx == cFar)
	descNoEnd := isDesc(c.Timing) && !limited && c.Ctx != cCancelled && !isBusyHost(c.Timing)
	add := func(key, what string) { v.Viols = append(v.Viols, viol{key, what}) }
	rec := func(key string) { v.Recorded = append(v.Recorded, key) }
	tuple := fmt.Sprintf("cmd=%s exit=%s stdout=%s stderr=%s timing=%s ctx=%s req=%s", c.Cmd, c.Exit, c.Stdout, c.Stderr, c.Timing, c.Ctx, c.Req)
	if c.Plug != "" || c.Announce != "" {
		tuple += fmt.Sprintf(" file=notation-%s", c.plug())
		if c.Stdout == soAnnounces {
			tuple += fmt.Sprintf(" announced-name=%q", c.Announce)
		}
	}

	phase := "reply"
	switch {
	case soLabel == soOversize || se.Label == seHuge:
		phase = "cap"
	case !faithful:
		phase = "time"
	}
	if phase == "reply" && (c.Plug != "" || c.Announce != "") {
		phase = "file-name"
	}
	prefix := fmt.Sprintf("%s|exit=%s|stdout=%s|stderr=%s", phase, exitClass(c.Exit), soLabel, se.Label)
	if phase == "file-name" && c.Stdout == soAnnounces {
		if r, ok := rowFor(c.plug(), c.Announce); ok {
			prefix = fmt.Sprintf("%s|exit=%s|announced=%s|stderr=%s", phase, exitClass(c.Exit), r.Verdict, se.Label)
		}
	}
	if phase == "time" {
		prefix = fmt.Sprintf("time|ctx=%s|timing=%s|exit=%s", c.Ctx, c.Timing, exitClass(c.Exit))
	}
	if isErrThenSleep(c.Timing) {
		prefix = fmt.Sprintf("time|ctx=%s|timing=%s|stderr=%s", c.Ctx, c.Timing, se.Label)
	}

	if res.Setup != "" {
		v.Infra = res.Setup + " (" + tuple + ")"
		v.Class = prefix + " -> INFRA"
		return
	}

	// ---- bounded-delay monitor ----
	if !res.Returned {
		switch {
		case limited && hx.Overloaded():
			// elapsed time says nothing on a machine oversubscribed far beyond what hx.Budget compensates for
			v.Class = prefix + " -> not returned within the bound, machine overloaded (recorded, not judged)"
		case limited:
			kind, _ := ctxSpec(c.Ctx)
			v.Judged = true
			word := "cancel"
			if kind == "deadline" {
				word = "deadline"
			}
			add("time/not-returned-after-"+word+":"+c.Timing, fmt.Sprintf("the call had not returned %v after its context ended (%s); the harness gave up and killed the plugin's processes", giveUpAfterCtxEnd, tuple))
			v.Class = prefix + " -> NOT RETURNED within the bound (20 s x load factor) after the context's end"
		case descNoEnd:
			v.Class = prefix + " -> not returned within 25s (context never ends: not judged)"
		default:
			v.Infra = "case did not return within the safety limit: " + tuple
			v.Class = prefix + " -> INFRA"
		}
		return
	}
	if limited {
		v.Judged = true // the call returned inside the bound
	}

	// ---- positive control ----
	// (a plugin that never reads a 1 MiB request is not the honest plugin: req=large is recorded, not a control)
	if faithful && exit0 && soLabel == soHonest && se.Label == seEmpty && c.Req != "large" {
		v.Control = true
		v.Judged = true
		v.ControlOK = res.Success && res.DecodedOK
	}

	if res.Success {
		rc := "success"
		if !exit0 {
			v.Judged = true
			add("reply/success-despite-exit:"+exitClass(c.Exit), "the call succeeded although the plugin process did not exit successfully: "+tuple)
		}
		switch soLabel {
		case soInvalidMeta:
			if so.Demoted {
				// an empty/null member is arguably "present", "01.0" arguably denotes 1.0, ...: not fixed by the statement
				rec("reply/accepted-invalid-metadata:" + soField)
				break
			}
			v.Judged = true
			add("reply/accepted-invalid-metadata:"+soField, "get-plugin-metadata succeeded on a reply that breaks the stated metadata clause '"+soField+"': "+tuple)
		case soUndecodable:
			if so.Demoted {
				rec("reply/accepted-undecodable:" + c.Stdout) // e.g. a stream decoder that stops after the first JSON value
				break
			}
			v.Judged = true
			add("reply/accepted-undecodable:"+c.Stdout, "the call succeeded although stdout is not a JSON value of the reply type: "+tuple)
		case soOversize:
			if so.Garbage || so.Tail != "" {
				v.Judged = true
				add("reply/accepted-undecodable:"+c.Stdout, "the call succeeded although stdout as a whole is not a JSON value (and larger than the cap): "+tuple)
			} else {
				// a valid JSON value followed by blanks IS a JSON reply; the statement bounds what the host buffers
				// (cap monitor below), it does not say that an oversized reply must be refused
				rec("cap/oversized-reply-accepted")
			}
		case soHonest:
			v.Judged = true
			if !res.DecodedOK {
				add("reply/decoded-differs:"+c.Cmd, "the response returned for the honest reply differs from the reply's content: "+tuple)
			}
		}
		if c.Cmd == "get-plugin-metadata" && res.MetaProblem != "" {
			// second look at the returned value; the labelled clause above is the judged one (an empty string
			// may count as present, a lenient version denotation as supported)
			rec("reply/returned-invalid-metadata:" + res.MetaProblem)
		}
		if soLabel == soUnjudged {
			rc = "success(shape not judged)"
		}
		v.Class = prefix + " -> " + rc
	} else {
		rc := res.ErrClass
		if rc == "request-error" && phase != "time" {
			if se.Label == seStructured || se.Label == seLenient || se.Label == seHuge {
				rc = "request-error(plugin's own)"
			}
		}
		want := func(ok bool, key, expect string) {
			v.Judged = true
			if !ok {
				add(key, fmt.Sprintf("expected %s, got %s (code %q): %s [%s]", expect, res.ErrClass, res.Code, res.Err, tuple))
			}
		}
		// the statement fixes the error's type only for "a failing process"; where the process did not fail by itself
		// (exit 0 with an unusable reply, killed or never started by the host because the context ended, exit 0 while
		// a descendant holds the pipes) the call must merely not succeed - the type is evidence only
		wantRec := func(ok bool, key string) {
			if !ok {
				rec(key)
			}
		}
		switch {
		case isErrThenSleep(c.Timing) && limited && res.Printed && slowReturn(res):
			// nothing held the pipes, yet the call came back only seconds after its context had ended: on a starved
			// machine the host's bounded pipe wait may have run out before its readers had drained the pipe - the
			// bounded-delay clause allows that; what was printed may be lost
			v.Judged = true
			rc = "error (slow return on a starved machine: stderr not judged)"
		case isErrThenSleep(c.Timing) && limited && res.Printed:
			// the plugin had written its stderr completely before the context killed it: a failing process that
			// printed a structured error yields that error, whatever ended the process
			switch se.Label {
			case seStructured:
				want(res.ErrClass == "request-error" && res.Code == se.Code, "error/structured-error-lost-when-killed-by-context:"+se.Code, "proto.RequestError with code "+se.Code)
			case seLenient:
				want((res.ErrClass == "request-error" && res.Code == se.Code) || res.ErrClass == "malformed", "error/structured-error-lost-when-killed-by-context:"+se.Name, "proto.RequestError with the printed code (or a malformed-plugin error)")
			default:
				v.Judged = true // refused, as demanded
				wantRec(typedExec(res.ErrClass), "error/untyped-failure:killed-by-context-stderr-"+se.Name)
			}
			if rc == "request-error" {
				rc = "request-error(plugin's own)"
			}
		case isErrThenSleep(c.Timing) && limited:
			rec("not-judged(plugin had not written before the context ended)")
			v.NotRealised = true
			wantRec(typedAny(res.ErrClass), "error/untyped-failure:context-"+c.Ctx)
			rc = "error (case not realised: killed before the plugin had finished printing, even with the delay doubled 6 times)"
		case !faithful && !descNoEnd:
			// cut by a context: the process may not have got as far as scripted (or was never started); which error
			// is reported (the context's, the kill's, the plugin's) depends on that and is not fixed by the statement
			wantRec(typedAny(res.ErrClass), "error/untyped-failure:context-"+c.Ctx)
			rc = "error"
		case !exit0 && soLabel == soOversize:
			// the host closes the pipe at the cap, the plugin dies of SIGPIPE before it reaches its stderr output
			want(typedAny(res.ErrClass), "error/untyped-failure:oversize-stdout", "a typed error")
		case !exit0 && descNoEnd:
			// a descendant holds the pipes: how much of the plugin's stderr the host has read when its bounded pipe
			// wait runs out depends on the scheduling of its readers - evidence only
			v.Judged = true // refused, as demanded
			switch se.Label {
			case seStructured:
				wantRec(res.ErrClass == "request-error" && res.Code == se.Code, "error/structured-error-lost:"+se.Code+"(descendant-holds-pipes)")
			default:
				wantRec(typedAny(res.ErrClass), "error/untyped-failure:descendant-holds-pipes")
			}
		case !exit0:
			switch se.Label {
			case seStructured:
				want(res.ErrClass == "request-error" && res.Code == se.Code, "error/structured-error-lost:"+se.Code, "proto.RequestError with code "+se.Code)
			case seLenient:
				want((res.ErrClass == "request-error" && res.Code == se.Code) || res.ErrClass == "malformed", "error/structured-error-lost:"+se.Name, "proto.RequestError with the printed code (or a malformed-plugin error)")
			case seEmpty, seUnstructured:
				// no structured error was printed ({} / null / a JSON scalar carry neither a code nor a message):
				// the statement's "otherwise" - an error invented by the host under the plugin's name is neither
				want(typedExec(res.ErrClass), "error/untyped-failure:stderr-"+se.Name, "PluginExecutableFileError or PluginMalformedError")
			case seHuge:
				want(typedAny(res.ErrClass), "error/untyped-failure:stderr-"+se.Name, "a typed error")
			}
		case descNoEnd: // exit 0, pipes held: WaitDelay turns the call into a failure; only "typed" is demanded
			wantRec(typedAny(res.ErrClass), "error/untyped-failure:descendant-holds-pipes")
		case se.Label == seHuge:
			wantRec(typedAny(res.ErrClass), "error/untyped-failure:stderr-"+se.Name)
		case soLabel == soUndecodable:
			v.Judged = true // refused, as demanded
			wantRec(res.ErrClass == "malformed", "error/undecodable-reply-not-malformed:"+c.Stdout)
		case soLabel == soOversize:
			wantRec(typedAny(res.ErrClass), "error/untyped-failure:oversize-stdout")
		case soLabel == soInvalidMeta:
			v.Judged = true // refused as demanded; the error type is not fixed by the statement
		case se.Label != seEmpty:
			// honest / unjudged reply, exit 0, noise on stderr: refusing is allowed by the implication
		}
		v.Class = prefix + " -> " + rc
	}

	// ---- cap monitor (worker measurements) ----
	if res.HWMAfterKB > 0 && res.HWMBeforeKB > 0 {
		streams := 0
		which := ""
		if soLabel == soOversize {
			streams++
			which = "stdout"
		}
		if se.Label == seHuge {
			streams++
			if which == "" {
				which = "stderr"
			} else {
				which = "both"
			}
		}
		if streams > 0 {
			v.Judged = true
			growth := res.HWMAfterKB - res.HWMBeforeKB
			if growth > rssBoundKB(streams) {
				add("cap/host-memory-grew-beyond-bound:"+which, fmt.Sprintf("peak RSS of the host grew by %d MiB during the call (bound %d MiB = 8 x cap per oversized stream): %s big=%dMiB", growth>>10, rssBoundKB(streams)>>10, tuple, c.BigMiB))
			}
		}
	}
	return
}
