package main

import (
	"strings"
)

// The behaviour alphabet of C17. Every value carries a HAND-WRITTEN label that the
// oracle uses; nothing here parses a reply.

const pluginName = "c17p"
const capBytes = 64 << 20

var commands = []string{"get-plugin-metadata", "describe-key", "generate-signature", "generate-envelope", "verify-signature"}

// Case is one plugin behaviour tuple (also the replay case).
type Case struct {
	Cmd    string `json:"cmd"`
	Exit   string `json:"exit"`   // "0","1","2",...,"killed"
	Stdout string `json:"stdout"` // name of a stdout kind
	Stderr string `json:"stderr"` // name of a stderr kind
	Timing string `json:"timing"`
	Ctx    string `json:"ctx"`
	Req    string `json:"req"`               // small | large (1 MiB request the plugin never reads)
	BigMiB int    `json:"big_mib,omitempty"` // size of the oversized streams (65 or 512)
	// overlap families: Other is a second plugin call that runs inside the Hook-th log call of this one
	// (1..3) or after it returned (4)
	Other *Case `json:"other,omitempty"`
	Hook  int   `json:"hook,omitempty"`
	// file-name family: Plug is the plugin's name, i.e. the executable is installed as "notation-<Plug>" (empty: c17p);
	// Announce is the name the get-plugin-metadata reply announces (stdout kind "meta-announces")
	Plug     string `json:"plug,omitempty"`
	Announce string `json:"announce,omitempty"`
}

// plug is the name of the plugin of a case: its executable file is "notation-" + plug().
func (c Case) plug() string {
	if c.Plug == "" {
		return pluginName
	}
	return c.Plug
}

func (c Case) key() string {
	k := strings.Join([]string{c.Cmd, c.Exit, c.Stdout, c.Stderr, c.Timing, c.Ctx, c.Req, itoa(c.BigMiB)}, "|")
	if c.Plug != "" || c.Announce != "" {
		k += "|plug=" + c.Plug + "|announces=" + c.Announce
	}
	if c.Other != nil {
		k += "||hook=" + itoa(c.Hook) + "||" + c.Other.key()
	}
	return k
}

func itoa(i int) string {
	if i == 0 {
		return "0"
	}
	neg := i < 0
	if neg {
		i = -i
	}
	var b []byte
	for i > 0 {
		b = append([]byte{byte('0' + i%10)}, b...)
		i /= 10
	}
	if neg {
		b = append([]byte{'-'}, b...)
	}
	return string(b)
}

// ---- stdout ----

const (
	soHonest      = "honest"           // exit 0 + empty stderr => MUST succeed
	soUnjudged    = "unjudged"         // recorded, not judged (null, {}, extra members on non-metadata commands)
	soInvalidMeta = "invalid-metadata" // success forbidden (metadata only)
	soUndecodable = "undecodable"      // not a JSON value of the reply type: success forbidden, exit 0 => malformed-plugin error
	soOversize    = "oversize"         // larger than the cap: success forbidden
)

type soKind struct {
	Name     string
	Label    string
	Field    string // invalid-metadata: which clause is broken
	MetaOnly bool
	Thorough bool     // only in the thorough alphabet
	PairOnly bool     // only used by the overlap families (not a member of the single-call product)
	Demoted  bool     // success on this kind is recorded, not judged: the literal statement does not forbid it
	Pad      bool     // followed by BigMiB of blanks
	Garbage  bool     // BigMiB of 'x' instead of text
	Tail     string   // written after the pad (only by the generated sh plugin that ignores SIGPIPE)
	Versions []string // honest metadata kinds: the announced contract versions (hand-written expectation)
	Text     func(cmd string) string
}

var metaFields = [][2]string{
	{"name", `"c17p"`},
	{"description", `"scripted plugin"`},
	{"version", `"1.0.0"`},
	{"url", `"https://example.com/c17"`},
	{"supportedContractVersions", `["1.0"]`},
	{"capabilities", `["SIGNATURE_GENERATOR.RAW"]`},
}

// metaJSON writes the metadata object; over maps a member name to its raw JSON
// value, "\x00" removes the member.
func metaJSON(over map[string]string) string {
	var parts []string
	for _, f := range metaFields {
		v := f[1]
		if o, ok := over[f[0]]; ok {
			if o == "\x00" {
				continue
			}
			v = o
		}
		parts = append(parts, `"`+f[0]+`":`+v)
	}
	return "{" + strings.Join(parts, ",") + "}"
}

var honestReply = map[string]string{
	"describe-key":       `{"keyId":"k1","keySpec":"RSA-2048"}`,
	"generate-signature": `{"keyId":"k1","signature":"c2ln","signingAlgorithm":"RSASSA-PSS-SHA-256","certificateChain":["Y2VydA=="]}`,
	"generate-envelope":  `{"signatureEnvelope":"ZW52","signatureEnvelopeType":"application/jose+json","annotations":{"a":"b"}}`,
	"verify-signature":   `{"verificationResults":{"SIGNATURE_VERIFIER.TRUSTED_IDENTITY":{"success":true}},"processedAttributes":["io.cncf.notary.x"]}`,
}

var wrongTypeReply = map[string]string{
	"get-plugin-metadata": metaJSON(map[string]string{"name": `5`}),
	"describe-key":        `{"keyId":5,"keySpec":"RSA-2048"}`,
	"generate-signature":  `{"keyId":"k1","signature":5,"signingAlgorithm":"RSASSA-PSS-SHA-256","certificateChain":["Y2VydA=="]}`,
	"generate-envelope":   `{"signatureEnvelope":["x"],"signatureEnvelopeType":"application/jose+json"}`,
	"verify-signature":    `{"verificationResults":[],"processedAttributes":[]}`,
}

// a second honest reply per command, of EXACTLY the same length as the first but different in the values a caller
// looks at, and a third, longer one: overlapping calls must each get their own
var honestReplyB = map[string]string{
	"get-plugin-metadata": metaJSON(map[string]string{"description": `"SCRIPTED PLUGIN"`, "version": `"2.3.4"`, "url": `"https://example.org/C17"`, "capabilities": `["SIGNATURE_GENERATOR.ENV"]`}),
	"describe-key":        `{"keyId":"k2","keySpec":"RSA-3072"}`,
	"generate-signature":  `{"keyId":"k2","signature":"U0lH","signingAlgorithm":"RSASSA-PSS-SHA-384","certificateChain":["Q0VSVA=="]}`,
	"generate-envelope":   `{"signatureEnvelope":"RU5W","signatureEnvelopeType":"application/cose+json","annotations":{"c":"d"}}`,
	"verify-signature":    `{"verificationResults":{"SIGNATURE_VERIFIER.TRUSTED_IDENTITY":{"success":true}},"processedAttributes":["io.cncf.notary.y"]}`,
}

var honestReplyLong = map[string]string{
	"get-plugin-metadata": metaJSON(map[string]string{"description": `"a third, rather longer description of the scripted plugin"`, "version": `"10.20.30"`}),
	"describe-key":        `{"keyId":"the-third-and-longest-key-identifier","keySpec":"EC-521"}`,
	"generate-signature":  `{"keyId":"the-third-and-longest-key-identifier","signature":"bG9uZ2VyIHNpZ25hdHVyZQ==","signingAlgorithm":"ECDSA-SHA-512","certificateChain":["bGVhZg==","cm9vdA=="]}`,
	"generate-envelope":   `{"signatureEnvelope":"bG9uZ2VyIGVudmVsb3Bl","signatureEnvelopeType":"application/cose","annotations":{"third":"reply","x":"y"}}`,
	"verify-signature":    `{"verificationResults":{"SIGNATURE_VERIFIER.TRUSTED_IDENTITY":{"success":false,"reason":"third reply"},"SIGNATURE_VERIFIER.REVOCATION_CHECK":{"success":true}},"processedAttributes":["third"]}`,
}

func honest(cmd string) string {
	if cmd == "get-plugin-metadata" {
		return metaJSON(nil)
	}
	return honestReply[cmd]
}

func constText(s string) func(string) string { return func(string) string { return s } }

func stdoutKinds(thorough bool) []soKind {
	ks := []soKind{
		{Name: "valid", Label: soHonest, Text: honest},
		{Name: "valid-newline", Label: soHonest, Text: func(c string) string { return honest(c) + "\n" }},
		{Name: "extra-member", Label: soUnjudged, Text: func(c string) string {
			h := honest(c)
			return h[:len(h)-1] + `,"zzExtra":{"x":[1,2]}}`
		}},
		{Name: "null", Label: soUnjudged, Text: constText("null")},
		{Name: "empty-object", Label: soUnjudged, Text: constText("{}")},
		{Name: "non-json", Label: soUndecodable, Text: constText("this is not json")},
		{Name: "empty", Label: soUndecodable, Text: constText("")},
		{Name: "json-array", Label: soUndecodable, Text: constText("[1,2]")},
		{Name: "member-wrong-type", Label: soUndecodable, Text: func(c string) string { return wrongTypeReply[c] }},
		// class "bytes after a complete, valid reply": stdout as a whole is then NOT a JSON text (RFC 8259: one value,
		// optionally surrounded by white space), i.e. a member of the quantifier's "non-JSON" stdout - whatever a
		// decoder that stops after the first value would make of its prefix
		{Name: "valid-then-garbage", Label: soUndecodable, Text: func(c string) string { return honest(c) + "}xyz" }},
		{Name: "valid-then-text-line", Label: soUndecodable, Text: func(c string) string { return honest(c) + "\nWARNING: token expires soon\n" }},
		{Name: "valid-then-second-document", Label: soUndecodable, Text: func(c string) string { return honest(c) + honestReplyB[c] }},
		{Name: "valid-then-same-document-again", Label: soUndecodable, Thorough: true, Text: func(c string) string { return honest(c) + "\n" + honest(c) + "\n" }},
		{Name: "valid-then-closing-bracket", Label: soUndecodable, Thorough: true, Text: func(c string) string { return honest(c) + " ]" }},
		{Name: "valid-then-comma", Label: soUndecodable, Thorough: true, Text: func(c string) string { return honest(c) + "," }},
		{Name: "valid-then-nul-byte", Label: soUndecodable, Thorough: true, Text: func(c string) string { return honest(c) + "\x00" }},
		{Name: "truncated", Label: soUndecodable, Thorough: true, Text: func(c string) string { h := honest(c); return h[:len(h)-1] }},
		{Name: "json-string", Label: soUndecodable, Thorough: true, Text: constText(`"ok"`)},
		{Name: "valid-b", Label: soHonest, PairOnly: true, Text: func(c string) string { return honestReplyB[c] }},
		{Name: "valid-long", Label: soHonest, PairOnly: true, Text: func(c string) string { return honestReplyLong[c] }},
		{Name: "hashes-of-the-length-of-valid", Label: soUndecodable, PairOnly: true, Text: func(c string) string { return strings.Repeat("#", len(honest(c))) }},
		{Name: "valid-plus-oversize-blanks", Label: soOversize, Pad: true, Text: honest},
		{Name: "oversize-garbage", Label: soOversize, Garbage: true, Text: constText("")},
		// a valid reply, blanks up to beyond the cap, then garbage: as a whole NOT a JSON value, although its first
		// 64 MiB are one (a host that silently stops reading at the cap would take the prefix for the reply)
		// file-name family (nameRows): a complete metadata reply announcing Case.Announce; its label is the hand-written
		// verdict of the row (Case.Plug, Case.Announce), see rowFor
		{Name: soAnnounces, Label: soInvalidMeta, Field: "name-mismatch", MetaOnly: true, PairOnly: true, Text: honest},
		{Name: "valid-blanks-beyond-cap-then-garbage", Label: soOversize, Pad: true, Tail: "}xyz", PairOnly: true, Text: honest},
	}
	for _, f := range metaFields {
		f := f
		ks = append(ks, soKind{Name: "meta-missing:" + f[0], Label: soInvalidMeta, Field: f[0], MetaOnly: true,
			Text: func(string) string { return metaJSON(map[string]string{f[0]: "\x00"}) }})
	}
	for _, f := range metaFields {
		f := f
		empty := `""`
		if strings.HasPrefix(f[1], "[") {
			empty = `[]`
		}
		// an empty or null member is arguably "present": judged only where another stated clause is broken too
		// (name != file name, no supported contract version)
		lenient := f[0] != "name" && f[0] != "supportedContractVersions"
		ks = append(ks, soKind{Name: "meta-empty:" + f[0], Demoted: lenient, Label: soInvalidMeta, Field: f[0], MetaOnly: true, Thorough: true,
			Text: func(string) string { return metaJSON(map[string]string{f[0]: empty}) }})
		ks = append(ks, soKind{Name: "meta-null:" + f[0], Demoted: lenient, Label: soInvalidMeta, Field: f[0], MetaOnly: true, Thorough: true,
			Text: func(string) string { return metaJSON(map[string]string{f[0]: "null"}) }})
	}
	ks = append(ks,
		soKind{Name: "meta-name-mismatch", Label: soInvalidMeta, Field: "name-mismatch", MetaOnly: true,
			Text: func(string) string { return metaJSON(map[string]string{"name": `"other"`}) }},
		soKind{Name: "meta-name-mismatch-case", Demoted: true, Label: soInvalidMeta, Field: "name-mismatch", MetaOnly: true, Thorough: true,
			Text: func(string) string { return metaJSON(map[string]string{"name": `"C17P"`}) }},
		soKind{Name: "meta-name-mismatch-prefixed", Demoted: true, Label: soInvalidMeta, Field: "name-mismatch", MetaOnly: true, Thorough: true,
			Text: func(string) string { return metaJSON(map[string]string{"name": `"notation-c17p"`}) }},
		soKind{Name: "meta-unsupported-contract-version", Label: soInvalidMeta, Field: "unsupported-contract-version", MetaOnly: true,
			Text: func(string) string { return metaJSON(map[string]string{"supportedContractVersions": `["2.0"]`}) }},
		soKind{Name: "meta-unsupported-contract-versions", Label: soInvalidMeta, Field: "unsupported-contract-version", MetaOnly: true, Thorough: true,
			Text: func(string) string {
				return metaJSON(map[string]string{"supportedContractVersions": `["0.9","1.1","2.0"]`})
			}},
		soKind{Name: "meta-multi-version", Label: soHonest, MetaOnly: true, Versions: []string{"0.9", "1.0", "2.0"},
			Text: func(string) string {
				return metaJSON(map[string]string{"supportedContractVersions": `["0.9","1.0","2.0"]`})
			}},
	)
	// announced contract versions, hand-labelled: the host speaks exactly "1.0"; a list is supported iff that very
	// string is a member (any position); near misses are not "a supported contract version"
	for _, v := range []struct {
		raw       string
		vers      []string
		supported bool
		lenient   bool // another denotation of version 1.0 (a numeric/trimming comparison would accept it): recorded only
	}{
		{`["1.1"]`, nil, false, false},
		{`["1.0","2.0"]`, []string{"1.0", "2.0"}, true, false},
		{`["2.0","1.0"]`, []string{"2.0", "1.0"}, true, false},
		{`["1"]`, nil, false, true},
		{`["1.0.0"]`, nil, false, true},
		{`["01.0"]`, nil, false, true},
		{`[" 1.0"]`, nil, false, true},
		{`["1.10"]`, nil, false, false},
		{`["1.1","1.2"]`, nil, false, false},
		{`[]`, nil, false, false},
	} {
		v := v
		k := soKind{Name: "meta-versions:" + v.raw, MetaOnly: true, Versions: v.vers, Demoted: v.lenient,
			Text: func(string) string { return metaJSON(map[string]string{"supportedContractVersions": v.raw}) }}
		if v.supported {
			k.Label = soHonest
		} else {
			k.Label, k.Field = soInvalidMeta, "unsupported-contract-version:"+strings.ReplaceAll(strings.Trim(v.raw, "[]"), `"`, "")
			if v.raw == "[]" {
				k.Field = "supportedContractVersions"
			}
		}
		ks = append(ks, k)
	}
	var out []soKind
	for _, k := range ks {
		if k.Thorough && !thorough {
			continue
		}
		out = append(out, k)
	}
	return out
}

// labelFor is the label of a stdout kind for a command: null and {} lack every
// mandatory metadata field, so for get-plugin-metadata they are judged.
func (k soKind) labelFor(cmd string) (label, field string) {
	if cmd == "get-plugin-metadata" && (k.Name == "null" || k.Name == "empty-object") {
		return soInvalidMeta, k.Name
	}
	return k.Label, k.Field
}

// ---- stderr ----

const (
	seEmpty        = "empty"
	seStructured   = "structured"         // exit != 0 => RequestError with that code
	seLenient      = "structured-lenient" // unknown code / code only / message only: RequestError with that code or malformed-plugin error
	seUnstructured = "unstructured"       // exit != 0 => executable-file or malformed-plugin error
	seHuge         = "huge"               // larger than the cap: any typed error
)

type seKind struct {
	Name     string
	Label    string
	Code     string
	Text     string
	Pad      bool
	Thorough bool
}

var protoCodes = []string{"VALIDATION_ERROR", "UNSUPPORTED_CONTRACT_VERSION", "ACCESS_DENIED", "TIMEOUT", "THROTTLED", "ERROR"}

func stderrKinds(thorough bool) []seKind {
	ks := []seKind{{Name: "empty", Label: seEmpty}}
	for _, c := range protoCodes {
		ks = append(ks, seKind{Name: "err:" + c, Label: seStructured, Code: c, Text: `{"errorCode":"` + c + `","errorMessage":"scripted failure"}`})
	}
	ks = append(ks,
		seKind{Name: "err-unknown-code", Label: seLenient, Code: "C17_UNKNOWN", Text: `{"errorCode":"C17_UNKNOWN","errorMessage":"scripted failure"}`},
		seKind{Name: "err-with-metadata-newline", Label: seStructured, Code: "ACCESS_DENIED", Thorough: true, Text: `{"errorCode":"ACCESS_DENIED","errorMessage":"m","errorMetadata":{"k":"v"}}` + "\n"},
		seKind{Name: "err-code-only", Label: seLenient, Code: "ERROR", Thorough: true, Text: `{"errorCode":"ERROR"}`},
		seKind{Name: "err-message-only", Label: seLenient, Code: "", Thorough: true, Text: `{"errorMessage":"only a message"}`},
		seKind{Name: "empty-object", Label: seUnstructured, Text: `{}`},
		// class "stderr is valid JSON but no structured error" (no errorCode, no errorMessage): the plugin printed no
		// structured error, so the statement's "otherwise" applies
		seKind{Name: "null", Label: seUnstructured, Text: `null`},
		seKind{Name: "null-in-whitespace", Label: seUnstructured, Text: " null\n"},
		seKind{Name: "object-without-error-members", Label: seUnstructured, Text: `{"unrelated":"member"}`},
		seKind{Name: "json-array", Label: seUnstructured, Thorough: true, Text: `["x"]`},
		seKind{Name: "json-empty-array", Label: seUnstructured, Thorough: true, Text: `[]`},
		seKind{Name: "json-string", Label: seUnstructured, Thorough: true, Text: `"something failed"`},
		seKind{Name: "json-number", Label: seUnstructured, Thorough: true, Text: `42`},
		seKind{Name: "json-true", Label: seUnstructured, Thorough: true, Text: `true`},
		seKind{Name: "non-json", Label: seUnstructured, Text: "panic: something went wrong\n"},
		seKind{Name: "oversize-blanks", Label: seHuge, Pad: true},
		seKind{Name: "err-plus-oversize-blanks", Label: seHuge, Code: "ERROR", Pad: true, Text: `{"errorCode":"ERROR","errorMessage":"scripted failure"}`},
	)
	var out []seKind
	for _, k := range ks {
		if k.Thorough && !thorough {
			continue
		}
		out = append(out, k)
	}
	return out
}

// all kinds by name (thorough superset), for replay and judging
var soByName = func() map[string]soKind {
	m := map[string]soKind{}
	for _, k := range stdoutKinds(true) {
		m[k.Name] = k
	}
	return m
}()

var seByName = func() map[string]seKind {
	m := map[string]seKind{}
	for _, k := range stderrKinds(true) {
		m[k.Name] = k
	}
	return m
}()

func exits(thorough bool) []string {
	if thorough {
		return []string{"0", "1", "2", "killed", "3", "126", "127", "255"}
	}
	return []string{"0", "1", "2", "killed"}
}

// The exit-status dimension beyond the members of the full product: statuses that carry a conventional meaning for
// shells, wrappers and container runtimes (sysexits EX_USAGE 64, "the wrapper itself failed" 125, "found but not
// executable" 126, "not found" 127, "invalid exit argument" 128, 128+SIGINT/SIGKILL/SIGTERM, out-of-range 255) and
// deaths by a signal other than SIGKILL ("sig:<NAME>", a generated /bin/sh plugin kills itself after it has written
// both streams). To the statement every one of them is just "a failing process": the stderr clause applies unchanged.
var specialExits = []string{"3", "64", "125", "126", "127", "128", "130", "137", "143", "255", "sig:TERM", "sig:INT", "sig:HUP", "sig:PIPE", "sig:SEGV"}

func isSignalExit(e string) bool { return strings.HasPrefix(e, "sig:") }

// ---- file-name family ----

const soAnnounces = "meta-announces"

const (
	nameEqual    = "equal"    // the announced name IS the plugin's file name (without the notation- prefix): honest
	nameMismatch = "mismatch" // success forbidden
	nameLenient  = "lenient"  // equal under a reading the statement does not exclude (letter case on a case-insensitive
	// file system; the literal file name, prefix included): recorded, never judged
)

// nameRow is one hand-labelled pair (plugin's file name, announced name). Nothing is computed: every row is written out.
type nameRow struct {
	Plug, Announce string
	Verdict        string
	Class          string // stable class name of the mismatch (violation key)
}

// On this (Unix) host the executable of plugin P is the file "notation-P" - that is how CLIManager names, lists and
// installs plugins; dots and dashes are legal in P and an extension is part of the name.
var nameRows = []nameRow{
	{"c17p", "c17p", nameEqual, ""},
	{"c17p", "c17p.exe", nameMismatch, "exe-extension-added"},
	{"c17p", "c17", nameMismatch, "announced-is-proper-prefix-of-file-name"},
	{"c17p", "c17pp", nameMismatch, "file-name-is-proper-prefix-of-announced"},
	{"c17p", "C17P", nameLenient, "letter-case"},
	{"c17p", "notation-c17p", nameLenient, "literal-file-name"},

	{"c17p.exe", "c17p.exe", nameEqual, ""},
	{"c17p.exe", "c17p", nameMismatch, "exe-extension-stripped"},
	{"c17p.exe", "c17p.exe.exe", nameMismatch, "exe-extension-added"},
	{"c17p.exe", "notation-c17p", nameMismatch, "exe-extension-stripped-from-literal-file-name"},
	{"c17p.exe", "c17p.EXE", nameLenient, "letter-case"},
	{"c17p.exe", "notation-c17p.exe", nameLenient, "literal-file-name"},

	{"c17p.EXE", "c17p.EXE", nameEqual, ""},
	{"c17p.EXE", "c17p", nameMismatch, "EXE-extension-stripped"},
	{"c17p.EXE", "c17p.exe", nameLenient, "letter-case"},

	{"c17p.sh", "c17p.sh", nameEqual, ""},
	{"c17p.sh", "c17p", nameMismatch, "sh-extension-stripped"},

	{"c17p.bat", "c17p.bat", nameEqual, ""},
	{"c17p.bat", "c17p", nameMismatch, "bat-extension-stripped"},

	{"c17p.example.plugin", "c17p.example.plugin", nameEqual, ""},
	{"c17p.example.plugin", "c17p.example", nameMismatch, "last-extension-stripped"},
	{"c17p.example.plugin", "c17p", nameMismatch, "all-extensions-stripped"},
	{"c17p.example.plugin", "example.plugin", nameMismatch, "first-dot-segment-stripped"},

	{"c17p.v1.0", "c17p.v1.0", nameEqual, ""},
	{"c17p.v1.0", "c17p.v1", nameMismatch, "last-extension-stripped"},
	{"c17p.v1.0", "c17p", nameMismatch, "all-extensions-stripped"},

	{"c17-p", "c17-p", nameEqual, ""},
	{"c17-p", "c17", nameMismatch, "cut-at-dash"},
	{"c17-p", "p", nameMismatch, "after-last-dash"},
	{"c17-p", "c17_p", nameMismatch, "dash-replaced"},

	{"notation-c17p", "notation-c17p", nameEqual, ""},
	{"notation-c17p", "c17p", nameMismatch, "prefix-stripped-twice"},
	{"notation-c17p", "notation-notation-c17p", nameLenient, "literal-file-name"},

	{"C17P", "C17P", nameEqual, ""},
	{"C17P", "c17p", nameLenient, "letter-case"},
}

// plugNames: the distinct plugin names of nameRows, in order of first appearance.
func plugNames() []string {
	var out []string
	seen := map[string]bool{}
	for _, r := range nameRows {
		if !seen[r.Plug] {
			seen[r.Plug] = true
			out = append(out, r.Plug)
		}
	}
	return out
}

func rowFor(plug, announce string) (nameRow, bool) {
	for _, r := range nameRows {
		if r.Plug == plug && r.Announce == announce {
			return r, true
		}
	}
	return nameRow{}, false
}

// kindOf is the stdout kind of a case; for the file-name family its label is that of the hand-labelled row.
func kindOf(c Case) (soKind, bool) {
	so, ok := soByName[c.Stdout]
	if !ok || so.Name != soAnnounces {
		return so, ok
	}
	r, ok := rowFor(c.plug(), c.Announce)
	if !ok {
		return so, false
	}
	switch r.Verdict {
	case nameEqual:
		so.Label, so.Field = soHonest, ""
	case nameMismatch:
		so.Label, so.Field = soInvalidMeta, "name-mismatch:"+r.Class
	case nameLenient:
		so.Label, so.Field, so.Demoted = soInvalidMeta, "name-mismatch:"+r.Class, true
	}
	return so, true
}

// ---- timing / context ----

const (
	tImmediate   = "immediate"
	tSlow        = "slow-1s"                // sleeps 1 s, then answers (background context only)
	tSleep       = "sleep-60s"              // sleeps far past the context end
	tSleepNoTerm = "sleep-60s-ignore-term"  // same, SIGTERM/SIGINT ignored
	tDescExit    = "desc-60s-then-exit"     // forks a descendant holding stdout+stderr for 60 s, answers, exits
	tDescSleep   = "desc-60s-and-sleep-60s" // forks the descendant and sleeps itself
	// generated /bin/sh plugins (plugbin has no knob for these)
	tShStdout = "sh-desc-holds-stdout-only"
	tShStderr = "sh-desc-holds-stderr-only"
	tShStdin  = "sh-desc-holds-stdin-only" // with req=large: the host's stdin writer blocks on a full pipe
	tShSetsid = "sh-desc-setsid"           // descendant in its own session, holds stdout+stderr
	// ignores SIGPIPE/EPIPE: keeps going when the host closes the pipe at the cap, and exits with the scripted code
	tShIgnorePipe = "sh-ignores-sigpipe"
	// prints its stderr COMPLETELY (then creates the file "printed"), and only then sleeps far past the context's end
	tShErrSleep       = "sh-stderr-then-sleep-60s"
	tShErrSleepNoTerm = "sh-stderr-then-sleep-60s-ignore-term"
)

const (
	cBackground = "background"
	cDeadline   = "deadline-300ms"
	cCancel     = "cancel-300ms"
	cCancelled  = "already-cancelled"
	cFar        = "deadline-far"
)

func isDesc(t string) bool         { return strings.Contains(t, "desc") }
func isErrThenSleep(t string) bool { return t == tShErrSleep || t == tShErrSleepNoTerm }
func isSh(t string) bool           { return strings.HasPrefix(t, "sh-") }
