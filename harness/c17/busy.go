package main

import (
	"context"
	"encoding/json"
	"fmt"
	"os"
	"path/filepath"
	"strconv"
	"strings"
	"sync"
	"time"

	"github.com/notaryproject/notation-go/plugin"
	"github.com/notaryproject/notation-go/zzverif/lib/hx"
)

// Busy host: "a call returns within a bounded delay after its context is cancelled or expires, whatever the plugin
// or its descendants do" holds for every call, also for one that is made while K other calls are inside plugins
// that do not answer (history family; timing "busy-host:<K>"). The probe's context ends after a fixed allowance that
// does not depend on anything the plugins do, and the only judged quantity is the time from that end to the return.

const tBusyPrefix = "busy-host:"

func isBusyHost(t string) bool { return strings.HasPrefix(t, tBusyPrefix) }

func busyHolders(t string) int {
	n, _ := strconv.Atoi(strings.TrimPrefix(t, tBusyPrefix))
	return n
}

func countLines(path string) int {
	b, err := os.ReadFile(path)
	if err != nil {
		return 0
	}
	return strings.Count(string(b), "\n")
}

// addMarker makes the scripted plugin at path append a line to marker on every run.
func addMarker(path, marker string) error {
	b, err := os.ReadFile(path + ".json")
	if err != nil {
		return err
	}
	var m map[string]any
	if err := json.Unmarshal(b, &m); err != nil {
		return err
	}
	m["marker"] = marker
	b, _ = json.Marshal(m)
	return os.WriteFile(path+".json", b, 0o644)
}

func runBusyHost(root, id string, c Case) (res result) {
	k := busyHolders(c.Timing)
	dir := filepath.Join(root, id)
	marker := dir + "/"
	defer func() {
		killMarked(marker)
		removeAll(dir)
	}()
	started := filepath.Join(dir, "started")
	holderCtx, stopHolders := context.WithCancel(context.Background())
	var hwg sync.WaitGroup
	defer func() {
		stopHolders()
		killMarked(marker)
		waitTimeout(&hwg, hx.Budget(40*time.Second))
	}()
	// K calls, spread over the five commands, inside plugins that sleep; their contexts do not end by themselves
	for i := 0; i < k && i < len(commands); i++ {
		hc := Case{Cmd: commands[i], Exit: "0", Stdout: "valid", Stderr: "empty", Timing: tSleep, Ctx: cBackground, Req: "small"}
		path, err := install(root, filepath.Join(dir, "h"+itoa(i)), hc)
		if err == nil {
			err = addMarker(path, started)
		}
		if err != nil {
			res.Setup = "busy host: " + err.Error()
			return
		}
	}
	for i := 0; i < k; i++ {
		cmd := commands[i%len(commands)]
		p, err := plugin.NewCLIPlugin(context.Background(), pluginName, filepath.Join(dir, "h"+itoa(i%len(commands)), "notation-"+pluginName))
		if err != nil {
			res.Setup = "busy host: " + err.Error()
			return
		}
		hwg.Add(1)
		go func() {
			defer hwg.Done()
			defer func() { _ = recover() }()
			_, _ = invoke(holderCtx, p, cmd, false)
		}()
	}
	// wait until the holders are inside their plugins: all K have started, or the number has stopped growing
	// (an implementation may admit only some of them at a time); this wait decides nothing
	last, lastChange, t0 := -1, time.Now(), time.Now()
	for {
		n := countLines(started)
		if n >= k {
			break
		}
		if n != last {
			last, lastChange = n, time.Now()
		}
		if time.Since(lastChange) > hx.Budget(2*time.Second) || time.Since(t0) > hx.Budget(30*time.Second) {
			break
		}
		time.Sleep(10 * time.Millisecond)
	}
	// the probe: one more call, whose context ends
	pc := Case{Cmd: c.Cmd, Exit: "0", Stdout: "valid", Stderr: "empty", Timing: tSleep, Ctx: cBackground, Req: "small"}
	path, err := install(root, filepath.Join(dir, "probe"), pc)
	if err != nil {
		res.Setup = "busy host: " + err.Error()
		return
	}
	p, err := plugin.NewCLIPlugin(context.Background(), pluginName, path)
	if err != nil {
		res.Setup = "busy host: " + err.Error()
		return
	}
	kind, delay := ctxSpec(c.Ctx)
	if delay <= 0 {
		res.Setup = "busy host: the probe needs a context that ends, got " + c.Ctx
		return
	}
	var ctx context.Context
	var cancel context.CancelFunc
	if kind == "deadline" {
		ctx, cancel = context.WithTimeout(context.Background(), delay)
	} else {
		ctx, cancel = context.WithCancel(context.Background())
		t := time.AfterFunc(delay, cancel)
		defer t.Stop()
	}
	defer cancel()
	done := make(chan callOut, 1)
	start := time.Now()
	go func() {
		var o callOut
		defer func() {
			if v := recover(); v != nil {
				o.pan = v
			}
			done <- o
		}()
		o.resp, o.err = invoke(ctx, p, c.Cmd, false)
	}()
	res.AfterEndMS = -1
	var out callOut
	got := false
	select {
	case out = <-done:
		got = true
	case <-ctx.Done():
		end := time.Now()
		select {
		case out = <-done:
			got = true
			res.AfterEndMS = time.Since(end).Milliseconds()
		case <-time.After(giveUpAfterCtxEnd):
		}
	}
	res.ElapsedMS = time.Since(start).Milliseconds()
	if !got {
		stopHolders()
		killMarked(marker)
		select {
		case <-done:
		case <-time.After(hx.Budget(30 * time.Second)):
			res.Setup = fmt.Sprintf("busy host: the probe did not return even after all %d other calls were released", k)
		}
		return
	}
	if out.pan != nil {
		panic(out.pan)
	}
	fillResult(pc, out, &res)
	return
}

func waitTimeout(wg *sync.WaitGroup, d time.Duration) {
	ch := make(chan struct{})
	go func() { wg.Wait(); close(ch) }()
	select {
	case <-ch:
	case <-time.After(d):
	}
}
