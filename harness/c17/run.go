package main

import (
	"context"
	"encoding/json"
	"errors"
	"fmt"
	"os"
	"os/exec"
	"path/filepath"
	"reflect"
	"strconv"
	"strings"
	"sync/atomic"
	"syscall"
	"time"

	"github.com/notaryproject/notation-go/plugin"
	"github.com/notaryproject/notation-go/plugin/proto"
	"github.com/notaryproject/notation-go/zzverif/lib/hx"
	fw "github.com/notaryproject/notation-plugin-framework-go/plugin"
)

// result is what one real call through CLIPlugin produced.
type result struct {
	Returned    bool   `json:"returned"`     // false: the harness gave up waiting
	Success     bool   `json:"success"`      // err == nil
	ErrClass    string `json:"err_class"`    // ok | request-error | malformed | executable-file | untyped
	Code        string `json:"code"`         // RequestError code
	Err         string `json:"err"`          // error text (cut)
	DecodedOK   bool   `json:"decoded_ok"`   // success: the response equals the hand-written expectation of the honest reply
	MetaProblem string `json:"meta_problem"` // success on metadata: which stated clause the RETURNED metadata breaks
	ElapsedMS   int64  `json:"elapsed_ms"`
	AfterEndMS  int64  `json:"after_end_ms"` // time between the end of the context and the return (-1: returned before)
	HWMBeforeKB int64  `json:"hwm_before_kb"`
	HWMAfterKB  int64  `json:"hwm_after_kb"`
	Printed     bool   `json:"printed"`     // stderr-then-sleep plugins: the plugin had finished writing its stderr (marker file) before it was killed
	EnvFailure  bool   `json:"env_failure"` // the call failed because the machine had no process/memory/descriptor left (or starved the pipe readers)
	Setup       string `json:"setup"`       // non-empty: harness could not set the case up
}

// the ONLY timing bound of this harness: 20 s, stretched by the machine's load factor (hx.Budget, at most x4)
var giveUpAfterCtxEnd = hx.Budget(20 * time.Second)

// background context + descendant: not judged, only bounded so that the run ends
var giveUpNoCtx = hx.Budget(25 * time.Second)

// a case that cannot be explained: infrastructure error
var safetyLimit = hx.Budget(90 * time.Second)

// how long sleeping plugins and pipe-holding descendants stay (the timing names say 60s for key stability): far
// beyond every stretched bound; all of them are killed when their case ends
const holdMS = 600000

// environmentFailure: the call failed for a reason that is the overloaded machine's, not the plugin's or the host's
// decision: no process/memory/descriptor could be had, or (only asked for calls without pipe-holding descendants)
// the host's wall-clock WaitDelay expired because the starved copying goroutines had not drained the pipes yet.
func environmentFailure(err error, waitDelayToo bool) bool {
	if err == nil {
		return false
	}
	for _, e := range []error{syscall.EAGAIN, syscall.ENOMEM, syscall.EMFILE, syscall.ENFILE, syscall.ETXTBSY} {
		if errors.Is(err, e) {
			return true
		}
	}
	return waitDelayToo && errors.Is(err, exec.ErrWaitDelay)
}

// ctxSpec parses a context name: kind deadline|cancel with a delay, or one of the fixed ones.
func ctxSpec(name string) (kind string, delay time.Duration) {
	for _, p := range []string{"deadline-", "cancel-"} {
		if strings.HasPrefix(name, p) && strings.HasSuffix(name, "ms") {
			if ms, err := strconv.Atoi(strings.TrimSuffix(strings.TrimPrefix(name, p), "ms")); err == nil {
				return strings.TrimSuffix(p, "-"), time.Duration(ms) * time.Millisecond
			}
		}
	}
	return name, 0
}

func isCtxLimited(name string) bool {
	k, d := ctxSpec(name)
	return d > 0 && (k == "deadline" || k == "cancel")
}

type behaviour struct {
	Exit          int    `json:"exit"`
	Stdout        string `json:"stdout"`
	Stderr        string `json:"stderr"`
	StdoutPad     int    `json:"stdout_pad"`
	StderrPad     int    `json:"stderr_pad"`
	StdoutGarbage int    `json:"stdout_garbage"`
	SleepMS       int    `json:"sleep_ms"`
	IgnoreTerm    bool   `json:"ignore_term"`
	ChildSleepMS  int    `json:"child_sleep_ms"`
	KillSelf      bool   `json:"kill_self"`
}

// writeFileNoFork writes a file while no fork can happen, so that no child
// process inherits the descriptor open for writing (exec would fail with ETXTBSY).
func writeFileNoFork(path string, data []byte, mode os.FileMode) error {
	syscall.ForkLock.RLock()
	defer syscall.ForkLock.RUnlock()
	return os.WriteFile(path, data, mode)
}

// install creates the plugin of a case in dir and returns the executable's path.
func install(root, dir string, c Case) (string, error) {
	if err := os.MkdirAll(dir, 0o755); err != nil {
		return "", err
	}
	so, ok1 := kindOf(c)
	se, ok2 := seByName[c.Stderr]
	if !ok1 || !ok2 {
		return "", fmt.Errorf("unknown stdout/stderr kind %q/%q (plugin %q announcing %q)", c.Stdout, c.Stderr, c.Plug, c.Announce)
	}
	if (c.Plug != "" || c.Announce != "" || isSignalExit(c.Exit)) && c.Timing != tImmediate {
		return "", fmt.Errorf("file-name family and deaths by signal exist only with timing %q", tImmediate)
	}
	big := c.BigMiB
	if big == 0 {
		big = 65
	}
	path := filepath.Join(dir, "notation-"+c.plug())
	if isSignalExit(c.Exit) {
		// a plugin that writes both streams completely and then dies by the named signal (plugbin has no knob for it)
		if so.Pad || so.Garbage || se.Pad || strings.Contains(stdoutText(c, so)+se.Text, "'") {
			return "", fmt.Errorf("unsupported stream kind for the sh plugin that dies by a signal")
		}
		sig := strings.TrimPrefix(c.Exit, "sig:")
		for _, r := range sig {
			if r < 'A' || r > 'Z' {
				return "", fmt.Errorf("exit %q", c.Exit)
			}
		}
		script := "#!/bin/sh\n# generated by the C17 harness\nulimit -c 0 2>/dev/null\n" +
			"printf '%s' '" + stdoutText(c, so) + "'\n" +
			"printf '%s' '" + se.Text + "' >&2\n" +
			"kill -s " + sig + " $$\nsleep 1\nexit 0\n"
		return path, writeFileNoFork(path, []byte(script), 0o755)
	}
	if isSh(c.Timing) {
		sleeper := filepath.Join(dir, "sleeper")
		if err := os.Link(filepath.Join(root, "plugbin"), sleeper); err != nil {
			return "", err
		}
		if c.Timing == tShIgnorePipe {
			if se.Pad || strings.Contains(so.Text(c.Cmd)+se.Text+so.Tail, "'") {
				return "", fmt.Errorf("unsupported stream kind for the sh plugin that ignores SIGPIPE")
			}
			script := "#!/bin/sh\n# generated by the C17 harness\ntrap '' PIPE\n"
			if so.Garbage {
				script += fmt.Sprintf("head -c %d /dev/zero 2>/dev/null | tr '\\000' 'x' 2>/dev/null\n", big<<20)
			} else {
				script += "printf '%s' '" + strings.ReplaceAll(so.Text(c.Cmd), "\n", "") + "' 2>/dev/null\n"
				if so.Pad {
					script += fmt.Sprintf("head -c %d /dev/zero 2>/dev/null | tr '\\000' ' ' 2>/dev/null\n", big<<20)
				}
				if so.Tail != "" {
					script += "printf '%s' '" + so.Tail + "' 2>/dev/null\n"
				}
			}
			script += "printf '%s' '" + strings.ReplaceAll(se.Text, "\n", "") + "' >&2\n"
			if c.Exit == "killed" {
				script += "kill -9 $$\nsleep 1\n"
			} else {
				script += "exit " + c.Exit + "\n"
			}
			return path, writeFileNoFork(path, []byte(script), 0o755)
		}
		if so.Pad || so.Garbage || se.Pad {
			return "", fmt.Errorf("sh plugins do not support oversized streams")
		}
		if isErrThenSleep(c.Timing) {
			if strings.Contains(se.Text, "'") {
				return "", fmt.Errorf("text with a quote in a sh plugin")
			}
			trap := ""
			if c.Timing == tShErrSleepNoTerm {
				trap = "trap '' TERM INT\n"
			}
			// printf is one write(2) on the unbuffered fd 2; the marker file is created after it returned;
			// exec turns the plugin process itself into the sleeper (killable by its command line)
			script := "#!/bin/sh\n# generated by the C17 harness\n" + trap + "S='" + sleeper + "'\n" +
				"printf '%s' '" + strings.ReplaceAll(se.Text, "\n", "") + "' >&2\n" +
				": > '" + filepath.Join(dir, "printed") + "'\n" +
				"exec \"$S\" --sleep-child " + itoa(holdMS) + "\n"
			return path, writeFileNoFork(path, []byte(script), 0o755)
		}
		var bg string
		switch c.Timing {
		case tShStdout:
			bg = `"$S" --sleep-child ` + itoa(holdMS) + ` </dev/null 2>/dev/null 3<&- &`
		case tShStderr:
			bg = `"$S" --sleep-child ` + itoa(holdMS) + ` </dev/null >/dev/null 3<&- &`
		case tShStdin:
			bg = `"$S" --sleep-child ` + itoa(holdMS) + ` <&3 3<&- >/dev/null 2>&1 &`
		case tShSetsid:
			bg = `setsid "$S" --sleep-child ` + itoa(holdMS) + ` </dev/null 3<&- &`
		default:
			return "", fmt.Errorf("unknown sh timing %q", c.Timing)
		}
		stdout, stderr := so.Text(c.Cmd), se.Text
		if strings.Contains(stdout+stderr, "'") {
			return "", fmt.Errorf("text with a quote in a sh plugin")
		}
		end := "exit " + c.Exit
		if c.Exit == "killed" {
			end = "kill -9 $$\nsleep 1"
		}
		script := "#!/bin/sh\n# generated by the C17 harness\nS='" + sleeper + "'\nexec 3<&0\n" + bg + "\nexec 3<&-\n" +
			"printf '%s' '" + strings.ReplaceAll(stdout, "\n", "") + "'\n" +
			"printf '%s' '" + strings.ReplaceAll(stderr, "\n", "") + "' >&2\n" + end + "\n"
		return path, writeFileNoFork(path, []byte(script), 0o755)
	}
	if err := os.Link(filepath.Join(root, "plugbin"), path); err != nil {
		return "", err
	}
	b := behaviour{Stdout: stdoutText(c, so), Stderr: se.Text}
	if so.Pad {
		b.StdoutPad = big << 20
	}
	if so.Garbage {
		b.StdoutGarbage = big << 20
	}
	if se.Pad {
		b.StderrPad = big << 20
	}
	if c.Exit == "killed" {
		b.KillSelf = true
	} else {
		n, err := strconv.Atoi(c.Exit)
		if err != nil {
			return "", fmt.Errorf("exit %q", c.Exit)
		}
		b.Exit = n
	}
	switch c.Timing {
	case tImmediate:
	case tSlow:
		b.SleepMS = 1000
	case tSleep:
		b.SleepMS = holdMS
	case tSleepNoTerm:
		b.SleepMS = holdMS
		b.IgnoreTerm = true
	case tDescExit:
		b.ChildSleepMS = holdMS
	case tDescSleep:
		b.ChildSleepMS = holdMS
		b.SleepMS = holdMS
	default:
		return "", fmt.Errorf("unknown timing %q", c.Timing)
	}
	cfg := map[string]any{"name": pluginName, "commands": map[string]behaviour{c.Cmd: b}}
	j, _ := json.Marshal(cfg)
	return path, os.WriteFile(path+".json", j, 0o644)
}

// stdoutText is what the plugin of a case prints on stdout: the kind's text; in the file-name family the metadata
// reply announces Case.Announce ("meta-announces") or, for the plain honest kind, the plugin's own name.
func stdoutText(c Case, so soKind) string {
	if c.Cmd == "get-plugin-metadata" && (c.Plug != "" || c.Announce != "") {
		name := ""
		switch so.Name {
		case soAnnounces:
			name = c.Announce
		case "valid":
			name = c.plug()
		default:
			return so.Text(c.Cmd)
		}
		q, _ := json.Marshal(name)
		return metaJSON(map[string]string{"name": string(q)})
	}
	return so.Text(c.Cmd)
}

var largePad = strings.Repeat("x", 1<<20)

// invoke calls the CLIPlugin method of the command with an honest request.
func invoke(ctx context.Context, p *plugin.CLIPlugin, cmd string, large bool) (any, error) {
	var cfg map[string]string
	if large {
		cfg = map[string]string{"pad": largePad}
	}
	switch cmd {
	case "get-plugin-metadata":
		return p.GetMetadata(ctx, &fw.GetMetadataRequest{PluginConfig: cfg})
	case "describe-key":
		return p.DescribeKey(ctx, &fw.DescribeKeyRequest{KeyID: "k1", PluginConfig: cfg})
	case "generate-signature":
		return p.GenerateSignature(ctx, &fw.GenerateSignatureRequest{KeyID: "k1", KeySpec: fw.KeySpecRSA2048, Hash: fw.HashAlgorithmSHA256, Payload: []byte("payload"), PluginConfig: cfg})
	case "generate-envelope":
		return p.GenerateEnvelope(ctx, &fw.GenerateEnvelopeRequest{KeyID: "k1", PayloadType: "application/vnd.cncf.notary.payload.v1+json", SignatureEnvelopeType: "application/jose+json", Payload: []byte("payload"), PluginConfig: cfg})
	case "verify-signature":
		return p.VerifySignature(ctx, &fw.VerifySignatureRequest{
			Signature:   fw.Signature{CriticalAttributes: fw.CriticalAttributes{ContentType: "application/vnd.cncf.notary.payload.v1+json", SigningScheme: "notary.x509"}, CertificateChain: [][]byte{[]byte("cert")}},
			TrustPolicy: fw.TrustPolicy{TrustedIdentities: []string{"*"}, SignatureVerification: []fw.Capability{fw.CapabilityTrustedIdentityVerifier}}, PluginConfig: cfg})
	}
	return nil, fmt.Errorf("harness: unknown command %q", cmd)
}

// expected decoded value of the honest replies (hand-written, not json-decoded)
func decodedAsExpected(c Case, resp any) bool {
	variant := "a"
	switch c.Stdout {
	case "valid-b":
		variant = "b"
	case "valid-long":
		variant = "long"
	}
	switch c.Cmd {
	case "get-plugin-metadata":
		m, ok := resp.(*fw.GetMetadataResponse)
		if !ok || m == nil {
			return false
		}
		w := fw.GetMetadataResponse{Name: c.plug(), Description: "scripted plugin", Version: "1.0.0", URL: "https://example.com/c17",
			SupportedContractVersions: []string{"1.0"}, Capabilities: []fw.Capability{fw.CapabilitySignatureGenerator}}
		if k := soByName[c.Stdout]; k.Versions != nil {
			w.SupportedContractVersions = k.Versions
		}
		switch variant {
		case "b":
			w.Description, w.Version, w.URL, w.Capabilities = "SCRIPTED PLUGIN", "2.3.4", "https://example.org/C17", []fw.Capability{"SIGNATURE_GENERATOR.ENV"}
		case "long":
			w.Description, w.Version = "a third, rather longer description of the scripted plugin", "10.20.30"
		}
		return reflect.DeepEqual(*m, w)
	case "describe-key":
		m, ok := resp.(*fw.DescribeKeyResponse)
		if !ok || m == nil {
			return false
		}
		return reflect.DeepEqual(*m, map[string]fw.DescribeKeyResponse{
			"a":    {KeyID: "k1", KeySpec: fw.KeySpecRSA2048},
			"b":    {KeyID: "k2", KeySpec: fw.KeySpecRSA3072},
			"long": {KeyID: "the-third-and-longest-key-identifier", KeySpec: "EC-521"},
		}[variant])
	case "generate-signature":
		m, ok := resp.(*fw.GenerateSignatureResponse)
		if !ok || m == nil {
			return false
		}
		return reflect.DeepEqual(*m, map[string]fw.GenerateSignatureResponse{
			"a":    {KeyID: "k1", Signature: []byte("sig"), SigningAlgorithm: fw.SignatureAlgorithmRSASSA_PSS_SHA256, CertificateChain: [][]byte{[]byte("cert")}},
			"b":    {KeyID: "k2", Signature: []byte("SIG"), SigningAlgorithm: "RSASSA-PSS-SHA-384", CertificateChain: [][]byte{[]byte("CERT")}},
			"long": {KeyID: "the-third-and-longest-key-identifier", Signature: []byte("longer signature"), SigningAlgorithm: "ECDSA-SHA-512", CertificateChain: [][]byte{[]byte("leaf"), []byte("root")}},
		}[variant])
	case "generate-envelope":
		m, ok := resp.(*fw.GenerateEnvelopeResponse)
		if !ok || m == nil {
			return false
		}
		return reflect.DeepEqual(*m, map[string]fw.GenerateEnvelopeResponse{
			"a":    {SignatureEnvelope: []byte("env"), SignatureEnvelopeType: "application/jose+json", Annotations: map[string]string{"a": "b"}},
			"b":    {SignatureEnvelope: []byte("ENV"), SignatureEnvelopeType: "application/cose+json", Annotations: map[string]string{"c": "d"}},
			"long": {SignatureEnvelope: []byte("longer envelope"), SignatureEnvelopeType: "application/cose", Annotations: map[string]string{"third": "reply", "x": "y"}},
		}[variant])
	case "verify-signature":
		m, ok := resp.(*fw.VerifySignatureResponse)
		if !ok || m == nil {
			return false
		}
		return reflect.DeepEqual(*m, map[string]fw.VerifySignatureResponse{
			"a": {VerificationResults: map[fw.Capability]*fw.VerificationResult{fw.CapabilityTrustedIdentityVerifier: {Success: true}}, ProcessedAttributes: []interface{}{"io.cncf.notary.x"}},
			"b": {VerificationResults: map[fw.Capability]*fw.VerificationResult{fw.CapabilityTrustedIdentityVerifier: {Success: true}}, ProcessedAttributes: []interface{}{"io.cncf.notary.y"}},
			"long": {VerificationResults: map[fw.Capability]*fw.VerificationResult{fw.CapabilityTrustedIdentityVerifier: {Success: false, Reason: "third reply"}, fw.CapabilityRevocationCheckVerifier: {Success: true}},
				ProcessedAttributes: []interface{}{"third"}},
		}[variant])
	}
	return false
}

// metaProblem inspects the metadata RETURNED by a successful GetMetadata.
func metaProblem(resp any, plug string) string {
	m, ok := resp.(*fw.GetMetadataResponse)
	if !ok || m == nil {
		return "nil-response"
	}
	switch {
	case m.Name == "":
		return "name"
	case m.Description == "":
		return "description"
	case m.Version == "":
		return "version"
	case m.URL == "":
		return "url"
	case len(m.Capabilities) == 0:
		return "capabilities"
	case len(m.SupportedContractVersions) == 0:
		return "supportedContractVersions"
	case m.Name != plug:
		return "name-mismatch"
	}
	for _, v := range m.SupportedContractVersions {
		if v == "1.0" {
			return ""
		}
	}
	return "unsupported-contract-version"
}

func classifyErr(err error) (class, code string) {
	if err == nil {
		return "ok", ""
	}
	var re proto.RequestError
	if errors.As(err, &re) {
		return "request-error", string(re.Code)
	}
	var rep *proto.RequestError
	if errors.As(err, &rep) && rep != nil {
		return "request-error", string(rep.Code)
	}
	// the plugin framework's own error type would carry the plugin's structured error just as well
	var fe *fw.Error
	if errors.As(err, &fe) && fe != nil {
		return "request-error", string(fe.ErrCode)
	}
	var mp *plugin.PluginMalformedError
	var mv plugin.PluginMalformedError
	if errors.As(err, &mp) || errors.As(err, &mv) {
		return "malformed", ""
	}
	var ep *plugin.PluginExecutableFileError
	var ev plugin.PluginExecutableFileError
	if errors.As(err, &ep) || errors.As(err, &ev) {
		return "executable-file", ""
	}
	return "untyped", ""
}

// killMarked kills every process one of whose arguments starts with marker
// (the per-case or per-run scratch path), except this process and its workers.
func killMarked(marker string) int {
	self := os.Getpid()
	selfExe, _ := os.Executable()
	ents, err := os.ReadDir("/proc")
	if err != nil {
		return 0
	}
	n := 0
	for _, e := range ents {
		pid, err := strconv.Atoi(e.Name())
		if err != nil || pid == self {
			continue
		}
		b, err := os.ReadFile("/proc/" + e.Name() + "/cmdline")
		if err != nil || len(b) == 0 {
			continue
		}
		args := strings.Split(string(b), "\x00")
		if args[0] == selfExe {
			continue
		}
		for _, a := range args {
			if strings.HasPrefix(a, marker) {
				if syscall.Kill(pid, syscall.SIGKILL) == nil {
					n++
				}
				break
			}
		}
	}
	return n
}

type callOut struct {
	resp any
	err  error
	pan  any
}

// runCase installs the plugin of c under root/id, performs the real call and
// removes everything (processes included) afterwards.
func runCase(root, id string, c Case) (res result) {
	dir := filepath.Join(root, id)
	marker := dir + string(os.PathSeparator)
	defer func() {
		killMarked(marker)
		_ = os.RemoveAll(dir)
	}()
	// file-name family: the executable lies in a directory that bears the ANNOUNCED name (collision by construction:
	// only the file name tells the plugin's name; for the honest rows this is the layout of CLIManager)
	pdir := dir
	if c.Plug != "" || c.Announce != "" {
		pdir = filepath.Join(dir, c.plug())
		if c.Announce != "" && !strings.ContainsAny(c.Announce, "/\x00") && c.Announce != "." && c.Announce != ".." {
			pdir = filepath.Join(dir, c.Announce)
		}
	}
	path, err := install(root, pdir, c)
	if err != nil {
		res.Setup = "install: " + err.Error()
		return
	}
	p, err := plugin.NewCLIPlugin(context.Background(), c.plug(), path)
	if err != nil {
		res.Setup = "NewCLIPlugin: " + err.Error()
		return
	}
	kind, delay := ctxSpec(c.Ctx)
	var ctxEnd atomic.Int64 // the moment the context ended (deadline instant / just before cancel), UnixNano
	ctx := context.Background()
	var cancel context.CancelFunc = func() {}
	limited := false
	switch {
	case kind == "deadline" && delay > 0:
		if isErrThenSleep(c.Timing) && delay < hx.Budget(2*time.Second) {
			// the clause talks about what the plugin wrote BEFORE the context ended: leave it time to do so (whether
			// it did is read off the marker file's time stamp, never assumed)
			delay = hx.Budget(2 * time.Second)
		}
		ctx, cancel = context.WithTimeout(ctx, delay)
		dl, _ := ctx.Deadline()
		ctxEnd.Store(dl.UnixNano())
		limited = true
	case kind == "cancel" && delay > 0:
		ctx, cancel = context.WithCancel(ctx)
		limited = true
		inner := cancel
		if isErrThenSleep(c.Timing) {
			// cancelled only after the plugin has been SEEN to have finished writing (marker file), plus the delay
			stop := make(chan struct{})
			defer close(stop)
			go func() {
				t0 := time.Now()
				for {
					if _, err := os.Stat(filepath.Join(dir, "printed")); err == nil {
						break
					}
					if time.Since(t0) > hx.Budget(30*time.Second) {
						break // never seen: the case will not be judged
					}
					select {
					case <-stop:
						return
					case <-time.After(5 * time.Millisecond):
					}
				}
				select {
				case <-stop:
					return
				case <-time.After(delay):
				}
				ctxEnd.Store(time.Now().UnixNano())
				inner()
			}()
		} else {
			t := time.AfterFunc(delay, func() { ctxEnd.Store(time.Now().UnixNano()); inner() })
			defer t.Stop()
		}
	case c.Ctx == cCancelled:
		ctx, cancel = context.WithCancel(ctx)
		cancel()
	case c.Ctx == cFar:
		ctx, cancel = context.WithTimeout(ctx, 10*time.Minute)
	case c.Ctx == cBackground:
	default:
		res.Setup = "unknown context " + c.Ctx
		return
	}
	defer cancel()

	done := make(chan callOut, 1)
	start := time.Now()
	go func() {
		var o callOut
		defer func() {
			if v := recover(); v != nil {
				o.pan = v
			}
			done <- o
		}()
		o.resp, o.err = invoke(ctx, p, c.Cmd, c.Req == "large")
	}()

	var out callOut
	res.AfterEndMS = -1
	got := false
	if limited {
		select {
		case out = <-done:
			got = true
		case <-ctx.Done():
			end := time.Now()
			select {
			case out = <-done:
				got = true
				res.AfterEndMS = time.Since(end).Milliseconds()
			case <-time.After(giveUpAfterCtxEnd):
			}
		}
	} else {
		limit := safetyLimit
		if isDesc(c.Timing) {
			limit = giveUpNoCtx
		}
		select {
		case out = <-done:
			got = true
		case <-time.After(limit):
		}
	}
	res.ElapsedMS = time.Since(start).Milliseconds()
	// the plugin counts as having printed only if its marker file was created BEFORE the context ended
	if fi, err := os.Stat(filepath.Join(dir, "printed")); err == nil {
		if e := ctxEnd.Load(); e != 0 && fi.ModTime().UnixNano() < e {
			res.Printed = true
		}
	}
	if !got {
		// release the call: kill the plugin and its descendants, then wait for the goroutine
		res.Returned = false
		killMarked(marker)
		select {
		case <-done:
		case <-time.After(30 * time.Second):
			res.Setup = "call did not return even after the plugin and its descendants were killed"
		}
		return
	}
	if out.pan != nil {
		panic(out.pan)
	}
	fillResult(c, out, &res)
	res.EnvFailure = environmentFailure(out.err, !isDesc(c.Timing) && !needsWorker(c) && c.Ctx != cCancelled && !limited)
	return
}

// fillResult classifies what a returned call produced.
func fillResult(c Case, out callOut, res *result) {
	res.Returned = true
	res.Success = out.err == nil
	res.ErrClass, res.Code = classifyErr(out.err)
	if out.err != nil {
		res.Err = out.err.Error()
		if len(res.Err) > 200 {
			res.Err = res.Err[:200] + "…"
		}
	} else {
		res.DecodedOK = decodedAsExpected(c, out.resp)
		if c.Cmd == "get-plugin-metadata" {
			res.MetaProblem = metaProblem(out.resp, c.plug())
		}
	}
}

func removeAll(dir string) { _ = os.RemoveAll(dir) }

// vmHWM reads the peak resident set size of this process in kB.
func vmHWM() int64 {
	b, err := os.ReadFile("/proc/self/status")
	if err != nil {
		return -1
	}
	for _, l := range strings.Split(string(b), "\n") {
		if strings.HasPrefix(l, "VmHWM:") {
			f := strings.Fields(l)
			if len(f) >= 2 {
				v, _ := strconv.ParseInt(f[1], 10, 64)
				return v
			}
		}
	}
	return -1
}
