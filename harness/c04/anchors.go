// Round-5 dimension of C04: WHAT THE TRUST CONFIGURATION ANCHORS ON.
//
// Until round 5 every case anchored on the root certificate of a three-certificate chain ("ca:s" = {root}), so a
// verifier that evaluates the pinned identities only for some kinds of trust anchor (skips them when the signing
// certificate itself is in the trust store, when the anchor is an intermediate, when the signature uses the
// signing-authority scheme, ...) was invisible. The statement makes no exception of that kind: "when the policy
// pins x509.subject identities, authenticity passes ONLY IF one of them is contained in the subject of the signing
// certificate" holds for every configuration. The dimension below varies which certificate(s) of the chain the
// configured trust store(s) hold, in which order, in which named store, how long the chain is (a self-signed
// signing certificate is its own root) and under which signing scheme / store type the anchor is found.
//
// Only the implication is judged on the new elements (a verifier may well refuse a trust store that holds a
// non-CA certificate, as the directory trust store of the repository does): "authenticity failed although an
// identity matches" is recorded there, counted as a positive control per element, and an element on which NO
// matching case passed ends the run with an infrastructure error (the element would show nothing).
package main

import (
	"crypto/x509"
	"fmt"
	"math/big"
	"sync"
	"time"

	"github.com/notaryproject/notation-go/zzverif/lib/forge"
	"github.com/notaryproject/notation-go/zzverif/lib/hx"
	"github.com/notaryproject/notation-go/zzverif/lib/mocks"
	"github.com/notaryproject/notation-go/zzverif/lib/pki"
)

type storeEntry struct {
	Store string   // "type:name" as listed in the policy
	Certs []string // "leaf", "inter", "root" in the order the store returns them
}

type anchorT struct {
	Name string
	// SelfSigned: the signing certificate is self-signed and the envelope carries a chain of one certificate.
	SelfSigned bool
	// Scheme 0: notary.x509 (stores of type ca), 1: notary.x509.signingAuthority (stores of type signingAuthority).
	Scheme int
	Stores []storeEntry
}

// the baseline (Anchor == "") is the configuration of rounds 1-4: chain leaf<-inter<-root, "ca:s" = {root}.
var anchors = []anchorT{
	{Name: "intermediate-only", Stores: []storeEntry{{"ca:s", []string{"inter"}}}},
	{Name: "leaf-only", Stores: []storeEntry{{"ca:s", []string{"leaf"}}}},
	{Name: "leaf-before-root", Stores: []storeEntry{{"ca:s", []string{"leaf", "root"}}}},
	{Name: "root-before-leaf", Stores: []storeEntry{{"ca:s", []string{"root", "leaf"}}}},
	{Name: "root+intermediate+leaf", Stores: []storeEntry{{"ca:s", []string{"root", "inter", "leaf"}}}},
	{Name: "leaf-in-second-named-store", Stores: []storeEntry{{"ca:s", []string{"root"}}, {"ca:pinned", []string{"leaf"}}}},
	{Name: "self-signed-leaf", SelfSigned: true, Stores: []storeEntry{{"ca:s", []string{"leaf"}}}},
	{Name: "self-signed-leaf-after-unrelated-root", SelfSigned: true, Stores: []storeEntry{{"ca:s", []string{"root", "leaf"}}}},
	{Name: "signing-authority-scheme-root", Scheme: 1, Stores: []storeEntry{{"signingAuthority:s", []string{"root"}}}},
	{Name: "signing-authority-scheme-leaf-only", Scheme: 1, Stores: []storeEntry{{"signingAuthority:s", []string{"leaf"}}}},
	{Name: "signing-authority-scheme-self-signed-leaf", Scheme: 1, SelfSigned: true, Stores: []storeEntry{{"signingAuthority:s", []string{"leaf"}}}},
}

func anchorByName(n string) (anchorT, bool) {
	for _, a := range anchors {
		if a.Name == n {
			return a, true
		}
	}
	return anchorT{}, false
}

// chainFor: the signing chain of subject s under anchor a. As everywhere in this harness the leaves share key,
// validity and serial number, so only the subject (and here: the issuer) tells them apart.
func (w *world) chainFor(s subject, a anchorT) *pki.Chain {
	if a.SelfSigned {
		leaf := pki.Make(pki.Tmpl{RawSubject: s.rdnSequence(), Serial: big.NewInt(777)}, pki.Key(pki.EC256, 0), nil)
		return &pki.Chain{Certs: []*pki.Cert{leaf}}
	}
	return w.leafFor(s, 0)
}

func (w *world) envFor(ch *pki.Chain, a anchorT, format int, plugin bool) []byte {
	sp := forge.Spec{Format: forge.Formats[format], Chain: ch.X509(), Key: ch.Leaf().Key, Payload: forge.PayloadFor(w.desc), SigningTime: time.Now().Add(-time.Hour),
		Scheme: []string{forge.SchemeX509, forge.SchemeSA}[a.Scheme]}
	if plugin {
		sp.Ext = []forge.Attr{{Key: forge.HdrPlugin, Critical: true, Value: "p"}}
	}
	return forge.Build(sp)
}

// storesFor builds the scripted trust store of an anchor and the store list of the policy.
func (w *world) storesFor(a anchorT, leaf *x509.Certificate) (*mocks.TrustStore, []string) {
	ts := mocks.NewTrustStore()
	var names []string
	for _, e := range a.Stores {
		names = append(names, e.Store)
		var typ, name string
		for i := 0; i < len(e.Store); i++ {
			if e.Store[i] == ':' {
				typ, name = e.Store[:i], e.Store[i+1:]
				break
			}
		}
		for _, c := range e.Certs {
			switch c {
			case "leaf":
				ts.Put(typ, name, leaf)
			case "inter":
				ts.Put(typ, name, w.inter.Cert)
			case "root":
				ts.Put(typ, name, w.root.Cert)
			}
		}
	}
	return ts, names
}

type anchorStat struct {
	mu               sync.Mutex
	matching, passed map[string]int // clean interpretable leaf, judged list, model says "matches"
}

var aStat = anchorStat{matching: map[string]int{}, passed: map[string]int{}}

func (s *anchorStat) note(name string, passed bool) {
	s.mu.Lock()
	s.matching[name]++
	if passed {
		s.passed[name]++
	}
	s.mu.Unlock()
}

// anchorSubjects: the sub-alphabet of subjects crossed with the anchor dimension - every interpretable plain subject
// (all 16 optional subsets), every set of missing mandatory attributes (with all optionals present), every odd shape.
func anchorSubjects(subjects []subject) (all []subject, interpretablePlain map[string]bool) {
	interpretablePlain = map[string]bool{}
	for _, s := range subjects {
		var mb, ob int
		if n, _ := fmt.Sscanf(s.Label, "plain-m%d-o%d", &mb, &ob); n == 2 {
			if mb == 7 {
				interpretablePlain[s.Label] = true
			} else if ob != 15 {
				continue
			}
		}
		all = append(all, s)
	}
	return all, interpretablePlain
}

// runAnchors: anchor x subject (sub-alphabet above) x every derived identity list x format on a fresh verifier, and
// for the interpretable plain subjects also on a verifier that has just verified the signature of the plain full
// subject (issued by the intermediate, notary.x509 scheme) under the same policy and trust store - which that
// store anchors (root / intermediate present), or does not anchor (leaf-only stores, signing-authority stores).
func (w *world) runAnchors(r *hx.Run, subjects []subject, priorEnvs [2][]byte) {
	subs, withPrior := anchorSubjects(subjects)
	type job struct {
		s subject
		a anchorT
	}
	var jobs []job
	for _, a := range anchors {
		for _, s := range subs {
			jobs = append(jobs, job{s, a})
		}
	}
	r.Parallel(len(jobs), func(i int) {
		j := jobs[i]
		ch := w.chainFor(j.s, j.a)
		lists := derive(j.s, w.interAttrs, w.rootAttrs, ch.Leaf().Cert.Subject.String())
		for f := 0; f < 2; f++ {
			env := w.envFor(ch, j.a, f, false)
			for _, l := range lists {
				w.runAnch(r, caseT{Subject: j.s, List: l, Format: f, Anchor: j.a.Name}, env, nil, ch.Leaf().Cert)
				if withPrior[j.s.Label] {
					w.runAnch(r, caseT{Subject: j.s, List: l, Format: f, Anchor: j.a.Name, Prior: 1}, env, priorEnvs[f], ch.Leaf().Cert)
				}
			}
		}
	}, nil)
	var names []string
	per := map[string]string{}
	dead := []string{}
	for _, a := range anchors {
		names = append(names, a.Name)
		per[a.Name] = fmt.Sprintf("%d of %d matching cases passed", aStat.passed[a.Name], aStat.matching[a.Name])
		if aStat.matching[a.Name] > 0 && aStat.passed[a.Name] == 0 {
			dead = append(dead, a.Name)
		}
	}
	r.Extra["trust_configurations"] = append([]string{"root-only(baseline, all families)"}, names...)
	r.Extra["trust_configuration_subjects"] = len(subs)
	r.Extra["trust_configuration_controls(clean leaf, matching identity)"] = per
	if len(dead) > 0 && !r.Expired() {
		if len(dead) == len(anchors) {
			r.Infra("trust-configuration dimension: no matching identity passed under any of the %d configurations - the dimension shows nothing", len(anchors))
		} else {
			// a tree that refuses some kind of anchor (e.g. non-CA certificates in a trust store) fails closed there: recorded
			for _, d := range dead {
				r.Outcome("recorded:trust-store=" + d + ":never-accepted(fails closed for every identity list)")
			}
		}
	}
}
