// Round-4 families of C04: near misses of attribute VALUES that the one-value-at-a-time, ASCII-only
// near misses of derive() cannot show.
//
//	prep  - "equal only after a string preparation": a value and its twin differ by a code point that a
//	        directory-style matching rule (RFC 4518 map-to-nothing, Unicode normalisation, case folding,
//	        compatibility mapping) or a sanitiser would drop or fold: invisible format / control characters at
//	        the start, in the middle and at the end of the value, NFC vs NFD, full-width and ligature forms,
//	        non-ASCII case pairs, look-alike letters of another script, a literal backslash escape. Every pair
//	        is run in both directions (the leaf carries A and the identity B, and the reverse), for every
//	        attribute type, with the identity written over all attributes of the leaf and over the mandatory
//	        ones plus the judged one. Pairs that differ only in blanks (doubled, leading, trailing, no-break,
//	        tab) are recorded, not judged: the statement itself says "independent of spacing".
//	cross - "the same characters under other attribute boundaries": the identity's values are the leaf's values
//	        with one character moved across the boundary of two attributes (so that a flattened or composite
//	        comparison collides), the same with a separator character standing at the boundary (leaf values
//	        a+sep+b; 15 separators), two values swapped between their types, and a complete "type=value"
//	        smuggled inside the value of another attribute of the leaf.
//
// The oracle is the one of main.go: the generator's attribute lists are compared with ==; the new leaves are
// "odd" subjects, so only the implication (passed => some identity is contained in the leaf) is judged and
// the identity that repeats the leaf's own odd values is a counted control.
package main

import (
	"fmt"
	"strings"
	"sync/atomic"
	"time"

	"github.com/notaryproject/notation-go"
	"github.com/notaryproject/notation-go/verifier"
	"github.com/notaryproject/notation-go/verifier/trustpolicy"
	"github.com/notaryproject/notation-go/zzverif/lib/forge"
	"github.com/notaryproject/notation-go/zzverif/lib/hx"
	"github.com/notaryproject/notation-go/zzverif/lib/mocks"
	"github.com/notaryproject/notation-go/zzverif/lib/vt"
)

type famCase struct {
	S     subject
	Lists []idList
}

// family collects lists per leaf (one certificate and one signature per distinct leaf), in generation order.
type family struct {
	cases []famCase
	index map[string]int
}

func attrsKey(as []attr) string {
	var b strings.Builder
	for _, a := range as {
		fmt.Fprintf(&b, "%s=%q;", a.T, a.V)
	}
	return b.String()
}

func (f *family) add(label string, leaf []attr, clean bool, l idList) {
	if f.index == nil {
		f.index = map[string]int{}
	}
	k := attrsKey(leaf)
	i, ok := f.index[k]
	if !ok {
		s := plain(label, leaf...)
		s.Clean = clean
		i = len(f.cases)
		f.index[k] = i
		f.cases = append(f.cases, famCase{S: s})
		if !clean {
			// control: the identity that repeats the leaf's own values (implication only; counted)
			f.cases[i].Lists = append(f.cases[i].Lists, idList{Label: "same-values-as-leaf(control)", Class: "same-values-as-leaf(control)", Judged: true, Control: true, IDs: []identity{mkIdentity(leaf, ",", false)}})
		}
	}
	f.cases[i].Lists = append(f.cases[i].Lists, l)
}

func attrsOf(types []string, val map[string]string) []attr {
	var out []attr
	for _, t := range types {
		out = append(out, attr{t, val[t]})
	}
	return out
}

// minimal: the mandatory attributes plus the given types, in canonical order, with the values of as.
func minimal(as []attr, types ...string) []attr {
	var out []attr
	for _, a := range as {
		keep := a.T == "C" || a.T == "ST" || a.T == "O"
		for _, t := range types {
			if a.T == t {
				keep = true
			}
		}
		if keep {
			out = append(out, a)
		}
	}
	return out
}

func replace2(as []attr, t1, v1, t2, v2 string) []attr {
	return replaceV(replaceV(as, t1, v1), t2, v2)
}

func valueOf(as []attr, t string) string {
	for _, a := range as {
		if a.T == t {
			return a.V
		}
	}
	return ""
}

type vpair struct {
	Kind   string
	A, B   string
	Judged bool
}

// code points a string preparation maps to nothing, or a sanitiser strips
var invisibles = []struct{ Name, S string }{
	{"soft-hyphen", "\u00ad"}, {"zero-width-space", "\u200b"}, {"zero-width-non-joiner", "\u200c"}, {"zero-width-joiner", "\u200d"},
	{"word-joiner", "\u2060"}, {"byte-order-mark", "\ufeff"}, {"variation-selector", "\ufe0f"}, {"combining-grapheme-joiner", "\u034f"},
	{"mongolian-variation-selector", "\u180b"}, {"mongolian-soft-hyphen", "\u1806"}, {"object-replacement", "\ufffc"},
	{"left-to-right-mark", "\u200e"}, {"right-to-left-override", "\u202e"}, {"invisible-separator", "\u2063"}, {"tag-character", "\U000E0041"},
	{"combining-acute", "\u0301"}, {"delete", "\u007f"}, {"c0-control", "\u0001"}, {"c1-control", "\u0080"}, {"nul", "\x00"},
	{"replacement-character", "\ufffd"},
}

// Latin letter -> look-alike Cyrillic letter
var lookalike = map[rune]rune{'A': 0x410, 'B': 0x412, 'C': 0x421, 'E': 0x415, 'H': 0x41d, 'K': 0x41a, 'M': 0x41c, 'O': 0x41e, 'P': 0x420, 'S': 0x405, 'T': 0x422, 'X': 0x425,
	'a': 0x430, 'c': 0x441, 'e': 0x435, 'i': 0x456, 'o': 0x43e, 'p': 0x440, 's': 0x455, 'x': 0x445, 'y': 0x443}

func prepPairs(cur string) []vpair {
	var out []vpair
	rs := []rune(cur)
	for _, cp := range invisibles {
		out = append(out,
			vpair{cp.Name + "@start", cur, cp.S + cur, true},
			vpair{cp.Name + "@middle", cur, string(rs[:len(rs)/2]) + cp.S + string(rs[len(rs)/2:]), true},
			vpair{cp.Name + "@end", cur, cur + cp.S, true})
	}
	// whole-value twins
	for i, c := range rs {
		if c > ' ' && c < 0x7f {
			fw := append(append([]rune(nil), rs[:i]...), c+0xfee0)
			out = append(out, vpair{"full-width-letter", cur, string(append(fw, rs[i+1:]...)), true})
			break
		}
	}
	for i, c := range rs {
		if l, ok := lookalike[c]; ok {
			la := append(append([]rune(nil), rs[:i]...), l)
			out = append(out, vpair{"look-alike-letter-of-another-script", cur, string(append(la, rs[i+1:]...)), true})
			break
		}
	}
	out = append(out,
		vpair{"nfc-vs-nfd", cur + "\u00e9", cur + "e\u0301", true},
		vpair{"angstrom-sign-vs-letter", cur + "\u212b", cur + "\u00c5", true},
		vpair{"ligature-vs-letters", cur + "\ufb01", cur + "fi", true},
		vpair{"superscript-vs-digit", cur + "\u00b2", cur + "2", true},
		vpair{"non-ascii-case", cur + "\u00e9", cur + "\u00c9", true},
		vpair{"sharp-s-vs-ss", cur + "\u00df", cur + "ss", true},
		vpair{"long-s-vs-s", cur + "\u017f", cur + "s", true},
		vpair{"kelvin-sign-vs-k", cur + "\u212a", cur + "K", true},
		vpair{"dotless-i-vs-i", cur + "\u0131", cur + "i", true},
		vpair{"accent-dropped", cur + "\u00e9", cur + "e", true},
		vpair{"literal-backslash-escape-vs-character", cur + `\41`, cur + "A", true},
		vpair{"percent-escape-vs-character", cur + "%41", cur + "A", true},
		// blanks: the statement says "independent of spacing" - recorded, not judged
		vpair{"doubled-blank(extension)", cur + "  x", cur + " x", false},
		vpair{"trailing-blank(extension)", cur + " ", cur, false},
		vpair{"leading-blank(extension)", " " + cur, cur, false},
		vpair{"no-break-space-vs-blank(extension)", cur + "\u00a0x", cur + " x", false},
		vpair{"tab-vs-blank(extension)", cur + "\tx", cur + " x", false},
		vpair{"newline-vs-blank(extension)", cur + "\nx", cur + " x", false},
		vpair{"ideographic-space-vs-blank(extension)", cur + "\u3000x", cur + " x", false},
	)
	return out
}

func baseOf(kind string) string {
	if i := strings.Index(kind, "@"); i >= 0 {
		return kind[:i]
	}
	return kind
}

func prepFamily() *family {
	f := &family{}
	full := attrsOf(order, first)
	for _, t := range order {
		for _, p := range prepPairs(first[t]) {
			for dir, xy := range [][2]string{{p.A, p.B}, {p.B, p.A}} {
				leafV, idV := xy[0], xy[1]
				leaf := replaceV(full, t, leafV)
				clean := leafV == first[t]
				dirName := "leaf-has-first"
				if dir == 1 {
					dirName = "leaf-has-second"
				}
				class := "near-miss-prep:" + baseOf(p.Kind) + ":" + t
				if !p.Judged {
					class = "near-miss-prep:" + baseOf(p.Kind) // recorded only: one outcome class per kind
				}
				for _, shape := range []struct {
					name string
					as   []attr
				}{{"all-attributes", replaceV(full, t, idV)}, {"mandatory-plus-judged", replaceV(minimal(full, t), t, idV)}} {
					f.add("prep:"+p.Kind+":"+t+":"+dirName, leaf, clean, idList{
						Label: "near-miss-prep:" + p.Kind + ":" + t + ":" + dirName + ":" + shape.name, Class: class, Judged: p.Judged,
						IDs: []identity{mkIdentity(shape.as, ",", false)}})
				}
			}
		}
	}
	return f
}

var separators = []struct{ Name, S string }{
	{"comma", ","}, {"plus", "+"}, {"semicolon", ";"}, {"slash", "/"}, {"bar", "|"}, {"blank", " "}, {"colon", ":"}, {"equals", "="},
	{"nul", "\x00"}, {"newline", "\n"}, {"tab", "\t"}, {"hyphen", "-"}, {"underscore", "_"}, {"dot", "."}, {"hash", "#"},
}

func crossFamily() *family {
	f := &family{}
	leaves := []struct {
		name  string
		types []string
	}{{"full", order}, {"mandatory", mandatory}, {"mandatory+CN", []string{"C", "ST", "O", "CN"}}}
	shapes := func(ids []attr, t1, t2 string) [][]attr {
		out := [][]attr{ids}
		if m := minimal(ids, t1, t2); len(m) != len(ids) {
			out = append(out, m)
		}
		return out
	}
	shapeName := []string{"all-attributes", "mandatory-plus-judged"}
	for _, lf := range leaves {
		leaf := attrsOf(lf.types, first)
		for _, t1 := range lf.types {
			for _, t2 := range lf.types {
				if t1 == t2 {
					continue
				}
				v1, v2 := first[t1], first[t2]
				// (a) one character moved across the boundary t1|t2, no separator
				for mi, mv := range [][2]string{{v1 + v2[:1], v2[1:]}, {v1[:len(v1)-1], v1[len(v1)-1:] + v2}} {
					for si, as := range shapes(replace2(leaf, t1, mv[0], t2, mv[1]), t1, t2) {
						f.add("cross:plain-"+lf.name, leaf, true, idList{
							Label: fmt.Sprintf("near-miss-boundary-shift:%s|%s:move%d:%s", t1, t2, mi, shapeName[si]), Class: "near-miss-boundary-shift:" + t1 + "|" + t2, Judged: true,
							IDs: []identity{mkIdentity(as, ",", false)}})
					}
				}
				// (c) values swapped between the two types
				if t1 < t2 {
					for si, as := range shapes(replace2(leaf, t1, v2, t2, v1), t1, t2) {
						f.add("cross:plain-"+lf.name, leaf, true, idList{
							Label: fmt.Sprintf("near-miss-values-swapped:%s|%s:%s", t1, t2, shapeName[si]), Class: "near-miss-values-swapped:" + t1 + "|" + t2, Judged: true,
							IDs: []identity{mkIdentity(as, ",", false)}})
					}
				}
			}
		}
	}
	// (b) the same with a separator character at the boundary: every leaf value is a+sep+b
	for _, lf := range leaves[:2] {
		for _, sp := range separators {
			half := func(t string) (string, string) { v := first[t]; return v[:len(v)/2], v[len(v)/2:] }
			val := map[string]string{}
			for _, t := range lf.types {
				a, b := half(t)
				val[t] = a + sp.S + b
			}
			leaf := attrsOf(lf.types, val)
			for _, t1 := range lf.types {
				for _, t2 := range lf.types {
					if t1 == t2 {
						continue
					}
					a1, b1 := half(t1)
					a2, b2 := half(t2)
					for mi, mv := range [][2]string{{a1, b1 + sp.S + a2 + sp.S + b2}, {a1 + sp.S + b1 + sp.S + a2, b2}} {
						for si, as := range shapes(replace2(leaf, t1, mv[0], t2, mv[1]), t1, t2) {
							f.add("cross:separator-"+sp.Name+"-"+lf.name, leaf, false, idList{
								Label: fmt.Sprintf("near-miss-separator-shift:%s:%s|%s:move%d:%s", sp.Name, t1, t2, mi, shapeName[si]), Class: "near-miss-separator-shift:" + sp.Name, Judged: true,
								IDs: []identity{mkIdentity(as, ",", false)}})
						}
					}
				}
			}
		}
	}
	// (d) a complete type=value smuggled inside the value of another attribute of the leaf
	full := attrsOf(order, first)
	for _, t := range order {
		carrier := "CN"
		if t == "CN" {
			carrier = "OU"
		}
		names := []string{t}
		if t == "ST" {
			names = append(names, "S")
		}
		for _, n := range names {
			for si, sep := range []string{",", "+", ", ", ";", "/"} {
				for pi, put := range []string{"x" + sep + n + "=" + first[t], n + "=" + first[t] + sep + "x", "x" + sep + n + "=" + first[t] + sep + "y"} {
					leaf := replace2(full, t, second[t], carrier, put)
					f.add(fmt.Sprintf("cross:smuggled-%s-in-%s:sep%d:pos%d", n, carrier, si, pi), leaf, false, idList{
						Label: fmt.Sprintf("near-miss-attribute-inside-another-value:%s:sep%d:pos%d", n, si, pi), Class: "near-miss-attribute-inside-another-value:" + t, Judged: true,
						IDs: []identity{mkIdentity(minimal(full, t), ",", false)}})
				}
			}
		}
	}
	return f
}

// runFamily: every leaf of the family x its lists x format x {fresh verifier, verifier that has just verified the
// plain full subject under the same policy}.
func (w *world) runFamily(r *hx.Run, name string, f *family, priorEnvs [2][]byte) {
	var controls, controlsOK, lists atomic.Int64
	r.Parallel(len(f.cases), func(i int) {
		fc := f.cases[i]
		ch := w.leafFor(fc.S, i)
		lists.Add(int64(len(fc.Lists)))
		for fm := 0; fm < 2; fm++ {
			env := forge.Build(forge.Spec{Format: forge.Formats[fm], Chain: ch.X509(), Key: ch.Leaf().Key, Payload: forge.PayloadFor(w.desc), SigningTime: time.Now().Add(-time.Hour)})
			for _, l := range fc.Lists {
				res := w.runWith(r, caseT{Subject: fc.S, List: l, Format: fm}, env, nil)
				w.runWith(r, caseT{Subject: fc.S, List: l, Format: fm, Prior: 1}, env, priorEnvs[fm])
				if l.Control {
					controls.Add(1)
					if res == 1 {
						controlsOK.Add(1)
					}
				}
			}
		}
	}, nil)
	r.Extra[name+"_leaves"] = len(f.cases)
	r.Extra[name+"_identity_lists"] = lists.Load()
	r.Extra[name+"_controls(identity repeating the odd leaf values)"] = controls.Load()
	r.Extra[name+"_controls_passed"] = controlsOK.Load()
	if controls.Load() > 0 && controlsOK.Load() == 0 && !r.Expired() {
		r.Infra("%s family: none of the %d leaves with unusual values was accepted under the identity that repeats its own values - the near misses of this family show nothing", name, controls.Load())
	}
}

// inPlaceFamily: the caller-owned policy document is changed after the verifier was constructed. Whether a
// verifier sees such a change at all is not the statement's business (a verifier with a private snapshot
// keeps using the validated list), so nothing here is judged; what the tree does is recorded.
func (w *world) inPlaceFamily(r *hx.Run) {
	leafAttrs := []attr{{"C", "US"}, {"ST", "WA"}, {"O", "Acme"}, {"CN", "alice"}}
	s := plain("in-place-leaf", leafAttrs...)
	ch := w.leafFor(s, 0)
	good := "x509.subject:C=US,ST=WA,O=Acme"
	bads := []struct{ name, id string }{
		{"multi-valued-rdn", "x509.subject:C=US,ST=WA,O=Acme,CN=alice+OU=x"},
		{"duplicate-attribute", "x509.subject:C=US,ST=WA,O=Acme,O=Other"},
		{"mandatory-missing", "x509.subject:ST=WA,O=Acme"},
		{"hex-value", "x509.subject:C=US,ST=WA,O=#0c0441636d65"},
		{"not-a-dn", "x509.subject:C=US,ST=WA,O"},
		{"empty-value", "x509.subject:"},
		{"no-separator", "x509.subject"},
	}
	for fm := 0; fm < 2; fm++ {
		env := forge.Build(forge.Spec{Format: forge.Formats[fm], Chain: ch.X509(), Key: ch.Leaf().Key, Payload: forge.PayloadFor(w.desc), SigningTime: time.Now().Add(-time.Hour)})
		for _, b := range bads {
			for oi, after := range [][]string{{b.id, good}, {good, b.id}, {b.id}} {
				doc := vt.OCIDoc(trustpolicy.SignatureVerification{VerificationLevel: "strict"}, []string{"ca:s"}, []string{good})
				v, err := verifier.NewVerifierWithOptions(mocks.NewTrustStore().Put("ca", "s", w.root.Cert), verifier.VerifierOptions{OCITrustPolicy: doc, RevocationCodeSigningValidator: mocks.AllOK()})
				if err != nil {
					r.Outcome("recorded:policy-changed-in-place:construction-refused")
					continue
				}
				doc.TrustPolicies[0].TrustedIdentities = after
				r.Eval(1)
				outcome, _ := v.Verify(ctx, w.desc, env, notation.VerifierVerifyOptions{ArtifactReference: "reg.io/r@" + w.desc.Digest.String(), SignatureMediaType: forge.Formats[fm]})
				rs := vt.ResultOf(outcome, trustpolicy.TypeAuthenticity)
				passed := len(rs) > 0
				for _, x := range rs {
					if x.Error != nil {
						passed = false
					}
				}
				r.Outcome(fmt.Sprintf("recorded:policy-changed-in-place-after-construction:%s:passed=%v(not judged)", []string{"uninterpretable-before-matching", "matching-before-uninterpretable", "uninterpretable-alone"}[oi], passed))
			}
		}
	}
}
