// C04 — identity pinning matches only the signing certificate's own subject.
//
// E3: subjects built from an attribute alphabet (the oracle works on the
// generator's attribute lists, it never parses a DN string) x identity lists
// derived from the subject (permutations, subsets, supersets, near misses, CA
// subjects, unknown prefixes, wildcard) x format, through the real verifier
// with the trust anchor always present, so identity is the only reason for the
// authenticity validation to fail. Round 5 (anchors.go) adds the trust
// configuration (which certificate of the chain is the anchor, chain length,
// scheme) as a dimension.
package main

import (
	"context"
	"crypto/x509"
	"crypto/x509/pkix"
	"encoding/asn1"
	"fmt"
	"math/big"
	"strings"
	"time"

	"github.com/notaryproject/notation-go"
	"github.com/notaryproject/notation-go/verifier"
	"github.com/notaryproject/notation-go/verifier/trustpolicy"
	"github.com/notaryproject/notation-go/zzverif/lib/forge"
	"github.com/notaryproject/notation-go/zzverif/lib/hx"
	"github.com/notaryproject/notation-go/zzverif/lib/mocks"
	"github.com/notaryproject/notation-go/zzverif/lib/pki"
	"github.com/notaryproject/notation-go/zzverif/lib/vt"
	"github.com/opencontainers/go-digest"
	ocispec "github.com/opencontainers/image-spec/specs-go/v1"

	fw "github.com/notaryproject/notation-plugin-framework-go/plugin"
)

type attr struct {
	T string `json:"t"`
	V string `json:"v"`
}

var oids = map[string]asn1.ObjectIdentifier{
	"C": {2, 5, 4, 6}, "ST": {2, 5, 4, 8}, "O": {2, 5, 4, 10}, "OU": {2, 5, 4, 11}, "CN": {2, 5, 4, 3}, "L": {2, 5, 4, 7}, "STREET": {2, 5, 4, 9},
	"X": {1, 2, 3, 4}, // an attribute type Go prints as 1.2.3.4=#...
}

var first = map[string]string{"C": "US", "ST": "WA", "O": "Acme", "OU": "eng", "CN": "alice", "L": "Seattle", "STREET": "1 Main"}
var second = map[string]string{"C": "DE", "ST": "CA", "O": "AcmeCorp", "OU": "ops", "CN": "alice2", "L": "Berlin", "STREET": "2 Main"}
var order = []string{"C", "ST", "O", "OU", "CN", "L", "STREET"}
var mandatory = []string{"C", "ST", "O"}
var optional = []string{"OU", "CN", "L", "STREET"}

// subject is the generator's description of a certificate subject.
type subject struct {
	Label string   `json:"label"`
	RDNs  [][]attr `json:"rdns"`  // as encoded: one inner slice per RDN (len>1: multi-valued RDN)
	Clean bool     `json:"clean"` // plain subject over known types with simple values: the oracle is an equivalence
}

func (s subject) attrs() []attr {
	var out []attr
	for _, r := range s.RDNs {
		out = append(out, r...)
	}
	return out
}

// interpretable: the one clear-cut case of "cannot be interpreted" is a subject that lacks a
// mandatory attribute (C, ST, O). For the other odd shapes (attribute type twice, multi-valued RDN,
// unknown attribute type) the statement does not say how they are to be read - Go's pkix.Name
// flattens some of them (a second CN replaces the first, a multi-valued RDN of different types is
// split) - so only the implication "passes => some identity is contained in the leaf's attribute
// multiset" is judged there.
func (s subject) interpretable() bool {
	seen := map[string]int{}
	for _, a := range s.attrs() {
		seen[a.T]++
		if a.T == "X" {
			// an attribute type outside the named set is printed as "1.2.3.4=#<hex>", which notation deliberately
			// refuses to interpret ("does not support ... =#"): such a leaf fails closed
			return false
		}
	}
	for _, m := range mandatory {
		if seen[m] == 0 {
			return false
		}
	}
	return true
}

func (s subject) rdnSequence() []pkix.RelativeDistinguishedNameSET {
	var seq []pkix.RelativeDistinguishedNameSET
	for _, r := range s.RDNs {
		var set pkix.RelativeDistinguishedNameSET
		for _, a := range r {
			set = append(set, pkix.AttributeTypeAndValue{Type: oids[a.T], Value: a.V})
		}
		seq = append(seq, set)
	}
	return seq
}

func plain(label string, as ...attr) subject {
	s := subject{Label: label, Clean: true}
	for _, a := range as {
		s.RDNs = append(s.RDNs, []attr{a})
	}
	return s
}

// identity is one policy identity with its AST.
type identity struct {
	Raw   string `json:"raw"`
	Attrs []attr `json:"attrs"` // nil for non-x509 identities and the wildcard
	X509  bool   `json:"x509"`
}

func esc(v string) string {
	r := strings.NewReplacer(`\`, `\\`, `,`, `\,`, `+`, `\+`, `"`, `\"`, `<`, `\<`, `>`, `\>`, `;`, `\;`).Replace(v)
	if strings.HasPrefix(r, " ") {
		r = `\` + r
	}
	if strings.HasSuffix(r, " ") && !strings.HasSuffix(r, `\ `) {
		r = r[:len(r)-1] + `\ `
	}
	if strings.HasPrefix(r, "#") {
		r = `\` + r
	}
	return r
}

func mkIdentity(as []attr, sep string, alias bool) identity {
	var parts []string
	for _, a := range as {
		t := a.T
		if alias && t == "ST" {
			t = "S"
		}
		parts = append(parts, t+"="+esc(a.V))
	}
	return identity{Raw: "x509.subject:" + strings.Join(parts, sep), Attrs: as, X509: true}
}

type idList struct {
	Label string     `json:"label"`
	IDs   []identity `json:"ids"`
	Wild  bool       `json:"wild"`
	// Judged=false: the list is outside the stated alphabet (labelled extension) - recorded, not judged.
	Judged bool `json:"judged"`
	// Class: the stable class name used in violation keys when the label carries more detail (position, direction, shape).
	Class string `json:"class,omitempty"`
	// Control: the identity repeats the (odd) leaf's own values - counted, judged only as an implication.
	Control bool `json:"control,omitempty"`
}

func (l idList) key() string {
	if l.Class != "" {
		return l.Class
	}
	return l.Label
}

func without(as []attr, t string) []attr {
	var out []attr
	for _, a := range as {
		if a.T != t {
			out = append(out, a)
		}
	}
	return out
}

func replaceV(as []attr, t, v string) []attr {
	out := append([]attr(nil), as...)
	for i := range out {
		if out[i].T == t {
			out[i].V = v
		}
	}
	return out
}

func has(as []attr, t string) bool {
	for _, a := range as {
		if a.T == t {
			return true
		}
	}
	return false
}

// completed returns the attribute list with missing mandatory attributes filled in and duplicates
// removed, so that a syntactically valid identity can be derived from every subject.
func completed(as []attr) []attr {
	var out []attr
	seen := map[string]bool{}
	for _, m := range mandatory {
		if !has(as, m) {
			out = append(out, attr{m, first[m]})
			seen[m] = true
		}
	}
	for _, a := range as {
		if a.T == "X" || seen[a.T] {
			continue
		}
		seen[a.T] = true
		out = append(out, a)
	}
	return out
}

func derive(s subject, interAttrs, rootAttrs []attr, printed string) []idList {
	base := completed(s.attrs())
	var out []idList
	add := func(label string, judged bool, ids ...identity) {
		out = append(out, idList{Label: label, IDs: ids, Judged: judged})
	}
	rev := func(as []attr) []attr {
		o := make([]attr, len(as))
		for i := range as {
			o[len(as)-1-i] = as[i]
		}
		return o
	}
	rot := append(append([]attr(nil), base[1:]...), base[0])
	add("exact", true, mkIdentity(base, ",", false))
	add("reversed", true, mkIdentity(rev(base), ",", false))
	add("rotated", true, mkIdentity(rot, ",", false))
	add("S-for-ST", true, mkIdentity(base, ",", true))
	add("blank-after-separator", true, mkIdentity(base, ", ", false))
	add("blank-around-separator(extension)", false, mkIdentity(base, " , ", false))
	for _, o := range optional {
		if has(base, o) {
			add("minus-"+o, true, mkIdentity(without(base, o), ",", false))
		} else {
			add("plus-"+o, true, mkIdentity(append(append([]attr(nil), base...), attr{o, first[o]}), ",", false))
		}
	}
	mand := base
	for _, o := range optional {
		mand = without(mand, o)
	}
	add("mandatory-only", true, mkIdentity(mand, ",", false))
	// near misses: one value replaced by its extension / another value / case change / prefix
	for _, t := range order {
		if !has(base, t) {
			continue
		}
		var cur string
		for _, a := range base {
			if a.T == t {
				cur = a.V
			}
		}
		add("near-miss-other-value:"+t, true, mkIdentity(replaceV(base, t, second[t]), ",", false))
		add("near-miss-extension:"+t, true, mkIdentity(replaceV(base, t, cur+"x"), ",", false))
		add("near-miss-colon-extension:"+t, true, mkIdentity(replaceV(base, t, cur+":x"), ",", false))
		if len(cur) > 2 {
			// a blank inserted into / removed from the value: another value
			add("near-miss-blank-inserted:"+t, true, mkIdentity(replaceV(base, t, cur[:len(cur)/2]+" "+cur[len(cur)/2:]), ",", false))
			if strings.Contains(cur, " ") {
				add("near-miss-blank-removed:"+t, true, mkIdentity(replaceV(base, t, strings.ReplaceAll(cur, " ", "")), ",", false))
			}
		}
		if len(cur) > 1 {
			add("near-miss-prefix:"+t, true, mkIdentity(replaceV(base, t, cur[:len(cur)-1]), ",", false))
		}
		if strings.ToLower(cur) != cur || strings.ToUpper(cur) != cur {
			sw := strings.ToUpper(cur)
			if sw == cur {
				sw = strings.ToLower(cur)
			}
			add("near-miss-case:"+t, true, mkIdentity(replaceV(base, t, sw), ",", false))
		}
	}
	// identities written exactly like the certificate prints its own subject (and near misses of that very string)
	if s.Clean && printed != "" {
		out = append(out, idList{Label: "printed-form-exact", Judged: true, IDs: []identity{{Raw: "x509.subject:" + printed, Attrs: s.attrs(), X509: true}}})
		for _, a := range s.attrs() {
			if strings.Contains(a.V, " ") && strings.Count(printed, a.V) == 1 {
				nv := strings.ReplaceAll(a.V, " ", "")
				out = append(out, idList{Label: "printed-form-blank-removed:" + a.T, Judged: true, IDs: []identity{{Raw: "x509.subject:" + strings.Replace(printed, a.V, nv, 1), Attrs: replaceV(s.attrs(), a.T, nv), X509: true}}})
			}
			if len(a.V) > 2 && !strings.Contains(a.V, " ") && strings.Count(printed, "="+a.V) == 1 {
				nv := a.V[:len(a.V)/2] + " " + a.V[len(a.V)/2:]
				out = append(out, idList{Label: "printed-form-blank-inserted:" + a.T, Judged: true, IDs: []identity{{Raw: "x509.subject:" + strings.Replace(printed, "="+a.V, "="+nv, 1), Attrs: replaceV(s.attrs(), a.T, nv), X509: true}}})
			}
		}
	}
	add("subject-of-intermediate", true, mkIdentity(interAttrs, ",", false))
	add("subject-of-root", true, mkIdentity(rootAttrs, ",", false))
	add("both-ca-subjects", true, mkIdentity(interAttrs, ",", false), mkIdentity(rootAttrs, ",", false))
	add("unknown-prefix-only", true, identity{Raw: "x509.san:whatever"})
	add("unknown-prefix+matching", true, identity{Raw: "x509.san:whatever"}, mkIdentity(base, ",", false))
	add("unknown-prefix+ca-subject", true, identity{Raw: "email:a@b"}, mkIdentity(rootAttrs, ",", false))
	out = append(out, idList{Label: "wildcard", Wild: true, Judged: true})
	add("non-matching+matching", true, mkIdentity(replaceV(mand, "O", "ZetaCo"), ",", false), mkIdentity(base, ",", false))
	add("two-near-misses", true, mkIdentity(replaceV(base, "O", "ZetaCo"), ",", false), mkIdentity(replaceV(base, "C", second["C"]), ",", false))
	// labelled extension outside the stated alphabet: identity attribute with empty value (DESIGN F-04x)
	if !has(base, "CN") {
		add("empty-value-attribute(extension)", false, identity{Raw: mkIdentity(base, ",", false).Raw + ",CN=", Attrs: append(append([]attr(nil), base...), attr{"CN", ""}), X509: true})
	}
	return out
}

// model: does some x509 identity have all its attributes in the leaf?
func subsetMatch(l idList, leaf []attr) bool {
	for _, id := range l.IDs {
		if !id.X509 {
			continue
		}
		all := true
		for _, a := range id.Attrs {
			found := false
			for _, b := range leaf {
				if a.T == b.T && a.V == b.V {
					found = true
				}
			}
			if !found {
				all = false
			}
		}
		if all {
			return true
		}
	}
	return false
}

type caseT struct {
	Subject subject `json:"subject"`
	List    idList  `json:"list"`
	Format  int     `json:"format"`
	// Prior 1: the same verifier instance (same identity list) verified, immediately before, a signature whose
	// leaf carries the full clean subject C=US,ST=WA,O=Acme,OU=eng,CN=alice,L=Seattle,STREET=1 Main.
	Prior int `json:"prior"`
	// Plugin 1: the signature names a verification plugin whose only verification capability is the revocation
	// check (verdict: success) - identities are still the library's job and must be evaluated natively.
	Plugin int `json:"plugin"`
	// Anchor "" : chain leaf<-intermediate<-root with the root in "ca:s" (rounds 1-4). Otherwise the name of a trust
	// configuration of anchors.go (which certificates of the chain the configured stores hold, chain length, scheme).
	Anchor string `json:"anchor,omitempty"`
}

type world struct {
	root, inter           *pki.Cert
	interAttrs, rootAttrs []attr
	desc                  ocispec.Descriptor
}

var ctx = context.Background()

func (w *world) leafFor(s subject, idx int) *pki.Chain {
	// every leaf of this harness has the same key, issuer, validity AND serial number: only the subject differs,
	// so nothing but the subject can tell two signers apart (a shortcut keyed on anything else collides)
	leaf := pki.Make(pki.Tmpl{RawSubject: s.rdnSequence(), Serial: big.NewInt(777)}, pki.Key(pki.EC256, 0), w.inter)
	return &pki.Chain{Certs: []*pki.Cert{leaf, w.inter, w.root}}
}

func (w *world) run(r *hx.Run, c caseT, env []byte) {
	w.runWith(r, c, env, nil)
}

// runWith returns 1 when authenticity passed, 0 when it failed, -1 when the identity evaluation was not reached.
func (w *world) runWith(r *hx.Run, c caseT, env []byte, priorEnv []byte) int {
	return w.runAnch(r, c, env, priorEnv, nil)
}

// runAnch: leaf is the signing certificate (needed only when c.Anchor names a configuration that stores it).
func (w *world) runAnch(r *hx.Run, c caseT, env []byte, priorEnv []byte, leaf *x509.Certificate) int {
	ids := []string{}
	if c.List.Wild {
		ids = []string{"*"}
	}
	for _, id := range c.List.IDs {
		ids = append(ids, id.Raw)
	}
	ts := mocks.NewTrustStore().Put("ca", "s", w.root.Cert)
	storeNames := []string{"ca:s"}
	if c.Anchor != "" {
		a, ok := anchorByName(c.Anchor)
		if !ok {
			r.Infra("unknown trust configuration %q", c.Anchor)
			return -1
		}
		ts, storeNames = w.storesFor(a, leaf)
	}
	bad := func(key, what string) {
		if c.Anchor != "" {
			key += ":trust-store=" + c.Anchor
		}
		if c.Prior == 1 {
			key += ":after-earlier-verification-on-same-verifier"
		}
		if c.Plugin == 1 {
			key += ":with-revocation-only-plugin"
		}
		if c.Plugin == 2 {
			key += ":with-honest-identity-plugin-and-revocation-skipped"
		}
		r.Violation(key, fmt.Sprintf("%s | leaf=%s (%q) identities=%q prior=%d trust-configuration=%q", what, c.Subject.Label, c.Subject.RDNs, ids, c.Prior, c.Anchor), c)
	}
	r.Eval(1)
	leafAttrs := c.Subject.attrs()
	want := c.List.Wild || (c.Subject.interpretable() && subsetMatch(c.List, leafAttrs))
	sv := trustpolicy.SignatureVerification{VerificationLevel: "strict"}
	if c.Plugin == 2 {
		sv.Override = map[trustpolicy.ValidationType]trustpolicy.ValidationAction{trustpolicy.TypeRevocation: trustpolicy.ActionSkip}
	}
	vopts := verifier.VerifierOptions{OCITrustPolicy: vt.OCIDoc(sv, storeNames, ids), RevocationCodeSigningValidator: mocks.AllOK()}
	if c.Plugin == 1 {
		mgr := mocks.NewManager()
		mgr.Plugins["p"] = &mocks.VerifyPlugin{Name: "p", Version: "1.0.0", Capabilities: []fw.Capability{fw.CapabilityRevocationCheckVerifier}, ProcessAll: true}
		vopts.PluginManager = mgr
	}
	if c.Plugin == 2 {
		// an HONEST plugin owns the identity check (it declares revocation first, identity second, and the level skips
		// revocation): its verdict is the generator's own truth, so the statement's "passes only if" still binds - a
		// verifier that forgets to ask the plugin passes what nobody checked
		verdict := "failure"
		if want {
			verdict = "success"
		}
		mgr := mocks.NewManager()
		mgr.Plugins["p"] = &mocks.VerifyPlugin{Name: "p", Version: "1.0.0", Capabilities: []fw.Capability{fw.CapabilityRevocationCheckVerifier, fw.CapabilityTrustedIdentityVerifier},
			Verdicts: map[fw.Capability]string{fw.CapabilityTrustedIdentityVerifier: verdict, fw.CapabilityRevocationCheckVerifier: "success"}, ProcessAll: true}
		vopts.PluginManager = mgr
	}
	v, err := verifier.NewVerifierWithOptions(ts, vopts)
	if err != nil {
		// the policy validator refused the identity list (overlap, missing mandatory attribute): fails closed at construction
		if c.List.Judged && c.List.Label == "wildcard" {
			bad("construction/wildcard-policy-refused", err.Error())
		}
		// identity lists that are well-formed by the policy rules and contained in a clean leaf subject:
		// order, spacing and the S/ST alias must not matter, so the policy must be accepted
		if c.List.Judged && c.Subject.Clean && c.Subject.interpretable() && want {
			bad("construction/matching-identity-refused:"+c.List.key(), err.Error())
		}
		r.Outcome("refused-at-construction")
		return -1
	}
	if priorEnv != nil {
		r.Eval(1)
		_, _ = v.Verify(ctx, w.desc, priorEnv, notation.VerifierVerifyOptions{ArtifactReference: "reg.io/r@" + w.desc.Digest.String(), SignatureMediaType: forge.Formats[c.Format]})
	}
	outcome, verr := v.Verify(ctx, w.desc, env, notation.VerifierVerifyOptions{ArtifactReference: "reg.io/r@" + w.desc.Digest.String(), SignatureMediaType: forge.Formats[c.Format]})
	if outcome == nil && verr == nil {
		bad("nil-outcome-on-success", "Verify returned neither an outcome nor an error")
		return -1
	}
	rs := vt.ResultOf(outcome, trustpolicy.TypeAuthenticity) // nil outcome with an error: refused before authenticity
	if len(rs) == 0 {
		// integrity may have refused an exotic subject: that is failing closed too
		r.Outcome("refused-before-authenticity")
		if want && c.Subject.Clean && c.List.Judged {
			if c.Anchor != "" {
				// a verifier may refuse this kind of chain / anchor altogether: fails closed, recorded
				aStat.note(c.Anchor, false)
				r.Outcome("recorded:trust-store=" + c.Anchor + ":matching-case-refused-before-authenticity")
				return -1
			}
			bad("clean-subject-refused-before-authenticity", fmt.Sprint(verr))
		}
		return -1
	}
	got := true // several authenticity entries (the statement does not forbid them): passed means none carries an error
	for _, x := range rs {
		if x.Error != nil {
			got = false
		}
	}
	if !c.List.Judged {
		r.Outcome(fmt.Sprintf("extension:%s:passed=%v(not judged)", c.List.key(), got))
		return -1
	}
	class := "odd"
	if c.Subject.Clean {
		class = "clean"
	}
	nt := fmt.Sprintf("%s|%s|%d", c.Subject.Label, c.List.Label, c.Format)
	if c.Anchor != "" {
		class = "trust-store=" + c.Anchor + ":" + class
		nt += "|" + c.Anchor
		if want && c.Subject.Clean && !c.List.Wild {
			aStat.note(c.Anchor, got)
		}
	}
	switch {
	case got && !want:
		why := "identity-not-subset-of-leaf"
		if !c.Subject.interpretable() {
			why = "uninterpretable-leaf"
		}
		bad("passed/"+why+":"+c.List.key(), "authenticity passed although no listed identity is contained in the leaf subject")
	case !got && want && c.Anchor != "":
		// only the implication is judged on the trust-configuration dimension (anchors.go)
		r.Outcome(class + ":recorded:failed-although-matching(not judged)")
	case !got && want && (c.Subject.Clean || c.List.Wild):
		bad("failed-although-matching:"+c.List.key(), fmt.Sprintf("authenticity failed: %v", rs[0].Error))
	case !got && want:
		r.Outcome(class + ":failed-although-model-matches(odd subject, fail-closed, not judged)")
	case got:
		r.Outcome(class + ":passed")
		r.Nontrivial(nt)
	default:
		r.Outcome(class + ":failed")
		r.Nontrivial(nt)
	}
	if !got && verr == nil {
		bad("verdict-differs-from-authenticity", "authenticity failed under the strict level but verification succeeded")
	}
	if got && verr != nil {
		r.Outcome("recorded:authenticity-passed-but-verification-failed-for-another-reason")
	}
	if got {
		return 1
	}
	return 0
}

func main() {
	r := hx.New("C04")
	r.Rule = "every subject of the grammar (mandatory C/ST/O present or absent x optional subsets, plus duplicate-type, multi-valued-RDN, unknown-OID and escaped-value shapes) x every identity list derived from it x format; one real verifier.Verify per case with the trust anchor present; non-trivial = distinct judged cases that reached the identity evaluation. Round 4 (nearmiss.go): value twins that are equal only after a string preparation (invisible / control code points at start, middle, end; NFC/NFD; compatibility forms; non-ASCII case; look-alike letters; literal escapes) in both directions for every attribute type, and cross-attribute twins (a character moved over the boundary of two attributes without and with each of 15 separator characters, values swapped between types, type=value inside another value), each on a fresh verifier and after an earlier verification; policy changed in place after construction: recorded only. Round 5 (anchors.go): the TRUST CONFIGURATION as a dimension - which certificate(s) of the chain the configured trust stores hold and in which order (intermediate only; the signing certificate itself alone, before / after its root, next to root and intermediate, in a second named store), chain length (self-signed signing certificate alone and next to an unrelated root) and signing scheme / store type (signing-authority scheme anchored on the root, on the leaf, on a self-signed leaf): 11 configurations x 36 subjects (all 16 interpretable plain subjects, every set of missing mandatory attributes, every odd shape) x every derived identity list x format on a fresh verifier, the interpretable plain subjects also after an earlier verification (of a chain the same stores do or do not anchor) on the same verifier; there only the implication 'passed => some listed identity is contained in the leaf subject' is judged, 'matching but failed' is recorded and counted as positive control per configuration"
	r.Assumptions = []string{"the oracle compares attribute lists kept by the generator; it never parses a distinguished name", "for odd subject shapes (multi-valued RDN, escaped values) only the implication 'passes => some identity is contained in the leaf' is judged", "identity lists marked (extension) are outside the stated alphabet and are recorded without judgement", "value twins that differ only in blanks (doubled, leading, trailing, no-break, tab, newline) are recorded, not judged: the statement says 'independent of spacing'", "whether a verifier notices a policy document that its caller changes after construction is not the statement's business: recorded only", "rounds 1-4 families anchor on the root certificate of a three-certificate chain held in ca:s; on the other trust configurations (round 5) a verifier may refuse the anchor itself (e.g. a non-CA certificate in a trust store, as the repository's directory trust store does), so a failing authenticity is never an alarm there - a configuration under which no matching identity passes at all is recorded as never-accepted, and the run ends with an infrastructure error only if that holds for all configurations", "the trust store is the scripted lib/mocks store handed to NewVerifierWithOptions (the X509TrustStore interface), which returns whatever certificates a configuration lists, CA or not"}
	w := &world{}
	w.rootAttrs = []attr{{"C", "US"}, {"ST", "WA"}, {"O", "RootCo"}, {"CN", "root"}}
	w.interAttrs = []attr{{"C", "US"}, {"ST", "WA"}, {"O", "InterCo"}, {"CN", "inter"}}
	rs := plain("root", w.rootAttrs...)
	is := plain("inter", w.interAttrs...)
	w.root = pki.Make(pki.Tmpl{RawSubject: rs.rdnSequence(), CA: true, PathLen: -1}, pki.Key(pki.EC256, 100), nil)
	w.inter = pki.Make(pki.Tmpl{RawSubject: is.rdnSequence(), CA: true, PathLen: -1}, pki.Key(pki.EC256, 101), w.root)
	w.desc = ocispec.Descriptor{MediaType: "application/vnd.oci.image.manifest.v1+json", Digest: digest.FromString("c04"), Size: 3}

	// ---- subjects ----
	var subjects []subject
	for mb := 0; mb < 8; mb++ {
		for ob := 0; ob < 16; ob++ {
			var as []attr
			for i, m := range mandatory {
				if mb&(1<<i) != 0 {
					as = append(as, attr{m, first[m]})
				}
			}
			for i, o := range optional {
				if ob&(1<<i) != 0 {
					as = append(as, attr{o, first[o]})
				}
			}
			if len(as) == 0 {
				continue
			}
			subjects = append(subjects, plain(fmt.Sprintf("plain-m%d-o%d", mb, ob), as...))
		}
	}
	full := []attr{{"C", "US"}, {"ST", "WA"}, {"O", "Acme"}, {"CN", "alice"}}
	odd := func(label string, rdns ...[]attr) subject { return subject{Label: label, RDNs: rdns} }
	subjects = append(subjects,
		odd("duplicate-OU", []attr{full[0]}, []attr{full[1]}, []attr{full[2]}, []attr{{"OU", "eng"}}, []attr{{"OU", "ops"}}),
		odd("duplicate-CN", []attr{full[0]}, []attr{full[1]}, []attr{full[2]}, []attr{{"CN", "alice"}}, []attr{{"CN", "bob"}}),
		odd("duplicate-O", []attr{full[0]}, []attr{full[1]}, []attr{{"O", "Acme"}}, []attr{{"O", "ZetaCo"}}),
		odd("multi-valued-RDN-CN+OU", []attr{full[0]}, []attr{full[1]}, []attr{full[2]}, []attr{{"CN", "alice"}, {"OU", "eng"}}),
		odd("multi-valued-RDN-C+O", []attr{{"C", "US"}, {"O", "Acme"}}, []attr{full[1]}),
		odd("unknown-oid-attribute", []attr{full[0]}, []attr{full[1]}, []attr{full[2]}, []attr{{"X", "foo"}}),
		odd("unknown-oid-instead-of-O", []attr{full[0]}, []attr{full[1]}, []attr{{"X", "Acme"}}),
		odd("value-with-comma", []attr{full[0]}, []attr{full[1]}, []attr{full[2]}, []attr{{"CN", "a,b"}}),
		odd("value-with-leading-blank", []attr{full[0]}, []attr{full[1]}, []attr{full[2]}, []attr{{"CN", " x"}}),
		odd("value-with-plus", []attr{full[0]}, []attr{full[1]}, []attr{full[2]}, []attr{{"CN", "x+OU=eng"}}),
		odd("value-with-quote-and-equals", []attr{full[0]}, []attr{full[1]}, []attr{full[2]}, []attr{{"CN", `q"r=s`}}),
		odd("value-with-colon", []attr{full[0]}, []attr{full[1]}, []attr{full[2]}, []attr{{"CN", "build:release"}}),
		odd("value-looks-like-attribute", []attr{full[0]}, []attr{full[1]}, []attr{{"O", "Acme,O=ZetaCo"}}),
	)
	r.Extra["subjects"] = len(subjects)

	if r.Replay != "" {
		var c caseT
		if err := r.LoadReplay(&c); err != nil {
			r.Infra("replay: %v", err)
			r.Finish()
		}
		an, _ := anchorByName(c.Anchor) // "": zero value = the baseline chain and scheme
		ch := w.chainFor(c.Subject, an)
		env := w.envFor(ch, an, c.Format, c.Plugin != 0)
		if c.Prior == 1 {
			fullSubj := plain("prior-full", attr{"C", "US"}, attr{"ST", "WA"}, attr{"O", "Acme"}, attr{"OU", "eng"}, attr{"CN", "alice"}, attr{"L", "Seattle"}, attr{"STREET", "1 Main"})
			pch := w.leafFor(fullSubj, 0)
			w.runAnch(r, c, env, forge.Build(forge.Spec{Format: forge.Formats[c.Format], Chain: pch.X509(), Key: pch.Leaf().Key, Payload: forge.PayloadFor(w.desc), SigningTime: time.Now().Add(-time.Hour)}), ch.Leaf().Cert)
		} else {
			w.runAnch(r, c, env, nil, ch.Leaf().Cert)
		}
		r.Finish()
	}

	// the signature verified first in the instance-reuse cases
	var priorEnvs [2][]byte
	{
		fullSubj := plain("prior-full", attr{"C", "US"}, attr{"ST", "WA"}, attr{"O", "Acme"}, attr{"OU", "eng"}, attr{"CN", "alice"}, attr{"L", "Seattle"}, attr{"STREET", "1 Main"})
		pch := w.leafFor(fullSubj, 0)
		for f := 0; f < 2; f++ {
			priorEnvs[f] = forge.Build(forge.Spec{Format: forge.Formats[f], Chain: pch.X509(), Key: pch.Leaf().Key, Payload: forge.PayloadFor(w.desc), SigningTime: time.Now().Add(-time.Hour)})
		}
	}
	var controls, controlsOK int
	nLists := 0
	r.Parallel(len(subjects), func(i int) {
		s := subjects[i]
		ch := w.leafFor(s, i)
		lists := derive(s, w.interAttrs, w.rootAttrs, ch.Leaf().Cert.Subject.String())
		if i == 0 {
			nLists = len(lists)
		}
		for f := 0; f < 2; f++ {
			env := forge.Build(forge.Spec{Format: forge.Formats[f], Chain: ch.X509(), Key: ch.Leaf().Key, Payload: forge.PayloadFor(w.desc), SigningTime: time.Now().Add(-time.Hour)})
			envPlug := forge.Build(forge.Spec{Format: forge.Formats[f], Chain: ch.X509(), Key: ch.Leaf().Key, Payload: forge.PayloadFor(w.desc), SigningTime: time.Now().Add(-time.Hour), Ext: []forge.Attr{{Key: forge.HdrPlugin, Critical: true, Value: "p"}}})
			for _, l := range lists {
				w.run(r, caseT{Subject: s, List: l, Format: f}, env)
				w.runWith(r, caseT{Subject: s, List: l, Format: f, Prior: 1}, env, priorEnvs[f])
				w.run(r, caseT{Subject: s, List: l, Format: f, Plugin: 1}, envPlug)
				w.run(r, caseT{Subject: s, List: l, Format: f, Plugin: 2}, envPlug)
			}
		}
		if i%17 == 0 {
			var raw []string
			for _, l := range lists[:4] {
				for _, id := range l.IDs {
					raw = append(raw, id.Raw)
				}
			}
			r.Sample(map[string]any{"leaf_subject_rdns": s.RDNs, "identity_lists": len(lists), "first_lists": raw})
		}
	}, nil)
	_ = controls
	_ = controlsOK
	r.Extra["identity_lists_for_first_subject"] = nLists
	// round 4: value near misses that need a string preparation or a flattened comparison to collide (nearmiss.go)
	w.runFamily(r, "prep", prepFamily(), priorEnvs)
	w.runFamily(r, "cross", crossFamily(), priorEnvs)
	w.inPlaceFamily(r)
	// round 5: which certificate(s) of the chain the configured trust stores hold (anchors.go)
	w.runAnchors(r, subjects, priorEnvs)
	r.Finish()
}
