// C16 — a plugin name can never reach outside the plugin directory.
//
// E3: exhaustive enumeration of (name grammar) x (depth of the plugin root) x
// (pre-state of the plugin directory) x (operation), on REAL directories with
// REAL sentinel executables (hard links of cmd/plugbin that append a line to a
// marker file whenever they are run).
//
// Operations: CLIManager.Get (+GetMetadata), Uninstall, Install from a file
// called notation-<name>, Install from a directory holding such a file (both
// with and without Overwrite), config.SigningKeys.AddPlugin (looks the plugin
// up through dir.PluginFS()), and verifier.Verify with the real CLIManager of
// a forged, correctly signed envelope (JWS and COSE) whose
// io.cncf.notary.verificationPlugin is the name.  A second family enumerates
// all subsets of directory-entry kinds below the plugin root for List.
//
// Names: the fixed list of DESIGN.md plus every '/'-joined sequence of 1..k tokens
// from {.., ., "", x, foo, a\b, f<NUL>, " ", ...} (k = 2 quick, 3 thorough).
// Every case lives in its own scratch directory deep enough (7 levels + root
// depth) that six "../" stay inside it; the process also changes its working
// directory into the scratch space and checks that nothing appeared there.
// Long names: the offending part (/../.., /x, \x, NUL, ...) behind or in front of a
// run of 100 ... 65536 harmless bytes (around every plausible buffer / echo /
// file-name limit), long single components as acceptable counterparts.
// "install-dir-nonexec": the only candidate of the source directory lacks the
// executable bit.
//
// Histories: every sequence of 2 (quick) / 2..3 (thorough) steps out of
// {install-file, install-dir (with/without overwrite), get, uninstall, list,
// verify, get of unacceptable variants} plus named longer ones, on ONE
// CLIManager (and a verifier sharing it) over one tree; every step is judged
// like a single call: the install source may run only during an install step, a
// plugin that Get finds is the regular file <root>/<name>/notation-<name>.
//
// Oracle (hand-labelled alphabet, the label is cross-checked against the
// statement's definition "single path component"):
//
//	name that must be refused (empty, NUL, or joined below the root it denotes anything but
//	    <root>/<one component>) => an error is returned by the manager's call AND no sentinel
//	    ran AND the recursive snapshot (path, mode, size, content hash) of the whole per-case
//	    scratch tree is unchanged;
//	acceptable name, or a name that merely denotes <root>/<one component> ("a/", "./a",
//	    "a/../b", on Linux "a\b"; refusing it is allowed, not demanded) => every sentinel that
//	    ran lies in that directory (or is the source of the running install) and every snapshot
//	    difference lies in it (a new regular file directly in the root is evidence only);
//	List => exactly the real (non-symlink) sub-directories of the root (as a set); nothing run
//	    or changed outside them.
//
// Pre-states of the tree: the plugin installed among neighbours and decoys, absent, or ALONE (the
// plugin directory is the only entry of the root and the root the only entry of each ancestor up
// to the case directory), so that whatever is done to an emptied container shows in the snapshot.
//
// Environment seam: in the fourth pre-state the plugin is absent from the root while PATH, the default
// plugin directory (dir.UserLibexecDir), XDG_CONFIG_HOME and HOME of the process offer one of that name
// (set per case under a mutex; otherwise PATH is an empty directory). Collisions by construction: for
// names that may be served the root also holds neighbour plugins called <name>.new/.old/.tmp/.bak/...,
// .<name>, tmp-<name>, case variants, trailing dot/blank.
//
// Evidence only ("recorded:" outcome classes, never a violation): what config.AddPlugin and the
// verifier make of the manager's refusal, a stale "found" answer for a plugin that is gone,
// duplicates in a listing, plugins run by List, files created directly in the root.
package main

import (
	"context"
	"crypto/sha256"
	"encoding/base64"
	"encoding/hex"
	"encoding/json"
	"errors"
	"fmt"
	"io/fs"
	"os"
	"path"
	"path/filepath"
	"regexp"
	"runtime"
	"sort"
	"strings"
	"sync"
	"sync/atomic"
	"syscall"
	"time"
	"unicode/utf8"

	"github.com/notaryproject/notation-go"
	"github.com/notaryproject/notation-go/config"
	"github.com/notaryproject/notation-go/dir"
	"github.com/notaryproject/notation-go/plugin"
	"github.com/notaryproject/notation-go/verifier"
	"github.com/notaryproject/notation-go/zzverif/lib/forge"
	"github.com/notaryproject/notation-go/zzverif/lib/hx"
	"github.com/notaryproject/notation-go/zzverif/lib/mocks"
	"github.com/notaryproject/notation-go/zzverif/lib/pki"
	"github.com/notaryproject/notation-go/zzverif/lib/vt"
	fw "github.com/notaryproject/notation-plugin-framework-go/plugin"
	"github.com/opencontainers/go-digest"
	ocispec "github.com/opencontainers/image-spec/specs-go/v1"
)

// ---------------------------------------------------------------- alphabet

const (
	tokAbs = "@CASEDIR@"     // replaced by the absolute per-case scratch directory
	tokRel = "@CASEDIR_REL@" // the same without its leading '/'
)

type nameSpec struct {
	Tmpl       string // the name; may contain tokAbs / tokRel
	Class      string // stable coarse class used in violation keys
	Label      string // fine label (evidence, outcome statistics)
	Acceptable bool   // hand label: is the name a single path component?
	Control    bool   // positive control: must really install / execute / uninstall
}

func (n nameSpec) instantiate(caseDir string) string {
	s := strings.ReplaceAll(n.Tmpl, tokRel, strings.TrimPrefix(caseDir, "/"))
	return strings.ReplaceAll(s, tokAbs, caseDir)
}

func alphabet(thorough bool) []nameSpec {
	var a []nameSpec
	bad := func(t, class, label string) { a = append(a, nameSpec{Tmpl: t, Class: class, Label: label}) }
	odd := func(t, class string) { a = append(a, nameSpec{Tmpl: t, Class: class, Label: class, Acceptable: true}) }
	bad("..", "dotdot", "dotdot")
	bad(".", "dot", "dot")
	bad("", "empty", "empty")
	for d := 1; d <= 6; d++ {
		up := strings.Repeat("../", d)
		bad(up+"x", "traversal-x", fmt.Sprintf("up%d-x", d)) // d = 1 is "../x"
		bad(up+"tmp/evil", "traversal-tmp-evil", fmt.Sprintf("up%d-tmp-evil", d))
		bad(up+tokRel+"/abs/evil", "traversal-abs-tail", fmt.Sprintf("up%d-abs-tail", d))
	}
	bad(tokAbs+"/abs/evil", "absolute", "absolute")
	bad("a/b", "two-components", "two-components")
	bad("a/../b", "inner-dotdot", "inner-dotdot")
	bad("./a", "dot-slash", "dot-slash")
	bad("a/", "trailing-slash", "trailing-slash")
	bad("a//b", "double-slash", "double-slash")
	bad("a\\b", "backslash", "backslash")
	bad("..\\x", "dotdot-backslash", "dotdot-backslash")
	bad("foo\x00", "nul", "nul")
	bad("foo\x00/../x", "nul-traversal", "nul-traversal")
	odd(strings.Repeat("A", 5000), "long5000")
	odd("foo bar", "blank-inside")
	odd(" foo", "leading-blank")
	odd("foo ", "trailing-blank")
	odd("foo\nbar", "newline-inside")
	odd(" ", "only-blank")
	odd("\n", "only-newline")
	if thorough {
		bad("foo/..", "trailing-dotdot", "trailing-dotdot")
		bad("foo/", "trailing-slash", "control-plus-slash")
		bad("../plugins/foo", "back-into-root", "back-into-root")
		// no name that would be dangerous if it were (wrongly) taken as an absolute path: "/" and "/.." are left out
		bad("..\x00", "nul", "dotdot-nul")
		bad("\\", "backslash", "backslash-only")
		odd("\t", "only-tab")
		odd("...", "three-dots")
		odd("..x", "dotdot-prefix")
		odd(".hidden", "leading-dot")
		odd("-rf", "leading-dash")
		odd("..%2fx", "percent-encoded")
		odd("a:b", "colon")
		odd("~", "tilde")
		odd("foo\xff", "invalid-utf8")
		odd(strings.Repeat("B", 255), "long255")
		odd("notation-foo", "prefixed")
	}
	a = append(a, nameSpec{Tmpl: "foo", Class: "control-foo", Label: "control-foo", Acceptable: true, Control: true})
	a = append(a, nameSpec{Tmpl: "foo.bar-1_x", Class: "control-dotted", Label: "control-dotted", Acceptable: true, Control: true})

	// long names: the part that makes the name unacceptable sits behind (or in front of) a run of L harmless
	// bytes, for L around every plausible buffer / echo / file-name limit; path.Join cancels "<run>/.." lexically,
	// so the run itself need not (and for L > 255 cannot) exist. Long single components are the acceptable
	// counterparts; the 240-byte one is a positive control (notation-<name>.json still fits into a file name).
	runs := []int{100, 129, 300, 4096}
	singles := []int{129, 255}
	if thorough {
		runs = []int{100, 127, 128, 129, 200, 255, 256, 300, 1000, 4096, 65536}
		singles = []int{100, 128, 129, 200, 255, 256}
	}
	for _, L := range runs {
		run := strings.Repeat("a", L)
		for _, t := range []struct{ tail, class, label string }{
			{"/../../x", "long-run-traversal", "up2-x"},
			{"/../..", "long-run-traversal", "up2"},
			{"/..", "long-run-traversal", "up1"},
			{"/../x", "long-run-back-into-root", "up1-x"},
			{"/x", "long-run-separator", "slash-x"},
			{"/", "long-run-separator", "slash"},
			{"\\x", "long-run-backslash", "backslash-x"},
			{"\x00", "long-run-nul", "nul"},
			{"\x00/../../x", "long-run-nul", "nul-up2-x"},
		} {
			bad(run+t.tail, t.class, fmt.Sprintf("run%d+%s", L, t.label))
		}
		bad("../"+run, "traversal-long-tail", fmt.Sprintf("up1+run%d", L))
		bad("..\\"+run, "backslash-long-tail", fmt.Sprintf("dotdot-backslash+run%d", L))
		bad("x/"+run, "separator-long-tail", fmt.Sprintf("x-slash+run%d", L))
	}
	for _, L := range singles {
		a = append(a, nameSpec{Tmpl: strings.Repeat("a", L), Class: "long-single", Label: fmt.Sprintf("single%d", L), Acceptable: true})
	}
	a = append(a, nameSpec{Tmpl: strings.Repeat("a", 240), Class: "control-long240", Label: "control-long240", Acceptable: true, Control: true})

	// the generated part of the grammar: every '/'-joined sequence of 1..k tokens (k = 2 quick, 3 thorough).
	// Labelled by construction: two or more tokens contain a separator; a single token carries a hand label.
	// Sequences with a leading empty token (absolute-looking names outside the scratch tree) are left out.
	type token struct {
		s, label string
		single   bool // acceptable when it is the whole name
		feature  string
	}
	toks := []token{{"..", "dd", false, "dotdot"}, {".", "dot", false, "dot"}, {"", "empty", false, "empty"}, {"x", "x", true, ""}, {"foo", "foo", true, ""},
		{"a\\b", "bs", false, "backslash"}, {"f\x00", "nul", false, "nul"}, {" ", "blank", true, ""}, {"...", "dots3", true, ""}}
	have := map[string]bool{}
	for _, n := range a {
		have[n.Tmpl] = true
	}
	k := 2
	if thorough {
		k = 3
	}
	var gen func(prefix []token)
	gen = func(prefix []token) {
		if len(prefix) > 0 {
			var parts, labels []string
			feat := map[string]bool{}
			for _, t := range prefix {
				parts = append(parts, t.s)
				labels = append(labels, t.label)
				if t.feature != "" {
					feat[t.feature] = true
				}
			}
			name := strings.Join(parts, "/")
			if !have[name] {
				have[name] = true
				class := fmt.Sprintf("grammar%d", len(prefix))
				for _, f := range []string{"dotdot", "dot", "empty", "backslash", "nul"} {
					if feat[f] {
						class += "-" + f
					}
				}
				a = append(a, nameSpec{Tmpl: name, Class: class, Label: "g:" + strings.Join(labels, "/"), Acceptable: len(prefix) == 1 && prefix[0].single})
			}
		}
		if len(prefix) == k {
			return
		}
		for _, t := range toks {
			if len(prefix) == 0 && t.s == "" {
				continue
			}
			gen(append(append([]token(nil), prefix...), t))
		}
	}
	gen(nil)
	return a
}

// mustReject tells whether the statement DEMANDS that the name be refused: it is empty, holds a NUL, or
// joined below the plugin root it denotes (lexically, the way every path library resolves it) something
// other than a directory <root>/<one component>. Names that are no single component as written but denote
// such a directory all the same ("a/", "./a", "a/../b") and, on this platform, names with a backslash
// (one component on Linux) may be refused OR be treated as the component they denote: the statement only
// forbids that anything else than that directory is touched.
func mustReject(n string) bool {
	if n == "" || strings.IndexByte(n, 0) >= 0 || strings.HasPrefix(n, "/") {
		return true
	}
	c := path.Clean(n)
	return c == "." || c == ".." || strings.HasPrefix(c, "../") || strings.Contains(c, "/")
}

var markerRecord = regexp.MustCompile(`(?s)(.*?) (get-plugin-metadata|verify-signature|describe-key|generate-signature|generate-envelope)\n`)

// executedBy parses the marker text of a case ("<executable> <command>\n" records; a path may hold blanks
// and line breaks): the executables that ran, plus whatever could not be parsed.
func executedBy(marker string) (exes []string, rest string) {
	last := 0
	for _, m := range markerRecord.FindAllStringSubmatchIndex(marker, -1) {
		exes = append(exes, marker[m[2]:m[3]])
		last = m[1]
	}
	return exes, marker[last:]
}

// singleComponent is the statement's definition of an acceptable name; it is only used to
// cross-check the hand labels of the alphabet and for replay files written by hand.
func singleComponent(n string) bool {
	return n != "" && n != "." && n != ".." && !strings.ContainsAny(n, "/\\\x00")
}

const (
	opGet          = "get"
	opUninstall    = "uninstall"
	opInstFile     = "install-file"
	opInstFileOW   = "install-file-overwrite"
	opInstDir      = "install-dir"
	opInstDirOW    = "install-dir-overwrite"
	opAddPlugin    = "addplugin"
	opVerifyJWS    = "verify-jws"
	opVerifyCOSE   = "verify-cose"
	opVerifyJWSUn  = "verify-jws-untrusted"
	opVerifyCOSEUn = "verify-cose-untrusted"
	opList         = "list"
	opProbeNonExec = "install-dir-nonexec" // the only candidate in the source directory lacks the executable bit (F-16b: its mode was changed before the name was refused)
	opAll          = "all"
	opHistory      = "history" // a sequence of calls on one CLIManager object
)

func operations(thorough bool) []string {
	ops := []string{opGet, opUninstall, opInstFile, opInstFileOW, opInstDir, opInstDirOW, opProbeNonExec, opAddPlugin, opVerifyJWS, opVerifyCOSE}
	if thorough {
		ops = append(ops, opVerifyJWSUn, opVerifyCOSEUn)
	}
	return ops
}

func family(op string) string {
	switch {
	case strings.HasPrefix(op, "install-file"):
		return "install-file"
	case op == opProbeNonExec:
		return "install-dir-nonexec"
	case strings.HasPrefix(op, "install-dir"):
		return "install-dir"
	case strings.HasPrefix(op, "verify"):
		return "verify"
	}
	return op
}

const (
	preInstalled = "installed" // <root>/<name>/notation-<name> (and every other candidate inside the root) exists
	preAbsent    = "absent"    // the root holds only an unrelated plugin
	// the plugin directory is the ONLY thing in the root and the root the only thing in each of its ancestors up
	// to the case directory (no neighbours, no decoys): whatever an operation does to a container that has
	// become empty, or to the last entry of one, shows in the snapshot
	preAlone = "alone"
	// like absent, but the ENVIRONMENT of the process offers a plugin of that name elsewhere: an executable
	// notation-<name> in a directory of PATH, and <name>/notation-<name> below the default plugin directories
	// (dir.UserLibexecDir, XDG_CONFIG_HOME, HOME). The manager was given its root explicitly: none of them counts.
	preEnv = "absent-but-offered-by-environment"
)

// ---------------------------------------------------------------- replay

type replayCase struct {
	Op         string   `json:"operation"`
	Name       string   `json:"name"`     // template, JSON-escaped
	NameB64    string   `json:"name_b64"` // authoritative bytes of the template
	Class      string   `json:"class"`
	Acceptable bool     `json:"acceptable"`
	Control    bool     `json:"control,omitempty"`
	Depth      int      `json:"depth"`
	Pre        string   `json:"pre_state,omitempty"`
	ListMask   int      `json:"list_kinds_mask,omitempty"`
	ListNoRoot bool     `json:"list_root_missing,omitempty"`
	Steps      []string `json:"history_steps,omitempty"` // operation "history": calls made one after the other on ONE CLIManager
}

// ---------------------------------------------------------------- world

type world struct {
	r          *hx.Run
	scratch    string
	trusted    *pki.Chain
	untrusted  *pki.Chain
	store      *mocks.TrustStore
	validator  *mocks.Validator
	desc       ocispec.Descriptor
	payload    []byte
	masters    chan string
	nxMasters  chan string // copies of plugbin WITHOUT the executable bit (install-dir-nonexec), pooled for the same reason
	masterSeq  atomic.Int64
	plugbin    []byte
	plugbinSum string
	addMu      sync.Mutex // config.SigningKeys.AddPlugin reads the process-wide dir.UserLibexecDir
	caseSeq    atomic.Int64

	ctlMu sync.Mutex
	ctl   map[string][2]int // op family -> {expected, ok}
}

var ctx = context.Background()

const verifyReply = `{"verificationResults":{"SIGNATURE_VERIFIER.TRUSTED_IDENTITY":{"success":true,"reason":"plugbin"}},"processedAttributes":[]}`

func newWorld(r *hx.Run) *world {
	w := &world{r: r, scratch: hx.Scratch(), ctl: map[string][2]int{}}
	b, err := os.ReadFile(hx.Plugbin())
	if err != nil {
		r.Infra("cannot read plugbin: %v", err)
		r.Finish()
	}
	w.plugbin = b
	hs := sha256.Sum256(b)
	w.plugbinSum = hex.EncodeToString(hs[:])
	w.trusted = pki.NewChain(pki.ChainOpts{Len: 3, LeafSpec: pki.EC256, LeafIdx: 0, CAIdx: 0, Prefix: "T"})
	w.untrusted = pki.NewChain(pki.ChainOpts{Len: 3, LeafSpec: pki.EC256, LeafIdx: 1, CAIdx: 2, Prefix: "U"})
	w.store = mocks.NewTrustStore().Put("ca", "s", w.trusted.Root().Cert)
	w.store.NoLog = true
	w.validator = mocks.AllOK()
	w.validator.NoLog = true
	w.desc = ocispec.Descriptor{MediaType: "application/vnd.oci.image.manifest.v1+json", Digest: digest.FromString("artifact A"), Size: 100}
	w.payload = forge.PayloadFor(w.desc)
	// Sentinel executables are hard links of a pooled master copy: all masters are written before the
	// first process is started, so no descriptor open for writing on an executable can be inherited by
	// a forked child (ETXTBSY).
	n := 2*runtime.GOMAXPROCS(0) + 2
	w.masters = make(chan string, n+64)
	w.nxMasters = make(chan string, n+64)
	for i := 0; i < n; i++ {
		w.masters <- w.newMaster()
		w.nxMasters <- w.newNxMaster()
	}
	// The process itself needs no PATH: an empty directory, so that nothing of the machine can be found by name.
	emptyBin := filepath.Join(w.scratch, "empty-bin")
	if err := os.MkdirAll(emptyBin, 0o755); err == nil {
		_ = os.Setenv("PATH", emptyBin)
	}
	// Anything the real code does relative to the working directory must land in the scratch space.
	cwd := filepath.Join(w.scratch, "cwd", "l1", "l2", "l3", "l4", "l5", "l6", "l7")
	if err := os.MkdirAll(cwd, 0o755); err == nil {
		_ = os.Chdir(cwd)
	}
	return w
}

func (w *world) newMaster() string {
	p := filepath.Join(w.scratch, "masters", fmt.Sprintf("m%d", w.masterSeq.Add(1)))
	_ = os.MkdirAll(filepath.Dir(p), 0o755)
	if err := os.WriteFile(p, w.plugbin, 0o755); err != nil {
		panic(fmt.Sprintf("cannot write sentinel master: %v", err))
	}
	return p
}

func (w *world) newNxMaster() string {
	p := filepath.Join(w.scratch, "masters", fmt.Sprintf("nx%d", w.masterSeq.Add(1)))
	_ = os.MkdirAll(filepath.Dir(p), 0o755)
	if err := os.WriteFile(p, w.plugbin, 0o644); err != nil {
		panic(fmt.Sprintf("cannot write sentinel master: %v", err))
	}
	return p
}

// borrowNx hands out a pooled non-executable copy; give it back with returnNx.
func (w *world) borrowNx() string {
	select {
	case p := <-w.nxMasters:
		return p
	default:
		return w.newNxMaster()
	}
}

// returnNx restores the mode (the real code may have set the executable bit through a hard link) and
// pools the copy again unless its content was touched.
func (w *world) returnNx(p, sigContent string) {
	if contentSig(p) != sigContent {
		_ = os.Remove(p)
		return
	}
	if err := os.Chmod(p, 0o644); err != nil {
		_ = os.Remove(p)
		return
	}
	w.nxMasters <- p
}

// contentSig: size and modification time (a write through any hard link changes the latter).
func contentSig(p string) string {
	fi, err := os.Lstat(p)
	if err != nil {
		return "missing"
	}
	return fmt.Sprintf("%d/%d", fi.Size(), fi.ModTime().UnixNano())
}

func (w *world) control(fam string, ok bool) {
	w.ctlMu.Lock()
	c := w.ctl[fam]
	c[0]++
	if ok {
		c[1]++
	}
	w.ctl[fam] = c
	w.ctlMu.Unlock()
}

// ---------------------------------------------------------------- per-case environment

type caseEnv struct {
	w       *world
	dir     string // per-case scratch root; nothing outside it may be touched
	base    string // dir/l1/.../l7
	root    string // plugin root, depth levels below base, last component "plugins"
	marker  string
	master  string
	pre     string
	name    string // instantiated name
	placed  int    // sentinels placed for this case
	outside int    // sentinels/witnesses placed at a location that some join / normalisation of the name denotes
	srcExe  string // install source executable ("" when not an install case)

	masterSig string // inode signature of the sentinel master at the time of the first snapshot
}

func (w *world) newCase(depth int, pre string) *caseEnv {
	c := &caseEnv{w: w, pre: pre}
	c.dir = filepath.Join(w.scratch, "cases", fmt.Sprintf("c%d", w.caseSeq.Add(1)))
	c.base = filepath.Join(c.dir, "l1", "l2", "l3", "l4", "l5", "l6", "l7")
	c.root = c.base
	for i := 1; i < depth; i++ {
		c.root = filepath.Join(c.root, fmt.Sprintf("r%d", i))
	}
	c.root = filepath.Join(c.root, "plugins")
	c.marker = filepath.Join(c.dir, ".marker", "log")
	must(os.MkdirAll(c.root, 0o755))
	must(os.MkdirAll(filepath.Dir(c.marker), 0o755))
	select {
	case c.master = <-w.masters:
	default:
		c.master = w.newMaster()
	}
	return c
}

func (c *caseEnv) close(masterIntact bool) {
	_ = os.RemoveAll(c.dir)
	if masterIntact {
		c.w.masters <- c.master
	} else {
		_ = os.Remove(c.master)
	}
}

func must(err error) {
	if err != nil {
		panic("harness set-up: " + err.Error())
	}
}

func within(p, dir string) bool { return p == dir || strings.HasPrefix(p, dir+"/") }

// plan resolves the raw (possibly unclean) absolute path the way the operating system would,
// lexically (the tree holds no symbolic links): it returns the final location and the directories
// that must exist for the raw spelling to resolve.
func (c *caseEnv) plan(raw string) (final string, inter []string, ok bool) {
	if !strings.HasPrefix(raw, "/") {
		return "", nil, false
	}
	raw = strings.TrimRight(raw, "/") // a sentinel is a file: no trailing separator
	comps := strings.Split(raw, "/")
	cur := "/"
	for i, comp := range comps {
		last := i == len(comps)-1
		switch comp {
		case "", ".":
		case "..":
			cur = filepath.Dir(cur)
		default:
			if strings.IndexByte(comp, 0) >= 0 || len(comp) > 255 {
				return "", nil, false
			}
			cur = filepath.Join(cur, comp)
			if !last {
				inter = append(inter, cur)
			}
		}
	}
	final = cur
	if final == c.dir || !within(final, c.dir) || within(final, filepath.Dir(c.marker)) {
		return "", nil, false
	}
	for _, d := range inter {
		if !within(d, c.dir) && !within(c.dir, d) {
			return "", nil, false
		}
		if (c.pre == preAbsent || c.pre == preEnv) && within(d, c.root) && d != c.root {
			return "", nil, false
		}
	}
	if (c.pre == preAbsent || c.pre == preEnv) && within(final, c.root) {
		return "", nil, false
	}
	return final, inter, true
}

type sentinelCfg struct {
	Marker       string                       `json:"marker"`
	Name         string                       `json:"name"`
	Version      string                       `json:"version"`
	Capabilities []string                     `json:"capabilities"`
	Commands     map[string]map[string]string `json:"commands"`
}

func (c *caseEnv) sentinelJSON(version string) []byte { return c.sentinelJSONNamed(version, c.name) }

func (c *caseEnv) sentinelJSONNamed(version, name string) []byte {
	b, err := json.Marshal(sentinelCfg{Marker: c.marker, Name: name, Version: version,
		Capabilities: []string{"SIGNATURE_VERIFIER.TRUSTED_IDENTITY"},
		Commands:     map[string]map[string]string{"verify-signature": {"stdout": verifyReply}}})
	must(err)
	return b
}

// placeExec puts a sentinel executable (answering as the plugin that was asked for) at raw.
func (c *caseEnv) placeExec(raw string, nameSpecific bool) bool {
	final, inter, ok := c.plan(raw)
	if !ok {
		return false
	}
	for _, d := range inter {
		if within(d, c.dir) {
			if err := os.MkdirAll(d, 0o755); err != nil {
				return false
			}
		}
	}
	if err := os.MkdirAll(filepath.Dir(final), 0o755); err != nil {
		return false
	}
	if _, err := os.Lstat(final); err == nil {
		return false
	}
	if err := os.Link(c.master, final); err != nil {
		return false
	}
	if len(filepath.Base(final))+5 <= 255 {
		name := c.name
		if !nameSpecific && len(name) > 1024 {
			name = "" // a decoy of the fixed ring then answers with the name of its own file
		}
		_ = os.WriteFile(final+".json", c.sentinelJSONNamed("1.0.0", name), 0o644)
	}
	c.placed++
	if nameSpecific {
		c.outside++
	}
	return true
}

// placeDir puts a directory with ordinary content at raw (to witness deletions).
func (c *caseEnv) placeDir(raw string, nameSpecific bool) {
	final, inter, ok := c.plan(raw + "/witness.txt")
	if !ok {
		return
	}
	for _, d := range inter {
		if within(d, c.dir) {
			if err := os.MkdirAll(d, 0o755); err != nil {
				return
			}
		}
	}
	d := filepath.Dir(final)
	if err := os.MkdirAll(filepath.Join(d, "sub"), 0o755); err != nil {
		return
	}
	_ = os.WriteFile(final, []byte("ordinary file "+final+"\n"), 0o644)
	_ = os.WriteFile(filepath.Join(d, "sub", "inner.txt"), []byte("nested ordinary file\n"), 0o600)
	if nameSpecific {
		c.outside++
	}
}

// derived returns the spellings some sloppy normalisation could turn the name into.
func derived(n string) []string {
	var out []string
	seen := map[string]bool{}
	add := func(s string) {
		if s == "" || len(s) > 1<<17 || seen[s] {
			return
		}
		seen[s] = true
		out = append(out, s)
	}
	add(n)
	if i := strings.IndexByte(n, 0); i >= 0 {
		add(n[:i])
		add(strings.ReplaceAll(n, "\x00", ""))
	}
	add(strings.ReplaceAll(n, "\\", "/"))
	for _, s := range append([]string(nil), out...) {
		add(filepath.Base(s))
		add(filepath.Clean(s))
		add(strings.TrimSpace(s))
		add(strings.Trim(s, "/"))
		if i := strings.IndexByte(s, '/'); i > 0 {
			add(s[:i])
		}
	}
	return out
}

func up(p string, d int) string {
	for i := 0; i < d; i++ {
		p = filepath.Dir(p)
	}
	return p
}

// populate builds the world of one case: candidates of the name, ring of decoys, unrelated content.
func (c *caseEnv) populate() {
	R := c.root
	if c.pre == preAlone {
		if !mustReject(c.name) {
			eff := path.Clean(c.name)
			if c.placeExec(filepath.Join(R, eff, "notation-"+eff), true) {
				_ = os.WriteFile(filepath.Join(R, eff, "data.txt"), []byte("a file of the plugin\n"), 0o644)
			}
		}
		return
	}
	// unrelated neighbours inside the root (both pre-states): witnesses for "the whole root was removed"
	save := c.pre
	c.pre = preInstalled
	c.placeExec(R+"/other/notation-other", false)
	must(os.WriteFile(R+"/keep.txt", []byte("ordinary file in the plugin root\n"), 0o644))
	c.pre = save

	if !mustReject(c.name) {
		// collisions by construction: installed neighbours whose names are made from the name (what a staging,
		// backup, temporary or lock location next to the plugin would be called, case variants, trailing dot/blank)
		eff := path.Clean(c.name)
		save := c.pre
		c.pre = preInstalled
		for _, v := range siblingNames(eff) {
			if c.placeExec(filepath.Join(R, v, "notation-"+v), false) {
				_ = os.WriteFile(filepath.Join(R, v, "data.txt"), []byte("a file of the neighbour plugin "+v+"\n"), 0o644)
			}
		}
		c.pre = save
	}
	if c.pre == preEnv {
		for _, n := range derived(c.name) {
			if strings.ContainsAny(n, "/\x00") || n == "." || n == ".." || len(n)+14 > 255 {
				continue
			}
			c.placeExec(filepath.Join(c.envDir("bin"), "notation-"+n), true)
			c.placeExec(filepath.Join(c.envDir("libexec"), "plugins", n, "notation-"+n), true)
			c.placeExec(filepath.Join(c.envDir("xdg"), "notation", "plugins", n, "notation-"+n), true)
			c.placeExec(filepath.Join(c.envDir("home"), ".config", "notation", "plugins", n, "notation-"+n), true)
		}
	}
	for _, n := range derived(c.name) {
		// executables first: where the executable path and the plugin directory of a name denote the same
		// place (<run>/../../x) a file witnesses both execution and deletion
		c.placeExec(R+"/"+n+"/notation-"+n, true)                            // plain string concatenation
		c.placeExec(filepath.Join(R, n, "notation-"+n), true)                // cleaned join of the three parts
		c.placeExec(filepath.Join(R, path.Join(n, "notation-"+n)), true)     // what Get computes
		c.placeExec(R+"/"+n+"/notation-"+filepath.Base(n), true)             // a well-formed plugin directory at the denoted place
		c.placeExec(filepath.Join(R, n, "notation-"+filepath.Base(n)), true) //
		c.placeExec(R+"/notation-"+n, true)                                  // name joined to the binary prefix only
		c.placeDir(R+"/"+n, true)
		if strings.HasPrefix(n, "/") { // the name taken as an absolute path
			c.placeDir(n, true)
			c.placeExec(n+"/notation-"+n, true)
			c.placeExec(n+"/notation-"+filepath.Base(n), true)
			c.placeExec(filepath.Dir(n)+"/notation-"+filepath.Base(n), true)
		}
	}
	// fixed ring of decoys around the root
	for d := 0; d <= 6; d++ {
		U := up(R, d)
		c.placeExec(U+"/notation-x", false)
		c.placeExec(U+"/x/notation-x", false)
		c.placeExec(U+"/evil/notation-evil", false)
		c.placeExec(U+"/tmp/evil/notation-evil", false)
		c.placeDir(U+"/decoy-dir", false)
	}
	P := filepath.Dir(R)
	c.placeExec(P+"/sibling/notation-sibling", false)
	c.placeDir(P+"/sibling", false)
	c.placeExec(P+"/notation-plugins", false)
	c.placeExec(c.dir+"/abs/evil/notation-evil", false)
	c.placeExec(c.dir+"/abs/notation-evil", false)
	c.placeDir(c.dir+"/abs/evil", false)
	c.placeExec(c.dir+"/tmp/evil/notation-evil", false)
	c.placeExec(c.dir+"/x/notation-x", false)
	c.placeDir(c.dir+"/x", false)
}

func (c *caseEnv) envDir(what string) string { return filepath.Join(c.dir, "env", what) }

// siblingNames: single-component names made from x that a careless implementation might use next to <root>/<x>.
func siblingNames(x string) []string {
	var out []string
	seen := map[string]bool{x: true}
	add := func(v string) {
		if !seen[v] && singleComponent(v) && len(v)+14 <= 255 {
			seen[v] = true
			out = append(out, v)
		}
	}
	for _, suf := range []string{".new", ".old", ".tmp", ".bak", ".backup", ".orig", ".staging", ".partial", ".lock", ".1", "~", "-new", "_old", ".", " "} {
		add(x + suf)
	}
	for _, pre := range []string{".", "_", "~", "tmp-", ".tmp-", "new-", "old-"} {
		add(pre + x)
	}
	add(strings.ToUpper(x))
	add(strings.ToLower(x))
	add(strings.Title(x))
	return out
}

// legalFileName reports whether notation-<name> can be the name of a file.
func legalFileName(name string) bool {
	return !strings.ContainsAny(name, "/\x00") && len("notation-"+name)+5 <= 255
}

// installSource creates the source of an installation and returns the path handed to Install.
func (c *caseEnv) installSource(asDir bool) string {
	var d string
	if asDir {
		d = filepath.Join(c.dir, "srcd", "pkg")
	} else {
		d = filepath.Join(c.dir, "srcf")
	}
	must(os.MkdirAll(d, 0o755))
	exe := filepath.Join(d, "notation-"+c.name)
	must(os.Link(c.master, exe))
	if c.name != "" { // "notation-.json" would itself be a candidate plugin file (of the plugin ".json")
		must(os.WriteFile(exe+".json", c.sentinelJSON("2.0.0"), 0o644))
	}
	c.srcExe = exe
	if asDir {
		must(os.WriteFile(filepath.Join(d, "LICENSE"), []byte("licence text\n"), 0o644))
		must(os.WriteFile(filepath.Join(d, "libhelper.so"), []byte("\x7fELF not really\n"), 0o644))
		must(os.MkdirAll(filepath.Join(d, "sub"), 0o755))
		must(os.WriteFile(filepath.Join(d, "sub", "ignored.txt"), []byte("sub-directories are not installed\n"), 0o644))
		return d
	}
	return exe
}

// ---------------------------------------------------------------- snapshots

type entry struct {
	mode fs.FileMode
	size int64
	sum  string
}

// snapshot records every path below top (except skip) with mode, size and content hash. Content is
// hashed once per inode; seed pre-loads hashes of inodes whose content is known (the pooled sentinel
// master, verified when the previous case returned it).
func snapshot(top, skip string, seed map[uint64]string) (map[string]entry, map[uint64]string, error) {
	out := map[string]entry{}
	sums := map[uint64]string{}
	for k, v := range seed {
		sums[k] = v
	}
	err := filepath.WalkDir(top, func(p string, d fs.DirEntry, err error) error {
		if err != nil {
			return err
		}
		if p == skip {
			return fs.SkipDir
		}
		info, err := d.Info()
		if err != nil {
			return err
		}
		e := entry{mode: info.Mode()}
		switch {
		case info.Mode().IsRegular():
			e.size = info.Size()
			var ino uint64
			if st, ok := info.Sys().(*syscall.Stat_t); ok {
				ino = st.Ino
			}
			if s, ok := sums[ino]; ok && ino != 0 {
				e.sum = s
			} else {
				b, err := os.ReadFile(p)
				if err != nil {
					return err
				}
				h := sha256.Sum256(b)
				e.sum = hex.EncodeToString(h[:])
				sums[ino] = e.sum
			}
		case info.Mode()&fs.ModeSymlink != 0:
			t, _ := os.Readlink(p)
			e.sum = "->" + t
		}
		out[p] = e
		return nil
	})
	return out, sums, err
}

func inode(p string) uint64 {
	if fi, err := os.Lstat(p); err == nil {
		if st, ok := fi.Sys().(*syscall.Stat_t); ok {
			return st.Ino
		}
	}
	return 0
}

// statSig is everything the kernel records about an inode apart from its access time; the change time
// cannot be set by a program, so an unchanged signature means unchanged content, mode and link count.
func statSig(p string) string {
	fi, err := os.Lstat(p)
	if err != nil {
		return "missing"
	}
	st, ok := fi.Sys().(*syscall.Stat_t)
	if !ok {
		return "unknown"
	}
	return fmt.Sprintf("%d/%d/%o/%d/%d.%d/%d.%d", st.Ino, st.Size, st.Mode, st.Nlink, st.Mtim.Sec, st.Mtim.Nsec, st.Ctim.Sec, st.Ctim.Nsec)
}

// snapBefore trusts the content of the pooled master (verified when the previous case returned it);
// snapAfter re-hashes it unless its inode signature (incl. change time) is untouched, and reports
// whether it is intact.
func (c *caseEnv) snapBefore() (map[string]entry, error) {
	m, _, err := snapshot(c.dir, filepath.Dir(c.marker), map[uint64]string{inode(c.master): c.w.plugbinSum})
	c.masterSig = statSig(c.master)
	return m, err
}

func (c *caseEnv) snapAfter() (map[string]entry, bool, error) {
	var seed map[uint64]string
	if sig := statSig(c.master); sig == c.masterSig && sig != "missing" && sig != "unknown" {
		seed = map[uint64]string{inode(c.master): c.w.plugbinSum}
	}
	m, sums, err := snapshot(c.dir, filepath.Dir(c.marker), seed)
	intact := true
	if s, ok := sums[inode(c.master)]; ok && s != c.w.plugbinSum {
		intact = false
	}
	if fi, e := os.Lstat(c.master); e != nil || fi.Size() != int64(len(c.w.plugbin)) || fi.Mode().Perm() != 0o755 {
		intact = false
	}
	if intact {
		c.masterSig = statSig(c.master)
	} else {
		c.masterSig = "not intact"
	}
	return m, intact, err
}

type change struct {
	kind string // deleted, created, modified
	path string
}

func diff(before, after map[string]entry) []change {
	var out []change
	for p, b := range before {
		a, ok := after[p]
		if !ok {
			out = append(out, change{"deleted", p})
		} else if a != b {
			out = append(out, change{"modified", p})
		}
	}
	for p := range after {
		if _, ok := before[p]; !ok {
			out = append(out, change{"created", p})
		}
	}
	sort.Slice(out, func(i, j int) bool { return out[i].path < out[j].path })
	return out
}

// ---------------------------------------------------------------- running one case

type opResult struct {
	err      error // error of the operation as a whole
	firstErr error // for get: error of Get itself (a plugin handed out for a bad name is already a defect)
	evals    int
	panicked string
}

func (w *world) runOp(c *caseEnv, op, src string) (res opResult) {
	defer func() {
		if v := recover(); v != nil {
			res.panicked = fmt.Sprint(v)
			res.err = fmt.Errorf("panic: %v", v)
			res.firstErr = res.err
		}
	}()
	if c.pre == preEnv || op == opAddPlugin {
		// process-wide settings: one such case at a time
		w.addMu.Lock()
		oldLibexec, oldConfig, oldCache := dir.UserLibexecDir, dir.UserConfigDir, dir.UserCacheDir
		oldEnv := map[string]string{}
		if c.pre == preEnv {
			dir.UserLibexecDir = c.envDir("libexec")
			for k, v := range map[string]string{"PATH": c.envDir("bin"), "XDG_CONFIG_HOME": c.envDir("xdg"), "HOME": c.envDir("home")} {
				oldEnv[k] = os.Getenv(k)
				_ = os.Setenv(k, v)
			}
		}
		if op == opAddPlugin {
			dir.UserLibexecDir = filepath.Dir(c.root) // dir.PluginFS() = <libexec>/plugins = c.root
		}
		defer func() {
			dir.UserLibexecDir, dir.UserConfigDir, dir.UserCacheDir = oldLibexec, oldConfig, oldCache
			for k, v := range oldEnv {
				_ = os.Setenv(k, v)
			}
			w.addMu.Unlock()
		}()
	}
	mgr := plugin.NewCLIManager(dir.NewSysFS(c.root))
	switch op {
	case opGet:
		res.evals = 1
		p, err := mgr.Get(ctx, c.name)
		res.firstErr, res.err = err, err
		if err == nil {
			res.evals = 2
			_, res.err = p.GetMetadata(ctx, &fw.GetMetadataRequest{})
		}
	case opUninstall:
		res.evals = 1
		res.err = mgr.Uninstall(ctx, c.name)
		res.firstErr = res.err
	case opInstFile, opInstFileOW, opInstDir, opInstDirOW, opProbeNonExec:
		res.evals = 1
		_, _, res.err = mgr.Install(ctx, plugin.CLIInstallOptions{PluginPath: src, Overwrite: op == opInstFileOW || op == opInstDirOW})
		res.firstErr = res.err
	case opAddPlugin:
		res.evals = 1
		res.err = (&config.SigningKeys{}).AddPlugin(ctx, "key", "id", c.name, nil, false)
		res.firstErr = res.err
	case opVerifyJWS, opVerifyCOSE, opVerifyJWSUn, opVerifyCOSEUn:
		format := forge.JWS
		if op == opVerifyCOSE || op == opVerifyCOSEUn {
			format = forge.COSE
		}
		chain := w.trusted
		if op == opVerifyJWSUn || op == opVerifyCOSEUn {
			chain = w.untrusted
		}
		env := forge.Build(forge.Spec{Format: format, Chain: chain.X509(), Key: chain.Leaf().Key, Payload: w.payload,
			Ext: []forge.Attr{{Key: forge.HdrPlugin, Critical: true, Value: c.name}}})
		v, err := verifier.NewVerifierWithOptions(w.store, verifier.VerifierOptions{
			OCITrustPolicy:                 vt.OCIDoc(vt.Named()[0].SV(), []string{"ca:s"}, []string{"*"}),
			RevocationCodeSigningValidator: w.validator,
			PluginManager:                  mgr,
		})
		if err != nil {
			panic("harness set-up: verifier: " + err.Error())
		}
		res.evals = 1
		_, res.err = v.Verify(ctx, w.desc, env, notation.VerifierVerifyOptions{ArtifactReference: "reg.io/r@" + w.desc.Digest.String(), SignatureMediaType: format})
		res.firstErr = res.err
	default:
		panic("unknown operation " + op)
	}
	return res
}

func rel(c *caseEnv, p string) string {
	if within(p, c.dir) {
		return "<case>" + strings.TrimPrefix(p, c.dir)
	}
	return p
}

func short(s string, n int) string {
	if len(s) > n {
		return fmt.Sprintf("%s...(%d bytes)", s[:n], len(s))
	}
	return s
}

func errText(err error) string {
	if err == nil {
		return "<nil>"
	}
	return short(err.Error(), 160)
}

// runCase executes one (name, depth, pre-state, operation) element and judges it; it returns the outcome class.
func (w *world) runCase(ns nameSpec, depth int, pre, op string) string {
	r := w.r
	fam := family(op)
	c := w.newCase(depth, pre)
	c.name = ns.instantiate(c.dir)
	masterIntact := true
	defer func() { c.close(masterIntact) }()
	rc := replayCase{Op: op, Name: ns.Tmpl, NameB64: base64.StdEncoding.EncodeToString([]byte(ns.Tmpl)), Class: ns.Class,
		Acceptable: ns.Acceptable, Control: ns.Control, Depth: depth, Pre: pre}
	if len(rc.Name) > 300 {
		rc.Name = rc.Name[:300] + "...(see name_b64)"
	}

	if fam == "verify" && !utf8.ValidString(c.name) {
		return op + ":skipped/name-is-not-a-text-string"
	}
	var src string
	if fam == "install-file" || fam == "install-dir" || fam == "install-dir-nonexec" {
		if !legalFileName(c.name) {
			return op + ":skipped/notation-NAME-is-not-a-file-name"
		}
	}
	c.populate()
	if fam == "install-file" || fam == "install-dir" {
		src = c.installSource(fam == "install-dir")
	}
	if fam == "install-dir-nonexec" {
		src = c.installSource(true)
		// a copy of its own (a hard link shares its mode with every other sentinel) without the executable
		// bit, hard-linked from a pool written before the first fork (no ETXTBSY)
		must(os.Remove(c.srcExe))
		_ = os.Remove(c.srcExe + ".json") // it would be a second candidate (plugin "<name>.json")
		nx := w.borrowNx()
		nxSig := contentSig(nx)
		defer w.returnNx(nx, nxSig)
		must(os.Link(nx, c.srcExe))
	}

	before, err := c.snapBefore()
	if err != nil {
		r.Infra("snapshot before %s %q: %v", op, short(ns.Tmpl, 40), err)
		return op + ":infra"
	}
	res := w.runOp(c, op, src)
	r.Eval(res.evals)
	after, intact, err := c.snapAfter()
	masterIntact = intact
	if err != nil {
		r.Infra("snapshot after %s %q: %v", op, short(ns.Tmpl, 40), err)
		return op + ":infra"
	}
	mk, _ := os.ReadFile(c.marker)
	changes := diff(before, after)

	describe := func() string {
		var chs []string
		for i, ch := range changes {
			if i == 4 {
				chs = append(chs, fmt.Sprintf("... %d changes", len(changes)))
				break
			}
			chs = append(chs, ch.kind+" "+rel(c, ch.path))
		}
		return fmt.Sprintf("%s name=%q (%s) root=%s pre=%s: error=%s; sentinels run=%q; file-system changes=%v",
			op, short(c.name, 80), ns.Label, rel(c, c.root), pre, errText(res.err), short(strings.ReplaceAll(string(mk), c.dir, "<case>"), 300), chs)
	}
	violated := false
	viol := func(reason string) {
		violated = true
		r.Violation(fam+"/"+reason+":"+ns.Class, describe(), rc)
	}
	if res.panicked != "" {
		viol("panic")
	}

	strict := !ns.Acceptable && mustReject(c.name)
	if strict {
		// at most one execution key and one file-system key per case (the gravest), "no-error" alone otherwise
		execRank := map[string]int{"executed-outside-root": 3, "executed-inside-root": 2, "executed-install-source": 1}
		worstExec := ""
		exes, unparsed := executedBy(string(mk))
		if unparsed != "" {
			exes = append(exes, unparsed)
		}
		for _, exe := range exes {
			reason := "executed-outside-root"
			switch {
			case exe == c.srcExe && c.srcExe != "":
				reason = "executed-install-source"
			case within(exe, c.root):
				reason = "executed-inside-root"
			}
			if execRank[reason] > execRank[worstExec] {
				worstExec = reason
			}
		}
		fsRank := map[string]int{"deleted-outside-root": 6, "created-outside-root": 5, "modified-outside-root": 4, "deleted-inside-root": 3, "created-inside-root": 2, "modified-inside-root": 1}
		worstFS := ""
		for _, ch := range changes {
			reason := ch.kind + "-outside-root"
			if within(ch.path, c.root) {
				reason = ch.kind + "-inside-root"
			}
			if fsRank[reason] > fsRank[worstFS] {
				worstFS = reason
			}
		}
		if worstExec != "" {
			if fam == "verify" {
				worstExec = map[string]string{"executed-outside-root": "plugin-outside-root-executed", "executed-inside-root": "plugin-inside-root-executed"}[worstExec]
			}
			viol(worstExec)
		}
		if worstFS != "" {
			viol(worstFS)
		}
		if res.err == nil && worstExec == "" && worstFS == "" {
			// "rejected with an error" is said of the plugin manager's own calls (for a lookup: of Get and the
			// use of what it returned, taken together). What config.AddPlugin or the verifier make of the
			// manager's refusal is not part of C16 (C02 covers the verifier): evidence only.
			if fam == opAddPlugin || fam == "verify" {
				r.Outcome("recorded:" + fam + "/no-error")
			} else {
				viol("no-error")
			}
		}
		if c.outside > 0 {
			r.Nontrivial(fmt.Sprintf("%s|%d|%s|%s", ns.Label, depth, pre, op))
		}
		if violated {
			return op + ":unacceptable/VIOLATION"
		}
		return op + ":unacceptable/rejected-without-effect"
	}

	// acceptable name - or a name that need not be refused because it denotes <root>/<one component>:
	// only that directory may be touched (whether such an alias is refused or served is not judged)
	kind := "acceptable"
	eff := c.name
	if !ns.Acceptable {
		kind = "denotes-one-component"
		eff = path.Clean(c.name)
	}
	plugDir := filepath.Join(c.root, eff)
	plugExe := filepath.Join(plugDir, "notation-"+eff)
	exes, unparsed := executedBy(string(mk))
	ranPlugin, ranSource, ranElsewhere := false, false, unparsed != ""
	for _, exe := range exes {
		switch {
		case c.srcExe != "" && exe == c.srcExe:
			ranSource = true
		case within(exe, plugDir) && exe != plugDir: // anything in the plugin's own directory
			ranPlugin = true
		default:
			ranElsewhere = true
		}
	}
	if ranElsewhere {
		if fam == "verify" {
			viol("plugin-outside-plugin-dir-executed")
		} else {
			viol("executed-outside-plugin-dir")
		}
	}
	seen := map[string]bool{}
	changedInside := false
	for _, ch := range changes {
		if within(ch.path, plugDir) {
			changedInside = true
			continue
		}
		if ch.kind == "created" && filepath.Dir(ch.path) == c.root && after[ch.path].mode.IsRegular() {
			// a new regular file directly in the plugin root (lock, index, log) can not be taken for a plugin
			// and is none of "looks up, executes, installs into, deletes": evidence only
			r.Outcome("recorded:" + fam + "/created-regular-file-in-plugin-root")
			continue
		}
		if fam == "install-dir-nonexec" && ch.kind == "modified" && ch.path == c.srcExe {
			// documented behaviour for an acceptable name: the single non-executable candidate of the
			// install source gets its user-executable bit set before the installation is tried
			continue
		}
		if !seen[ch.kind] {
			seen[ch.kind] = true
			viol(ch.kind + "-outside-plugin-dir")
		}
	}
	if ranPlugin || ranSource || changedInside {
		r.Nontrivial(fmt.Sprintf("%s|%d|%s|%s", ns.Label, depth, pre, op))
	}
	if ns.Control {
		// non-vacuity: the honest name must really work
		ok := false
		inst := pre == preInstalled || pre == preAlone
		_, statErr := os.Lstat(plugExe)
		switch fam {
		// (only what an honest plugin manager must do whatever its internals: no error type, no error text,
		// no number or order of plugin runs, no policy about versions)
		case opGet:
			ok = inst && res.err == nil && ranPlugin || !inst && res.err != nil && !ranPlugin
		case opUninstall:
			_, e := os.Lstat(plugDir)
			ok = inst && res.err == nil && errors.Is(e, os.ErrNotExist) || !inst
		case "install-file", "install-dir":
			ok = res.err == nil && statErr == nil
		case "install-dir-nonexec":
			ok = statErr == nil && (inst || res.err == nil)
		case opAddPlugin:
			ok = inst && res.err == nil || !inst
		case "verify":
			switch {
			case !inst:
				ok = !ranPlugin
			case strings.HasSuffix(op, "-untrusted"):
				ok = res.err != nil
			default:
				ok = res.err == nil && ranPlugin
			}
		}
		w.control(fam, ok)
		if !ok {
			r.Outcome(op + ":control-did-not-behave-as-expected")
			fmt.Fprintf(os.Stderr, "note: positive control did not behave as expected: %s\n", describe())
		}
	}
	if violated {
		return op + ":" + kind + "/VIOLATION"
	}
	cls := "ok"
	if res.err != nil {
		cls = "error"
	}
	if ranPlugin {
		cls += "+plugin-executed"
	}
	if ranSource {
		cls += "+source-executed"
	}
	if changedInside {
		cls += "+plugin-dir-changed"
	}
	if !ranPlugin && !ranSource && !changedInside {
		cls += "-without-effect"
	}
	return op + ":" + kind + "/" + cls
}

// ---------------------------------------------------------------- List

const (
	kPlain = 1 << iota
	kEmptyDir
	kLinkDirOutside
	kLinkDirInside
	kFiles
	kLinkFile
	kNested
	kOddDirs
	kAll
)

var kindNames = []string{"plain-dir", "empty-dir", "symlink-to-outside-dir", "symlink-to-inside-dir", "regular-files", "symlink-to-file", "nested-dirs", "odd-named-dirs"}

func (w *world) runList(depth, mask int, noRoot bool) string {
	r := w.r
	c := w.newCase(depth, preInstalled)
	c.name = "plain"
	masterIntact := true
	defer func() { c.close(masterIntact) }()
	rc := replayCase{Op: opList, Depth: depth, ListMask: mask, ListNoRoot: noRoot, Class: "list"}
	R := c.root
	var want []string
	class := map[string]string{}
	// things around the root that must never be reported
	c.placeExec(filepath.Dir(R)+"/outside-plugin/notation-outside-plugin", false)
	c.placeExec(filepath.Dir(R)+"/notation-plugins", false)
	must(os.WriteFile(filepath.Dir(R)+"/outside-file.txt", []byte("file outside the root\n"), 0o644))
	if noRoot {
		must(os.Remove(R))
	} else {
		if mask&kPlain != 0 {
			c.placeExec(R+"/plain/notation-plain", false)
			want = append(want, "plain")
		}
		if mask&kEmptyDir != 0 {
			must(os.Mkdir(R+"/emptydir", 0o755))
			want = append(want, "emptydir")
		}
		if mask&kLinkDirOutside != 0 {
			must(os.Symlink(filepath.Dir(R)+"/outside-plugin", R+"/outside-plugin"))
			must(os.Symlink("../outside-plugin", R+"/lnk-rel-out"))
			class["outside-plugin"], class["lnk-rel-out"] = "symlink-listed", "symlink-listed"
		}
		if mask&kLinkDirInside != 0 {
			must(os.Symlink("plain", R+"/lnk-in")) // dangling when the plain directory is absent
			must(os.Symlink(".", R+"/lnk-self"))
			class["lnk-in"], class["lnk-self"] = "symlink-listed", "symlink-listed"
		}
		if mask&kFiles != 0 {
			must(os.WriteFile(R+"/file.txt", []byte("a file in the root\n"), 0o644))
			c.placeExec(R+"/notation-file", false)
			class["file.txt"], class["notation-file"], class["notation-file.json"] = "non-directory-listed", "non-directory-listed", "non-directory-listed"
		}
		if mask&kLinkFile != 0 {
			must(os.Symlink(filepath.Dir(R)+"/outside-file.txt", R+"/lnk-file"))
			must(os.Symlink("nowhere", R+"/lnk-dangling"))
			class["lnk-file"], class["lnk-dangling"] = "symlink-listed", "symlink-listed"
		}
		if mask&kNested != 0 {
			c.placeExec(R+"/nested/notation-nested", false)
			c.placeExec(R+"/nested/inner/notation-inner", false)
			c.placeExec(R+"/nested/inner/deep/notation-deep", false)
			want = append(want, "nested")
			class["inner"], class["deep"] = "nested-listed", "nested-listed"
		}
		if mask&kOddDirs != 0 {
			for _, n := range []string{"foo.bar-1_x", "a b", "...", ".hidden", "a\\b"} {
				must(os.Mkdir(R+"/"+n, 0o755))
				want = append(want, n)
			}
		}
	}
	sort.Strings(want)
	before, err := c.snapBefore()
	if err != nil {
		r.Infra("list snapshot: %v", err)
		return "list:infra"
	}
	var got []string
	var lerr error
	var panicked string
	func() {
		defer func() {
			if v := recover(); v != nil {
				panicked = fmt.Sprint(v)
			}
		}()
		got, lerr = plugin.NewCLIManager(dir.NewSysFS(R)).List(ctx)
	}()
	r.Eval(1)
	after, intact, err := c.snapAfter()
	masterIntact = intact
	if err != nil {
		r.Infra("list snapshot: %v", err)
		return "list:infra"
	}
	mk, _ := os.ReadFile(c.marker)
	got = append([]string(nil), got...)
	sort.Strings(got)
	var kinds []string
	for i, n := range kindNames {
		if mask&(1<<i) != 0 {
			kinds = append(kinds, n)
		}
	}
	what := fmt.Sprintf("List with root at depth %d holding %v (root missing: %v) returned %q, error %s; the real sub-directories are %q", depth, kinds, noRoot, got, errText(lerr), want)
	violated := false
	viol := func(reason string) {
		violated = true
		r.Violation("list/"+reason, what, rc)
	}
	if panicked != "" {
		what += "; panic: " + panicked
		viol("panic")
	}
	if lerr != nil && !noRoot {
		viol("error")
	}
	listSideEffects(r, string(mk), diff(before, after), after, R, want, viol)
	if lerr == nil && panicked == "" {
		wantSet := map[string]int{}
		for _, n := range want {
			wantSet[n]++
		}
		for _, n := range got {
			if wantSet[n] > 0 {
				wantSet[n]--
				continue
			}
			reason := class[n]
			if reason == "" {
				reason = "unknown-name-listed"
				for _, x := range want {
					if x == n {
						reason = "listed-twice"
					}
				}
			}
			if reason == "listed-twice" {
				// the same real directory reported more than once: still exactly the real sub-directories
				r.Outcome("recorded:list/listed-twice")
				continue
			}
			viol(reason)
		}
		for _, n := range want {
			if wantSet[n] > 0 {
				wantSet[n] = 0
				viol("real-directory-missing")
			}
		}
	}
	if len(want) > 0 && (mask&(kLinkDirOutside|kLinkDirInside|kFiles|kLinkFile|kNested) != 0) {
		r.Nontrivial(fmt.Sprintf("list|%d|%d", depth, mask))
	}
	if violated {
		return "list:VIOLATION"
	}
	if noRoot {
		return "list:root-missing/empty-result"
	}
	return fmt.Sprintf("list:exact/%d-real-directories", len(want))
}

// ---------------------------------------------------------------- histories on one manager

// Steps of a history. Every step is judged on its own with the oracle of the single-call cases; the
// install source may run only DURING an install step, every other step may run <root>/<name>/notation-<name> only.
const (
	stInstFile   = "install-file"
	stInstFileOW = "install-file-overwrite"
	stInstDir    = "install-dir"
	stInstDirOW  = "install-dir-overwrite"
	stGet        = "get" // Get + GetMetadata
	stUninstall  = "uninstall"
	stList       = "list"
	stVerify     = "verify" // verifier.Verify (JWS, trusted chain) through a verifier that shares the manager
	stGetBad     = "get-bad-variants"
)

var stepAlphabet = []string{stInstFile, stInstFileOW, stInstDir, stInstDirOW, stGet, stUninstall, stList, stVerify, stGetBad}

// histories returns every sequence of 2..maxLen steps plus a few longer named ones.
func histories(maxLen int) [][]string {
	var out [][]string
	seen := map[string]bool{}
	add := func(h []string) {
		k := strings.Join(h, ">")
		if !seen[k] {
			seen[k] = true
			out = append(out, append([]string(nil), h...))
		}
	}
	var gen func(prefix []string)
	gen = func(prefix []string) {
		if len(prefix) >= 2 {
			add(prefix)
		}
		if len(prefix) == maxLen {
			return
		}
		for _, st := range stepAlphabet {
			gen(append(append([]string(nil), prefix...), st))
		}
	}
	gen(nil)
	for _, h := range [][]string{
		{stInstFile, stUninstall, stGet},
		{stInstDir, stUninstall, stGet},
		{stGet, stInstFileOW, stGet},
		{stGet, stInstDirOW, stGet},
		{stInstFile, stGet, stVerify},
		{stInstDir, stList, stGet},
		{stInstFile, stGet, stUninstall, stGet},
		{stGet, stUninstall, stInstFile, stGet},
		{stInstFile, stInstDirOW, stGet, stList},
		{stVerify, stInstDirOW, stVerify, stUninstall, stVerify},
	} {
		add(h)
	}
	return out
}

// badVariants are spellings around the plugin x that the statement demands to be refused (mustReject).
func badVariants(x string) []string {
	return []string{"../" + x, "./../" + x, x + "\x00", "../plugins/" + x, x + "/../../plugins/" + x, x + "/" + x, x + "/.."}
}

func stepKind(st string) string {
	if strings.HasPrefix(st, "install") {
		return "install"
	}
	return st
}

// inRealSubdir: p lies inside one of the real sub-directories (names) of root.
func inRealSubdir(p, root string, names []string) bool {
	for _, n := range names {
		if d := filepath.Join(root, n); within(p, d) && p != d {
			return true
		}
	}
	return false
}

// listSideEffects judges what a List call ran and changed. The statement lets the manager look into and
// execute <root>/<name> (a List that asks every plugin for its metadata is legitimate); anything run or
// changed elsewhere is not. A new regular file directly in the root is evidence only (see runCase).
func listSideEffects(r *hx.Run, marker string, changes []change, after map[string]entry, root string, real []string, viol func(string)) {
	exes, unparsed := executedBy(marker)
	bad := unparsed != ""
	for _, exe := range exes {
		if !inRealSubdir(exe, root, real) {
			bad = true
		}
	}
	if bad {
		viol("executed-outside-the-plugin-directories")
	} else if len(exes) > 0 {
		r.Outcome("recorded:list/executed-plugins-of-the-root")
	}
	for _, ch := range changes {
		switch {
		case inRealSubdir(ch.path, root, real):
			r.Outcome("recorded:list/changed-inside-a-plugin-directory")
		case ch.kind == "created" && filepath.Dir(ch.path) == root && after[ch.path].mode.IsRegular():
			r.Outcome("recorded:list/created-regular-file-in-plugin-root")
		default:
			viol("changed-file-system-outside-the-plugin-directories")
			return
		}
	}
}

// realSubdirs is the harness's own look at the plugin root: names of the entries that are directories themselves.
func realSubdirs(root string) []string {
	var out []string
	es, _ := os.ReadDir(root)
	for _, e := range es {
		if e.Type().IsDir() {
			out = append(out, e.Name())
		}
	}
	sort.Strings(out)
	return out
}

// runHistory runs the steps one after the other on ONE manager (and one verifier sharing it) over one
// directory tree and judges every step.
func (w *world) runHistory(ns nameSpec, depth int, pre string, steps []string) string {
	r := w.r
	c := w.newCase(depth, pre)
	c.name = ns.instantiate(c.dir)
	masterIntact := true
	defer func() { c.close(masterIntact) }()
	rc := replayCase{Op: opHistory, Name: ns.Tmpl, NameB64: base64.StdEncoding.EncodeToString([]byte(ns.Tmpl)), Class: ns.Class,
		Acceptable: ns.Acceptable, Control: ns.Control, Depth: depth, Pre: pre, Steps: steps}
	if len(rc.Name) > 300 {
		rc.Name = rc.Name[:300] + "...(see name_b64)"
	}
	if !legalFileName(c.name) || !utf8.ValidString(c.name) {
		return "history:skipped/name-cannot-be-installed-or-signed"
	}
	if !ns.Acceptable && !mustReject(c.name) {
		return "history:skipped/name-need-not-be-refused"
	}
	c.populate()
	srcFile := c.installSource(false)
	srcFileExe := c.srcExe
	srcDir := c.installSource(true)
	srcDirExe := c.srcExe
	c.srcExe = ""
	plugDir := filepath.Join(c.root, c.name)
	plugExe := filepath.Join(plugDir, "notation-"+c.name)

	mgr := plugin.NewCLIManager(dir.NewSysFS(c.root))
	vfy, err := verifier.NewVerifierWithOptions(w.store, verifier.VerifierOptions{
		OCITrustPolicy:                 vt.OCIDoc(vt.Named()[0].SV(), []string{"ca:s"}, []string{"*"}),
		RevocationCodeSigningValidator: w.validator,
		PluginManager:                  mgr,
	})
	if err != nil {
		panic("harness set-up: verifier: " + err.Error())
	}
	env := forge.Build(forge.Spec{Format: forge.JWS, Chain: w.trusted.X509(), Key: w.trusted.Leaf().Key, Payload: w.payload,
		Ext: []forge.Attr{{Key: forge.HdrPlugin, Critical: true, Value: c.name}}})

	cur, err := c.snapBefore()
	if err != nil {
		r.Infra("history snapshot: %v", err)
		return "history:infra"
	}
	markerOff := 0
	violated := false
	// reference model, used for the positive controls only (non-vacuity, never a violation)
	installed := pre == preInstalled || pre == preAlone
	modelOK := true
	var trace []string

	for i, st := range steps {
		var opErr, firstErr error
		var panicked string
		var listed []string
		var src, srcExe string
		evals := 0
		attempt := func() {
			opErr, firstErr, panicked, listed = nil, nil, "", nil
			evals = 1 // of the attempt that counts
			defer func() {
				if v := recover(); v != nil {
					panicked = fmt.Sprint(v)
					opErr = fmt.Errorf("panic: %v", v)
					firstErr = opErr
				}
			}()
			switch st {
			case stInstFile, stInstFileOW, stInstDir, stInstDirOW:
				src, srcExe = srcFile, srcFileExe
				if st == stInstDir || st == stInstDirOW {
					src, srcExe = srcDir, srcDirExe
				}
				_, _, opErr = mgr.Install(ctx, plugin.CLIInstallOptions{PluginPath: src, Overwrite: st == stInstFileOW || st == stInstDirOW})
				firstErr = opErr
			case stGet:
				p, err := mgr.Get(ctx, c.name)
				firstErr, opErr = err, err
				if err == nil {
					evals++
					_, opErr = p.GetMetadata(ctx, &fw.GetMetadataRequest{})
				}
			case stUninstall:
				opErr = mgr.Uninstall(ctx, c.name)
				firstErr = opErr
			case stList:
				listed, opErr = mgr.List(ctx)
				firstErr = opErr
			case stVerify:
				_, opErr = vfy.Verify(ctx, w.desc, env, notation.VerifierVerifyOptions{ArtifactReference: "reg.io/r@" + w.desc.Digest.String(), SignatureMediaType: forge.JWS})
				firstErr = opErr
			case stGetBad:
				evals = 0
				firstErr = errors.New("every variant was refused")
				opErr = firstErr
				for _, v := range badVariants(c.name) {
					evals++
					p, err := mgr.Get(ctx, v)
					if err == nil {
						evals++
						if _, err = p.GetMetadata(ctx, &fw.GetMetadataRequest{}); err == nil { // (a sentinel tells what was found)
							firstErr, opErr = nil, nil
						}
					}
				}
			default:
				panic("harness: unknown step " + st)
			}
		}
		// An executable that this process has just copied (Install) can be "busy" for an instant: a child
		// forked meanwhile by another case still holds the inherited descriptor until it execs. That is an
		// artefact of running cases in parallel, not an answer of the code: the call is made again.
		for try := 0; ; try++ {
			attempt()
			if opErr == nil || try >= 400 || !(errors.Is(opErr, syscall.ETXTBSY) || strings.Contains(opErr.Error(), "text file busy")) {
				break
			}
			time.Sleep(5 * time.Millisecond)
		}
		r.Eval(evals)
		// state of the plugin directory at the moment the call returned
		plugFi, plugStatErr := os.Lstat(plugExe)
		plugIsFile := plugStatErr == nil && plugFi.Mode().IsRegular()
		wantList := realSubdirs(c.root)
		after, intact, err := c.snapAfter()
		masterIntact = intact
		if err != nil {
			r.Infra("history snapshot: %v", err)
			return "history:infra"
		}
		mkAll, _ := os.ReadFile(c.marker)
		var mk string
		if len(mkAll) >= markerOff {
			mk = string(mkAll[markerOff:])
		} else {
			mk = string(mkAll)
		}
		markerOff = len(mkAll)
		changes := diff(cur, after)
		cur = after
		trace = append(trace, fmt.Sprintf("%s:%s", st, map[bool]string{true: "ok", false: "error"}[opErr == nil]))

		describe := func() string {
			var chs []string
			for k, ch := range changes {
				if k == 4 {
					chs = append(chs, fmt.Sprintf("... %d changes", len(changes)))
					break
				}
				chs = append(chs, ch.kind+" "+rel(c, ch.path))
			}
			return fmt.Sprintf("history %v on one CLIManager, name=%q (%s) root=%s pre=%s: step %d (%s) returned error=%s; sentinels run by this step=%q; file-system changes of this step=%v; results so far %v",
				steps, short(c.name, 80), ns.Label, rel(c, c.root), pre, i+1, st, errText(opErr), short(strings.ReplaceAll(mk, c.dir, "<case>"), 300), chs, trace)
		}
		viol := func(reason string) {
			violated = true
			r.Violation("history/"+stepKind(st)+"-"+reason+":"+ns.Class, describe(), rc)
		}
		if panicked != "" {
			viol("panic")
		}
		acceptable := ns.Acceptable && st != stGetBad
		if st == stList {
			// List takes no name: exactly the real sub-directories (as a set), nothing run or changed outside them
			gotSet := map[string]bool{}
			for _, n := range listed {
				gotSet[n] = true
			}
			got := make([]string, 0, len(gotSet))
			for n := range gotSet {
				got = append(got, n)
			}
			sort.Strings(got)
			if opErr != nil {
				viol("error")
			} else if strings.Join(got, "\x00") != strings.Join(wantList, "\x00") {
				viol("not-exactly-the-real-sub-directories")
			}
			listSideEffects(r, mk, changes, after, c.root, wantList, viol)
		} else if !acceptable {
			if mk != "" {
				viol("executed-for-unacceptable-name")
			}
			if len(changes) > 0 {
				viol("changed-file-system-for-unacceptable-name")
			}
			if opErr == nil && mk == "" && len(changes) == 0 {
				if st == stVerify { // what the verifier makes of the manager's refusal is C02's business
					r.Outcome("recorded:history/verify-no-error")
				} else {
					viol("no-error")
				}
			}
		} else {
			exes, unparsed := executedBy(mk)
			ranElsewhere, ranASource := unparsed != "", false
			for _, exe := range exes {
				switch {
				case srcExe != "" && exe == srcExe: // the source of THIS install step
				case within(exe, plugDir) && exe != plugDir: // anything in the plugin's own directory
				case exe == srcFileExe || exe == srcDirExe:
					ranElsewhere, ranASource = true, true
				default:
					ranElsewhere = true
				}
			}
			if ranASource {
				viol("executed-install-source-outside-plugin-dir")
			} else if ranElsewhere {
				viol("executed-outside-plugin-dir")
			}
			for _, ch := range changes {
				if within(ch.path, plugDir) {
					continue
				}
				if ch.kind == "created" && filepath.Dir(ch.path) == c.root && after[ch.path].mode.IsRegular() {
					r.Outcome("recorded:history/created-regular-file-in-plugin-root")
					continue
				}
				viol(ch.kind + "-outside-plugin-dir")
				break
			}
			// A plugin that is reported as found although <root>/<name>/notation-<name> is not there (stale
			// memory of the manager): nothing outside <root>/<name> was looked up, run or changed, so C16 holds;
			// evidence only.
			if st == stGet && firstErr == nil && !plugIsFile {
				r.Outcome("recorded:history/get-found-a-plugin-that-is-not-in-the-plugin-dir")
			}
			if st == stVerify && opErr == nil && !plugIsFile {
				r.Outcome("recorded:history/verified-with-a-plugin-that-is-not-in-the-plugin-dir")
			}
		}
		if !intact {
			break
		}

		// reference model (controls only)
		if ns.Control {
			ranPlugin := strings.Contains(mk, plugExe+" ")
			switch st {
			case stInstFile, stInstFileOW, stInstDir, stInstDirOW:
				// an installation over nothing, or with overwrite, succeeds; what happens to an equal or older
				// version without overwrite is policy, and how often which file is run is mechanism: not modelled
				ow := st == stInstFileOW || st == stInstDirOW
				if (!installed || ow) && opErr != nil || (ranPlugin && !installed) {
					modelOK = false
				}
				if opErr == nil {
					installed = true
				}
			case stGet:
				if (opErr == nil) != installed || ranPlugin != installed {
					modelOK = false
				}
			case stUninstall:
				if installed && opErr != nil { // (whether removing what is not there is an error is not modelled)
					modelOK = false
				}
				if opErr == nil {
					installed = false
				}
			case stVerify:
				if (opErr == nil) != installed || installed != strings.Contains(mk, plugExe+" verify-signature\n") {
					modelOK = false
				}
			case stList:
				has := false
				for _, n := range listed {
					has = has || n == c.name
				}
				if has != installed {
					modelOK = false
				}
			case stGetBad:
				if firstErr == nil {
					modelOK = false
				}
			}
		}

		// the environment between two calls: an installed executable gets the behaviour file of its source
		// (same name, same version, same marker), so that whichever file runs next is seen and both answer alike
		if strings.HasPrefix(st, "install") && opErr == nil && ns.Acceptable {
			if _, e := os.Lstat(plugExe + ".json"); e != nil && plugIsFile {
				if os.WriteFile(plugExe+".json", c.sentinelJSON("2.0.0"), 0o644) == nil {
					if cur, err = c.snapBefore(); err != nil {
						r.Infra("history snapshot: %v", err)
						return "history:infra"
					}
				}
			}
		}
	}
	r.Nontrivial(fmt.Sprintf("history|%s|%d|%s|%s", ns.Label, depth, pre, strings.Join(steps, ">")))
	if ns.Control {
		w.control(opHistory, modelOK)
		if !modelOK {
			r.Outcome("history:control-did-not-behave-as-expected")
			fmt.Fprintf(os.Stderr, "note: history control did not follow the reference model: %v name=%q pre=%s: %v\n", steps, short(c.name, 40), pre, trace)
		}
	}
	if violated {
		return "history:VIOLATION"
	}
	kind := "unacceptable"
	if ns.Acceptable {
		kind = "acceptable"
	}
	return fmt.Sprintf("history:%s/len%d/%s", kind, len(steps), trace[len(trace)-1])
}

// ---------------------------------------------------------------- main

type job struct {
	ns    nameSpec
	depth int
	pre   string
	op    string
	// list
	mask   int
	noRoot bool
	// history
	steps []string
}

func main() {
	r := hx.New("C16")
	r.Rule = "every element of (name of the grammar) x (plugin root 1..4 levels below the scratch base) x (plugin directory pre-installed among neighbours and decoys | absent | alone: the only entry of the root, the root the only entry of each ancestor) x (Get+GetMetadata, Uninstall, Install from file/directory with and without overwrite, SigningKeys.AddPlugin, Verify JWS/COSE with the real CLIManager) is run once on a freshly built real directory tree with sentinel executables at every location a plain or cleaned join of (root, name, notation-name) or a sloppy normalisation of the name denotes, plus a fixed ring of decoys; List: every subset of 8 directory-entry kinds x depth; histories: every sequence of 2 (quick) / 2..3 (thorough) steps over a 9-step alphabet plus 10 named longer ones, on ONE CLIManager object shared with a verifier, for control / odd / unacceptable names x pre-state, every step judged on its own (marker delta and snapshot difference of that step). Non-trivial = unacceptable name with at least one name-specific sentinel/witness really placed outside <root>/<name> (a mis-resolution would be observed), or acceptable name for which the real code executed a sentinel or changed <root>/<name>; List: a root mixing real directories with entries that must not be listed; every history."
	r.Assumptions = []string{
		"Linux path semantics (the only separator is '/'); the scratch tree holds no symbolic links except in the List family",
		"reads without side effects (stat/open of a file outside the root that is neither executed nor changed) are not observable and not judged",
		"sentinels are hard links of cmd/plugbin; a sentinel that runs always appends to the marker file of its case",
		"config.SigningKeys.AddPlugin is driven through the process-wide dir.UserLibexecDir under a mutex",
	}
	if r.Replay != "" { // the process changes its working directory below
		if abs, err := filepath.Abs(r.Replay); err == nil {
			r.Replay = abs
		}
	}
	w := newWorld(r)
	thorough := r.Thorough()

	if r.Replay != "" {
		var c replayCase
		if err := r.LoadReplay(&c); err != nil {
			r.Infra("replay: %v", err)
			r.Finish()
		}
		switch c.Op {
		case opAll:
			// a violation that cannot be attributed to one case: re-run the whole tier
		case opList:
			fmt.Println("replay result:", w.runList(c.Depth, c.ListMask, c.ListNoRoot))
			r.Finish()
		case opHistory:
			tmpl := c.Name
			if b, err := base64.StdEncoding.DecodeString(c.NameB64); err == nil && c.NameB64 != "" {
				tmpl = string(b)
			}
			ns := nameSpec{Tmpl: tmpl, Class: c.Class, Label: c.Class, Acceptable: c.Acceptable, Control: c.Control}
			if c.NameB64 == "" && c.Class == "" { // hand-written replay file
				ns.Acceptable = singleComponent(tmpl)
				ns.Class, ns.Label = "replay", "replay"
			}
			if c.Pre == "" {
				c.Pre = preInstalled
			}
			if c.Depth < 1 {
				c.Depth = 1
			}
			fmt.Println("replay result:", w.runHistory(ns, c.Depth, c.Pre, c.Steps))
			r.Finish()
		default:
			tmpl := c.Name
			if b, err := base64.StdEncoding.DecodeString(c.NameB64); err == nil && c.NameB64 != "" {
				tmpl = string(b)
			}
			ns := nameSpec{Tmpl: tmpl, Class: c.Class, Label: c.Class, Acceptable: c.Acceptable, Control: c.Control}
			if c.NameB64 == "" && c.Class == "" { // hand-written replay file
				ns.Acceptable = singleComponent(tmpl)
				ns.Class, ns.Label = "replay", "replay"
			}
			if c.Pre == "" {
				c.Pre = preInstalled
			}
			if c.Depth < 1 {
				c.Depth = 1
			}
			fmt.Println("replay result:", w.runCase(ns, c.Depth, c.Pre, c.Op))
			r.Finish()
		}
	}

	names := alphabet(thorough)
	for _, ns := range names {
		if singleComponent(ns.instantiate("/scratch/case")) != ns.Acceptable {
			r.Infra("alphabet label of %q (%s) contradicts the statement's definition of a single path component", short(ns.Tmpl, 40), ns.Label)
		}
	}
	depths := []int{1, 3}
	if thorough {
		depths = []int{1, 2, 3, 4}
	}
	ops := operations(thorough)
	var jobs []job
	for _, ns := range names {
		for _, d := range depths {
			for _, pre := range []string{preInstalled, preAbsent, preAlone, preEnv} {
				if pre == preEnv && (d != depths[0] || mustReject(ns.instantiate("/scratch/case"))) {
					continue // (process-wide settings serialise these cases: names that may be served, one depth)
				}
				for _, op := range ops {
					jobs = append(jobs, job{ns: ns, depth: d, pre: pre, op: op})
				}
			}
		}
	}
	nameCases := len(jobs)
	for _, d := range depths {
		for mask := 0; mask < kAll; mask++ {
			jobs = append(jobs, job{op: opList, depth: d, mask: mask})
		}
		jobs = append(jobs, job{op: opList, depth: d, noRoot: true})
	}
	// histories on one manager object: every sequence of 2 (quick) / 2..3 (thorough) steps plus named longer ones
	listCases := len(jobs) - nameCases
	hists := histories(2)
	histDepths := []int{1}
	histNames := map[string]bool{"control-foo": true, "control-long240": true, "dotdot": true}
	if thorough {
		hists = histories(3)
		histDepths = []int{2}
		histNames = map[string]bool{"control-foo": true, "control-dotted": true, "control-long240": true, "blank-inside": true, "newline-inside": true, "dotdot": true, "dot": true}
	}
	nHistNames := 0
	for _, ns := range names {
		if !histNames[ns.Label] {
			continue
		}
		nHistNames++
		for _, v := range badVariants(ns.instantiate("/scratch/case")) {
			if !mustReject(v) {
				r.Infra("history variant %q of %q need not be refused under the statement", short(v, 40), ns.Label)
			}
		}
		for _, d := range histDepths {
			for _, pre := range []string{preInstalled, preAbsent, preAlone} {
				for _, h := range hists {
					jobs = append(jobs, job{ns: ns, depth: d, pre: pre, op: opHistory, steps: h})
				}
			}
		}
	}
	r.Extra["history_cases"] = len(jobs) - nameCases - listCases
	r.Extra["history_step_sequences"] = len(hists)
	r.Extra["history_names"] = nHistNames
	r.Extra["history_step_alphabet"] = stepAlphabet
	r.Extra["names"] = len(names)
	r.Extra["depths"] = depths
	r.Extra["operations"] = ops
	r.Extra["pre_states"] = []string{preInstalled, preAbsent, preAlone, preEnv}
	r.Extra["name_cases"] = nameCases
	r.Extra["list_cases"] = listCases
	var acc, unacc int
	for _, ns := range names {
		if ns.Acceptable {
			acc++
		} else {
			unacc++
		}
	}
	r.Extra["names_acceptable"] = acc
	r.Extra["names_unacceptable"] = unacc

	// breadth first: the k-th case of every (name, operation family) / List mask / step sequence runs
	// before any (k+1)-th one, so that a run cut by the deadline has still seen every kind of case
	{
		seenKind := map[string]int{}
		rank := make([]int, len(jobs))
		for i, j := range jobs {
			var k string
			switch j.op {
			case opList:
				k = fmt.Sprintf("list|%d|%v", j.mask, j.noRoot)
			case opHistory:
				k = "history|" + strings.Join(j.steps, ">")
			default:
				k = j.ns.Label + "|" + family(j.op)
			}
			rank[i] = seenKind[k]
			seenKind[k]++
		}
		idx := make([]int, len(jobs))
		for i := range idx {
			idx[i] = i
		}
		sort.SliceStable(idx, func(a, b int) bool { return rank[idx[a]] < rank[idx[b]] })
		sorted := make([]job, len(jobs))
		for i, k := range idx {
			sorted[i] = jobs[k]
		}
		jobs = sorted
	}
	// internal deadline: under machine load the run is cut (and says so) rather than overrunning its budget
	if thorough {
		r.SetDeadline(9 * time.Minute)
	} else {
		r.SetDeadline(38 * time.Second)
	}
	var done, cut atomic.Int64
	r.Parallel(len(jobs), func(i int) {
		j := jobs[i]
		if r.Expired() {
			cut.Add(1)
			return
		}
		defer done.Add(1)
		if j.op == opHistory {
			cls := w.runHistory(j.ns, j.depth, j.pre, j.steps)
			r.Outcome(cls)
			if i%173 == 0 {
				r.Sample(map[string]any{"operation": "history", "steps": j.steps, "name": short(j.ns.Tmpl, 60), "label": j.ns.Label, "depth": j.depth, "pre_state": j.pre, "outcome": cls})
			}
			return
		}
		if j.op == opList {
			r.Outcome(w.runList(j.depth, j.mask, j.noRoot))
			if i%97 == 0 {
				r.Sample(map[string]any{"operation": "list", "depth": j.depth, "kinds_mask": j.mask, "root_missing": j.noRoot})
			}
			return
		}
		cls := w.runCase(j.ns, j.depth, j.pre, j.op)
		r.Outcome(cls)
		if i%131 == 0 {
			r.Sample(map[string]any{"name": short(j.ns.Tmpl, 60), "label": j.ns.Label, "acceptable": j.ns.Acceptable, "depth": j.depth, "pre_state": j.pre, "operation": j.op, "outcome": cls})
		}
	}, nil)

	if n := cut.Load(); n > 0 {
		r.Capped(fmt.Sprintf("internal deadline: %d of %d cases completed (cases run breadth first over names x operation families, List masks and step sequences)", done.Load(), len(jobs)))
	}

	// nothing may have been created relative to the working directory
	cwdTop := filepath.Join(w.scratch, "cwd")
	var stray []string
	_ = filepath.WalkDir(cwdTop, func(p string, d fs.DirEntry, err error) error {
		if err != nil {
			return nil
		}
		relp := strings.TrimPrefix(p, cwdTop)
		if !strings.HasPrefix("/l1/l2/l3/l4/l5/l6/l7", relp) {
			stray = append(stray, relp)
		}
		return nil
	})
	if len(stray) > 0 {
		r.Violation("any/effect-relative-to-working-directory", fmt.Sprintf("files appeared relative to the working directory of the process: %q", stray), replayCase{Op: opAll})
	}

	ctl := map[string]string{}
	w.ctlMu.Lock()
	fams := make([]string, 0, len(w.ctl))
	for f := range w.ctl {
		fams = append(fams, f)
	}
	sort.Strings(fams)
	for _, f := range fams {
		c := w.ctl[f]
		ctl[f] = fmt.Sprintf("%d/%d", c[1], c[0])
		if c[1] == 0 {
			r.Infra("vacuous run: none of the %d positive controls of %s behaved as an honest plugin", c[0], f)
		}
	}
	w.ctlMu.Unlock()
	for _, f := range []string{opGet, opUninstall, "install-file", "install-dir", opAddPlugin, "verify", opHistory} {
		if _, ok := ctl[f]; !ok {
			r.Infra("vacuous run: no positive control ran for %s", f)
		}
	}
	r.Extra["positive_controls_ok"] = ctl
	r.Finish()
}
