// C07 — what the library signs, it verifies – and it reports what was signed.
//
// E3: the exhaustive product
//
//	key spec x envelope format x signer kind x target x user metadata x expiry duration x signing agent
//
// (the product runs over user metadata of 0, 1 and 3 pairs with plain keys; the classes of keys and values - key
// namespaces such as org.opencontainers.*, neighbours of the reserved prefix, key and value spellings, sizes,
// cardinality - are the metadata-shape family of metadata.go, judged by the same clauses)
//
// every element signed through the REAL signing API (notation.SignBlob, Signer.Sign,
// notation.SignOCI) with a GenericSigner (from key material and from PEM files) or a PluginSigner
// over an in-process scripted signature-generator / envelope-generator plugin, the bytes fed into the REAL verification
// API (notation.VerifyBlob, verifier.Verify, notation.Verify) under a strict policy that trusts
// the signer's root. The oracle recomputes the blob descriptor with the standard library,
// decodes the reported payload field by field, re-verifies the bytes with lib/refsig and
// compares expiry, returned descriptor and read-back user metadata with what was requested.
package main

import (
	"bytes"
	"context"
	"crypto"
	"crypto/ecdsa"
	"crypto/rand"
	"crypto/rsa"
	"crypto/sha256"
	"crypto/sha512"
	"crypto/x509"
	"encoding/hex"
	"encoding/json"
	"encoding/pem"
	"errors"
	"fmt"
	"io"
	"math"
	"mime"
	"os"
	"path/filepath"
	"reflect"
	"sort"
	"strings"
	"sync"
	"sync/atomic"
	"testing/iotest"
	"time"

	"github.com/notaryproject/notation-core-go/signature"
	"github.com/notaryproject/notation-go"
	"github.com/notaryproject/notation-go/registry"
	"github.com/notaryproject/notation-go/signer"
	"github.com/notaryproject/notation-go/verifier"
	"github.com/notaryproject/notation-go/zzverif/lib/forge"
	"github.com/notaryproject/notation-go/zzverif/lib/hx"
	"github.com/notaryproject/notation-go/zzverif/lib/mocks"
	"github.com/notaryproject/notation-go/zzverif/lib/pki"
	"github.com/notaryproject/notation-go/zzverif/lib/refsig"
	"github.com/notaryproject/notation-go/zzverif/lib/vt"
	fw "github.com/notaryproject/notation-plugin-framework-go/plugin"
	"github.com/opencontainers/go-digest"
	ocispec "github.com/opencontainers/image-spec/specs-go/v1"
	"oras.land/oras-go/v2/content/memory"
)

var ctx = context.Background()

// ---------------------------------------------------------------------------
// alphabets (all hand-written; nothing is read from the code under test)

const mtManifest = "application/vnd.oci.image.manifest.v1+json"

// the hash the Notary Project specification binds to each key spec
var specHash = map[string]string{
	pki.RSA2048: "sha256", pki.RSA3072: "sha384", pki.RSA4096: "sha512",
	pki.EC256: "sha256", pki.EC384: "sha384", pki.EC521: "sha512",
}

var fwSpec = map[string]fw.KeySpec{
	pki.RSA2048: fw.KeySpecRSA2048, pki.RSA3072: fw.KeySpecRSA3072, pki.RSA4096: fw.KeySpecRSA4096,
	pki.EC256: fw.KeySpecEC256, pki.EC384: fw.KeySpecEC384, pki.EC521: fw.KeySpecEC521,
}

const (
	kindGeneric = "generic"
	kindFiles   = "generic-from-files"
	kindRaw     = "plugin-raw"
	kindEnv     = "plugin-envelope"
)

var signerKinds = []string{kindGeneric, kindFiles, kindRaw, kindEnv}

type target struct {
	Name    string
	Variant bool // blob whose content media type is an uncommon spelling
	Blob    bool
	Size    int
	MT      string
	Desc    ocispec.Descriptor
}

const keyID = "c07-key"

// the descriptor fields that must not reach the payload; OCI targets carry every subset of them
var extraFields = []string{"urls", "data", "platform", "artifactType"}

func ociDesc(annotations bool, extras int) ocispec.Descriptor {
	d := ocispec.Descriptor{MediaType: mtManifest, Digest: digest.Digest("sha256:" + hexOf("sha256", []byte("C07 artifact manifest"))), Size: 528}
	if annotations {
		d.Annotations = map[string]string{"org.example.pre": "1", "org.opencontainers.image.title": "näme with blank"}
	}
	if extras&1 != 0 {
		d.URLs = []string{"https://example.com/blobs/1", "https://mirror.example.com/1"}
	}
	if extras&2 != 0 {
		d.Data = []byte("inline data of the artifact")
	}
	if extras&4 != 0 {
		d.Platform = &ocispec.Platform{Architecture: "arm64", OS: "linux", Variant: "v8"}
	}
	if extras&8 != 0 {
		d.ArtifactType = "application/vnd.example.thing.v1"
	}
	return d
}

func ociName(annotations bool, extras int) string {
	n := "oci"
	if annotations {
		n += "+annotations"
	}
	for i, f := range extraFields {
		if extras&(1<<i) != 0 {
			n += "+" + f
		}
	}
	if n == "oci" {
		n = "oci-minimal"
	}
	return n
}

var blobSizes = []int{0, 1, 1024, 1<<20 + 1}

// content media types: two common spellings, then legal spellings that are not in any canonical form (RFC 2045:
// type, subtype and parameter names are case-insensitive, white space after ';' is optional, values may be quoted,
// parameters come in any order)
var blobMTs = []string{
	"application/octet-stream",
	"text/plain; charset=utf-8",
	"Application/Vnd.Example+JSON",
	"text/plain;charset=utf-8",
	`text/plain;  format=flowed; Charset="UTF-8"`,
}

const commonMTs = 2 // blobMTs[:commonMTs] are the common spellings

// sameMediaType: equality of media types as RFC 2045 defines it (the statement says "equals", not "is spelled like").
func sameMediaType(a, b string) bool {
	if a == b {
		return true
	}
	ta, pa, ea := mime.ParseMediaType(a)
	tb, pb, eb := mime.ParseMediaType(b)
	return ea == nil && eb == nil && ta == tb && reflect.DeepEqual(pa, pb)
}

// how a healthy reader hands over the blob: in one piece (bytes.Reader, io.WriterTo), one byte per Read,
// half of the buffer per Read, the last chunk together with io.EOF
var deliveries = []string{"whole", "one-byte", "half", "data-with-eof"}

func blobReader(content []byte, delivery string) io.Reader {
	switch delivery {
	case "one-byte":
		return iotest.OneByteReader(bytes.NewReader(content))
	case "half":
		return iotest.HalfReader(bytes.NewReader(content))
	case "data-with-eof":
		return iotest.DataErrReader(bytes.NewReader(content))
	}
	return bytes.NewReader(content)
}

var allTargets = func() []target {
	var out []target
	for _, ann := range []bool{false, true} {
		for ex := 0; ex < 1<<len(extraFields); ex++ {
			out = append(out, target{Name: ociName(ann, ex), Desc: ociDesc(ann, ex)})
		}
	}
	for _, s := range blobSizes {
		for mi, mt := range blobMTs {
			out = append(out, target{Name: fmt.Sprintf("blob-%d-mt%d", s, mi), Blob: true, Size: s, MT: mt, Variant: mi >= commonMTs})
		}
	}
	return out
}()

func targets() []target { return allTargets }

type metaT struct {
	Name string
	M    map[string]string
}

// metas (metadata.go) = baseMetas (cardinalities 0, 1, 3 with plain keys; the whole product) + shapeMetas (one map per
// class of keys and values; the metadata-shape family)

// the longest duration the API can express (whole seconds): signing time + duration lies after the year 2262,
// beyond what fits into int64 nanoseconds since 1970
const maxExpirySeconds = int64(math.MaxInt64 / int64(time.Second))

var expirySeconds = []int64{0, 3600, 86400, maxExpirySeconds} // never closer than 1 h to now (the statement's "1 s" would expire during the run)

type agentT struct {
	Name  string
	Value string
}

var agents = []agentT{{"default", ""}, {"custom", "c07-agent/9.9 (custom build)"}}

const envPluginAgent = "c07-envelope-plugin/1.0"

// ---------------------------------------------------------------------------
// oracle-side hashing (standard library only)

func hexOf(alg string, b []byte) string {
	switch alg {
	case "sha256":
		s := sha256.Sum256(b)
		return hex.EncodeToString(s[:])
	case "sha384":
		s := sha512.Sum384(b)
		return hex.EncodeToString(s[:])
	case "sha512":
		s := sha512.Sum512(b)
		return hex.EncodeToString(s[:])
	}
	panic(alg)
}

var (
	blobMu    sync.Mutex
	blobCache = map[int][]byte{}
	digMu     sync.Mutex
	digCache  = map[string]string{}
)

func blobContent(size int) []byte {
	blobMu.Lock()
	defer blobMu.Unlock()
	if b, ok := blobCache[size]; ok {
		return b
	}
	b := make([]byte, size)
	for i := range b {
		b[i] = byte(i*131 + i>>8 + 7)
	}
	blobCache[size] = b
	return b
}

type otherBlob struct {
	Label   string
	Content []byte
}

var otherCache = map[string][]byte{}

// otherBlobs: blobs that are not the signed one - the same size with the last byte changed, and one byte longer.
func otherBlobs(size int) []otherBlob {
	base := blobContent(size)
	blobMu.Lock()
	defer blobMu.Unlock()
	mk := func(label string, f func(b []byte) []byte) []byte {
		k := fmt.Sprintf("%s/%d", label, size)
		if b, ok := otherCache[k]; ok {
			return b
		}
		b := f(append([]byte(nil), base...))
		otherCache[k] = b
		return b
	}
	var out []otherBlob
	if size > 0 {
		out = append(out, otherBlob{"same-size-last-byte-changed", mk("changed", func(b []byte) []byte { b[len(b)-1] ^= 1; return b })})
	}
	return append(out, otherBlob{"one-byte-longer", mk("longer", func(b []byte) []byte { return append(b, 0) })})
}

func blobDigest(size int, alg string) string {
	k := fmt.Sprintf("%d/%s", size, alg)
	b := blobContent(size)
	digMu.Lock()
	defer digMu.Unlock()
	if d, ok := digCache[k]; ok {
		return d
	}
	d := alg + ":" + hexOf(alg, b)
	digCache[k] = d
	return d
}

// ---------------------------------------------------------------------------
// scripted in-process signing plugins

type rawPlugin struct {
	key   crypto.Signer
	chain [][]byte
	spec  fw.KeySpec
	calls atomic.Int64
}

func (p *rawPlugin) GetMetadata(ctx context.Context, req *fw.GetMetadataRequest) (*fw.GetMetadataResponse, error) {
	return &fw.GetMetadataResponse{Name: "c07-raw", Description: "scripted signature generator", Version: "1.0.0", URL: "https://example.com/c07",
		SupportedContractVersions: []string{"1.0"}, Capabilities: []fw.Capability{fw.CapabilitySignatureGenerator}}, nil
}

func (p *rawPlugin) DescribeKey(ctx context.Context, req *fw.DescribeKeyRequest) (*fw.DescribeKeyResponse, error) {
	return &fw.DescribeKeyResponse{KeyID: req.KeyID, KeySpec: p.spec}, nil
}

func (p *rawPlugin) GenerateSignature(ctx context.Context, req *fw.GenerateSignatureRequest) (*fw.GenerateSignatureResponse, error) {
	p.calls.Add(1)
	if req.KeyID != keyID {
		return nil, fmt.Errorf("c07-raw: unknown key %q", req.KeyID)
	}
	if req.KeySpec != p.spec {
		return nil, fmt.Errorf("c07-raw: key %q is %s, request says %s", req.KeyID, p.spec, req.KeySpec)
	}
	var h crypto.Hash
	var n string
	switch req.Hash {
	case fw.HashAlgorithmSHA256:
		h, n = crypto.SHA256, "256"
	case fw.HashAlgorithmSHA384:
		h, n = crypto.SHA384, "384"
	case fw.HashAlgorithmSHA512:
		h, n = crypto.SHA512, "512"
	default:
		return nil, fmt.Errorf("c07-raw: unknown hash %q", req.Hash)
	}
	hh := h.New()
	hh.Write(req.Payload)
	d := hh.Sum(nil)
	resp := &fw.GenerateSignatureResponse{KeyID: req.KeyID, CertificateChain: p.chain}
	switch k := p.key.(type) {
	case *rsa.PrivateKey:
		s, err := rsa.SignPSS(rand.Reader, k, h, d, &rsa.PSSOptions{SaltLength: rsa.PSSSaltLengthEqualsHash})
		if err != nil {
			return nil, err
		}
		resp.Signature = s
		resp.SigningAlgorithm = fw.SignatureAlgorithm("RSASSA-PSS-SHA-" + n)
	case *ecdsa.PrivateKey:
		r, s, err := ecdsa.Sign(rand.Reader, k, d)
		if err != nil {
			return nil, err
		}
		w := (k.Curve.Params().BitSize + 7) / 8
		out := make([]byte, 2*w)
		r.FillBytes(out[:w])
		s.FillBytes(out[w:])
		resp.Signature = out
		resp.SigningAlgorithm = fw.SignatureAlgorithm("ECDSA-SHA-" + n)
	default:
		return nil, errors.New("c07-raw: unsupported key")
	}
	return resp, nil
}

func (p *rawPlugin) GenerateEnvelope(ctx context.Context, req *fw.GenerateEnvelopeRequest) (*fw.GenerateEnvelopeResponse, error) {
	return nil, errors.New("c07-raw: not an envelope generator")
}

// envPlugin builds the whole envelope itself: with lib/forge (shares no code with
// notation-core-go) or with notation-core-go's own signer (useCore).
type envPlugin struct {
	key     crypto.Signer
	chain   []*x509.Certificate
	spec    fw.KeySpec
	useCore bool
	calls   atomic.Int64
	lastReq *fw.GenerateEnvelopeRequest
}

func (p *envPlugin) GetMetadata(ctx context.Context, req *fw.GetMetadataRequest) (*fw.GetMetadataResponse, error) {
	return &fw.GetMetadataResponse{Name: "c07-envelope", Description: "scripted envelope generator", Version: "1.0.0", URL: "https://example.com/c07",
		SupportedContractVersions: []string{"1.0"}, Capabilities: []fw.Capability{fw.CapabilityEnvelopeGenerator}}, nil
}

func (p *envPlugin) DescribeKey(ctx context.Context, req *fw.DescribeKeyRequest) (*fw.DescribeKeyResponse, error) {
	return &fw.DescribeKeyResponse{KeyID: req.KeyID, KeySpec: p.spec}, nil
}

func (p *envPlugin) GenerateSignature(ctx context.Context, req *fw.GenerateSignatureRequest) (*fw.GenerateSignatureResponse, error) {
	return nil, errors.New("c07-envelope: not a signature generator")
}

func (p *envPlugin) GenerateEnvelope(ctx context.Context, req *fw.GenerateEnvelopeRequest) (*fw.GenerateEnvelopeResponse, error) {
	p.calls.Add(1)
	p.lastReq = req
	if req.KeyID != keyID {
		return nil, fmt.Errorf("c07-envelope: unknown key %q", req.KeyID)
	}
	if req.PayloadType != forge.PayloadType {
		return nil, fmt.Errorf("c07-envelope: unsupported payload type %q", req.PayloadType)
	}
	st := time.Now().Truncate(time.Second)
	var exp time.Time
	if req.ExpiryDurationInSeconds != 0 {
		exp = st.Add(time.Duration(req.ExpiryDurationInSeconds) * time.Second)
	}
	var env []byte
	if p.useCore {
		var err error
		env, err = forge.SignCore(req.SignatureEnvelopeType, p.chain, p.key, signature.SignRequest{
			Payload:     signature.Payload{ContentType: req.PayloadType, Content: req.Payload},
			SigningTime: st, Expiry: exp, SigningAgent: envPluginAgent,
		})
		if err != nil {
			return nil, err
		}
	} else {
		env = forge.Build(forge.Spec{Format: req.SignatureEnvelopeType, Chain: p.chain, Key: p.key, Payload: req.Payload,
			ContentType: req.PayloadType, SigningTime: st, Expiry: exp, Agent: envPluginAgent})
	}
	return &fw.GenerateEnvelopeResponse{SignatureEnvelope: env, SignatureEnvelopeType: req.SignatureEnvelopeType}, nil
}

// ---------------------------------------------------------------------------
// scripted repository: Resolve answers with a chosen descriptor (any fields), PushSignature keeps the envelope

type scriptRepo struct {
	desc      ocispec.Descriptor
	pushed    [][]byte
	pushMT    []string
	manifests []ocispec.Descriptor
	page      int // ListSignatures hands over this many manifests per call (0: all at once), in push order
}

func (s *scriptRepo) Resolve(ctx context.Context, reference string) (ocispec.Descriptor, error) {
	if reference != s.desc.Digest.String() {
		return ocispec.Descriptor{}, fmt.Errorf("scriptRepo: %q not found", reference)
	}
	return s.desc, nil
}
func (s *scriptRepo) ListSignatures(ctx context.Context, desc ocispec.Descriptor, fn func([]ocispec.Descriptor) error) error {
	if desc.Digest != s.desc.Digest {
		return fn(nil)
	}
	n := s.page
	if n <= 0 {
		n = len(s.manifests) + 1
	}
	for i := 0; i < len(s.manifests); i += n {
		j := i + n
		if j > len(s.manifests) {
			j = len(s.manifests)
		}
		if err := fn(append([]ocispec.Descriptor(nil), s.manifests[i:j]...)); err != nil {
			return err
		}
	}
	if len(s.manifests) == 0 {
		return fn(nil)
	}
	return nil
}
func (s *scriptRepo) FetchSignatureBlob(ctx context.Context, desc ocispec.Descriptor) ([]byte, ocispec.Descriptor, error) {
	for i, m := range s.manifests {
		if m.Digest == desc.Digest {
			b := append([]byte(nil), s.pushed[i]...)
			return b, ocispec.Descriptor{MediaType: s.pushMT[i], Digest: digest.Digest("sha256:" + hexOf("sha256", b)), Size: int64(len(b))}, nil
		}
	}
	return nil, ocispec.Descriptor{}, fmt.Errorf("scriptRepo: signature manifest %s not found", desc.Digest)
}
func (s *scriptRepo) PushSignature(ctx context.Context, mediaType string, blob []byte, subject ocispec.Descriptor, annotations map[string]string) (ocispec.Descriptor, ocispec.Descriptor, error) {
	s.pushed = append(s.pushed, append([]byte(nil), blob...))
	s.pushMT = append(s.pushMT, mediaType)
	bd := ocispec.Descriptor{MediaType: mediaType, Digest: digest.Digest("sha256:" + hexOf("sha256", blob)), Size: int64(len(blob))}
	md := ocispec.Descriptor{MediaType: mtManifest, Digest: digest.Digest("sha256:" + hexOf("sha256", append([]byte(fmt.Sprintf("manifest %d of ", len(s.manifests))), blob...))), Size: 1}
	s.manifests = append(s.manifests, md)
	return bd, md, nil
}

// ---------------------------------------------------------------------------
// world

type verifierT interface {
	notation.Verifier
	notation.BlobVerifier
}

type world struct {
	chains map[string]*pki.Chain
	dir    string    // PEM files for signer.NewGenericSignerFromFiles: <spec>.key, <spec>.crt
	v      verifierT // shared by the product phase
	newV   func() (verifierT, error)
}

// instances are the objects one history works with.
type instances struct {
	s    anySigner
	envp *envPlugin
	v    verifierT
}

// leaf validity windows: the same key, subject and issuer, only the window differs. The short-lived leaf
// ends 3 h from now: the 24 h expiry duration reaches past it, the 1 h duration does not.
var certWindows = []string{"long-lived", "short-lived"}

const shortLeafRemaining = 3 * time.Hour

func ck(spec, window string) string {
	if window == "" || window == "long-lived" {
		return spec
	}
	return spec + "~" + window
}

func buildWorld(r *hx.Run) *world {
	w := &world{chains: map[string]*pki.Chain{}}
	// keys are generated once, sequentially (RSA-3072/4096 are slow the first time; cached on disk afterwards)
	for _, s := range pki.AllSpecs {
		pki.Key(s, 0)
	}
	first := pki.NewChain(pki.ChainOpts{Len: 3, LeafSpec: pki.AllSpecs[0], LeafIdx: 0, CAIdx: 0, Prefix: "C07 " + pki.AllSpecs[0]})
	w.chains[pki.AllSpecs[0]] = first
	for _, s := range pki.AllSpecs[1:] {
		w.chains[s] = pki.NewChain(pki.ChainOpts{Len: 3, LeafSpec: s, LeafIdx: 0, Prefix: "C07 " + s, ReuseCAs: first.Certs[1:]})
	}
	nb, _ := pki.DefaultWindow()
	for _, s := range pki.AllSpecs {
		w.chains[ck(s, "short-lived")] = pki.NewChain(pki.ChainOpts{Len: 3, LeafSpec: s, LeafIdx: 0, ReuseCAs: first.Certs[1:],
			Leaf: &pki.Tmpl{Subject: pki.Name("C07 " + s + " leaf"), NotBefore: nb, NotAfter: time.Now().Add(shortLeafRemaining).Truncate(time.Second)}})
	}
	// signers the policy does not trust: the same leaf keys and the same subject and issuer names under other CA keys
	var otherCAs []*pki.Cert
	for _, s := range pki.AllSpecs {
		o := pki.ChainOpts{Len: 3, LeafSpec: s, LeafIdx: 0, CAIdx: 7, Prefix: "C07 " + pki.AllSpecs[0], Leaf: &pki.Tmpl{Subject: pki.Name("C07 " + s + " leaf")}, ReuseCAs: otherCAs}
		ch := pki.NewChain(o)
		otherCAs = ch.Certs[1:]
		w.chains[ck(s, "untrusted")] = ch
	}
	w.dir = filepath.Join(hx.Scratch(), "c07-keys")
	if err := os.MkdirAll(w.dir, 0o700); err != nil {
		r.Infra("scratch: %v", err)
		r.Finish()
	}
	for _, sp := range pki.AllSpecs {
		for _, win := range append(append([]string(nil), certWindows...), "untrusted") {
			s := ck(sp, win)
			der, err := x509.MarshalPKCS8PrivateKey(w.chains[s].Leaf().Key)
			if err == nil {
				err = os.WriteFile(filepath.Join(w.dir, s+".key"), pem.EncodeToMemory(&pem.Block{Type: "PRIVATE KEY", Bytes: der}), 0o600)
			}
			if err == nil {
				err = os.WriteFile(filepath.Join(w.dir, s+".crt"), pki.PEM(w.chains[s].X509()...), 0o600)
			}
			if err != nil {
				r.Infra("writing key files: %v", err)
				r.Finish()
			}
		}
	}
	ts := mocks.NewTrustStore().Put("ca", "s", first.Root().Cert)
	ts.NoLog = true
	ok := mocks.AllOK()
	ok.NoLog = true
	strict := vt.Named()[0]
	w.newV = func() (verifierT, error) {
		return verifier.NewVerifierWithOptions(ts, verifier.VerifierOptions{
			OCITrustPolicy:                 vt.OCIDoc(strict.SV(), []string{"ca:s"}, []string{"*"}),
			BlobTrustPolicy:                vt.BlobDoc(strict.SV(), []string{"ca:s"}, []string{"*"}),
			RevocationCodeSigningValidator: ok,
		})
	}
	v, err := w.newV()
	if err != nil {
		r.Infra("verifier construction failed: %v", err)
		r.Finish()
	}
	w.v = v
	return w
}

type anySigner interface {
	notation.Signer
	notation.BlobSigner
}

// newSigner builds a fresh signer of the given kind (PluginSigner keeps per-call state).
func (w *world) newSigner(c *caseT) (anySigner, *envPlugin, error) {
	ch := w.chains[ck(c.Spec, c.CertWindow)]
	switch c.Signer {
	case kindGeneric:
		s, err := signer.NewGenericSigner(ch.Leaf().Key, ch.X509())
		return s, nil, err
	case kindFiles:
		s, err := signer.NewGenericSignerFromFiles(filepath.Join(w.dir, ck(c.Spec, c.CertWindow)+".key"), filepath.Join(w.dir, ck(c.Spec, c.CertWindow)+".crt"))
		return s, nil, err
	case kindRaw:
		var der [][]byte
		for _, x := range ch.X509() {
			der = append(der, x.Raw)
		}
		s, err := signer.NewPluginSigner(&rawPlugin{key: ch.Leaf().Key, chain: der, spec: fwSpec[c.Spec]}, keyID, nil)
		return s, nil, err
	case kindEnv:
		// the signing agent is not part of the generate-envelope contract, so this otherwise
		// inert dimension selects the plugin's envelope builder: default -> lib/forge, custom -> notation-core-go
		p := &envPlugin{key: ch.Leaf().Key, chain: ch.X509(), spec: fwSpec[c.Spec], useCore: c.Agent == "custom"}
		s, err := signer.NewPluginSigner(p, keyID, nil)
		return s, p, err
	}
	return nil, nil, fmt.Errorf("unknown signer kind %q", c.Signer)
}

// ---------------------------------------------------------------------------
// cases

type caseT struct {
	Spec       string `json:"key_spec"`
	CertWindow string `json:"leaf_validity,omitempty"` // "long-lived" (default) or "short-lived" (ends 3 h from now)
	Format     string `json:"format"`
	Signer     string `json:"signer"`
	Target     string `json:"target"`
	Delivery   string `json:"blob_delivery,omitempty"` // blobs: how the readers hand over the bytes (signing and verifying)
	Meta       string `json:"user_metadata"`
	ExpirySec  int64  `json:"expiry_seconds"`
	Agent      string `json:"signing_agent"`
	// Entry: "product" (fresh signer), "repository-path", "fault-history" (a blob call whose reader fails comes first,
	// same signer and verifier instances), "instance-reuse" (Before is signed and verified first by the same instances)
	Entry      string `json:"entry"`
	FaultCall  string `json:"fault_call,omitempty"`        // "SignBlob" or "VerifyBlob"
	FaultAfter int    `json:"fault_after_bytes,omitempty"` // the failing reader delivers this many bytes, then an error
	Before     *caseT `json:"before,omitempty"`
	// "repository-history": the signatures the artifact carries, in listing order ("trusted/jws", "untrusted/cose", ...),
	// all made with the case's key spec and signer kind; ListSignatures hands over PageSize manifests per call (0: all)
	Sequence []string `json:"signatures_on_artifact,omitempty"`
	PageSize int      `json:"list_page_size,omitempty"`
}

func (c caseT) String() string {
	t := c.Target
	if c.Delivery != "" {
		t += "~" + c.Delivery
	}
	s := fmt.Sprintf("%s|%s|%s|%s|%s|%d|%s|%s", ck(c.Spec, c.CertWindow), short(c.Format), c.Signer, t, c.Meta, c.ExpirySec, c.Agent, c.Entry)
	if c.Entry == "fault-history" {
		s += fmt.Sprintf("|after-%s-whose-reader-failed-at-byte-%d", c.FaultCall, c.FaultAfter)
	}
	if c.Entry == "repository-history" {
		s += fmt.Sprintf("|artifact-carries-%s|page-size-%d", strings.Join(c.Sequence, ","), c.PageSize)
	}
	if c.Before != nil {
		bt := c.Before.Target
		if c.Before.Delivery != "" {
			bt += "~" + c.Before.Delivery
		}
		s += fmt.Sprintf("|after-same-instances-did-%s|%s|%d", bt, c.Before.Meta, c.Before.ExpirySec)
	}
	return s
}

func short(f string) string {
	switch f {
	case forge.JWS:
		return "jws"
	case forge.COSE:
		return "cose"
	}
	return f
}

func findTarget(name string) (target, bool) {
	for _, t := range targets() {
		if t.Name == name {
			return t, true
		}
	}
	return target{}, false
}

func findMeta(name string) (map[string]string, bool) {
	for _, m := range metas {
		if m.Name == name {
			return m.M, true
		}
	}
	return nil, false
}

func findAgent(name string) (string, bool) {
	for _, a := range agents {
		if a.Name == name {
			return a.Value, true
		}
	}
	return "", false
}

type viol struct{ key, what string }

type result struct {
	viols      []viol
	infra      string
	verified   bool
	agentClass string
	retAnn     string // blob: what the annotations of the returned descriptor were
	faultClass string // fault-history: how the call with the failing reader ended
	notes      []string
	signFailed bool
	detail     map[string]any
}

// note records an observation the statement does not fix: evidence only ("recorded:<key>" in the outcome histogram).
func (res *result) note(key string) { res.notes = append(res.notes, key) }

// noteSignFailed: the statement is about signatures the signing API produced; a refused input is recorded, the
// round trip is not judged (a signer kind that can never sign ends the run as an infrastructure error, see main).
func (res *result) noteSignFailed(c *caseT, err error) {
	res.note("roundtrip/sign-failed:" + c.Signer)
	res.signFailed = true
	res.detail = map[string]any{"sign_error": err.Error()}
}

func (res *result) bad(key, format string, a ...any) {
	res.viols = append(res.viols, viol{key, fmt.Sprintf(format, a...)})
}

func copyMap(m map[string]string) map[string]string {
	if m == nil {
		return nil
	}
	out := make(map[string]string, len(m))
	for k, v := range m {
		out[k] = v
	}
	return out
}

func union(a, b map[string]string) map[string]string {
	out := map[string]string{}
	for k, v := range a {
		out[k] = v
	}
	for k, v := range b {
		out[k] = v
	}
	return out
}

func sameMap(a, b map[string]string) bool {
	if len(a) != len(b) {
		return false
	}
	for k, v := range a {
		if w, ok := b[k]; !ok || w != v {
			return false
		}
	}
	return true
}

// wantT is what the oracle expects the payload to describe.
type wantT struct {
	MediaType   string
	Digest      string
	Size        int64
	Annotations map[string]string
}

var droppedFields = map[string]bool{"urls": true, "data": true, "platform": true, "artifactType": true}

// judgePayload decodes the payload JSON member by member (no ocispec types involved).
func judgePayload(res *result, c *caseT, raw []byte, want wantT, blob bool) {
	var top map[string]json.RawMessage
	if err := json.Unmarshal(raw, &top); err != nil {
		res.bad("payload/not-a-json-object", "payload %q: %v", raw, err)
		return
	}
	for _, k := range sortedKeys(top) {
		if k != "targetArtifact" {
			res.note("payload/unknown-top-level-field") // the statement speaks about the descriptor in the payload only
		}
	}
	var ta map[string]json.RawMessage
	if err := json.Unmarshal(top["targetArtifact"], &ta); err != nil || ta == nil {
		res.bad("payload/no-target-artifact", "payload %s", raw)
		return
	}
	for _, k := range sortedKeys(ta) {
		switch {
		case k == "mediaType" || k == "digest" || k == "size" || k == "annotations":
		case droppedFields[k]:
			res.bad("payload/extra-field-kept:"+k, "signed payload keeps descriptor field %q: %s", k, raw)
		default:
			res.bad("payload/unknown-field", "signed payload has unknown member %q: %s", k, raw)
		}
	}
	var mt, dg string
	var size json.Number
	if err := json.Unmarshal(ta["mediaType"], &mt); err != nil || !sameMediaType(mt, want.MediaType) {
		res.bad("payload/media-type-differs", "payload mediaType %s, signed %q", ta["mediaType"], want.MediaType)
	}
	if err := json.Unmarshal(ta["digest"], &dg); err != nil || dg != want.Digest {
		if blob && !strings.HasPrefix(dg, specHash[c.Spec]+":") {
			res.bad("blob/wrong-digest-algorithm:"+c.Spec, "blob digest in payload is %q, the hash bound to %s is %s (expected %s)", dg, c.Spec, specHash[c.Spec], want.Digest)
		} else {
			res.bad("payload/digest-differs", "payload digest %s, expected %q", ta["digest"], want.Digest)
		}
	}
	if err := json.Unmarshal(ta["size"], &size); err != nil || !sameNumber(size, want.Size) {
		res.bad("payload/size-differs", "payload size %s, expected %d", ta["size"], want.Size)
	}
	var ann map[string]string
	if a, ok := ta["annotations"]; ok {
		if err := json.Unmarshal(a, &ann); err != nil {
			res.bad("payload/annotations-differ", "payload annotations %s do not decode: %v", a, err)
			return
		}
	}
	if !sameMap(ann, want.Annotations) {
		res.bad("payload/annotations-differ", "payload annotations %s, expected (original annotations + user metadata) %s", mapStr(ann), mapStr(want.Annotations))
	}
}

func sameNumber(n json.Number, want int64) bool {
	if i, err := n.Int64(); err == nil {
		return i == want
	}
	f, err := n.Float64()
	return err == nil && f == float64(want)
}

// sameJSON: semantic equality of two JSON documents.
func sameJSON(a, b []byte) bool {
	var x, y any
	if json.Unmarshal(a, &x) != nil || json.Unmarshal(b, &y) != nil {
		return bytes.Equal(a, b)
	}
	return reflect.DeepEqual(x, y)
}

// judgeReadBack: "the user metadata read back from the outcome is exactly the metadata that was signed". Where the
// target had annotations of its own (OCI), the statement does not say whether they count as user metadata: every
// signed user pair must be read back and nothing but signed pairs; without such annotations this is equality.
func judgeReadBack(res *result, um, userMeta, ownAnnotations map[string]string, how string) {
	ok := true
	for k, v := range userMeta {
		if g, in := um[k]; !in || g != v {
			ok = false
		}
	}
	signed := union(ownAnnotations, userMeta)
	for k, v := range um {
		if g, in := signed[k]; !in || g != v {
			ok = false
		}
	}
	if !ok {
		res.bad("metadata/read-back-differs", "%sUserMetadata() = %s, signed user metadata %s (annotations of the target itself: %s)", how, mapStr(um), mapStr(userMeta), mapStr(ownAnnotations))
	}
}

func sortedKeys(m map[string]json.RawMessage) []string {
	out := make([]string, 0, len(m))
	for k := range m {
		out = append(out, k)
	}
	sort.Strings(out)
	return out
}

func agentClass(got, requested string) string {
	switch {
	case got == "":
		return "absent"
	case requested != "" && got == requested:
		return "as-requested"
	case got == envPluginAgent:
		return "plugin-own"
	case strings.HasPrefix(got, "notation-go/") && strings.Contains(got, " c07-raw/"):
		return "library-default+plugin-name"
	case strings.HasPrefix(got, "notation-go/"):
		return "library-default"
	}
	return "other"
}

// judgeOutcome evaluates everything that is read from a successful verification outcome.
func judgeOutcome(res *result, c *caseT, sig []byte, outcome *notation.VerificationOutcome, want wantT, userMeta, ownAnnotations map[string]string, agentRequested string, blob bool) {
	if outcome == nil || outcome.EnvelopeContent == nil {
		res.bad("roundtrip/no-envelope-content-on-success", "verification succeeded without envelope content")
		return
	}
	if outcome.Error != nil {
		res.note("roundtrip/outcome-error-on-success") // the statement fixes the returned error, not this field
	}
	payload := outcome.EnvelopeContent.Payload.Content
	judgePayload(res, c, payload, want, blob)

	// independent reading of the same bytes: what was signed is what is reported (semantically). That lib/refsig can
	// read and check the envelope at all is not part of the statement: recorded only.
	ref, err := refsig.Verify(c.Format, sig)
	if err != nil {
		res.note("roundtrip/independent-verification-failed:" + c.Signer)
	} else {
		if !sameJSON(ref.Payload, payload) {
			res.bad("roundtrip/reported-payload-differs-from-signed-bytes", "reported %s, signed %s", payload, ref.Payload)
		} else if !bytes.Equal(ref.Payload, payload) {
			res.note("roundtrip/reported-payload-not-byte-identical-to-signed-bytes")
		}
		if ref.ContentType != forge.PayloadType {
			res.note("roundtrip/payload-content-type")
		}
	}

	// expiry == signing time + duration
	sa := outcome.EnvelopeContent.SignerInfo.SignedAttributes
	d := time.Duration(c.ExpirySec) * time.Second
	if c.ExpirySec == 0 {
		if !sa.Expiry.IsZero() {
			res.bad("expiry/set-although-no-duration-requested", "expiry %v with duration 0", sa.Expiry)
		}
	} else if sa.SigningTime.IsZero() || !sa.Expiry.Equal(sa.SigningTime.Add(d)) {
		res.bad("expiry/not-signing-time-plus-duration", "signing time %v, expiry %v (difference %v), requested duration %v", sa.SigningTime.UTC(), sa.Expiry.UTC(), sa.Expiry.Sub(sa.SigningTime), d)
	}

	// user metadata read-back
	um, err := outcome.UserMetadata()
	if err != nil {
		res.bad("metadata/read-back-error", "UserMetadata(): %v", err)
	} else {
		judgeReadBack(res, um, userMeta, ownAnnotations, "")
	}

	got := outcome.EnvelopeContent.SignerInfo.UnsignedAttributes.SigningAgent
	res.agentClass = agentClass(got, agentRequested)
	res.detail = map[string]any{"payload": string(payload), "signing_time": sa.SigningTime.UTC().Format(time.RFC3339), "signing_agent": got, "envelope_bytes": len(sig)}
	if !sa.Expiry.IsZero() {
		res.detail["expiry"] = sa.Expiry.UTC().Format(time.RFC3339)
	}
}

// checkForwarded records (evidence only) whether the envelope generator was told the requested duration.
func checkForwarded(res *result, c *caseT, envp *envPlugin) {
	if envp != nil && envp.lastReq != nil && envp.lastReq.ExpiryDurationInSeconds != uint64(c.ExpirySec) {
		// what the plugin is told is not fixed by the statement; an honest plugin that is not told the duration
		// shows up in expiry/not-signing-time-plus-duration
		res.note("expiry/not-forwarded-to-envelope-plugin")
	}
}

var errInjected = errors.New("c07: injected read error")

const poisonSize = 1024

var poison = func() []byte {
	b := make([]byte, poisonSize)
	for i := range b {
		b[i] = byte(i*17 + 3)
	}
	return b
}()

// verifyOpt is one setting of the verify-side options that the verifier must accept for the signed target.
type verifyOpt struct {
	label    string
	noMT     bool              // blobs: ContentMediaType left empty
	required map[string]string // UserMetadata that must be present in the signature
}

// verifyOpts enumerates the verify-side options independently of what was passed when signing:
// content media type {as signed, not given} x required metadata {none, one signed pair, all signed pairs}.
// The primary verification (media type as signed, nothing required) is not repeated.
func verifyOpts(signedAnnotations map[string]string, blob bool) []verifyOpt {
	keys := make([]string, 0, len(signedAnnotations))
	for k := range signedAnnotations {
		keys = append(keys, k)
	}
	sort.Strings(keys)
	reqs := []verifyOpt{{label: "nothing-required"}}
	if len(keys) > 1 {
		reqs = append(reqs, verifyOpt{label: "one-signed-pair-required", required: map[string]string{keys[0]: signedAnnotations[keys[0]]}})
	}
	if len(keys) > 0 {
		reqs = append(reqs, verifyOpt{label: "all-signed-pairs-required", required: copyMap(signedAnnotations)})
	}
	var out []verifyOpt
	for _, noMT := range []bool{false, true} {
		if noMT && !blob {
			continue
		}
		for _, q := range reqs {
			if !noMT && q.required == nil {
				continue
			}
			o := q
			o.noMT = noMT
			if noMT {
				o.label = "no-content-media-type+" + o.label
			} else {
				o.label = "content-media-type-as-signed+" + o.label
			}
			out = append(out, o)
		}
	}
	return out
}

// judgeAlternate: a successful verification of the same signature under other verify-side options is judged by the
// same stated clauses: the verified payload and the metadata read back.
func judgeAlternate(res *result, c *caseT, o *notation.VerificationOutcome, want wantT, userMeta, ownAnnotations map[string]string, blob bool, vo verifyOpt) {
	if o == nil || o.EnvelopeContent == nil {
		res.bad("roundtrip/no-envelope-content-on-success", "verification (%s) succeeded without envelope content", vo.label)
		return
	}
	judgePayload(res, c, o.EnvelopeContent.Payload.Content, want, blob)
	um, err := o.UserMetadata()
	if err != nil {
		res.bad("metadata/read-back-error", "UserMetadata() (%s): %v", vo.label, err)
	} else {
		judgeReadBack(res, um, userMeta, ownAnnotations, "verification requiring "+mapStr(vo.required)+": ")
	}
}

func flat(key string) string { return strings.ReplaceAll(key, "/", ".") }

// runCase runs one history: a single round trip, or a round trip preceded by a failed blob call / by
// another round trip of the same signer and verifier instances.
func (w *world) runCase(r *hx.Run, c *caseT) *result {
	if w.chains[ck(c.Spec, c.CertWindow)] == nil {
		return &result{infra: "unknown key spec / leaf validity in " + c.String()}
	}
	s, envp, err := w.newSigner(c)
	if err != nil {
		return &result{infra: fmt.Sprintf("signer construction (%s): %v", c, err)}
	}
	in := &instances{s: s, envp: envp, v: w.v}
	switch c.Entry {
	case "product", "repository-path":
		return w.roundTrip(r, c, in)
	case "repository-history":
		return w.repoHistory(r, c)
	case "fault-history", "instance-reuse":
		if in.v, err = w.newV(); err != nil {
			return &result{infra: fmt.Sprintf("verifier construction: %v", err)}
		}
	default:
		return &result{infra: "unknown entry in " + c.String()}
	}
	pre := &result{}
	var faultClass string
	if c.Entry == "fault-history" {
		faultClass = w.faultCall(r, c, in, pre)
	} else {
		if c.Before == nil || c.Before.Spec != c.Spec || c.Before.CertWindow != c.CertWindow || c.Before.Signer != c.Signer || c.Before.Agent != c.Agent {
			return &result{infra: "instance-reuse needs a first case with the same signer in " + c.String()}
		}
		pre = w.roundTrip(r, c.Before, in)
	}
	if pre.infra != "" {
		return pre
	}
	res := w.roundTrip(r, c, in)
	for i := range res.viols {
		if c.Entry == "fault-history" {
			res.viols[i].key = "after-failed-read/" + flat(res.viols[i].key)
			res.viols[i].what = fmt.Sprintf("after a %s whose reader failed at byte %d (%s): %s", c.FaultCall, c.FaultAfter, faultClass, res.viols[i].what)
		} else {
			res.viols[i].key = "instance-reuse/" + flat(res.viols[i].key)
			res.viols[i].what = "second use of the same signer and verifier instances: " + res.viols[i].what
		}
	}
	// what went wrong before the judged round trip keeps its ordinary key
	res.viols = append(pre.viols, res.viols...)
	res.notes = append(pre.notes, res.notes...)
	res.faultClass = faultClass
	return res
}

// faultCall performs the blob call whose reader fails after c.FaultAfter bytes. Its result is recorded, not judged.
func (w *world) faultCall(r *hx.Run, c *caseT, in *instances, pre *result) string {
	if c.FaultAfter < 0 || c.FaultAfter > poisonSize {
		pre.infra = "fault_after_bytes out of range in " + c.String()
		return ""
	}
	failing := func() io.Reader {
		if c.FaultAfter == 0 {
			return iotest.ErrReader(errInjected)
		}
		return io.MultiReader(bytes.NewReader(poison[:c.FaultAfter]), iotest.ErrReader(errInjected))
	}
	so := notation.SignerSignOptions{SignatureMediaType: c.Format}
	var err error
	switch c.FaultCall {
	case "SignBlob":
		r.Eval(1)
		_, _, err = notation.SignBlob(ctx, in.s, failing(), notation.SignBlobOptions{SignerSignOptions: so, ContentMediaType: blobMTs[0]})
	case "VerifyBlob":
		r.Eval(2)
		var sig []byte
		sig, _, err = notation.SignBlob(ctx, in.s, bytes.NewReader(poison), notation.SignBlobOptions{SignerSignOptions: so, ContentMediaType: blobMTs[0]})
		if err != nil {
			pre.noteSignFailed(c, err)
			return "not-reached"
		}
		_, _, err = notation.VerifyBlob(ctx, in.v, failing(), sig, notation.VerifyBlobOptions{
			BlobVerifierVerifyOptions: notation.BlobVerifierVerifyOptions{SignatureMediaType: c.Format}, ContentMediaType: blobMTs[0]})
	default:
		pre.infra = "unknown fault_call in " + c.String()
		return ""
	}
	switch {
	case err == nil:
		return "call-succeeded-despite-read-error"
	case errors.Is(err, errInjected) || strings.Contains(err.Error(), errInjected.Error()):
		return "read-error-reported"
	}
	return "other-error"
}

// roundTrip signs the case's target with in.s and verifies the bytes with in.v.
func (w *world) roundTrip(r *hx.Run, c *caseT, in *instances) *result {
	res := &result{}
	t, ok := findTarget(c.Target)
	meta, ok2 := findMeta(c.Meta)
	agent, ok3 := findAgent(c.Agent)
	if !ok || !ok2 || !ok3 {
		res.infra = "unknown dimension value in " + c.String()
		return res
	}
	s, envp := in.s, in.envp
	var err error
	so := notation.SignerSignOptions{SignatureMediaType: c.Format, ExpiryDuration: time.Duration(c.ExpirySec) * time.Second, SigningAgent: agent}
	metaArg := copyMap(meta)

	if c.Entry == "repository-path" {
		w.runRepoPath(r, c, res, s, so, metaArg, meta, agent)
		return res
	}

	if t.Blob {
		content := blobContent(t.Size)
		want := wantT{MediaType: t.MT, Digest: blobDigest(t.Size, specHash[c.Spec]), Size: int64(t.Size), Annotations: meta}
		r.Eval(1)
		sig, _, err := notation.SignBlob(ctx, s, blobReader(content, c.Delivery), notation.SignBlobOptions{SignerSignOptions: so, ContentMediaType: t.MT, UserMetadata: metaArg})
		if err != nil {
			res.noteSignFailed(c, err)
			return res
		}
		checkForwarded(res, c, envp)
		// what was signed, read without the library (also judged when verification fails)
		if ref, rerr := refsig.Verify(c.Format, sig); rerr == nil {
			pre := &result{}
			judgePayload(pre, c, ref.Payload, want, true)
			res.viols = append(res.viols, pre.viols...)
		}
		r.Eval(1)
		desc, outcome, err := notation.VerifyBlob(ctx, in.v, blobReader(content, c.Delivery), sig, notation.VerifyBlobOptions{
			BlobVerifierVerifyOptions: notation.BlobVerifierVerifyOptions{SignatureMediaType: c.Format}, ContentMediaType: t.MT})
		if err != nil {
			res.bad("roundtrip/verification-failed:"+c.Signer, "notation.VerifyBlob rejects what notation.SignBlob produced: %v", err)
			return res
		}
		res.verified = true
		judgeOutcome(res, c, sig, outcome, want, meta, nil, agent, true)
		// the descriptor of the blob that was verified: media type, digest, size (the statement fixes nothing about annotations)
		if !sameMediaType(desc.MediaType, want.MediaType) || string(desc.Digest) != want.Digest || desc.Size != want.Size {
			res.bad("blob/returned-descriptor-differs", "VerifyBlob returned {mediaType:%q digest:%q size:%d}, the verified blob is {mediaType:%q digest:%q size:%d}",
				desc.MediaType, desc.Digest, desc.Size, want.MediaType, want.Digest, want.Size)
		}
		switch {
		case len(desc.Annotations) == 0 && len(meta) == 0:
			res.retAnn = "none(no-metadata-signed)"
		case len(desc.Annotations) == 0:
			res.retAnn = "none"
		case sameMap(desc.Annotations, meta):
			res.retAnn = "signed-user-metadata"
		default:
			res.retAnn = "other"
		}
		// verify-side options vary independently of the sign-side ones. Whether the verifier accepts a setting is not
		// fixed by the statement (recorded); where it does, the same stated clauses hold, and the descriptor of the
		// blob that was verified cannot depend on the setting
		if outcome == nil || outcome.EnvelopeContent == nil {
			return res
		}
		kept := desc
		kept.Annotations = copyMap(desc.Annotations)
		for _, vo := range verifyOpts(meta, true) {
			mt := t.MT
			if vo.noMT {
				mt = ""
			}
			r.Eval(1)
			d2, o2, err := notation.VerifyBlob(ctx, in.v, bytes.NewReader(content), sig, notation.VerifyBlobOptions{
				BlobVerifierVerifyOptions: notation.BlobVerifierVerifyOptions{SignatureMediaType: c.Format, UserMetadata: copyMap(vo.required)}, ContentMediaType: mt})
			if err != nil {
				res.note("verify-options/verification-failed:" + vo.label)
				continue
			}
			if !sameMediaType(d2.MediaType, want.MediaType) || string(d2.Digest) != want.Digest || d2.Size != want.Size {
				res.bad("blob/returned-descriptor-differs", "VerifyBlob with ContentMediaType=%q UserMetadata=%s returned {mediaType:%q digest:%q size:%d}, the verified blob is {mediaType:%q digest:%q size:%d}",
					mt, mapStr(vo.required), d2.MediaType, d2.Digest, d2.Size, want.MediaType, want.Digest, want.Size)
			}
			if !sameMediaType(d2.MediaType, kept.MediaType) || d2.Digest != kept.Digest || d2.Size != kept.Size || !sameMap(d2.Annotations, kept.Annotations) {
				res.bad("blob/returned-descriptor-depends-on-verify-options", "same blob, same signature: VerifyBlob returned %+v with ContentMediaType=%q UserMetadata=%s, but %+v with ContentMediaType=%q and no required metadata",
					d2, mt, mapStr(vo.required), kept, t.MT)
			}
			judgeAlternate(res, c, o2, want, meta, nil, true, vo)
		}
		if !reflect.DeepEqual(desc, kept) {
			res.note("blob/returned-descriptor-changed-by-later-calls") // aliasing of a returned value: not in the statement
		}
		// the blob handed to the verifier need not be the signed one. Whether such a verification is rejected is another
		// property's business; IF it succeeds, the returned descriptor must be that of the blob that was read and verified
		// (blobs delivered whole, default signing agent: neither dimension can matter here)
		if (c.Delivery == "whole" || c.Delivery == "") && c.Agent == "default" {
			settings := append([]verifyOpt{{label: "content-media-type-as-signed+nothing-required"}}, verifyOpts(meta, true)...)
			for _, ob := range otherBlobs(t.Size) {
				obDigest := specHash[c.Spec] + ":" + hexOf(specHash[c.Spec], ob.Content)
				for _, vo := range settings {
					mt := t.MT
					if vo.noMT {
						mt = ""
					}
					r.Eval(1)
					d3, _, err := notation.VerifyBlob(ctx, in.v, bytes.NewReader(ob.Content), sig, notation.VerifyBlobOptions{
						BlobVerifierVerifyOptions: notation.BlobVerifierVerifyOptions{SignatureMediaType: c.Format, UserMetadata: copyMap(vo.required)}, ContentMediaType: mt})
					if err != nil {
						res.note("other-blob-presented/" + ob.Label + ":rejected")
						continue
					}
					res.note("other-blob-presented/" + ob.Label + ":accepted")
					if string(d3.Digest) != obDigest || d3.Size != int64(len(ob.Content)) {
						res.bad("blob/returned-descriptor-is-not-of-the-verified-blob", "VerifyBlob (ContentMediaType=%q UserMetadata=%s) succeeded for a blob that is not the signed one (%s: %d bytes, %s) and returned {digest:%q size:%d}, the descriptor of the signed blob",
							mt, mapStr(vo.required), ob.Label, len(ob.Content), obDigest, d3.Digest, d3.Size)
					}
				}
			}
		}
		return res
	}

	// OCI
	desc := t.Desc
	desc.Annotations = copyMap(desc.Annotations)
	wantAnn := union(t.Desc.Annotations, meta)
	if len(wantAnn) == 0 {
		wantAnn = nil
	}
	want := wantT{MediaType: desc.MediaType, Digest: string(desc.Digest), Size: desc.Size, Annotations: wantAnn}
	ref := "reg.example.io/c07@" + desc.Digest.String()
	var sig []byte
	r.Eval(1)
	if len(meta) == 0 {
		// no user metadata: the Signer interface directly
		sig, _, err = s.Sign(ctx, desc, so)
		if err != nil {
			res.noteSignFailed(c, err)
			return res
		}
	} else {
		// user metadata is merged by notation.SignOCI; a scripted repository answers Resolve with the descriptor and keeps the pushed envelope
		repo := &scriptRepo{desc: desc}
		_, _, err = notation.SignOCI(ctx, s, repo, notation.SignOptions{SignerSignOptions: so, ArtifactReference: ref, UserMetadata: metaArg})
		if err != nil {
			res.noteSignFailed(c, err)
			return res
		}
		// how often and under which media type SignOCI pushes is not the subject here (C11): the envelope pushed last is taken
		if len(repo.pushed) != 1 || repo.pushMT[0] != c.Format {
			res.note("roundtrip/signature-pushed-otherwise-than-once-with-its-media-type")
		}
		if len(repo.pushed) == 0 {
			res.note("roundtrip/no-signature-pushed")
			res.signFailed = true
			return res
		}
		sig = repo.pushed[len(repo.pushed)-1]
	}
	checkForwarded(res, c, envp)
	if !sameMap(desc.Annotations, t.Desc.Annotations) {
		res.note("metadata/resolved-descriptor-annotations-modified") // not in this statement
	}
	r.Eval(1)
	outcome, err := in.v.Verify(ctx, t.Desc, sig, notation.VerifierVerifyOptions{ArtifactReference: ref, SignatureMediaType: c.Format})
	if err != nil {
		res.bad("roundtrip/verification-failed:"+c.Signer, "verifier.Verify rejects what the signing API produced: %v", err)
		return res
	}
	res.verified = true
	judgeOutcome(res, c, sig, outcome, want, meta, t.Desc.Annotations, agent, false)
	if outcome == nil || outcome.EnvelopeContent == nil {
		return res
	}
	for _, vo := range verifyOpts(wantAnn, false) {
		r.Eval(1)
		o2, err := in.v.Verify(ctx, t.Desc, sig, notation.VerifierVerifyOptions{ArtifactReference: ref, SignatureMediaType: c.Format, UserMetadata: copyMap(vo.required)})
		if err != nil {
			res.note("verify-options/verification-failed:" + vo.label)
			continue
		}
		judgeAlternate(res, c, o2, want, meta, t.Desc.Annotations, false, vo)
	}
	return res
}

// repoHistory: the artifact is signed several times through notation.SignOCI (trusted and untrusted signers, both
// envelope formats, any order) into a repository that lists the signatures in push order, page by page; then
// notation.Verify. The artifact carries a signature by a trusted signer, so verification succeeds and reports it.
func (w *world) repoHistory(r *hx.Run, c *caseT) *result {
	res := &result{}
	meta, ok := findMeta(c.Meta)
	agent, ok2 := findAgent(c.Agent)
	if !ok || !ok2 || len(c.Sequence) == 0 {
		res.infra = "unknown dimension value in " + c.String()
		return res
	}
	desc := ociDesc(false, 0)
	repo := &scriptRepo{desc: desc, page: c.PageSize}
	ref := "reg.example.io/c07@" + desc.Digest.String()
	trusted := 0
	for _, el := range c.Sequence {
		who, f, found := strings.Cut(el, "/")
		format := map[string]string{"jws": forge.JWS, "cose": forge.COSE}[f]
		if !found || format == "" || (who != "trusted" && who != "untrusted") {
			res.infra = "bad sequence element in " + c.String()
			return res
		}
		sc := *c
		um := copyMap(meta)
		if who == "untrusted" {
			sc.CertWindow = "untrusted"
			um = map[string]string{"signedBy": "someone else"}
		} else {
			trusted++
		}
		s, _, err := w.newSigner(&sc)
		if err != nil {
			res.infra = fmt.Sprintf("signer construction (%s): %v", c, err)
			return res
		}
		r.Eval(1)
		so := notation.SignerSignOptions{SignatureMediaType: format, ExpiryDuration: time.Duration(c.ExpirySec) * time.Second, SigningAgent: agent}
		if _, _, err := notation.SignOCI(ctx, s, repo, notation.SignOptions{SignerSignOptions: so, ArtifactReference: ref, UserMetadata: um}); err != nil {
			res.noteSignFailed(c, err)
			return res
		}
	}
	if trusted == 0 || len(repo.pushed) == 0 {
		res.infra = "no trusted signature in " + c.String()
		return res
	}
	v, err := w.newV()
	if err != nil {
		res.infra = fmt.Sprintf("verifier construction: %v", err)
		return res
	}
	r.Eval(1)
	_, outcomes, err := notation.Verify(ctx, v, repo, notation.VerifyOptions{ArtifactReference: ref, MaxSignatureAttempts: len(c.Sequence) + 5})
	if err != nil {
		res.bad("roundtrip/verification-failed:"+c.Signer, "notation.Verify rejects an artifact that carries a signature the signing API produced for a trusted signer (signatures listed: %s, %d per page): %v", strings.Join(c.Sequence, ", "), c.PageSize, err)
		return res
	}
	res.verified = true
	var good *notation.VerificationOutcome
	for _, o := range outcomes {
		if o != nil && o.Error == nil && o.EnvelopeContent != nil {
			good = o
			break
		}
	}
	if good == nil {
		res.bad("roundtrip/no-envelope-content-on-success", "notation.Verify succeeded without an outcome that carries envelope content (%d outcomes)", len(outcomes))
		return res
	}
	// which of the pushed envelopes verified (for the independent reading of the bytes)
	jc := *c
	sig := good.RawSignature
	for i, b := range repo.pushed {
		if bytes.Equal(b, sig) {
			jc.Format = repo.pushMT[i]
		}
	}
	var wantAnn map[string]string
	if len(meta) > 0 {
		wantAnn = meta
	}
	want := wantT{MediaType: desc.MediaType, Digest: string(desc.Digest), Size: desc.Size, Annotations: wantAnn}
	judgeOutcome(res, &jc, sig, good, want, meta, nil, agent, false)
	return res
}

// runRepoPath: notation.SignOCI into a real in-memory repository, then notation.Verify.
func (w *world) runRepoPath(r *hx.Run, c *caseT, res *result, s anySigner, so notation.SignerSignOptions, metaArg, meta map[string]string, agent string) {
	st := memory.New()
	manifest := []byte(`{"schemaVersion":2,"mediaType":"` + mtManifest + `","config":{"mediaType":"application/vnd.oci.empty.v1+json","digest":"sha256:44136fa355b3678a1146ad16f7e8649e94fb4fc21fe77e8310c060f61caaff8a","size":2},"layers":[],"annotations":{"c07":"` + c.Spec + `"}}`)
	cfg := []byte("{}")
	cd := ocispec.Descriptor{MediaType: "application/vnd.oci.empty.v1+json", Digest: digest.Digest("sha256:" + hexOf("sha256", cfg)), Size: 2}
	md := ocispec.Descriptor{MediaType: mtManifest, Digest: digest.Digest("sha256:" + hexOf("sha256", manifest)), Size: int64(len(manifest))}
	if err := st.Push(ctx, cd, bytes.NewReader(cfg)); err != nil {
		res.infra = fmt.Sprintf("push config: %v", err)
		return
	}
	if err := st.Push(ctx, md, bytes.NewReader(manifest)); err != nil {
		res.infra = fmt.Sprintf("push manifest: %v", err)
		return
	}
	if err := st.Tag(ctx, md, md.Digest.String()); err != nil {
		res.infra = fmt.Sprintf("tag manifest: %v", err)
		return
	}
	repo := registry.NewRepository(st)
	ref := "reg.example.io/c07@" + md.Digest.String()
	r.Eval(1)
	gotDesc, sigManifest, err := notation.SignOCI(ctx, s, repo, notation.SignOptions{SignerSignOptions: so, ArtifactReference: ref, UserMetadata: metaArg})
	if err != nil {
		res.noteSignFailed(c, err)
		return
	}
	// what SignOCI / notation.Verify return about the manifest is the subject of C11: recorded only
	if gotDesc.Digest != md.Digest || gotDesc.Size != md.Size || gotDesc.MediaType != md.MediaType {
		res.note("repository/signoci-returned-descriptor-differs")
	}
	sig, _, ferr := repo.FetchSignatureBlob(ctx, sigManifest)
	r.Eval(1)
	vd, outcomes, err := notation.Verify(ctx, w.v, repo, notation.VerifyOptions{ArtifactReference: ref, MaxSignatureAttempts: 5})
	if err != nil {
		res.bad("roundtrip/verification-failed:"+c.Signer, "notation.Verify rejects what notation.SignOCI pushed: %v", err)
		return
	}
	res.verified = true
	if vd.Digest != md.Digest || vd.Size != md.Size || vd.MediaType != md.MediaType {
		res.note("repository/verify-returned-descriptor-differs")
	}
	if len(outcomes) != 1 {
		res.note("repository/outcome-count-not-one")
	}
	// the outcome of the signature that verified
	var ok *notation.VerificationOutcome
	for _, o := range outcomes {
		if o != nil && o.Error == nil && o.EnvelopeContent != nil {
			ok = o
			break
		}
	}
	if ok == nil {
		res.bad("roundtrip/no-envelope-content-on-success", "notation.Verify succeeded without an outcome that carries envelope content (%d outcomes)", len(outcomes))
		return
	}
	if ferr != nil || len(sig) == 0 {
		sig = ok.RawSignature
	}
	var wantAnn map[string]string
	if len(meta) > 0 {
		wantAnn = meta
	}
	want := wantT{MediaType: md.MediaType, Digest: string(md.Digest), Size: md.Size, Annotations: wantAnn}
	judgeOutcome(res, c, sig, ok, want, meta, nil, agent, false)
}

// ---------------------------------------------------------------------------

func report(r *hx.Run, c *caseT, res *result) string {
	fam := "oci"
	if strings.HasPrefix(c.Target, "blob") {
		fam = "blob"
	}
	switch c.Entry {
	case "repository-path":
		fam = "oci-repository"
	case "fault-history", "instance-reuse", "repository-history":
		fam = c.Entry + "/" + fam
	}
	if res.infra != "" {
		r.Infra("%s", res.infra)
		return fam + "/" + c.Signer + ":infra"
	}
	seen := map[string]bool{}
	for _, v := range res.viols {
		if seen[v.key] {
			continue // the payload is judged on the signed bytes and again on the reported payload
		}
		seen[v.key] = true
		r.Violation(v.key, fmt.Sprintf("[%s] %s", c, v.what), c)
	}
	if res.agentClass != "" {
		r.Outcome(fmt.Sprintf("agent/%s/requested-%s:%s", c.Signer, c.Agent, res.agentClass))
	}
	if res.retAnn != "" {
		r.Outcome("blob/returned-descriptor-annotations:" + res.retAnn)
	}
	if res.faultClass != "" {
		r.Outcome("fault-history/call-with-failing-reader/" + c.FaultCall + ":" + res.faultClass)
	}
	noted := map[string]bool{}
	for _, k := range res.notes {
		if !noted[k] {
			noted[k] = true
			r.Outcome("recorded:" + k)
		}
	}
	if res.signFailed && len(res.viols) == 0 {
		return fam + "/" + c.Signer + ":no-signature-produced(not-judged)"
	}
	switch {
	case len(res.viols) > 0 && res.verified:
		return fam + "/" + c.Signer + ":verified-but-misreported"
	case len(res.viols) > 0:
		return fam + "/" + c.Signer + ":round-trip-broken"
	}
	return fam + "/" + c.Signer + ":verified-and-reported-exactly"
}

func main() {
	r := hx.New("C07")
	r.Rule = "phase 1 (sequential, fresh process): for every key spec x format x signer kind x failing call {SignBlob, VerifyBlob} x failure point {0, half, all-but-one bytes} x delivery of the follow-up, a blob call whose reader fails is followed by an honest sign->verify round trip of the same signer and verifier instances; phase 2 (parallel): every element of key spec x leaf validity {long-lived, short-lived: ends 3 h from now, before signing time + 24 h} x expiry duration {none, 1 h, 24 h, the longest expressible: 9223372036 s, ends after 2262} x format x signer kind x (32 OCI descriptors: annotations x every subset of urls/data/platform/artifactType | 4 blob sizes x 5 content media type spellings (2 common, 3 legal uncommon ones: case, spacing, quoting, parameter order) x 4 ways the readers deliver the bytes (the uncommon spellings meet the 1 MiB blob delivered whole only)) x user metadata {none, one pair, three pairs; plain keys} x expiry duration x signing agent is signed once by the real signing API and the bytes verified by the real verification API once with the sign-side options and once for every other accepted setting of the verify-side options (blob content media type {as signed, not given} x required user metadata {none, one signed pair, all signed pairs}); metadata shapes (parallel, before the product, never cut by its deadline): every user-metadata map of the hand-written shape alphabet (keys in the OCI image-spec namespace org.opencontainers.* next to a plain key / nothing but such keys / the namespace roots and their neighbours / other well-known annotation namespaces / legal keys next to the reserved prefix io.cncf.notary / the names of the descriptor's and payload's own members / key spellings: empty, blanks, separators, case twins, non-ASCII, JSON-escaped and control characters / value spellings: multi-line, JSON text, blanks, HTML, U+2028/2029, NUL, equal values, values that look like keys / a 1000-byte key and a 64 KiB value / 40 pairs / control: a key with the reserved prefix, which the signing API refuses - recorded, not judged) x format x signer kind x target {OCI descriptor without annotations, OCI descriptor with annotations of its own and all extra fields, 1 KiB blob} is signed and verified like an element of the product (same clauses, all verify-side option settings), and every shape x format goes through notation.SignOCI -> in-memory repository -> notation.Verify; quick rotates key spec, expiry duration and signing agent over this family, thorough multiplies by the key spec and adds two targets; one notation.SignOCI -> in-memory repository -> notation.Verify trip per (key spec, format); instance reuse: every ordered pair of four configurations done by the same signer and verifier instances; repository histories: for every key spec x signer kind, the artifact is signed through notation.SignOCI 1..3 times by a trusted or an untrusted signer (same leaf key and names, other CA keys) in either envelope format, at least once trusted, in every order, the scripted repository lists the signatures in push order all at once or one per page, then notation.Verify; non-trivial = distinct histories whose judged round trip succeeded (signature produced, verification succeeded), the only cases in which the reporting oracle is evaluated"
	r.Assumptions = []string{
		"RSASSA-PSS / ECDSA / SHA-2 of the Go standard library are correct (used by the scripted plugins, lib/refsig and the oracle's digest recomputation)",
		"the scripted plugins are honest: they sign exactly the bytes handed to them with the hash named in the request and honour expiryDurationInSeconds",
		"the statement's 1 s expiry is replaced by 1 h so that no generated instant comes within 1 h of now",
		"the statement speaks about signatures the signing API produced: a signing error is recorded (recorded:roundtrip/sign-failed:<kind>) and the round trip not judged; a (key spec, format, signer kind) that never produces a signature makes the run exhaustive:false (not judged), never a violation",
		"only what the statement fixes is enforced; further observations (outcome.Error on success, payload content type, byte identity of the reported payload, lib/refsig's own verdict, what the envelope plugin is told, how SignOCI pushes, what SignOCI/notation.Verify return about the manifest, acceptance of other verify-side options, aliasing of returned values) are evidence only (recorded:<key>)",
		"user metadata read back for an OCI target that has annotations of its own: every signed user pair must be present and nothing but signed pairs (the statement does not say whether the target's own annotations count as user metadata); without such annotations: equality",
		"the envelope-generator contract has no signing-agent field: for that signer kind the agent dimension selects the plugin's envelope builder (lib/forge vs notation-core-go)",
		"a blob that is not the signed one (last byte changed / one byte longer) is presented under every verify-side option setting: a rejection is recorded, not judged (not this statement); a success must return the descriptor of the blob that was read",
		"media types are compared as RFC 2045 defines their equality (case of type/subtype/parameter names, spacing, quoting and parameter order do not matter), not as strings",
		"the descriptor returned by VerifyBlob is judged on media type (the signed one, also when the verifier was not told a media type), digest and size; its annotations are recorded, not judged, but the returned descriptor may not differ between verifications of the same blob and signature under different verify-side options",
		"legal user metadata = what the signing API accepts (it refuses keys with the reserved prefix io.cncf.notary and, for OCI targets, keys the target's own annotations already use); keys and values are valid UTF-8 strings (invalid UTF-8 cannot be carried by the JSON payload and is not enumerated); the metadata-shape alphabet is hand-written, no key collides with an annotation of the OCI targets",
		"the result of a call whose reader fails is recorded, not judged; only the honest round trip after it is judged (keys after-failed-read/...)",
	}
	w := buildWorld(r)

	if r.Replay != "" {
		var c caseT
		if err := r.LoadReplay(&c); err != nil {
			r.Infra("replay: %v", err)
			r.Finish()
		}
		func() {
			defer func() {
				if v := recover(); v != nil {
					r.Violation("roundtrip/panic", fmt.Sprintf("[%s] panic: %v", c, v), c)
				}
			}()
			res := w.runCase(r, &c)
			cl := report(r, &c, res)
			r.Outcome(cl)
			b, _ := json.Marshal(res.detail)
			fmt.Printf("replay result: %s %s\n", cl, b)
		}()
		r.Finish()
	}

	// pre-compute blob contents and oracle digests
	for _, s := range blobSizes {
		blobContent(s)
		for _, a := range []string{"sha256", "sha384", "sha512"} {
			blobDigest(s, a)
		}
	}

	tgs := targets()
	type tdT struct {
		t target
		d string
	}
	var tds []tdT // target x delivery (deliveries apply to blobs only)
	for _, t := range tgs {
		if !t.Blob {
			tds = append(tds, tdT{t, ""})
			continue
		}
		for _, d := range deliveries {
			if t.Variant && t.Size > 1<<20 && d != "whole" {
				continue // the uncommon media type spellings meet the 1 MiB blob delivered whole only
			}
			tds = append(tds, tdT{t, d})
		}
	}
	slowSpec := func(spec string) bool { return spec == pki.RSA3072 || spec == pki.RSA4096 }

	// ---- phase 1 (sequential, first in the fresh process): a blob call whose reader fails, then an honest round trip
	var faults []caseT
	combo := 0
	for _, spec := range pki.AllSpecs {
		for _, f := range forge.Formats {
			for _, kind := range signerKinds {
				for _, call := range []string{"SignBlob", "VerifyBlob"} {
					for _, k := range []int{0, poisonSize / 2, poisonSize - 1} {
						combo++
						for di, d := range deliveries {
							if !r.Thorough() && di != combo%len(deliveries) {
								continue // quick: the delivery of the follow-up rotates instead of multiplying
							}
							faults = append(faults, caseT{Spec: spec, Format: f, Signer: kind, Target: "blob-1024-mt0", Delivery: d, Meta: "one", ExpirySec: 3600, Agent: "default",
								Entry: "fault-history", FaultCall: call, FaultAfter: k})
						}
					}
				}
			}
		}
	}

	// ---- phase 2 (parallel): the product
	var cases []caseT
	full := 0
	for si, spec := range pki.AllSpecs {
		for wi, win := range certWindows {
			for fi, f := range forge.Formats {
				for ki, kind := range signerKinds {
					for ti, td := range tds {
						for mi, m := range baseMetas {
							for ei, e := range expirySeconds {
								for ai, a := range agents {
									full++
									if !r.Thorough() {
										// quick: a diagonal of the product (1 in 3); RSA-3072/4096 and the 1 MiB blob on a sparser one
										// (1 in 4); OCI targets with a proper subset of the extra fields and blobs delivered in pieces on a
										// diagonal too (1 in 6, combined 1 in 24; the 1 MiB blob in pieces 1 in 48)
										big := td.t.Blob && td.t.Size > 1<<20
										pieces := td.t.Blob && td.d != "whole"
										subset := (!td.t.Blob && ti%16 != 0 && ti%16 != 15) || td.t.Variant
										every := 3
										if slowSpec(spec) || big {
											every = 4
										}
										if pieces || subset {
											every *= 6
										}
										if big && pieces {
											every = 48
										}
										if wi > 0 {
											every *= 4 // the second leaf validity window on a diagonal
										}
										if e == maxExpirySeconds {
											every *= 3 // the extreme duration on a diagonal
										}
										if (si+wi+fi+ki+ti+mi+ei+ai)%every != 0 {
											continue
										}
									}
									cases = append(cases, caseT{Spec: spec, CertWindow: win, Format: f, Signer: kind, Target: td.t.Name, Delivery: td.d, Meta: m.Name, ExpirySec: e, Agent: a.Name, Entry: "product"})
								}
							}
						}
					}
				}
			}
		}
	}
	nProduct := len(cases)
	// the full repository path, once per (key spec, format); the signer kind rotates
	for si, spec := range pki.AllSpecs {
		for fi, f := range forge.Formats {
			cases = append(cases, caseT{Spec: spec, Format: f, Signer: signerKinds[(si+fi)%len(signerKinds)], Target: "oci-minimal", Meta: "three", ExpirySec: 86400, Agent: agents[(si+fi)%2].Name, Entry: "repository-path"})
		}
	}
	nRepo := len(cases) - nProduct
	// instance reuse: the same signer and verifier instances do X and then Y, every ordered pair of four configurations
	reuse := []caseT{
		{Target: "oci-minimal", Meta: "none", ExpirySec: 0},
		{Target: ociName(true, 15), Meta: "three", ExpirySec: 86400},
		{Target: "blob-1-mt0", Delivery: "whole", Meta: "none", ExpirySec: 0},
		{Target: "blob-1024-mt1", Delivery: "half", Meta: "one", ExpirySec: 3600},
	}
	for si, spec := range pki.AllSpecs {
		for fi, f := range forge.Formats {
			for ki, kind := range signerKinds {
				for ai, a := range agents {
					for xi, x := range reuse {
						for yi, y := range reuse {
							if !r.Thorough() && slowSpec(spec) && (si+fi+ki+ai+xi+yi)%4 != 0 {
								continue
							}
							x.Spec, x.Format, x.Signer, x.Agent, x.Entry = spec, f, kind, a.Name, "instance-reuse"
							first := x
							y.Spec, y.Format, y.Signer, y.Agent, y.Entry, y.Before = spec, f, kind, a.Name, "instance-reuse", &first
							cases = append(cases, y)
						}
					}
				}
			}
		}
	}
	nReuse := len(cases) - nProduct - nRepo
	// repository histories: the artifact carries 1..3 signatures, each by a trusted or an untrusted signer in either
	// format, at least one trusted, listed in every order, all at once or one per page
	els := []string{"trusted/jws", "trusted/cose", "untrusted/jws", "untrusted/cose"}
	var seqs [][]string
	var grow func(prefix []string)
	grow = func(prefix []string) {
		if strings.Contains(","+strings.Join(prefix, ","), ",trusted/") {
			seqs = append(seqs, append([]string(nil), prefix...))
		}
		if len(prefix) == 3 {
			return
		}
		for _, e := range els {
			grow(append(prefix, e))
		}
	}
	grow(nil)
	for si, spec := range pki.AllSpecs {
		for ki, kind := range signerKinds {
			for qi, seq := range seqs {
				for pi, page := range []int{0, 1} {
					if !r.Thorough() && (ki != (si+qi)%len(signerKinds) || (slowSpec(spec) && (qi+pi)%3 != 0)) {
						continue // quick: the signer kind rotates; RSA-3072/4096 on a diagonal
					}
					cases = append(cases, caseT{Spec: spec, Format: "mixed", Signer: kind, Target: "oci-minimal", Meta: "one", ExpirySec: 3600, Agent: "default",
						Entry: "repository-history", Sequence: seq, PageSize: page})
				}
			}
		}
	}
	nHist := len(cases) - nProduct - nRepo - nReuse
	r.Extra["product_full_size"] = full
	r.Extra["product_cases_run"] = nProduct
	r.Extra["repository_path_cases"] = nRepo
	r.Extra["instance_reuse_histories"] = nReuse
	r.Extra["repository_histories"] = nHist
	r.Extra["repository_history_sequences"] = len(seqs)
	r.Extra["fault_histories"] = len(faults)
	r.Extra["alphabet"] = map[string]int{"key_specs": len(pki.AllSpecs), "leaf_validity_windows": len(certWindows), "verify_option_settings_per_signature_max": 6, "formats": 2, "signer_kinds": len(signerKinds), "oci_targets": 2 << len(extraFields), "blob_targets": len(blobSizes) * len(blobMTs), "content_media_type_spellings": len(blobMTs), "blob_deliveries": len(deliveries),
		"user_metadata": len(metas), "user_metadata_in_the_product": len(baseMetas), "user_metadata_shapes": len(shapeMetas), "expiry_durations": len(expirySeconds), "signing_agents": len(agents), "fault_calls": 2, "fault_points": 3, "reuse_configurations": len(reuse)}

	// results are reported in enumeration order, so the case written out for a violation key is always
	// the first one of the enumeration
	// the metadata-shape family runs before the product (it is small and is never cut by the deadline of the product)
	shapes := shapeCases(r.Thorough())
	r.Extra["metadata_shape_cases"] = len(shapes)
	r.Extra["metadata_shapes"] = len(shapeMetas)
	all := append(append(append([]caseT(nil), faults...), shapes...), cases...)
	results := make([]*result, len(all))
	panics := make([]string, len(all))
	one := func(i int) {
		defer func() {
			if v := recover(); v != nil {
				results[i], panics[i] = nil, fmt.Sprint(v)
			}
		}()
		results[i] = w.runCase(r, &all[i])
	}
	t0 := time.Now()
	// sequential: a failed call may leave process-wide state behind, the next call must not see it. The phase has its
	// own share of the wall-clock allowance and a strided order, so that under machine load it is cut evenly and the
	// parallel phase still gets its time.
	faultBudget := hx.Budget(8 * time.Second)
	if r.Thorough() {
		faultBudget = hx.Budget(2 * time.Minute)
	}
	skippedAll := make([]bool, len(all))
	fstride := 131
	for len(faults) > 0 && len(faults)%fstride == 0 {
		fstride += 2
	}
	faultsCut := 0
	for i := range faults {
		j := (i * fstride) % len(faults)
		if time.Since(t0) > faultBudget {
			skippedAll[j] = true
			faultsCut++
			continue
		}
		one(j)
	}
	if faultsCut > 0 {
		r.Capped(fmt.Sprintf("wall-clock share of the sequential phase used up: %d of %d fault histories (strided order) completed", len(faults)-faultsCut, len(faults)))
	}
	t1 := time.Now()
	// the parallel phase visits the cases in a strided order, so that a run cut short by the internal deadline
	// (machine under load) has still sampled every dimension evenly; reporting stays in enumeration order
	if r.Thorough() {
		r.SetDeadline(9 * time.Minute)
	} else {
		r.SetDeadline(38 * time.Second)
	}
	ev0 := r.Evaluations()
	r.Parallel(len(shapes), func(i int) { one(len(faults) + i) }, nil)
	r.Extra["metadata_shape_evaluations"] = r.Evaluations() - ev0
	tShapes := time.Since(t1)
	stride := 7919
	for len(cases)%stride == 0 {
		stride += 2
	}
	skipped := skippedAll
	var nSkipped atomic.Int64
	r.Parallel(len(cases), func(i int) {
		j := len(faults) + len(shapes) + int((int64(i)*int64(stride))%int64(len(cases)))
		if r.Expired() {
			skipped[j] = true
			nSkipped.Add(1)
			return
		}
		one(j)
	}, nil)
	if n := nSkipped.Load(); n > 0 {
		r.Capped(fmt.Sprintf("internal deadline: %d of %d parallel histories (strided order over the enumeration) completed", int64(len(cases))-n, len(cases)))
	}
	r.Extra["phase_wall_seconds"] = map[string]float64{"fault_histories_sequential": t1.Sub(t0).Seconds(), "metadata_shapes_parallel": tShapes.Seconds(), "product_and_reuse_parallel": (time.Since(t1) - tShapes).Seconds()}
	var verified, total int64
	type comboT struct{ done, verified, alarmed int }
	combos := map[string]*comboT{}
	for i := range all {
		c := &all[i]
		if skipped[i] {
			continue
		}
		total++
		if results[i] == nil {
			r.Violation("roundtrip/panic", fmt.Sprintf("[%s] panic in the sign/verify round trip: %s", c, panics[i]), c)
			r.Outcome("panic")
			continue
		}
		res := results[i]
		combo := c.Spec + " x " + short(c.Format) + " x " + c.Signer
		if combos[combo] == nil {
			combos[combo] = &comboT{}
		}
		combos[combo].done++
		if res.verified {
			verified++
			combos[combo].verified++
			r.Nontrivial(c.String())
		}
		if len(res.viols) > 0 {
			combos[combo].alarmed++
		}
		r.Outcome(report(r, c, res))
		if i%197 == 0 && res.detail != nil {
			r.Sample(map[string]any{"case": c, "observed": res.detail})
		}
		results[i] = nil
	}

	clockTickFamily(r) // sequential: the clock of package signer is process-global
	r.Extra["histories_skipped_by_deadline"] = nSkipped.Load() + int64(faultsCut)
	r.Extra["histories"] = total
	r.Extra["histories_whose_judged_round_trip_verified"] = verified
	if verified == 0 {
		r.Infra("vacuous run: none of %d judged round trips verified", total)
	}
	// a (key spec, format, signer kind) for which no signature was ever produced cannot be judged: that is not a
	// violation of the statement (it speaks about produced signatures) but the run proves nothing about it
	var names []string
	for k := range combos {
		names = append(names, k)
	}
	sort.Strings(names)
	var unjudged []string
	for _, k := range names {
		cb := combos[k]
		if cb.verified != 0 || cb.alarmed != 0 {
			continue
		}
		unjudged = append(unjudged, fmt.Sprintf("%s (%d histories)", k, cb.done))
	}
	if len(unjudged) > 0 {
		r.Extra["combinations_without_any_produced_signature"] = unjudged
		r.Capped(fmt.Sprintf("not judged: %d (key spec x format x signer kind) combinations never produced a signature (recorded:roundtrip/sign-failed)", len(unjudged)))
	}
	r.Finish()
}
