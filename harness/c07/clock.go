package main

// Clock-tick family (clock seam): package signer is compiled with its "time" import rewritten to
// engine/timeshim; with an auto-tick of one day every read of the clock inside one signing call returns a
// different day. The statement fixes "expiry equals signing time plus the requested duration": that can
// only hold if the signer derives both from ONE reading of the clock.

import (
	"context"
	"fmt"
	"time"

	"github.com/notaryproject/notation-core-go/signature"
	"github.com/notaryproject/notation-go"
	"github.com/notaryproject/notation-go/signer"
	"github.com/notaryproject/notation-go/zzverif/engine/timeshim"
	"github.com/notaryproject/notation-go/zzverif/lib/forge"
	"github.com/notaryproject/notation-go/zzverif/lib/hx"
	"github.com/notaryproject/notation-go/zzverif/lib/pki"
	"github.com/opencontainers/go-digest"
	ocispec "github.com/opencontainers/image-spec/specs-go/v1"
)

type clockTickCase struct {
	Kind     string `json:"kind"`
	Spec     string `json:"key_spec"`
	Format   string `json:"format"`
	Duration string `json:"expiry_duration"`
	Tick     string `json:"clock_tick"`
}

func clockTickFamily(r *hx.Run) {
	defer timeshim.SetAutoTick(0)
	defer timeshim.SetOffset(0)
	desc := ocispec.Descriptor{MediaType: "application/vnd.oci.image.manifest.v1+json", Digest: digest.FromString("c07 clock"), Size: 9}
	n, active := 0, false
	for _, spec := range []string{pki.EC256, pki.RSA2048} {
		ch := pki.NewChain(pki.ChainOpts{Len: 2, LeafSpec: spec, Prefix: "c07clock"})
		s, err := signer.NewGenericSigner(ch.Leaf().Key, ch.X509())
		if err != nil {
			r.Infra("clock family: %v", err)
			return
		}
		for _, f := range forge.Formats {
			for _, d := range []time.Duration{time.Hour, 24 * time.Hour, 0} {
				for _, tick := range []time.Duration{time.Second, 24 * time.Hour} {
					timeshim.SetOffset(0)
					timeshim.SetAutoTick(tick)
					before := timeshim.Calls()
					r.Eval(1)
					sig, _, err := s.Sign(context.Background(), desc, notation.SignerSignOptions{SignatureMediaType: f, ExpiryDuration: d})
					timeshim.SetAutoTick(0)
					timeshim.SetOffset(0)
					if timeshim.Calls() != before {
						active = true
					}
					c := clockTickCase{"clock-tick", spec, f, d.String(), tick.String()}
					n++
					if err != nil {
						// the statement speaks about produced signatures: a refused signing is evidence only
						r.Outcome("recorded:clock-tick/sign-failed")
						continue
					}
					env, err := signature.ParseEnvelope(f, sig)
					if err != nil {
						r.Violation("clock-tick/unparseable-signature", err.Error(), c)
						continue
					}
					content, err := env.Content()
					if err != nil {
						r.Violation("clock-tick/unreadable-signature", err.Error(), c)
						continue
					}
					st, ex := content.SignerInfo.SignedAttributes.SigningTime, content.SignerInfo.SignedAttributes.Expiry
					switch {
					case d == 0 && !ex.IsZero():
						r.Violation("clock-tick/expiry-set-without-duration", fmt.Sprintf("expiry %v although no duration was requested (%+v)", ex, c), c)
					case d != 0 && !ex.Equal(st.Add(d)):
						r.Violation("expiry/not-signing-time-plus-duration:clock-read-twice", fmt.Sprintf("signing time %v, expiry %v, requested duration %v: expiry-signing time = %v (clock ticks %v per read) (%+v)", st, ex, d, ex.Sub(st), tick, c), c)
					default:
						r.Outcome("clock-tick:expiry=signing-time+duration")
						r.Nontrivial(fmt.Sprintf("clocktick|%+v", c))
					}
				}
			}
		}
	}
	r.Extra["clock_tick_signings"] = n
	if !active {
		r.Capped("clock seam not active (overlay build failed or package signer no longer reads package time): clock-tick family judged nothing")
	}
}
