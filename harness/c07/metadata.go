// C07 — the dimension "which keys and values the user metadata consists of".
//
// The statement quantifies over "any legal user metadata" and says that it is part of the verified payload and that
// "the user metadata read back from the outcome is exactly the metadata that was signed". The library defines legality
// by the KEY only (a reserved prefix is refused by the signing API), so the space of keys - their namespace, their
// spelling - and of values is a dimension of its own: a shortcut that treats some namespace, some spelling or some
// size specially is invisible while every key looks like "buildId".
//
// All maps are hand-written. A map the signing API refuses is recorded and not judged (the statement speaks about
// signatures the signing API produced); every map it accepts is judged by the unchanged clauses.
package main

import (
	"fmt"
	"sort"
	"strings"

	"github.com/notaryproject/notation-go/zzverif/lib/forge"
	"github.com/notaryproject/notation-go/zzverif/lib/pki"
)

// baseMetas: the cardinalities {0, 1, 3} with plain keys; the whole product runs over these.
var baseMetas = []metaT{
	{"none", nil},
	{"one", map[string]string{"buildId": "101"}},
	{"three", map[string]string{"buildId": "101", "emptyValue": "", "unicode": "héllo-世界-✓ <&>"}},
}

// shapeMetas: one map per class of keys / values.
var shapeMetas = []metaT{
	// keys in the namespace of the OCI image specification's pre-defined annotations, next to a plain key
	{"oci-image-spec-namespace+plain", map[string]string{
		"org.opencontainers.image.source":   "https://git.example.com/team/app",
		"org.opencontainers.image.revision": "9f2c1e7",
		"buildId":                           "101",
	}},
	// nothing but such keys (a reader that drops the namespace reports no metadata at all)
	{"oci-image-spec-namespace-only", map[string]string{
		"org.opencontainers.image.created":  "2021-03-04T05:06:07Z",
		"org.opencontainers.image.ref.name": "v1.2.3",
	}},
	// the namespace roots themselves and their neighbours
	{"namespace-roots", map[string]string{
		"org.opencontainers":        "root without dot",
		"org.opencontainers.":       "root with dot",
		"org.opencontainersx.image": "neighbour",
		"org":                       "top",
		"io":                        "top",
	}},
	// other well-known annotation namespaces
	{"well-known-namespaces", map[string]string{
		"org.label-schema.vcs-ref":                 "9f2c1e7",
		"com.docker.official-images.bashbrew.arch": "arm64v8",
		"vnd.docker.reference.type":                "attestation-manifest",
		"dev.sigstore.cosign/bundle":               "{}",
		"io.kubernetes.cri.image-name":             "app",
		"io.wabbit-networks.buildId":               "123",
		"com.example.team/owner":                   "release",
	}},
	// legal keys next to the reserved prefix "io.cncf.notary": proper prefixes of it, siblings, the prefix in another
	// place or in another case
	{"near-the-reserved-prefix", map[string]string{
		"io.cncf.notar":        "one letter short",
		"io.cncf":              "parent",
		"io.cncf.":             "parent with dot",
		"io.cncf.other.key":    "sibling",
		"x.io.cncf.notary.key": "not at the start",
		"notary":               "plain",
	}},
	// the names of the descriptor's and the payload's own members
	{"descriptor-member-names", map[string]string{
		"mediaType":      "text/plain",
		"digest":         "sha256:0000000000000000000000000000000000000000000000000000000000000000",
		"size":           "1",
		"annotations":    "{}",
		"urls":           "https://example.com/x",
		"data":           "AAAA",
		"platform":       "linux/arm64",
		"artifactType":   "application/vnd.example",
		"targetArtifact": "self",
	}},
	// spellings of keys: empty, blanks, separators, case twins, non-ASCII, characters JSON escapes, control characters
	{"key-spellings", map[string]string{
		"":                    "empty key",
		" ":                   "a blank",
		" leading.trailing ":  "blanks around",
		"with blank inside":   "1",
		"a=b,c=d":             "separators of the command line",
		"Case":                "upper",
		"case":                "lower",
		"CASE":                "all upper",
		"ключ-鍵-🔑":            "non-ASCII",
		`quote"back\slash/`:   "JSON escapes",
		"tab\there\nnew-line": "control characters",
		"<html>&amp;":         "HTML-sensitive",
		"a.b.c.d.e.f.g.h":     "deep",
		"..":                  "dots",
		"0":                   "digit",
	}},
	// spellings of values
	{"value-spellings", map[string]string{
		"multi-line":   "first\nsecond\r\nthird\n",
		"json":         `{"a":[1,2,{"b":null}],"c":"é"}`,
		"blanks":       "  two leading, two trailing  ",
		"only-blank":   " ",
		"html":         `<script>alert("x")</script>&amp;`,
		"line-sep":     "a\u2028b\u2029c\u0085d",
		"nul":          "a\x00b",
		"twin-1":       "same value",
		"twin-2":       "same value",
		"looks-a-key":  "org.opencontainers.image.title",
		"looks-a-pair": "buildId=101",
		"number":       "-1.5e+300",
		"bool":         "true",
		"null":         "null",
	}},
	// sizes: a 1000-byte key, a 64 KiB value
	{"long-key-and-value", map[string]string{
		strings.Repeat("k", 1000): "value of the long key",
		"large":                   strings.Repeat("0123456789abcdef", 4096),
	}},
	// cardinality: 40 pairs
	{"forty-pairs", func() map[string]string {
		m := map[string]string{}
		for i := 0; i < 40; i++ {
			m[fmt.Sprintf("org.example.k%02d", i)] = fmt.Sprintf("v%d", i*i)
		}
		return m
	}()},
	// control: a key with the reserved prefix is not legal user metadata; the signing API is expected to refuse it
	// (recorded, not judged)
	{"reserved-prefix-not-legal", map[string]string{"io.cncf.notary.custom": "x", "buildId": "101"}},
}

var metas = append(append([]metaT(nil), baseMetas...), shapeMetas...)

// mapStr writes a map for a message: sorted, long keys and values abbreviated.
func mapStr(m map[string]string) string {
	ab := func(s string) string {
		if len(s) <= 96 {
			return fmt.Sprintf("%q", s)
		}
		return fmt.Sprintf("%q...(%d bytes)", s[:48], len(s))
	}
	keys := make([]string, 0, len(m))
	for k := range m {
		keys = append(keys, k)
	}
	sort.Strings(keys)
	var sb strings.Builder
	sb.WriteString("{")
	for i, k := range keys {
		if i > 0 {
			sb.WriteString(", ")
		}
		sb.WriteString(ab(k) + ": " + ab(m[k]))
	}
	sb.WriteString("}")
	return sb.String()
}

// the targets every metadata shape meets (quick); thorough adds two more
var shapeTargetsQuick = []struct{ Target, Delivery string }{
	{"oci-minimal", ""},
	{"oci+annotations+urls+data+platform+artifactType", ""},
	{"blob-1024-mt0", "whole"},
}

var shapeTargetsMore = []struct{ Target, Delivery string }{
	{"oci+annotations", ""},
	{"blob-1-mt1", "half"},
}

// shapeCases enumerates the metadata-shape family: every shape x format x signer kind x target (Entry "product": one
// sign -> verify round trip with all verify-side option settings), and every shape x format through
// notation.SignOCI -> in-memory repository -> notation.Verify (Entry "repository-path"). Quick rotates the key spec,
// the expiry duration and the signing agent over the product instead of multiplying by them; thorough multiplies by
// the key spec.
func shapeCases(thorough bool) []caseT {
	tg := shapeTargetsQuick
	if thorough {
		tg = append(append(tg[:0:0], tg...), shapeTargetsMore...)
	}
	exp := []int64{0, 3600, 86400}
	var out []caseT
	for mi, m := range shapeMetas {
		for fi, f := range forge.Formats {
			for ki, kind := range signerKinds {
				for ti, t := range tg {
					for si, spec := range pki.AllSpecs {
						if !thorough && si != (mi+fi+ki+ti)%len(pki.AllSpecs) {
							continue
						}
						n := mi + fi + ki + ti + si
						out = append(out, caseT{Spec: spec, Format: f, Signer: kind, Target: t.Target, Delivery: t.Delivery, Meta: m.Name,
							ExpirySec: exp[n%len(exp)], Agent: agents[n%len(agents)].Name, Entry: "product"})
					}
				}
			}
		}
	}
	for mi, m := range shapeMetas {
		for fi, f := range forge.Formats {
			n := mi + fi
			out = append(out, caseT{Spec: pki.AllSpecs[(n+3)%len(pki.AllSpecs)], Format: f, Signer: signerKinds[n%len(signerKinds)], Target: "oci-minimal", Meta: m.Name,
				ExpirySec: exp[n%len(exp)], Agent: agents[n%len(agents)].Name, Entry: "repository-path"})
		}
	}
	return out
}
