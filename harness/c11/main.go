// C11 — signing an OCI artifact signs exactly what was resolved and changes nothing else.
//
// E2: explicit-state search over HISTORIES of notation.SignOCI calls on one
// repository. State = the history that reaches it; successor = fresh repository
// + replay + one more call; canonical state = (multiset of signature manifests
// attached to the artifact, artifact annotations as the repository reports them).
// Repositories: an instrumented mock that hands out THE SAME descriptor
// object on every Resolve (also in a variant that implements the optional
// content.Fetcher capability), the real registry.NewOCIRepository on a scratch
// on-disk OCI layout (re-opened from disk when reading back), and
// registry.NewRepository over the oras memory store. The last call of every
// history is judged against a reference model written from the statement, with
// snapshots taken before the first call.
package main

import (
	"bytes"
	"context"
	"crypto/sha256"
	_ "crypto/sha512" // sha384 / sha512 digest references
	"encoding/base64"
	"encoding/hex"
	"encoding/json"
	"fmt"
	"io"
	"io/fs"
	"os"
	"path/filepath"
	"reflect"
	"sort"
	"strings"
	"sync"
	"sync/atomic"
	"time"

	"github.com/fxamacker/cbor/v2"
	"github.com/notaryproject/notation-core-go/signature"
	"github.com/notaryproject/notation-go"
	"github.com/notaryproject/notation-go/registry"
	"github.com/notaryproject/notation-go/signer"
	"github.com/notaryproject/notation-go/zzverif/lib/forge"
	"github.com/notaryproject/notation-go/zzverif/lib/hx"
	"github.com/notaryproject/notation-go/zzverif/lib/pki"
	"github.com/notaryproject/notation-go/zzverif/lib/refsig"
	"github.com/opencontainers/go-digest"
	ocispec "github.com/opencontainers/image-spec/specs-go/v1"
	"oras.land/oras-go/v2"
	"oras.land/oras-go/v2/content/memory"
	"oras.land/oras-go/v2/content/oci"
)

// hand-written constants (not taken from the code under test)
const (
	mtJWS          = "application/jose+json"
	mtCOSE         = "application/cose"
	mtImage        = "application/vnd.oci.image.manifest.v1+json"
	typeNotation   = "application/vnd.cncf.notary.signature"
	payloadType    = "application/vnd.cncf.notary.payload.v1+json"
	annThumbprints = "io.cncf.notary.x509chain.thumbprint#S256"
	annCreated     = "org.opencontainers.image.created"
	hdrSigningTime = "io.cncf.notary.signingTime"
	tagV1          = "v1"
)

var ctx = context.Background()

// ---------------------------------------------------------------------------
// small helpers

type imageManifest struct {
	SchemaVersion int                  `json:"schemaVersion"`
	MediaType     string               `json:"mediaType"`
	Config        ocispec.Descriptor   `json:"config"`
	Layers        []ocispec.Descriptor `json:"layers"`
	Subject       *ocispec.Descriptor  `json:"subject,omitempty"`
	Annotations   map[string]string    `json:"annotations,omitempty"`
}

// anyManifest is what the oracle reads back from a store.
type anyManifest struct {
	MediaType   string               `json:"mediaType"`
	Config      *ocispec.Descriptor  `json:"config"`
	Layers      []ocispec.Descriptor `json:"layers"`
	Subject     *ocispec.Descriptor  `json:"subject"`
	Annotations map[string]string    `json:"annotations"`
}

func descOf(mt string, b []byte) ocispec.Descriptor {
	return ocispec.Descriptor{MediaType: mt, Digest: digest.FromBytes(b), Size: int64(len(b))}
}

func same3(a, b ocispec.Descriptor) bool {
	return a.MediaType == b.MediaType && a.Digest == b.Digest && a.Size == b.Size
}

func copyMap(m map[string]string) map[string]string {
	if m == nil {
		return nil
	}
	c := make(map[string]string, len(m))
	for k, v := range m {
		c[k] = v
	}
	return c
}

func deepCopyDesc(d ocispec.Descriptor) ocispec.Descriptor {
	c := d
	c.Annotations = copyMap(d.Annotations)
	if d.URLs != nil {
		c.URLs = make([]string, len(d.URLs))
		copy(c.URLs, d.URLs)
	}
	if d.Data != nil {
		c.Data = make([]byte, len(d.Data))
		copy(c.Data, d.Data)
	}
	if d.Platform != nil {
		p := *d.Platform
		if p.OSFeatures != nil {
			p.OSFeatures = append([]string{}, p.OSFeatures...)
		}
		c.Platform = &p
	}
	return c
}

func sortedKeys(m map[string]string) []string {
	ks := make([]string, 0, len(m))
	for k := range m {
		ks = append(ks, k)
	}
	sort.Strings(ks)
	return ks
}

func mapString(m map[string]string) string {
	if m == nil {
		return "nil"
	}
	var sb strings.Builder
	sb.WriteByte('{')
	for i, k := range sortedKeys(m) {
		if i > 0 {
			sb.WriteByte(',')
		}
		fmt.Fprintf(&sb, "%s=%s", k, m[k])
	}
	sb.WriteByte('}')
	return sb.String()
}

// sameMapLoose treats nil and the empty map as equal.
func sameMapLoose(a, b map[string]string) bool {
	if len(a) != len(b) {
		return false
	}
	for k, v := range a {
		if w, ok := b[k]; !ok || w != v {
			return false
		}
	}
	return true
}

// descEqualLoose: all fields equal; nil and empty annotation maps are the same.
func descEqualLoose(a, b ocispec.Descriptor) bool {
	if !sameMapLoose(a.Annotations, b.Annotations) {
		return false
	}
	a.Annotations, b.Annotations = nil, nil
	return reflect.DeepEqual(a, b)
}

func pushRaw(t oras.Target, d ocispec.Descriptor, b []byte) error {
	ok, err := t.Exists(ctx, d)
	if err != nil {
		return err
	}
	if ok {
		return nil
	}
	return t.Push(ctx, d, bytes.NewReader(b))
}

func fetchRaw(t oras.ReadOnlyTarget, d ocispec.Descriptor) ([]byte, error) {
	rc, err := t.Fetch(ctx, ocispec.Descriptor{MediaType: d.MediaType, Digest: d.Digest, Size: d.Size})
	if err != nil {
		return nil, err
	}
	defer rc.Close()
	return io.ReadAll(rc)
}

// ---------------------------------------------------------------------------
// alphabet: artifacts, references, metadata, formats, signers

type artifact struct {
	Name                    string // plain | annotated
	Cfg, Layer, Manifest    []byte
	CfgDesc, LayerDesc      ocispec.Descriptor
	Desc                    ocispec.Descriptor // media type, digest, size only
	Ann                     map[string]string  // annotations of the descriptor as tagged / handed out (nil: none)
	OtherDigest             digest.Digest      // well-formed digest of content that is in no repository
	refs                    []refT
	shapeRefs               []refT // digest-reference shapes (algorithm x content x spelling), see digestShapeRefs
	Rich                    bool   // the descriptor the real stores resolve for the tag carries platform, artifactType and urls too
	mockExtraURLs           []string
	mockExtraArtifactType   string
	mockExtraPlatformOS     string
	mockExtraPlatformArch   string
	mockExtraPlatformOSFeat []string
}

func buildArtifact(name string) *artifact {
	a := &artifact{Name: name}
	a.Cfg = []byte(`{"architecture":"amd64","os":"linux","rootfs":{"type":"layers","diff_ids":[]},"config":{"Labels":{"c11":"` + name + `"}}}`)
	a.Layer = []byte("c11 layer of the " + name + " artifact")
	a.CfgDesc = descOf("application/vnd.oci.image.config.v1+json", a.Cfg)
	a.LayerDesc = descOf("application/vnd.oci.image.layer.v1.tar", a.Layer)
	if name == "annotated" {
		a.Ann = map[string]string{"a": "1", "e": "", annCreated: "2001-02-03T04:05:06Z"} // "e": present with the empty string as value
	}
	if name == "rich" {
		a.Ann = map[string]string{"a": "1"}
		a.Rich = true
	}
	mb, err := json.Marshal(imageManifest{SchemaVersion: 2, MediaType: mtImage, Config: a.CfgDesc, Layers: []ocispec.Descriptor{a.LayerDesc}, Annotations: a.Ann})
	if err != nil {
		panic(err)
	}
	a.Manifest = mb
	a.Desc = descOf(mtImage, mb)
	a.OtherDigest = digest.FromString("c11: content of another artifact that no repository of this harness holds (" + name + ")")
	// fields a registry may put on a descriptor and that must NOT be signed (mock only)
	a.mockExtraURLs = []string{"https://mirror.example/c11/" + name}
	a.mockExtraArtifactType = "application/vnd.example.c11"
	a.mockExtraPlatformOS, a.mockExtraPlatformArch = "linux", "amd64"
	a.mockExtraPlatformOSFeat = []string{"f1"}
	d := a.Desc.Digest.String()
	a.refs = []refT{
		{Label: "tag", Text: tagV1, Reduced: tagV1},
		{Label: "digest", Text: d, Reduced: d, IsDigest: true, Digest: a.Desc.Digest},
		{Label: "full-tag", Text: "reg.io/r:" + tagV1, Reduced: tagV1},
		{Label: "full-digest", Text: "reg.io/r@" + d, Reduced: d, IsDigest: true, Digest: a.Desc.Digest},
		{Label: "other-digest", Text: a.OtherDigest.String(), Reduced: a.OtherDigest.String(), IsDigest: true, Digest: a.OtherDigest},
	}
	a.shapeRefs = digestShapeRefs(a)
	return a
}

// Digest-reference shapes: algorithm of the reference {sha256, sha384, sha512} x content it names {the artifact's
// manifest bytes, bytes that are in no repository} x spelling {bare digest, repository@digest, repository:tag@digest}.
// Three of the 18 are references of the base alphabet (digest, full-digest, other-digest) and keep their labels.
// "-same" references in sha384 / sha512 name the very bytes of the artifact, but their digest STRING differs from the
// (sha256) digest every repository of this harness resolves: whether such a reference "resolves to a different
// digest" is not fixed by the statement, the outcome of these calls is recorded only (Flexible).
var (
	shapeAlgs      = []digest.Algorithm{digest.SHA256, digest.SHA384, digest.SHA512}
	shapeContents  = []string{"same", "other"}
	shapeSpellings = []string{"bare", "full", "tag-at-digest"}
)

func shapeLabel(alg digest.Algorithm, content, spelling string) string {
	if alg == digest.SHA256 {
		switch content + "/" + spelling {
		case "same/bare":
			return "digest"
		case "same/full":
			return "full-digest"
		case "other/bare":
			return "other-digest"
		}
	}
	return string(alg) + "-" + content + "-" + spelling
}

func digestShapeRefs(a *artifact) []refT {
	other := []byte("c11: content of another artifact that no repository of this harness holds (" + a.Name + ")")
	var out []refT
	for _, alg := range shapeAlgs {
		for _, content := range shapeContents {
			b := a.Manifest
			if content == "other" {
				b = other
			}
			d := alg.FromBytes(b)
			for _, sp := range shapeSpellings {
				text := d.String()
				switch sp {
				case "full":
					text = "reg.io/r@" + d.String()
				case "tag-at-digest":
					text = "reg.io/r:" + tagV1 + "@" + d.String()
				}
				out = append(out, refT{Label: shapeLabel(alg, content, sp), Text: text, Reduced: d.String(), IsDigest: true, Digest: d,
					Flexible: content == "same" && alg != digest.SHA256})
			}
		}
	}
	return out
}

// mockDesc is a fresh descriptor object for the mock (its own map, slice, pointer).
func (a *artifact) mockDesc() ocispec.Descriptor {
	d := a.Desc
	d.Annotations = copyMap(a.Ann)
	d.URLs = append([]string{}, a.mockExtraURLs...)
	d.ArtifactType = a.mockExtraArtifactType
	d.Platform = &ocispec.Platform{OS: a.mockExtraPlatformOS, Architecture: a.mockExtraPlatformArch, OSFeatures: append([]string{}, a.mockExtraPlatformOSFeat...)}
	d.Data = append([]byte{}, a.Manifest...) // embedded content
	return d
}

// richDesc is the descriptor the rich artifact is tagged with in the real stores (an index.json entry as containerd /
// docker write it: with a platform; here also with an artifact type and urls): a fresh object.
func (a *artifact) richDesc() ocispec.Descriptor {
	d := a.Desc
	d.Annotations = copyMap(a.Ann)
	d.URLs = append([]string{}, a.mockExtraURLs...)
	d.ArtifactType = a.mockExtraArtifactType
	d.Platform = &ocispec.Platform{OS: a.mockExtraPlatformOS, Architecture: a.mockExtraPlatformArch, OSFeatures: append([]string{}, a.mockExtraPlatformOSFeat...)}
	return d
}

// refT: a reference of the alphabet. Reduced (the part SignOCI has to hand to
// Resolve: a full reference is reduced to its tag / digest part) and IsDigest
// are written by hand.
type refT struct {
	Label    string
	Text     string
	Reduced  string
	IsDigest bool
	Digest   digest.Digest
	Flexible bool // a digest of the artifact's own bytes in another algorithm than the resolved digest: either outcome allowed
}

type mdT struct {
	Label    string
	Map      map[string]string
	Reserved bool // hand label: a key lies under the reserved io.cncf.notary prefix
}

var mds = []mdT{
	// core alphabet (first four)
	{Label: "none", Map: nil},
	{Label: "disjoint", Map: map[string]string{"k": "v"}},
	{Label: "colliding", Map: map[string]string{"a": "2"}}, // "a" is an annotation of the annotated artifact
	{Label: "reserved", Map: map[string]string{"io.cncf.notary.x": "1"}, Reserved: true},
	// further shapes of "under the reserved io.cncf.notary prefix" (every key that starts with that string) ...
	{Label: "reserved-bare-prefix", Map: map[string]string{"io.cncf.notary": "1"}, Reserved: true},
	{Label: "reserved-no-dot", Map: map[string]string{"io.cncf.notaryX": "1"}, Reserved: true},
	{Label: "reserved-trailing-dot", Map: map[string]string{"io.cncf.notary.": "1"}, Reserved: true},
	{Label: "reserved-mixed-with-legal", Map: map[string]string{"k": "v", "io.cncf.notary.x": "1"}, Reserved: true},
	// ... and near misses that are NOT reserved and must be signed
	{Label: "near-miss-one-short", Map: map[string]string{"io.cncf.notar": "1"}},
	{Label: "near-miss-not-at-start", Map: map[string]string{"xio.cncf.notary.x": "1"}},
	// empty strings: an annotation that is present with an empty value is still an annotation; a metadata value may be empty
	{Label: "colliding-with-empty-valued-annotation", Map: map[string]string{"e": "x"}}, // "e" = "" on the annotated artifact
	{Label: "colliding-empty-value", Map: map[string]string{"a": ""}},
	{Label: "disjoint-empty-value", Map: map[string]string{"k2": ""}},
	// metadata is signed verbatim: values and keys with runes a sanitiser, trimmer, escaper or case folder would touch
	// (control characters, no-break space, zero-width joiner, padding, JSON / HTML specials, line separator), more than one key
	{Label: "values-with-control-and-format-runes", Map: map[string]string{"k": "l1\nl2\tnbsp\u00a0zwj\u200d\U0001F468\u200d\U0001F469|\x7f", "k3": "  padded  "}},
	{Label: "values-with-json-specials-and-case-variant-key", Map: map[string]string{"k": "\"q\" \\ <&> \u2028 \u00e9", "A": "2"}}, // "A" is no annotation of the artifact ("a" is)
	{Label: "key-with-odd-runes", Map: map[string]string{"k\n\u00a0 x\u200d": "v"}},
}

var refLabels = []string{"tag", "digest", "full-tag", "full-digest", "other-digest"}
var formats = []string{"jws", "cose"}
var signerKinds = []string{"generic-wrapped-chain3", "instrumented-backdated-chain2", "generic-raw-chain2"}

// alphabetT: 5 references x the first NMD metadata maps x NFmt formats (NFmt = 1: the format
// alternates with reference number + metadata number instead of being a dimension).
type alphabetT struct {
	Name      string
	NMD       int
	NFmt      int
	Ops       []opT    // non-nil: the alphabet is this explicit list (signer spelled out per operation, independent of the position)
	Env       string   // non-empty: the histories run while the process environment has this profile (see envProfiles)
	Artifacts []string // nil: plain and annotated
}

// Process environment profiles (the statement holds in every environment): variables that build systems,
// reproducible-build tooling, locale handling and notation's own directory lookup consult. The core alphabet is run
// under each profile; profiles are applied one after the other (the environment is process-wide).
var envProfileNames = []string{"reproducible-build-past", "reproducible-build-future", "notation-and-home-variables"}

func envProfile(name string) ([][2]string, error) {
	sc := hx.Scratch()
	switch name {
	case "reproducible-build-past":
		return [][2]string{{"SOURCE_DATE_EPOCH", "946684800"}, {"ZERO_AR_DATE", "1"}, {"TZ", "Pacific/Kiritimati"}, {"LC_ALL", "tr_TR.UTF-8"}, {"LANG", "tr_TR.UTF-8"}}, nil
	case "reproducible-build-future":
		return [][2]string{{"SOURCE_DATE_EPOCH", "4102444800"}, {"FAKETIME", "@2100-01-01 00:00:00"}, {"TZ", "UTC+12"}}, nil
	case "notation-and-home-variables":
		return [][2]string{{"NOTATION_EXPERIMENTAL", "1"}, {"NOTATION_CONFIG", filepath.Join(sc, "c11-env", "config")}, {"NOTATION_LIBEXEC", filepath.Join(sc, "c11-env", "libexec")},
			{"XDG_CONFIG_HOME", filepath.Join(sc, "c11-env", "xdg-config")}, {"XDG_CACHE_HOME", filepath.Join(sc, "c11-env", "xdg-cache")}, {"HOME", filepath.Join(sc, "c11-env", "no-such-home")}}, nil
	}
	return nil, fmt.Errorf("unknown environment profile %q", name)
}

// setEnv applies a profile and returns the function that restores the previous environment.
func setEnv(name string) (func(), error) {
	if name == "" {
		return func() {}, nil
	}
	vars, err := envProfile(name)
	if err != nil {
		return nil, err
	}
	type old struct {
		k, v string
		had  bool
	}
	var olds []old
	for _, kv := range vars {
		v, had := os.LookupEnv(kv[0])
		olds = append(olds, old{kv[0], v, had})
		if err := os.Setenv(kv[0], kv[1]); err != nil {
			return nil, err
		}
	}
	return func() {
		for _, o := range olds {
			if o.had {
				_ = os.Setenv(o.k, o.v)
			} else {
				_ = os.Unsetenv(o.k)
			}
		}
	}, nil
}

func envAlphabet(profile string) alphabetT {
	return alphabetT{Name: "core in environment " + profile, NMD: 4, NFmt: 2, Env: profile}
}

var (
	coreAlphabet  = alphabetT{Name: "core", NMD: 4, NFmt: 2}
	fullAlphabet  = alphabetT{Name: "full", NMD: len(mds), NFmt: 2}
	wideAlphabet  = alphabetT{Name: "full-metadata-one-format", NMD: len(mds), NFmt: 1}
	annAlphabet   = signerAnnotationAlphabet()
	dupAlphabet   = identicalEnvelopeAlphabet()
	verbAlphabet  = verbatimAlphabet()
	shapeAlphabet = digestShapeAlphabet()
)

func (a alphabetT) size() int {
	if a.Ops != nil {
		return len(a.Ops)
	}
	return 5 * a.NMD * a.NFmt
}

// Signers that also hand manifest annotations to SignOCI (the optional PluginAnnotations() method, as
// signer.PluginSigner has it after an envelope-generator call). The statement fixes the thumbprints and the
// signing time on the manifest whatever the signer supplies.
const (
	paSep       = "+plugin-annotations:"
	paUnrelated = "example.plugin/build"
)

var paKinds = []string{"nil", "empty", "unrelated", "thumbprints", "created", "all"}

func paMap(kind string) (map[string]string, error) {
	bogusThumb := `["0000000000000000000000000000000000000000000000000000000000000000"]`
	bogusTime := "1999-12-31T23:59:59Z"
	switch kind {
	case "nil":
		return nil, nil
	case "empty":
		return map[string]string{}, nil
	case "unrelated":
		return map[string]string{paUnrelated: "42"}, nil
	case "thumbprints":
		return map[string]string{annThumbprints: bogusThumb}, nil
	case "created":
		return map[string]string{annCreated: bogusTime}, nil
	case "all":
		return map[string]string{paUnrelated: "42", annThumbprints: bogusThumb, annCreated: bogusTime}, nil
	}
	return nil, fmt.Errorf("unknown plugin annotation kind %q", kind)
}

// signerAnnotationAlphabet: 2 instrumented signers x 6 plugin-annotation answers x {tag, full digest reference}
// x {no metadata, disjoint metadata}; the format alternates. Within one history an annotating signer kind is ONE
// signer object (and one annotation map) for all its calls.
func signerAnnotationAlphabet() alphabetT {
	var ops []opT
	for bi, base := range []string{"generic-wrapped-chain3", "instrumented-backdated-chain2"} {
		for pi, pa := range paKinds {
			for ri, ref := range []string{"tag", "full-digest"} {
				for mi, md := range []string{"none", "disjoint"} {
					ops = append(ops, opT{Ref: ref, MD: md, Format: formats[(bi+pi+ri+mi)%2], Signer: base + paSep + pa})
				}
			}
		}
	}
	return alphabetT{Name: "signer-annotations", Ops: ops}
}

type opT struct {
	Ref    string `json:"ref"`      // label of refT
	MD     string `json:"metadata"` // label of mdT
	Format string `json:"format"`   // jws | cose
	Signer string `json:"signer"`   // one of signerKinds
}

func (o opT) String() string { return o.Ref + "+" + o.MD + "+" + o.Format + "@" + o.Signer }

// opAt: operation number idx of the alphabet at position step of a history. The signer
// is no dimension of its own: it rotates with (idx+step), so that every
// (reference, metadata, format) meets every signer kind at some position.
// identicalEnvelopeAlphabet: the replaying signer x {tag, digest, full digest reference} x {no metadata, disjoint
// metadata} x 2 formats, plus two operations with a randomised signer. Calls whose resolved descriptor, metadata and
// format agree produce byte-identical envelopes (collision by construction in the content-addressed repository).
func identicalEnvelopeAlphabet() alphabetT {
	var ops []opT
	for _, ref := range []string{"tag", "digest", "full-digest"} {
		for _, md := range []string{"none", "disjoint"} {
			for _, f := range formats {
				ops = append(ops, opT{Ref: ref, MD: md, Format: f, Signer: replayKind})
			}
		}
	}
	ops = append(ops, opT{Ref: "tag", MD: "none", Format: "jws", Signer: "generic-wrapped-chain3"}, opT{Ref: "tag", MD: "reserved", Format: "cose", Signer: replayKind})
	return alphabetT{Name: "byte-identical-envelopes", Ops: ops}
}

// verbatimAlphabet: the signer that signs every member it is handed x {tag, digest} x {no metadata, disjoint,
// colliding, reserved metadata} x 2 formats, plus two operations of the recording GenericSigner (so that histories mix
// the signers and calls with and without metadata on one reference). It runs on three artifacts: the third ("rich") is
// tagged in the real stores with a descriptor that carries platform, artifactType and urls (an index.json entry as
// container runtimes write it); the mock hands out platform, artifactType, urls and data for every artifact.
func verbatimAlphabet() alphabetT {
	var ops []opT
	for _, ref := range []string{"tag", "digest"} {
		for _, md := range []string{"none", "disjoint", "colliding", "reserved"} {
			for _, f := range formats {
				ops = append(ops, opT{Ref: ref, MD: md, Format: f, Signer: verbatimKind})
			}
		}
	}
	ops = append(ops, opT{Ref: "tag", MD: "none", Format: "cose", Signer: "generic-wrapped-chain3"}, opT{Ref: "tag", MD: "disjoint", Format: "jws", Signer: "generic-wrapped-chain3"})
	return alphabetT{Name: "every-descriptor-member-signed", Ops: ops, Artifacts: []string{"plain", "annotated", "rich"}}
}

// digestShapeAlphabet: the 18 digest-reference shapes (3 algorithms x 2 contents x 3 spellings) x {no metadata,
// disjoint metadata}; format and signer kind rotate. Run on the repositories that answer every reference with the
// artifact (mock: no content.Fetcher; mock-fetcher: the same repository that also implements content.Fetcher;
// memory: the real registry client, every shape tagged to the artifact) and on the on-disk layout.
func digestShapeAlphabet() alphabetT {
	var ops []opT
	n := 0
	for _, alg := range shapeAlgs {
		for _, content := range shapeContents {
			for _, sp := range shapeSpellings {
				for _, md := range []string{"none", "disjoint"} {
					ops = append(ops, opT{Ref: shapeLabel(alg, content, sp), MD: md, Format: formats[n%2], Signer: signerKinds[n%3]})
					n++
				}
			}
		}
	}
	return alphabetT{Name: "digest-reference-shapes", Ops: ops}
}

func (a alphabetT) opAt(idx, step int) opT {
	if a.Ops != nil {
		return a.Ops[idx]
	}
	fi := idx % a.NFmt
	mi := (idx / a.NFmt) % a.NMD
	ri := idx / (a.NFmt * a.NMD)
	if a.NFmt == 1 {
		fi = (ri + mi) % 2
	}
	return opT{Ref: refLabels[ri], MD: mds[mi].Label, Format: formats[fi], Signer: signerKinds[(idx+step)%3]}
}

func (a alphabetT) decode(i, length int) []opT {
	n := a.size()
	ops := make([]opT, length)
	for k := length - 1; k >= 0; k-- {
		ops[k] = a.opAt(i%n, k)
		i /= n
	}
	return ops
}

func pow(b, e int) int {
	p := 1
	for ; e > 0; e-- {
		p *= b
	}
	return p
}

// ---------------------------------------------------------------------------
// signers

type signers struct {
	chain3, chain2 *pki.Chain
	gen3, gen2     *signer.GenericSigner
	backdate       time.Time
}

func buildSigners() (*signers, error) {
	s := &signers{}
	s.chain3 = pki.NewChain(pki.ChainOpts{Len: 3, LeafSpec: pki.EC256, LeafIdx: 0, CAIdx: 0, Prefix: "c11-three"})
	s.chain2 = pki.NewChain(pki.ChainOpts{Len: 2, LeafSpec: pki.EC256, LeafIdx: 1, CAIdx: 1, Prefix: "c11-two"})
	var err error
	if s.gen3, err = signer.NewGenericSigner(s.chain3.Leaf().Key, s.chain3.X509()); err != nil {
		return nil, err
	}
	if s.gen2, err = signer.NewGenericSigner(s.chain2.Leaf().Key, s.chain2.X509()); err != nil {
		return nil, err
	}
	// a signing time that cannot be confused with "now" (whole seconds, 2 h in the past, inside the certificates' window)
	s.backdate = time.Now().Add(-2 * time.Hour).Truncate(time.Second)
	return s, nil
}

// recorded is what an instrumented signer saw.
type recorded struct {
	calls int
	desc  ocispec.Descriptor
	opts  notation.SignerSignOptions
}

// wrapSigner records the descriptor and delegates to the real GenericSigner.
type wrapSigner struct {
	inner notation.Signer
	rec   *recorded
}

func (w *wrapSigner) Sign(c context.Context, desc ocispec.Descriptor, opts notation.SignerSignOptions) ([]byte, *signature.SignerInfo, error) {
	w.rec.calls++
	w.rec.desc = deepCopyDesc(desc)
	w.rec.opts = opts
	return w.inner.Sign(c, desc, opts)
}

// backSigner is an instrumented notation.Signer of the harness: it records the
// descriptor, signs its four payload fields with notation-core-go (signing time
// = a fixed instant 2 h in the past) and returns the SignerInfo of the envelope.
type backSigner struct {
	chain    *pki.Chain
	when     time.Time
	rec      *recorded
	verbatim bool // sign EVERY member of the descriptor handed over (targetArtifact = the descriptor as JSON), not just the four
}

// verbatimKind: a notation.Signer that signs the descriptor it is handed as it is (all members). With it the signature
// is over exactly what SignOCI hands to the signer, so the statement's "signature over exactly the resolved descriptor
// plus the user metadata" is decided on the stored envelope for every member of the resolved descriptor.
const verbatimKind = "instrumented-verbatim-chain2"

func (b *backSigner) Sign(c context.Context, desc ocispec.Descriptor, opts notation.SignerSignOptions) ([]byte, *signature.SignerInfo, error) {
	b.rec.calls++
	b.rec.desc = deepCopyDesc(desc)
	b.rec.opts = opts
	type target struct {
		MediaType   string            `json:"mediaType"`
		Digest      digest.Digest     `json:"digest"`
		Size        int64             `json:"size"`
		Annotations map[string]string `json:"annotations,omitempty"`
	}
	payload, err := json.Marshal(map[string]any{"targetArtifact": target{desc.MediaType, desc.Digest, desc.Size, desc.Annotations}})
	if b.verbatim {
		payload, err = json.Marshal(map[string]any{"targetArtifact": desc})
	}
	if err != nil {
		return nil, nil, err
	}
	sig, err := forge.SignCore(opts.SignatureMediaType, b.chain.X509(), b.chain.Leaf().Key, signature.SignRequest{
		Payload:      signature.Payload{ContentType: payloadType, Content: payload},
		SigningTime:  b.when.Add(-time.Duration(b.rec.calls-1) * time.Hour), // every call of one signer object at another instant
		SigningAgent: "c11-harness/backdated",
	})
	if err != nil {
		return nil, nil, err
	}
	env, err := signature.ParseEnvelope(opts.SignatureMediaType, sig)
	if err != nil {
		return nil, nil, err
	}
	content, err := env.Verify()
	if err != nil {
		return nil, nil, err
	}
	return sig, &content.SignerInfo, nil
}

// replaySigner is a deterministic signer: the first request for a (format, payload) is signed like backSigner does
// (fixed instant), every later request for the same (format, payload) gets the byte-identical envelope again - what
// a signer without randomness and with a frozen clock (or a remote signer with a cache) does. A second signing call
// with it collides with the first one in a content-addressed repository.
type replaySigner struct {
	back  *backSigner
	cache map[string]replayed
}

type replayed struct {
	sig  []byte
	info *signature.SignerInfo
}

const replayKind = "instrumented-replaying-chain2"

func (r *replaySigner) Sign(c context.Context, desc ocispec.Descriptor, opts notation.SignerSignOptions) ([]byte, *signature.SignerInfo, error) {
	key := opts.SignatureMediaType + "|" + string(desc.Digest) + "|" + fmt.Sprint(desc.Size) + "|" + desc.MediaType + "|" + mapString(desc.Annotations)
	if e, ok := r.cache[key]; ok {
		r.back.rec.calls++
		r.back.rec.desc = deepCopyDesc(desc)
		r.back.rec.opts = opts
		return append([]byte(nil), e.sig...), e.info, nil
	}
	calls := r.back.rec.calls
	r.back.rec.calls = 0 // backSigner derives its instant from the call number: always the first instant here
	sig, info, err := r.back.Sign(c, desc, opts)
	r.back.rec.calls = calls + 1
	if err != nil {
		return nil, nil, err
	}
	r.cache[key] = replayed{append([]byte(nil), sig...), info}
	return sig, info, nil
}

// annSigner adds PluginAnnotations() to a signer: every call returns THE SAME map object.
type annSigner struct {
	inner notation.Signer
	ann   map[string]string
	orig  map[string]string
	asked int
}

func (a *annSigner) Sign(c context.Context, desc ocispec.Descriptor, opts notation.SignerSignOptions) ([]byte, *signature.SignerInfo, error) {
	return a.inner.Sign(c, desc, opts)
}

func (a *annSigner) PluginAnnotations() map[string]string {
	a.asked++
	return a.ann
}

// make returns the signer of a kind, what it records (nil: not instrumented) and its chain.
func (s *signers) make(kind string) (notation.Signer, *recorded, *pki.Chain, error) {
	if i := strings.Index(kind, paSep); i >= 0 {
		inner, rec, chain, err := s.make(kind[:i])
		if err != nil {
			return nil, nil, nil, err
		}
		m, err := paMap(kind[i+len(paSep):])
		if err != nil {
			return nil, nil, nil, err
		}
		return &annSigner{inner: inner, ann: m, orig: copyMap(m)}, rec, chain, nil
	}
	switch kind {
	case "generic-wrapped-chain3":
		rec := &recorded{}
		return &wrapSigner{inner: s.gen3, rec: rec}, rec, s.chain3, nil
	case "instrumented-backdated-chain2":
		rec := &recorded{}
		return &backSigner{chain: s.chain2, when: s.backdate, rec: rec}, rec, s.chain2, nil
	case "generic-raw-chain2":
		return s.gen2, nil, s.chain2, nil
	case verbatimKind:
		rec := &recorded{}
		return &backSigner{chain: s.chain2, when: s.backdate.Add(-15 * time.Minute), rec: rec, verbatim: true}, rec, s.chain2, nil
	case replayKind:
		rec := &recorded{}
		return &replaySigner{back: &backSigner{chain: s.chain2, when: s.backdate.Add(-30 * time.Minute), rec: rec}, cache: map[string]replayed{}}, rec, s.chain2, nil
	}
	return nil, nil, nil, fmt.Errorf("unknown signer kind %q", kind)
}

// ---------------------------------------------------------------------------
// envelope header decoding (independent of notation-core-go)

// envMeta returns the signing time and the raw certificates carried by an envelope.
func envMeta(mediaType string, env []byte) (time.Time, [][]byte, error) {
	switch mediaType {
	case mtJWS:
		var e struct {
			Protected string `json:"protected"`
			Header    struct {
				X5c [][]byte `json:"x5c"`
			} `json:"header"`
		}
		if err := json.Unmarshal(env, &e); err != nil {
			return time.Time{}, nil, err
		}
		pj, err := base64.RawURLEncoding.DecodeString(e.Protected)
		if err != nil {
			return time.Time{}, nil, err
		}
		var prot map[string]json.RawMessage
		if err := json.Unmarshal(pj, &prot); err != nil {
			return time.Time{}, nil, err
		}
		raw, ok := prot[hdrSigningTime]
		if !ok {
			return time.Time{}, nil, fmt.Errorf("protected header lacks %s", hdrSigningTime)
		}
		var s string
		if err := json.Unmarshal(raw, &s); err != nil {
			return time.Time{}, nil, err
		}
		t, err := time.Parse(time.RFC3339Nano, s)
		if err != nil {
			return time.Time{}, nil, err
		}
		return t, e.Header.X5c, nil
	case mtCOSE:
		var tag cbor.RawTag
		if err := cbor.Unmarshal(env, &tag); err != nil {
			return time.Time{}, nil, err
		}
		var arr []cbor.RawMessage
		if err := cbor.Unmarshal(tag.Content, &arr); err != nil {
			return time.Time{}, nil, err
		}
		if tag.Number != 18 || len(arr) != 4 {
			return time.Time{}, nil, fmt.Errorf("not a COSE_Sign1 (tag %d, %d members)", tag.Number, len(arr))
		}
		var protBytes []byte
		if err := cbor.Unmarshal(arr[0], &protBytes); err != nil {
			return time.Time{}, nil, err
		}
		var prot, unprot map[any]cbor.RawMessage
		if err := cbor.Unmarshal(protBytes, &prot); err != nil {
			return time.Time{}, nil, err
		}
		if err := cbor.Unmarshal(arr[1], &unprot); err != nil {
			return time.Time{}, nil, err
		}
		raw, ok := prot[hdrSigningTime]
		if !ok {
			return time.Time{}, nil, fmt.Errorf("protected header lacks %s", hdrSigningTime)
		}
		var t time.Time
		if err := cbor.Unmarshal(raw, &t); err != nil {
			return time.Time{}, nil, err
		}
		var xr cbor.RawMessage
		for k, v := range unprot {
			switch x := k.(type) {
			case int64:
				if x == 33 {
					xr = v
				}
			case uint64:
				if x == 33 {
					xr = v
				}
			}
		}
		if xr == nil {
			return time.Time{}, nil, fmt.Errorf("no x5chain")
		}
		var chain [][]byte
		if err := cbor.Unmarshal(xr, &chain); err != nil {
			var one []byte
			if err2 := cbor.Unmarshal(xr, &one); err2 != nil {
				return time.Time{}, nil, err
			}
			chain = [][]byte{one}
		}
		return t, chain, nil
	}
	return time.Time{}, nil, fmt.Errorf("unknown media type %q", mediaType)
}

// ---------------------------------------------------------------------------
// worlds

type resolved struct {
	Desc ocispec.Descriptor
	Err  error
}

type sigRec struct {
	Manifest ocispec.Descriptor
	Label    string // canonical label: format + signed annotations
}

// countTarget counts Push calls that reach the memory store.
type countTarget struct {
	oras.GraphTarget
	pushes int
}

func (c *countTarget) Push(cx context.Context, d ocispec.Descriptor, rd io.Reader) error {
	c.pushes++
	return c.GraphTarget.Push(cx, d, rd)
}

type world struct {
	kind string // mock | mock-fetcher | disk | memory
	art  *artifact
	refs []refT // the references this world knows (base alphabet; plus the digest-reference shapes when a history uses one)
	dir  string
	sg   *signers

	repo   registry.Repository
	target oras.ReadOnlyTarget // memory store: to read the stored manifest underneath the API
	mock   *mockRepo
	mockCp ocispec.Descriptor // deep copy of the object the mock hands out, taken before the first call
	count  *countTarget

	reduced []string // distinct reduced references, in alphabet order
	snap    map[string]resolved
	index0  []string // disk: the artifact's own entries of index.json before the first call

	sigs   []sigRec                 // signature manifests attached to the artifact after the calls so far
	labels []string                 // canonical labels of the successful calls so far
	okOps  []opT                    // the successful calls so far
	kept   map[string]keptSigner    // annotating signers live as long as the repository (one object per kind)
	notes  []string                 // recorded, not judged observations of the last judged call
	envs   map[digest.Digest][]byte // envelope of every signature manifest as fetched when it was first listed
	stored map[string]bool          // (format, signed descriptor) of the successful calls of the replaying signer
	evals  int
}

type viol struct{ key, what string }

type keptSigner struct {
	sg    notation.Signer
	rec   *recorded
	chain *pki.Chain
}

// signerFor: plain kinds get a fresh object per call (they are stateless); an annotating or replaying kind is one object per world.
func (w *world) signerFor(kind string) (notation.Signer, *recorded, *pki.Chain, error) {
	if !strings.Contains(kind, paSep) && kind != replayKind {
		return w.sg.make(kind)
	}
	if k, ok := w.kept[kind]; ok {
		return k.sg, k.rec, k.chain, nil
	}
	sg, rec, chain, err := w.sg.make(kind)
	if err != nil {
		return nil, nil, nil, err
	}
	if w.kept == nil {
		w.kept = map[string]keptSigner{}
	}
	w.kept[kind] = keptSigner{sg, rec, chain}
	return sg, rec, chain, nil
}

var scratchSeq atomic.Int64

func scratchDir() string {
	return filepath.Join(hx.Scratch(), fmt.Sprintf("c11-%d-%d", os.Getpid(), scratchSeq.Add(1)))
}

func newWorld(kind string, art *artifact, sg *signers, withShapes bool) (*world, error) {
	w := &world{kind: kind, art: art, sg: sg, snap: map[string]resolved{}}
	w.refs = art.refs
	if withShapes {
		have := map[string]bool{}
		for _, rf := range art.refs {
			have[rf.Label] = true
		}
		w.refs = append([]refT{}, art.refs...)
		for _, rf := range art.shapeRefs {
			if !have[rf.Label] {
				w.refs = append(w.refs, rf)
			}
		}
	}
	tagged := art.Desc
	tagged.Annotations = copyMap(art.Ann)
	if art.Rich {
		tagged = art.richDesc()
	}
	switch kind {
	case "mock":
		w.mock = &mockRepo{desc: art.mockDesc()}
		w.mockCp = deepCopyDesc(w.mock.desc)
		w.repo = w.mock
	case "mock-fetcher":
		w.mock = &mockRepo{desc: art.mockDesc()}
		w.mockCp = deepCopyDesc(w.mock.desc)
		w.repo = &mockFetchRepo{mockRepo: w.mock, digest: art.Desc.Digest, content: art.Manifest}
	case "disk":
		w.dir = scratchDir()
		if err := os.MkdirAll(w.dir, 0o755); err != nil {
			return nil, err
		}
		st, err := oci.New(w.dir)
		if err != nil {
			return nil, err
		}
		for _, p := range []struct {
			d ocispec.Descriptor
			b []byte
		}{{art.CfgDesc, art.Cfg}, {art.LayerDesc, art.Layer}, {art.Desc, art.Manifest}} {
			if err := pushRaw(st, p.d, p.b); err != nil {
				return nil, err
			}
		}
		if err := st.Tag(ctx, tagged, tagV1); err != nil {
			return nil, err
		}
		// the layout is complete on disk; the writing store is dropped and the code under test opens the directory
		repo, err := registry.NewOCIRepository(w.dir, registry.RepositoryOptions{})
		if err != nil {
			return nil, err
		}
		w.repo = repo // stored manifests are read from the blob files, not through the repository object
		if w.index0, err = indexEntries(w.dir, art.Desc.Digest); err != nil {
			return nil, err
		}
		if len(w.index0) == 0 {
			return nil, fmt.Errorf("index.json has no entry for the artifact")
		}
	case "memory":
		st := memory.New()
		for _, p := range []struct {
			d ocispec.Descriptor
			b []byte
		}{{art.CfgDesc, art.Cfg}, {art.LayerDesc, art.Layer}, {art.Desc, art.Manifest}} {
			if err := pushRaw(st, p.d, p.b); err != nil {
				return nil, err
			}
		}
		if err := st.Tag(ctx, tagged, tagV1); err != nil {
			return nil, err
		}
		// the memory store resolves a digest only when it was tagged; the digest gets the annotated descriptor too (own map)
		byDigest := art.Desc
		byDigest.Annotations = copyMap(art.Ann)
		if err := st.Tag(ctx, byDigest, art.Desc.Digest.String()); err != nil {
			return nil, err
		}
		// ... and it resolves whatever string was tagged: the other digest is a tag of the artifact here, so this
		// real store answers a digest reference with a descriptor of another digest (like the mock; the on-disk
		// layout does not know the other digest at all)
		if err := st.Tag(ctx, art.Desc, art.OtherDigest.String()); err != nil {
			return nil, err
		}
		// ... likewise every further digest-reference shape (sha384 / sha512 digests of the artifact's bytes and of other bytes)
		for _, rf := range w.refs {
			if rf.Reduced == tagV1 || rf.Reduced == art.Desc.Digest.String() || rf.Reduced == art.OtherDigest.String() {
				continue
			}
			if err := st.Tag(ctx, art.Desc, rf.Reduced); err != nil {
				return nil, err
			}
		}
		w.count = &countTarget{GraphTarget: st}
		w.repo, w.target = registry.NewRepository(w.count), st
	default:
		return nil, fmt.Errorf("unknown repository kind %q", kind)
	}
	// snapshots before the first call
	seen := map[string]bool{}
	for _, rf := range w.refs {
		if seen[rf.Reduced] {
			continue
		}
		seen[rf.Reduced] = true
		w.reduced = append(w.reduced, rf.Reduced)
		d, err := w.resolveQuiet(rf.Reduced)
		if err != nil {
			w.snap[rf.Reduced] = resolved{Err: err}
			continue
		}
		w.snap[rf.Reduced] = resolved{Desc: deepCopyDesc(d)}
		if !rf.IsDigest && !same3(d, art.Desc) {
			return nil, fmt.Errorf("setup: %q resolves to %+v, not to the artifact", rf.Reduced, d)
		}
	}
	if w.snap[tagV1].Err != nil {
		return nil, fmt.Errorf("setup: tag does not resolve: %v", w.snap[tagV1].Err)
	}
	return w, nil
}

func (w *world) close() {
	if w.dir != "" {
		_ = os.RemoveAll(w.dir)
	}
}

func (w *world) resolveQuiet(ref string) (ocispec.Descriptor, error) {
	if w.mock != nil {
		w.mock.quiet = true
		defer func() { w.mock.quiet = false }()
	}
	if w.mock == nil {
		w.evals++ // Resolve of the real registry client
	}
	return w.repo.Resolve(ctx, ref)
}

func listAll(repo registry.Repository, d ocispec.Descriptor) ([]ocispec.Descriptor, error) {
	var out []ocispec.Descriptor
	err := repo.ListSignatures(ctx, d, func(page []ocispec.Descriptor) error {
		out = append(out, page...)
		return nil
	})
	return out, err
}

// indexEntries returns the canonical JSON of every index.json entry that describes dg.
func indexEntries(dir string, dg digest.Digest) ([]string, error) {
	b, err := os.ReadFile(filepath.Join(dir, "index.json"))
	if err != nil {
		return nil, err
	}
	var idx struct {
		Manifests []json.RawMessage `json:"manifests"`
	}
	if err := json.Unmarshal(b, &idx); err != nil {
		return nil, err
	}
	var out []string
	for _, raw := range idx.Manifests {
		var generic map[string]any
		if err := json.Unmarshal(raw, &generic); err != nil {
			return nil, err
		}
		if generic["digest"] != dg.String() {
			continue
		}
		c, _ := json.Marshal(generic) // map keys sorted: canonical
		out = append(out, string(c))
	}
	sort.Strings(out)
	return out, nil
}

// pushMark describes everything a push would change (compared before/after a refused call).
func (w *world) pushMark() (string, error) {
	switch w.kind {
	case "mock", "mock-fetcher":
		return fmt.Sprintf("%d pushes, %d signatures", len(w.mock.pushLog), len(w.mock.sigs)), nil
	case "memory":
		return fmt.Sprintf("%d pushes", w.count.pushes), nil
	}
	var sb strings.Builder
	err := filepath.WalkDir(w.dir, func(p string, d fs.DirEntry, err error) error {
		if err != nil {
			return err
		}
		if d.IsDir() {
			return nil
		}
		rel, _ := filepath.Rel(w.dir, p)
		if rel == "index.json" || rel == "oci-layout" {
			b, err := os.ReadFile(p)
			if err != nil {
				return err
			}
			h := sha256.Sum256(b)
			fmt.Fprintf(&sb, "%s=%x;", rel, h[:8])
			return nil
		}
		fi, err := d.Info()
		if err != nil {
			return err
		}
		fmt.Fprintf(&sb, "%s:%d;", rel, fi.Size())
		return nil
	})
	return sb.String(), err
}

func (w *world) ref(label string) (refT, bool) {
	for _, rf := range w.refs {
		if rf.Label == label {
			return rf, true
		}
	}
	return refT{}, false
}

func mdOf(label string) (mdT, bool) {
	for _, m := range mds {
		if m.Label == label {
			return m, true
		}
	}
	return mdT{}, false
}

// payloadProblem: the signed payload describes exactly the resolved descriptor plus the metadata: media type,
// digest, size and annotations (resolved annotations + metadata) must be there and equal; any further member of
// targetArtifact must be a member of the resolved descriptor with the same value (recorded). Members beside
// targetArtifact are recorded only.
func payloadProblem(payload []byte, resolved, exp ocispec.Descriptor, verbatim bool) (key, detail string, notes []string) {
	var top map[string]json.RawMessage
	if err := json.Unmarshal(payload, &top); err != nil {
		return "payload/not-json", err.Error(), nil
	}
	ta, ok := top["targetArtifact"]
	if !ok {
		return "payload/no-target-artifact", string(payload), nil
	}
	if len(top) != 1 {
		notes = append(notes, "payload/members-beside-targetArtifact")
	}
	var f map[string]json.RawMessage
	if err := json.Unmarshal(ta, &f); err != nil {
		return "payload/not-json", err.Error(), nil
	}
	rj, _ := json.Marshal(resolved)
	var rf map[string]json.RawMessage
	_ = json.Unmarshal(rj, &rf)
	for _, k := range sortedRawKeys(f) {
		switch k {
		case "mediaType", "digest", "size", "annotations":
		default:
			var a, b any
			ra, ok := rf[k]
			if !ok || json.Unmarshal(f[k], &a) != nil || json.Unmarshal(ra, &b) != nil || !reflect.DeepEqual(a, b) {
				return "payload/not-resolved-descriptor-plus-metadata", fmt.Sprintf("targetArtifact member %q = %s is no member of the resolved descriptor %s", k, f[k], rj), notes
			}
			notes = append(notes, "payload/carries-further-members-of-the-resolved-descriptor")
		}
	}
	var got struct {
		MediaType   string            `json:"mediaType"`
		Digest      string            `json:"digest"`
		Size        int64             `json:"size"`
		Annotations map[string]string `json:"annotations"`
	}
	if err := json.Unmarshal(ta, &got); err != nil {
		return "payload/not-json", err.Error(), notes
	}
	if got.MediaType != exp.MediaType || got.Digest != exp.Digest.String() || got.Size != exp.Size || !sameMapLoose(got.Annotations, exp.Annotations) {
		return "payload/not-resolved-descriptor-plus-metadata", fmt.Sprintf("signed %s/%s/%d annotations %s, resolved descriptor plus metadata is %s/%s/%d annotations %s",
			got.MediaType, got.Digest, got.Size, mapString(got.Annotations), exp.MediaType, exp.Digest, exp.Size, mapString(exp.Annotations)), notes
	}
	// a signer that signs every member it is handed: the signed descriptor is exactly the resolved descriptor plus the
	// metadata, member by member (annotations were compared above)
	if verbatim {
		ej, _ := json.Marshal(exp)
		var ef map[string]json.RawMessage
		_ = json.Unmarshal(ej, &ef)
		for _, k := range sortedRawKeys(ef) {
			if k == "annotations" {
				continue
			}
			var a, b any
			got, ok := f[k]
			if !ok || json.Unmarshal(got, &a) != nil || json.Unmarshal(ef[k], &b) != nil || !reflect.DeepEqual(a, b) {
				if !ok {
					got = json.RawMessage("absent")
				}
				want := string(ef[k])
				if len(want) > 200 {
					want = want[:200] + "..."
				}
				return "payload/member-of-resolved-descriptor-not-signed", fmt.Sprintf("a signer that signs every member it is handed produced a signature over %s: member %q, which the repository resolved as %s, is %s there", ta, k, want, got), notes
			}
		}
	}
	return "", "", notes
}

func sortedRawKeys(m map[string]json.RawMessage) []string {
	ks := make([]string, 0, len(m))
	for k := range m {
		ks = append(ks, k)
	}
	sort.Strings(ks)
	return ks
}

// apply executes one operation. With judge=false (operations before the last one of a
// history, which were judged as last operation of the shorter history) the call is only
// executed and the model state is advanced.
func (w *world) apply(step int, op opT, judge bool) (vs []viol, class string, succeeded bool, infra error) {
	add := func(key, format string, a ...any) {
		vs = append(vs, viol{key, fmt.Sprintf("[%s repository, %s artifact, call #%d %s] ", w.kind, w.art.Name, step+1, op) + fmt.Sprintf(format, a...)})
	}
	rf, ok := w.ref(op.Ref)
	if !ok {
		return nil, "", false, fmt.Errorf("unknown reference label %q", op.Ref)
	}
	md, ok := mdOf(op.MD)
	if !ok {
		return nil, "", false, fmt.Errorf("unknown metadata label %q", op.MD)
	}
	mt := mtJWS
	switch op.Format {
	case "jws":
	case "cose":
		mt = mtCOSE
	default:
		return nil, "", false, fmt.Errorf("unknown format %q", op.Format)
	}
	sgn, rec, chain, err := w.signerFor(op.Signer)
	if err != nil {
		return nil, "", false, err
	}
	callsBefore := 0
	if rec != nil {
		callsBefore = rec.calls
	}
	w.notes = nil

	// reference model (from the statement; everything is read from the snapshot taken before the FIRST call)
	snap := w.snap[rf.Reduced]
	reason := ""
	mdReason := "" // why the metadata alone would be refused
	if snap.Err == nil {
		if md.Reserved {
			mdReason = "metadata key under the reserved prefix"
		} else {
			for _, k := range sortedKeys(md.Map) {
				if _, ok := snap.Desc.Annotations[k]; ok {
					mdReason = "metadata key is an annotation of the resolved artifact"
				}
			}
		}
	}
	// flexible: the reference is the digest of the artifact's own bytes in another algorithm than the digest the
	// repository resolved. The strings differ, the content does not: the statement does not say which of the two
	// "a different digest" means, so a refusal and a success are both allowed (unless the metadata must be refused).
	flexible := false
	switch {
	case snap.Err != nil:
		reason = "reference does not resolve"
	case rf.IsDigest && snap.Desc.Digest != rf.Digest:
		reason = "digest reference resolves to another digest"
		flexible = rf.Flexible && snap.Desc.Digest == w.art.Desc.Digest
	default:
		reason = mdReason
	}
	wantOK := reason == ""

	earlier := len(w.sigs)
	old := map[digest.Digest]bool{}
	for _, s := range w.sigs {
		old[s.Manifest.Digest] = true
	}
	var markBefore string
	var pushesBefore int
	if judge {
		if markBefore, err = w.pushMark(); err != nil {
			return nil, "", false, err
		}
	}
	if w.mock != nil {
		pushesBefore = len(w.mock.pushLog)
	}

	mdArg := copyMap(md.Map)
	pcWant := map[string]string{"c11-plugin-config": "left-alone"}
	pcArg := copyMap(pcWant)
	opts := notation.SignOptions{
		ArtifactReference: rf.Text,
		UserMetadata:      mdArg,
		SignerSignOptions: notation.SignerSignOptions{SignatureMediaType: mt, PluginConfig: pcArg},
	}
	w.evals++
	gotArt, gotSig, serr := notation.SignOCI(ctx, sgn, w.repo, opts)
	succeeded = serr == nil
	if flexible {
		switch {
		case mdReason != "":
			reason = mdReason // refused for the metadata whatever the reference is taken for
		case succeeded:
			reason, wantOK = "", true
			w.notes = append(w.notes, "recorded:args/digest-of-the-same-content-in-another-algorithm-accepted (not judged)")
		default:
			reason = "digest reference in another algorithm than the resolved digest, same content (not judged)"
		}
	}

	if w.mock == nil {
		w.evals++
	}
	listed, lerr := listAll(w.repo, w.art.Desc)
	if lerr != nil {
		return vs, "", succeeded, fmt.Errorf("ListSignatures failed: %w", lerr)
	}
	var fresh []ocispec.Descriptor
	stillThere := 0
	for _, d := range listed {
		if old[d.Digest] {
			stillThere++
		} else {
			fresh = append(fresh, d)
		}
	}

	// expected descriptor to sign: resolved descriptor plus metadata
	exp := deepCopyDesc(snap.Desc)
	if len(md.Map) > 0 {
		if exp.Annotations == nil {
			exp.Annotations = map[string]string{}
		}
		for k, v := range md.Map {
			exp.Annotations[k] = v
		}
	}
	label := op.Format + mapString(exp.Annotations)
	// a call that can only produce the byte-identical signature of an earlier successful call: its outcome is not
	// judged (the one signature it would push is already there; a content-addressed store may answer "exists")
	dupKey := op.Format + "|" + string(exp.Digest) + "|" + fmt.Sprint(exp.Size) + "|" + exp.MediaType + "|" + mapString(exp.Annotations)
	duplicate := op.Signer == replayKind && wantOK && w.stored[dupKey]

	// advance the model state from what the repository lists now
	defer func() {
		var next []sigRec
		for _, d := range listed {
			r := sigRec{Manifest: d, Label: label}
			for _, s := range w.sigs {
				if s.Manifest.Digest == d.Digest {
					r = s
				}
			}
			next = append(next, r)
		}
		w.sigs = next
		if succeeded {
			w.labels = append(w.labels, label)
			w.okOps = append(w.okOps, op)
			if op.Signer == replayKind {
				if w.stored == nil {
					w.stored = map[string]bool{}
				}
				w.stored[dupKey] = true
			}
		}
		// remember the envelope of every newly listed signature (compared after later calls)
		if w.envs == nil {
			w.envs = map[digest.Digest][]byte{}
		}
		for _, d := range fresh {
			if _, ok := w.envs[d.Digest]; !ok {
				if w.mock == nil {
					w.evals++
				}
				if b, _, err := w.repo.FetchSignatureBlob(ctx, d); err == nil {
					w.envs[d.Digest] = b
				}
			}
		}
	}()

	if !judge {
		return nil, "", succeeded, nil
	}

	// whatever the call did: every signature attached before is still listed (judged below) and still delivers the
	// envelope it delivered before (the repository's view of the artifact apart from the one signature pushed)
	for _, sg := range w.sigs {
		was, ok := w.envs[sg.Manifest.Digest]
		if !ok {
			continue
		}
		if w.mock == nil {
			w.evals++
		}
		if b, _, err := w.repo.FetchSignatureBlob(ctx, sg.Manifest); err != nil || !bytes.Equal(b, was) {
			add("referrers/earlier-signature-damaged", "signature manifest %s attached by an earlier call: envelope had %d bytes, now %d bytes, error %v (this call returned: %v)", sg.Manifest.Digest, len(was), len(b), err, serr)
			break
		}
	}

	switch {
	case duplicate && serr != nil:
		class = "byte-identical signature again: call failed (outcome not judged)"
	case duplicate && len(fresh) == 0 && stillThere == len(old):
		class = "byte-identical signature again: call succeeded, no further referrer (outcome not judged)"
	case wantOK && serr != nil:
		identical := false
		// was the same call (reference, metadata, format) made and successful earlier in this history?
		for _, p := range w.okOps {
			if p.Ref == op.Ref && p.MD == op.MD && p.Format == op.Format {
				identical = true
			}
		}
		switch {
		case identical:
			add("history/second-identical-call-failed", "the same reference, metadata and format were signed successfully before in this history; now: %v", serr)
		case earlier > 0:
			add("history/valid-call-refused-after-earlier-signing", "valid call refused after %d earlier signature(s) (the model does not depend on earlier calls): %v", earlier, serr)
		default:
			add("outcome/valid-call-refused", "reference resolves to the artifact, metadata %s is neither reserved nor an annotation of it %s: %v", mapString(md.Map), mapString(snap.Desc.Annotations), serr)
		}
		class = "VIOLATION: valid call refused"
	case !wantOK && serr == nil:
		switch reason {
		case "reference does not resolve":
			add("args/accepted-unresolvable-reference", "signed although %q did not resolve before the first call (%v)", rf.Reduced, snap.Err)
		case "digest reference resolves to another digest":
			add("args/accepted-mismatching-digest", "signed although the digest reference %s resolves to %s", rf.Text, snap.Desc.Digest)
		case "metadata key under the reserved prefix":
			add("args/accepted-reserved-prefix-metadata", "signed with metadata %s", mapString(md.Map))
		default:
			add("args/accepted-metadata-overwriting-artifact-annotation", "signed with metadata %s although the resolved artifact has annotations %s", mapString(md.Map), mapString(snap.Desc.Annotations))
		}
		class = "VIOLATION: invalid call accepted"
	}

	if serr != nil {
		// after a refusal: no new referrer (stated). That nothing at all reached the repository (a stray blob is no part
		// of the repository's view of the artifact) is recorded only.
		if len(fresh) != 0 || stillThere != len(old) {
			add("referrers/changed-by-refused-call", "refused (%v) but the artifact now lists %d new and %d of %d old signature manifests", serr, len(fresh), stillThere, len(old))
		}
		markAfter, err := w.pushMark()
		if err != nil {
			return vs, class, succeeded, err
		}
		if markAfter != markBefore {
			w.notes = append(w.notes, "recorded:push/after-refusal (a refused call left content in the repository; not judged)")
		}
		if class == "" {
			class = "refused: " + reason
		}
	} else if wantOK && class == "" {
		n := len(vs)
		w.judgeSuccess(add, op, mt, md, snap, exp, chain, rec, gotArt, gotSig, fresh, stillThere, len(old), pushesBefore, callsBefore)
		if len(vs) == n {
			class = "signed, all checks passed"
		} else {
			class = "VIOLATION: signed wrongly"
		}
	}

	// after either: the repository's view, the handed-out objects and the caller's maps are unchanged
	for _, red := range w.reduced {
		s0 := w.snap[red]
		d, err := w.resolveQuiet(red)
		switch {
		case (err != nil) != (s0.Err != nil):
			add("aliasing/resolve-answer-changed", "Resolve(%q) before the first call: error %v; now: error %v", red, s0.Err, err)
		case err == nil && !descEqualLoose(d, s0.Desc):
			add("aliasing/resolve-answer-changed", "Resolve(%q) before the first call: %s/%d annotations %s; now: %s/%d annotations %s", red, s0.Desc.Digest, s0.Desc.Size, mapString(s0.Desc.Annotations), d.Digest, d.Size, mapString(d.Annotations))
		}
	}
	if w.mock != nil && !reflect.DeepEqual(w.mock.desc, w.mockCp) {
		if !reflect.DeepEqual(w.mock.desc.Annotations, w.mockCp.Annotations) {
			add("aliasing/repository-annotation-map-changed", "the annotation map of the descriptor object the repository hands out was %s before the first call and is %s now", mapString(w.mockCp.Annotations), mapString(w.mock.desc.Annotations))
		} else {
			add("aliasing/repository-descriptor-object-changed", "the descriptor object the repository hands out was %+v and is %+v now", w.mockCp, w.mock.desc)
		}
	}
	if w.kind == "disk" {
		now, err := indexEntries(w.dir, w.art.Desc.Digest)
		if err != nil {
			return vs, class, succeeded, err
		}
		if !reflect.DeepEqual(now, w.index0) {
			add("aliasing/index-json-entry-of-artifact-changed", "index.json entries of the artifact before the first call: %v; now: %v", w.index0, now)
		}
	}
	if !reflect.DeepEqual(mdArg, md.Map) {
		add("aliasing/caller-user-metadata-changed", "UserMetadata passed as %s is %s after the call", mapString(md.Map), mapString(mdArg))
	}
	if !reflect.DeepEqual(pcArg, pcWant) {
		add("aliasing/caller-plugin-config-changed", "PluginConfig passed as %s is %s after the call", mapString(pcWant), mapString(pcArg))
	}
	if class == "" {
		class = "VIOLATION"
	}
	if strings.HasPrefix(class, "signed") && len(vs) > 0 {
		class = "VIOLATION: signed, something else changed"
	}
	if strings.HasPrefix(class, "refused") && len(vs) > 0 {
		class = "VIOLATION: refused, something changed"
	}
	return vs, class, succeeded, nil
}

func (w *world) judgeSuccess(add func(string, string, ...any), op opT, mt string, md mdT, snap resolved, exp ocispec.Descriptor, chain *pki.Chain, rec *recorded,
	gotArt, gotSig ocispec.Descriptor, fresh []ocispec.Descriptor, stillThere, nOld, pushesBefore, callsBefore int) {
	// note: an observation the statement does not fix (evidence only, outcome class "recorded:<key>")
	note := func(key string) { w.notes = append(w.notes, "recorded:"+key+" (not judged)") }

	// the returned descriptors are not part of the statement
	if !descEqualLoose(gotArt, snap.Desc) {
		note("return/artifact-descriptor-differs-from-resolved")
	}
	// the signature is over what the signer is handed: its four signed fields must be resolved descriptor + metadata
	// (how often the signer is asked and which further fields it is shown is not stated)
	if rec != nil {
		if rec.calls-callsBefore != 1 {
			note("signer/not-called-exactly-once")
		}
		if rec.calls-callsBefore >= 1 && (!same3(rec.desc, exp) || !sameMapLoose(rec.desc.Annotations, exp.Annotations)) {
			add("signer/descriptor-not-resolved-plus-metadata", "the signer was handed %s/%d/%s annotations %s; resolved descriptor plus metadata: %s/%d/%s annotations %s",
				rec.desc.Digest, rec.desc.Size, rec.desc.MediaType, mapString(rec.desc.Annotations), exp.Digest, exp.Size, exp.MediaType, mapString(exp.Annotations))
		}
	}
	// exactly one new referrer ("the one signature pushed"), the earlier ones still there
	if len(fresh) != 1 || stillThere != nOld {
		add("referrers/not-exactly-one-new", "after a successful call the artifact lists %d new signature manifests and %d of the %d earlier ones", len(fresh), stillThere, nOld)
		return
	}
	nd := fresh[0]
	if !same3(nd, gotSig) {
		note("return/signature-manifest-descriptor-differs-from-listed")
	}
	if w.mock == nil {
		w.evals++
	}
	env, bd, err := w.repo.FetchSignatureBlob(ctx, nd)
	if err != nil {
		add("envelope/cannot-be-fetched", "FetchSignatureBlob(%s): %v", nd.Digest, err)
		return
	}
	// the envelope format is not part of the statement: the stored blob is checked in the format it declares
	vmt := mt
	if bd.MediaType != mt {
		note("envelope/media-type-differs-from-requested")
		if bd.MediaType == mtJWS || bd.MediaType == mtCOSE {
			vmt = bd.MediaType
		}
	}
	// the envelope verifies (independent implementation)
	res, err := refsig.Verify(vmt, env)
	if err != nil {
		add("envelope/signature-invalid", "independent check of the stored envelope: %v", err)
		return
	}
	if res.ContentType != payloadType {
		note("envelope/payload-content-type-differs")
	}
	signTime, certs, err := envMeta(vmt, env)
	if err != nil {
		// the hand-written decoder does not know this header layout: ask notation-core-go's parser
		signTime, certs, err = envMetaCore(vmt, env)
	}
	if err != nil {
		add("envelope/headers-unreadable", "%v", err)
		return
	}
	raws := chain.X509()
	chainOK := len(certs) == len(raws)
	for i := 0; chainOK && i < len(raws); i++ {
		chainOK = bytes.Equal(certs[i], raws[i].Raw)
	}
	if !chainOK {
		note("envelope/chain-differs-from-the-configured-chain")
	}
	// payload == resolved descriptor + metadata
	key, detail, pnotes := payloadProblem(res.Payload, snap.Desc, exp, op.Signer == verbatimKind)
	if key != "" {
		add(key, "%s", detail)
	}
	for _, n := range pnotes {
		note(n)
	}
	// the signature manifest as stored (read underneath the API)
	var mb []byte
	switch w.kind {
	case "mock", "mock-fetcher":
		b, ok := w.mock.manifestJSON(nd.Digest)
		if !ok {
			add("push/manifest-not-in-store", "manifest %s is not among the pushed ones", nd.Digest)
			return
		}
		mb = b
		if len(w.mock.pushLog) != pushesBefore+1 {
			note("push/not-exactly-one-push-call")
		}
	case "disk":
		mb, err = os.ReadFile(filepath.Join(w.dir, "blobs", nd.Digest.Algorithm().String(), nd.Digest.Encoded()))
	default:
		mb, err = fetchRaw(w.target, nd)
	}
	if err != nil {
		add("push/manifest-not-in-store", "manifest %s: %v", nd.Digest, err)
		return
	}
	var m anyManifest
	if err := json.Unmarshal(mb, &m); err != nil {
		add("push/manifest-not-json", "manifest %s: %v", nd.Digest, err)
		return
	}
	subject, mann := m.Subject, m.Annotations
	// the manifest layout (single layer = the envelope, config of the Notation type) is not part of the statement
	if len(m.Layers) != 1 || !same3(m.Layers[0], descOf(bd.MediaType, env)) {
		note("push/manifest-layer-is-not-the-envelope")
	}
	if m.Config == nil || m.Config.MediaType != typeNotation {
		note("push/manifest-config-is-not-the-notation-type")
	}
	// attached to the resolved artifact: the subject names it and describes it with nothing it does not have
	switch {
	case subject == nil:
		add("push/subject-missing", "the signature manifest has no subject")
	case !same3(*subject, snap.Desc):
		add("push/subject-is-not-the-resolved-artifact", "subject %s/%d/%s, resolved %s/%d/%s", subject.Digest, subject.Size, subject.MediaType, snap.Desc.Digest, snap.Desc.Size, snap.Desc.MediaType)
	default:
		carried := false
		for _, k := range sortedKeys(md.Map) {
			if _, ok := subject.Annotations[k]; ok {
				carried = true
			}
		}
		foreign := false
		for _, k := range sortedKeys(subject.Annotations) {
			if v, ok := snap.Desc.Annotations[k]; !ok || v != subject.Annotations[k] {
				foreign = true
			}
		}
		switch {
		case carried:
			add("push/subject-carries-user-metadata", "subject annotations %s, user metadata %s, annotations of the resolved artifact %s", mapString(subject.Annotations), mapString(md.Map), mapString(snap.Desc.Annotations))
		case foreign:
			add("push/subject-carries-foreign-annotations", "subject annotations %s, annotations of the resolved artifact %s", mapString(subject.Annotations), mapString(snap.Desc.Annotations))
		}
	}
	// annotations: SHA-256 thumbprints of the signing chain (= the certificates the envelope carries, recomputed
	// here) and the envelope's signing time
	var want []string
	for _, c := range certs {
		h := sha256.Sum256(c)
		want = append(want, hex.EncodeToString(h[:]))
	}
	var got []string
	if err := json.Unmarshal([]byte(mann[annThumbprints]), &got); err != nil || !reflect.DeepEqual(got, want) {
		add("annotations/thumbprints-are-not-sha256-of-the-signing-chain", "%s = %q; SHA-256 of the raw certificates of the envelope in order: %v", annThumbprints, mann[annThumbprints], want)
	}
	if created, err := time.Parse(time.RFC3339, mann[annCreated]); err != nil || !created.Equal(signTime) {
		add("annotations/created-is-not-the-signing-time", "%s = %q (parse error: %v), the envelope was signed at %s", annCreated, mann[annCreated], err, signTime.UTC().Format(time.RFC3339))
	}
	// a signer that supplies manifest annotations of its own: recorded, not judged (the statement fixes the two annotations above only)
	if k, ok := w.kept[op.Signer]; ok {
		if as, ok := k.sg.(*annSigner); ok {
			pa := op.Signer[strings.Index(op.Signer, paSep)+len(paSep):]
			if _, has := as.orig[paUnrelated]; has {
				w.notes = append(w.notes, fmt.Sprintf("signer annotations %q: the signer's own annotation is on the manifest: %v (not judged)", pa, mann[paUnrelated] == as.orig[paUnrelated]))
			}
			w.notes = append(w.notes, fmt.Sprintf("signer annotations %q: the map the signer returned is unchanged after the call: %v (not judged)", pa, reflect.DeepEqual(as.ann, as.orig)))
		}
	}
}

// envMetaCore reads signing time and certificates through notation-core-go (fallback of envMeta).
func envMetaCore(mediaType string, env []byte) (time.Time, [][]byte, error) {
	e, err := signature.ParseEnvelope(mediaType, env)
	if err != nil {
		return time.Time{}, nil, err
	}
	c, err := e.Content()
	if err != nil {
		return time.Time{}, nil, err
	}
	var raws [][]byte
	for _, x := range c.SignerInfo.CertificateChain {
		raws = append(raws, x.Raw)
	}
	if c.SignerInfo.SignedAttributes.SigningTime.IsZero() {
		return time.Time{}, nil, fmt.Errorf("the envelope has no signing time")
	}
	return c.SignerInfo.SignedAttributes.SigningTime, raws, nil
}

// ---------------------------------------------------------------------------
// histories

type histCase struct {
	Repository string `json:"repository"`            // mock | disk | memory
	Artifact   string `json:"artifact"`              // plain | annotated
	Env        string `json:"environment,omitempty"` // environment profile ("" = as inherited)
	Ops        []opT  `json:"operations"`
}

type histResult struct {
	vs        []viol
	class     string // outcome class of the last call
	state     string // canonical state after the history
	successes int
	lastOK    bool
	notes     []string
	evals     int
	infra     error
}

var (
	artifacts = map[string]*artifact{}
	theSigs   *signers
)

// reopenCheck (disk only): a second registry.NewOCIRepository on the directory must report the same view.
func (w *world) reopenCheck(add func(string, string, ...any)) error {
	repo2, err := registry.NewOCIRepository(w.dir, registry.RepositoryOptions{})
	if err != nil {
		return fmt.Errorf("re-open: %w", err)
	}
	for _, red := range w.reduced {
		s0 := w.snap[red]
		w.evals++
		d, err := repo2.Resolve(ctx, red)
		switch {
		case (err != nil) != (s0.Err != nil):
			add("aliasing/resolve-answer-changed:reopened", "re-opened layout: Resolve(%q) before the first call: error %v; now: error %v", red, s0.Err, err)
		case err == nil && !descEqualLoose(d, s0.Desc):
			add("aliasing/resolve-answer-changed:reopened", "re-opened layout: Resolve(%q) before the first call: annotations %s; now: %s/%d annotations %s", red, mapString(s0.Desc.Annotations), d.Digest, d.Size, mapString(d.Annotations))
		}
	}
	w.evals++
	listed, err := listAll(repo2, w.art.Desc)
	if err != nil {
		return fmt.Errorf("re-open: ListSignatures: %w", err)
	}
	got := map[digest.Digest]bool{}
	for _, d := range listed {
		got[d.Digest] = true
	}
	okList := len(listed) == len(w.sigs)
	for _, s := range w.sigs {
		okList = okList && got[s.Manifest.Digest]
	}
	if !okList {
		add("referrers/reopened-layout-lists-other-signatures", "live repository lists %d signature manifests, the re-opened layout %d (or other ones)", len(w.sigs), len(listed))
		return nil
	}
	for _, s := range w.sigs {
		w.evals += 2
		a, ad, err1 := w.repo.FetchSignatureBlob(ctx, s.Manifest)
		b, bd, err2 := repo2.FetchSignatureBlob(ctx, s.Manifest)
		if err1 != nil || err2 != nil || !bytes.Equal(a, b) || !same3(ad, bd) {
			add("envelope/reopened-layout-returns-other-bytes", "signature %s: live %d bytes (%v), re-opened %d bytes (%v)", s.Manifest.Digest, len(a), err1, len(b), err2)
		}
	}
	return nil
}

// runHistory replays ops on a fresh repository of the kind and judges the last call.
func runHistory(c histCase) (res histResult) {
	art := artifacts[c.Artifact]
	if art == nil {
		res.infra = fmt.Errorf("unknown artifact %q", c.Artifact)
		return
	}
	withShapes := false // a history that uses a digest-reference shape runs in a world that knows all of them
	for _, op := range c.Ops {
		base := false
		for _, rf := range art.refs {
			base = base || rf.Label == op.Ref
		}
		withShapes = withShapes || !base
	}
	w, err := newWorld(c.Repository, art, theSigs, withShapes)
	if err != nil {
		res.infra = err
		return
	}
	defer w.close()
	defer func() { res.evals = w.evals }()
	for step, op := range c.Ops {
		last := step == len(c.Ops)-1
		vs, class, ok, err := w.apply(step, op, last)
		if err != nil {
			res.infra = fmt.Errorf("call #%d %s: %w", step+1, op, err)
			return
		}
		if last {
			res.vs, res.class, res.lastOK = vs, class, ok
			res.notes = append([]string(nil), w.notes...)
		}
	}
	if w.kind == "disk" {
		add := func(key, format string, a ...any) {
			res.vs = append(res.vs, viol{key, fmt.Sprintf("[%s repository, %s artifact, after %d calls] ", w.kind, w.art.Name, len(c.Ops)) + fmt.Sprintf(format, a...)})
		}
		if err := w.reopenCheck(add); err != nil {
			res.infra = err
			return
		}
	}
	res.successes = len(w.okOps)
	// canonical state: multiset of signature manifests (format + signed annotations; the signed
	// digest/size/media type are the artifact's in every judged success) and the artifact's
	// annotations as the repository reports them for the tag now
	labels := append([]string(nil), w.labels...)
	sort.Strings(labels)
	now := "?"
	if d, err := w.resolveQuiet(tagV1); err == nil {
		now = mapString(d.Annotations)
	}
	res.state = fmt.Sprintf("%d listed|%s|%s", len(w.sigs), strings.Join(labels, ";"), now)
	return
}

type pend struct {
	idx   int
	v     viol
	repl  histCase
	count int
}

// collector keeps, per violation key, the case with the smallest index (the shortest history comes first).
type collector struct {
	mu sync.Mutex
	m  map[string]*pend
}

func (c *collector) add(idx int, v viol, repl histCase) {
	c.mu.Lock()
	defer c.mu.Unlock()
	if c.m == nil {
		c.m = map[string]*pend{}
	}
	p := c.m[v.key]
	if p == nil {
		c.m[v.key] = &pend{idx, v, repl, 1}
		return
	}
	p.count++
	if idx < p.idx {
		p.idx, p.v, p.repl = idx, v, repl
	}
}

func (c *collector) flush(r *hx.Run) {
	c.mu.Lock()
	defer c.mu.Unlock()
	keys := make([]string, 0, len(c.m))
	for k := range c.m {
		keys = append(keys, k)
	}
	sort.Slice(keys, func(i, j int) bool {
		a, b := c.m[keys[i]], c.m[keys[j]]
		if a.idx != b.idx {
			return a.idx < b.idx
		}
		return keys[i] < keys[j]
	})
	for _, k := range keys {
		p := c.m[k]
		for n := 0; n < p.count; n++ {
			r.Violation(p.v.key, p.v.what, p.repl)
		}
	}
	c.m = nil
}

var (
	statesMu sync.Mutex
	states   = map[string]struct{}{}
	outMu    sync.Mutex
	outAgg   = map[string]int{}
)

func flushOutcomes(r *hx.Run) {
	outMu.Lock()
	defer outMu.Unlock()
	keys := make([]string, 0, len(outAgg))
	for k := range outAgg {
		keys = append(keys, k)
	}
	sort.Strings(keys)
	for _, k := range keys {
		for n := outAgg[k]; n > 0; n-- {
			r.Outcome(k)
		}
	}
	outAgg = map[string]int{}
}

var (
	controlsOK  atomic.Int64
	sequences   atomic.Int64
	repeatedOK  atomic.Int64
	levelsDone  = map[string]int{}
	levelsDoneM sync.Mutex
)

func exploreLevel(r *hx.Run, alpha alphabetT, kind, artName string, depth int) {
	restore, err := setEnv(alpha.Env)
	if err != nil {
		r.Infra("environment %q: %v", alpha.Env, err)
		return
	}
	defer restore()
	col := &collector{}
	n := pow(alpha.size(), depth)
	var skipped atomic.Int64
	r.Parallel(n, func(i int) {
		if r.Expired() {
			skipped.Add(1)
			return
		}
		c := histCase{Repository: kind, Artifact: artName, Env: alpha.Env, Ops: alpha.decode(i, depth)}
		res := runHistory(c)
		r.Eval(res.evals)
		if res.infra != nil {
			r.Infra("%s/%s %v: %v", kind, artName, c.Ops, res.infra)
			return
		}
		r.Transition(1)
		sequences.Add(1)
		for _, v := range res.vs {
			if alpha.Env != "" {
				v.what = "[environment profile " + alpha.Env + "] " + v.what
			}
			col.add(i, v, c)
		}
		statesMu.Lock()
		states[kind+"|"+artName+"|"+res.state] = struct{}{}
		statesMu.Unlock()
		earlier := res.successes
		if res.lastOK {
			earlier--
		}
		outMu.Lock()
		outAgg[fmt.Sprintf("%s: %s (%d earlier signatures)", kind, res.class, earlier)]++
		for _, n := range res.notes {
			outAgg[n]++
		}
		outMu.Unlock()
		if len(res.vs) == 0 && res.lastOK {
			controlsOK.Add(1)
			last := c.Ops[depth-1]
			for _, p := range c.Ops[:depth-1] {
				if p.Ref == last.Ref && p.MD == last.MD && p.Format == last.Format {
					repeatedOK.Add(1)
					break
				}
			}
		}
		if depth >= 2 && res.successes >= 1 {
			var sb strings.Builder
			for _, o := range c.Ops {
				sb.WriteString(o.String())
				sb.WriteByte(' ')
			}
			r.Nontrivial(kind + "|" + artName + "|" + sb.String())
		}
		if i%(n/3+1) == n/7 {
			r.Sample(map[string]any{"repository": kind, "artifact": artName, "history": c.Ops, "successful_calls": res.successes, "last_call": res.class, "state": res.state, "violations": len(res.vs)})
		}
	}, func(i int, v any, stack string) {
		c := histCase{Repository: kind, Artifact: artName, Env: alpha.Env, Ops: alpha.decode(i, depth)}
		col.add(i, viol{"history/panic", fmt.Sprintf("[%s repository, %s artifact] panic: %v\n%s", kind, artName, v, stack)}, c)
	})
	col.flush(r)
	if k := skipped.Load(); k > 0 {
		r.Capped(fmt.Sprintf("%s alphabet, %s/%s: internal deadline, %d of %d histories of length %d not run", alpha.Name, kind, artName, k, n, depth))
		return
	}
	levelsDoneM.Lock()
	if key := alpha.Name + " alphabet: " + kind + "/" + artName; depth > levelsDone[key] {
		levelsDone[key] = depth
	}
	levelsDoneM.Unlock()
}

func replay(r *hx.Run) {
	var c histCase
	if err := r.LoadReplay(&c); err != nil {
		r.Infra("replay: %v", err)
		return
	}
	restore, err := setEnv(c.Env)
	if err != nil {
		r.Infra("replay: %v", err)
		return
	}
	defer restore()
	// every prefix is judged, so that the first deviating call is shown
	any := false
	for n := 1; n <= len(c.Ops); n++ {
		pc := histCase{Repository: c.Repository, Artifact: c.Artifact, Env: c.Env, Ops: c.Ops[:n]}
		res := runHistory(pc)
		r.Eval(res.evals)
		if res.infra != nil {
			r.Infra("replay: %v", res.infra)
			return
		}
		r.Outcome(fmt.Sprintf("%s: %s", c.Repository, res.class))
		fmt.Printf("replay: after %d call(s): last call %q, state %s, %d violation(s)\n", n, res.class, res.state, len(res.vs))
		for _, v := range res.vs {
			any = true
			r.Violation(v.key, v.what, pc)
		}
	}
	if !any {
		fmt.Println("replay: holds")
	}
}

func main() {
	r := hx.New("C11")
	r.Rule = "every sequence of 1..d operations over an alphabet of 5 references x metadata maps x 2 envelope formats (full: 16 maps incl. 5 reserved-prefix shapes, 2 near misses, 3 empty-string shapes and 3 maps with runes a sanitiser would touch = 160 operations, d = 2 on every repository; the same with one format per (reference, metadata) = 80 operations, thorough d = 3 on the mock; core: the first 4 maps = 40 operations, thorough d = 3 on every repository; the signer kind rotates with operation number + position; signer-annotations: 48 operations = 2 instrumented signers x 6 answers of PluginAnnotations() {nil, empty, unrelated key, thumbprint key, created key, all three} x 2 references x 2 metadata maps, one signer object per kind and history, d = 2 on every repository, thorough d = 3 on the mock; every-descriptor-member-signed: 18 operations = a signer that signs EVERY member of the descriptor it is handed x {tag, digest} x {no, disjoint, colliding, reserved metadata} x 2 formats + 2 operations of the recording GenericSigner, d = 2 on every repository for 3 artifacts - the third one is tagged in the real stores with a descriptor carrying platform, artifactType and urls, the mock hands out platform, artifactType, urls and data for every artifact; digest-reference-shapes: 36 operations = digest references in {sha256, sha384, sha512} x naming {the artifact's own bytes, bytes no repository holds} x spelled {bare, repository@digest, repository:tag@digest} x {no, disjoint metadata}, d = 2 on the mock (no content.Fetcher), on the same mock that also implements content.Fetcher and on the memory store (every shape tagged to the artifact), d = 1 on the on-disk layout) is replayed on a fresh repository (mock handing out one descriptor object, with or without the optional content.Fetcher capability / on-disk OCI layout opened by registry.NewOCIRepository / oras memory store) for each of 2 artifacts (3 for the every-descriptor-member-signed family); the LAST call of every history is judged against the reference model and the before-first-call snapshots (earlier calls were judged as last call of the shorter history); canonical state = (multiset of signature manifests by format and signed annotations, artifact annotations as reported for the tag); non-trivial = distinct histories of length >= 2 with at least one successful signing call"
	r.Assumptions = []string{
		"ECDSA P-256 / SHA-256 are sound; the stored envelope is checked by lib/refsig (standard library only), signing time and certificates are decoded by hand from the JWS / COSE headers",
		"what a reference resolves to is the repository's own answer before the first call (mock: everything resolves to the artifact; stores: the tag, the artifact's digest; the memory store has the digest tagged with the annotated descriptor and the other digest tagged with the artifact's plain descriptor, oci.Store does not resolve the other digest, returns a plain descriptor for a digest and adds org.opencontainers.image.ref.name for a tag read from index.json)",
		"the part of a full reference handed to Resolve (tag / digest) is written by hand per alphabet entry",
		"'annotation of the artifact' = annotation of the descriptor the repository resolved for that reference before the first call",
		"signer kinds: real GenericSigner behind a recording wrapper (3 certificates), real GenericSigner unwrapped (2 certificates), instrumented signer of the harness that signs with notation-core-go at an instant 2 h in the past (2 certificates); the signer is not part of the options, so two calls with the same reference, metadata and format count as identical",
		"annotating signers wrap the recording GenericSigner / the backdating signer and implement PluginAnnotations() returning one map object for the life of the repository; the backdating signer moves 1 h further into the past with every call of one object; whether the signer's own annotation reaches the manifest and whether SignOCI writes into the signer's map is recorded, not judged (the statement names neither)",
		"a digest reference in sha384 / sha512 that names the artifact's own bytes differs as a string from the sha256 digest every repository here resolves but names the same content: the statement does not say which of the two 'a different digest' means, so refusal and success are both allowed for these 6 shapes (recorded; a success is judged like any other success); the 6 shapes naming other bytes must be refused on every repository that resolves them, whatever their algorithm, spelling and whatever optional interfaces the repository implements",
		"a signer that signs every member of the descriptor it is handed makes the stored signature a signature over exactly what SignOCI handed over: for it every member of the resolved descriptor (platform, artifactType, urls, data besides the four) must be in the signed payload with the resolved value; for signers that sign four members only (GenericSigner) further members stay recorded",
		"enforced: outcome of the call (model), one new referrer after a success / none after a refusal, a verifying envelope whose payload is the resolved descriptor's media type, digest, size and annotations + metadata, the same four fields handed to an instrumented signer, a subject naming the resolved artifact without metadata or foreign annotations, thumbprints of the envelope's certificates and the envelope's signing time on the manifest, unchanged Resolve answers / handed-out object / index.json entry / caller maps. Recorded only (outcome classes 'recorded:...'): returned descriptors, number of Sign / PushSignature calls, further descriptor fields shown to the signer or signed, envelope format vs requested, payload content type, envelope chain vs configured chain, manifest layout (layer, config type), content left behind by a refused call",
		"manifest annotations other than the thumbprints and the creation time are not judged; the descriptors returned by a refused call are not judged",
		"on-disk layout: only the artifact's own index.json entries are compared; after a refused call the whole directory (names, sizes, index.json bytes) must be unchanged",
	}
	var err error
	if theSigs, err = buildSigners(); err != nil {
		r.Infra("signers: %v", err)
		r.Finish()
	}
	for _, n := range []string{"plain", "annotated", "rich"} {
		artifacts[n] = buildArtifact(n)
	}
	if r.Replay != "" {
		replay(r)
		r.Finish()
	}
	// quick: all histories of depth <= 2 over the full alphabet (160 operations) on every repository (the second
	// identical call is where sharing shows). thorough adds depth 3: over the core alphabet (40 operations) on every
	// repository and over all 10 metadata maps with one format per (reference, metadata) (50 operations) on the mock (the core alphabet's depths 1 and 2 are contained in the full one's).
	type plan struct {
		alpha alphabetT
		depth map[string]int
		from  int
	}
	// (within one depth the small families run first: a run cut by the deadline has completed them)
	var envPlans []plan
	for _, name := range envProfileNames {
		d := map[string]int{"mock": 1, "disk": 1, "memory": 1}
		if r.Thorough() {
			d = map[string]int{"mock": 2, "disk": 2, "memory": 1}
		}
		envPlans = append(envPlans, plan{envAlphabet(name), d, 1})
	}
	plans := []plan{
		{dupAlphabet, map[string]int{"mock": 3, "disk": 3, "memory": 3}, 1},
		{verbAlphabet, map[string]int{"mock": 2, "disk": 2, "memory": 2}, 1},
		{shapeAlphabet, map[string]int{"mock": 2, "mock-fetcher": 2, "disk": 1, "memory": 2}, 1},
		{annAlphabet, map[string]int{"mock": 2, "disk": 2, "memory": 2}, 1},
		{fullAlphabet, map[string]int{"mock": 2, "disk": 2, "memory": 2}, 1},
	}
	if r.Thorough() {
		plans = []plan{
			{verbAlphabet, map[string]int{"mock": 3, "disk": 2, "memory": 2}, 1},
			{shapeAlphabet, map[string]int{"mock": 2, "mock-fetcher": 2, "disk": 2, "memory": 2}, 1},
			{dupAlphabet, map[string]int{"mock": 3, "disk": 3, "memory": 3}, 1},
			{fullAlphabet, map[string]int{"mock": 2, "disk": 2, "memory": 2}, 1},
			{coreAlphabet, map[string]int{"mock": 3, "disk": 3, "memory": 3}, 3},
			{wideAlphabet, map[string]int{"mock": 3}, 3},
			{annAlphabet, map[string]int{"mock": 3, "disk": 2, "memory": 2}, 1},
		}
		r.SetDeadline(9 * time.Minute)
	} else {
		r.SetDeadline(40 * time.Second)
	}
	plans = append(envPlans, plans...)
	kinds := []string{"mock", "mock-fetcher", "disk", "memory"}
	requested := map[string]int{}
	r.Extra["environment_profiles"] = envProfileNames
	for d := 1; d <= 3; d++ { // shorter histories of every family first (also what a capped run has completed)
		for _, p := range plans {
			for _, k := range kinds {
				if d < p.from || d > p.depth[k] {
					continue
				}
				if key := p.alpha.Name + " alphabet: " + k; p.depth[k] > requested[key] {
					requested[key] = p.depth[k]
				}
				arts := p.alpha.Artifacts
				if arts == nil {
					arts = []string{"plain", "annotated"}
				}
				for _, a := range arts {
					exploreLevel(r, p.alpha, k, a, d)
				}
			}
		}
	}
	flushOutcomes(r)
	statesMu.Lock()
	r.State(len(states))
	statesMu.Unlock()
	r.Extra["operations"] = map[string]int{"full": fullAlphabet.size(), "core": coreAlphabet.size(), wideAlphabet.Name: wideAlphabet.size(), annAlphabet.Name: annAlphabet.size(), dupAlphabet.Name: dupAlphabet.size(), verbAlphabet.Name: verbAlphabet.size(), shapeAlphabet.Name: shapeAlphabet.size()}
	r.Extra["references"] = refLabels
	var mdNames []string
	for _, m := range mds {
		rs := "legal unless it collides"
		if m.Reserved {
			rs = "reserved"
		}
		mdNames = append(mdNames, fmt.Sprintf("%s %s (%s)", m.Label, mapString(m.Map), rs))
	}
	r.Extra["metadata_maps"] = mdNames
	r.Extra["signer_kinds"] = append(append([]string{}, signerKinds...), replayKind, verbatimKind)
	var shapeNames []string
	for _, rf := range artifacts["plain"].shapeRefs {
		kind := "must be the resolved digest"
		switch {
		case rf.Flexible:
			kind = "same content, other algorithm: either outcome"
		case rf.Digest != artifacts["plain"].Desc.Digest:
			kind = "other content: refused wherever it resolves"
		}
		shapeNames = append(shapeNames, rf.Label+" ("+kind+")")
	}
	r.Extra["digest_reference_shapes"] = shapeNames
	r.Extra["descriptor_members_beyond_the_four"] = map[string][]string{"mock (every artifact)": {"platform", "artifactType", "urls", "data"}, "disk / memory, tag of the rich artifact": {"platform", "artifactType", "urls"}}
	r.Extra["repository_kinds"] = kinds
	r.Extra["signer_plugin_annotation_kinds"] = paKinds
	r.Extra["depth_requested"] = requested
	levelsDoneM.Lock()
	r.Extra["depth_completed"] = levelsDone
	levelsDoneM.Unlock()
	r.Extra["histories"] = sequences.Load()
	r.Extra["successful_last_calls_all_checks_passed"] = controlsOK.Load()
	r.Extra["repeated_identical_call_succeeded_again"] = repeatedOK.Load()
	if controlsOK.Load() == 0 && r.Violations() == 0 {
		r.Infra("no successful signing call passed all checks (positive control)")
	}
	if repeatedOK.Load() == 0 && r.Violations() == 0 {
		r.Infra("no history in which an identical call succeeded a second time (positive control)")
	}
	r.Finish()
}
