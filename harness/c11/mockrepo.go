package main

import (
	"bytes"
	"context"
	"encoding/json"
	"fmt"
	"io"

	"github.com/opencontainers/go-digest"
	ocispec "github.com/opencontainers/image-spec/specs-go/v1"
)

// mockRepo is an instrumented registry.Repository. It owns ONE descriptor
// object and hands out exactly that object (the struct value shares its
// Annotations map, URLs slice and Platform pointer with every earlier and
// later answer) on every Resolve, whatever the reference is. It logs the
// arguments of every Resolve and PushSignature call (deep copies taken at call
// time) and keeps the pushed signatures in memory so that ListSignatures and
// FetchSignatureBlob answer like a registry.
type mockRepo struct {
	desc ocispec.Descriptor // THE object handed out

	quiet      bool // the oracle's own calls are not logged
	resolveLog []string
	pushLog    []pushRec
	sigs       []mockSig
}

type pushRec struct {
	MediaType   string
	Blob        []byte
	Subject     ocispec.Descriptor
	Annotations map[string]string
}

type mockSig struct {
	Manifest     ocispec.Descriptor
	ManifestJSON []byte
	Blob         []byte
	BlobDesc     ocispec.Descriptor
	Subject      ocispec.Descriptor
}

func (m *mockRepo) Resolve(_ context.Context, reference string) (ocispec.Descriptor, error) {
	if !m.quiet {
		m.resolveLog = append(m.resolveLog, reference)
	}
	return m.desc, nil
}

func (m *mockRepo) ListSignatures(_ context.Context, desc ocispec.Descriptor, fn func([]ocispec.Descriptor) error) error {
	var out []ocispec.Descriptor
	for _, s := range m.sigs {
		if s.Subject.Digest == desc.Digest {
			out = append(out, s.Manifest)
		}
	}
	return fn(out)
}

func (m *mockRepo) FetchSignatureBlob(_ context.Context, desc ocispec.Descriptor) ([]byte, ocispec.Descriptor, error) {
	for _, s := range m.sigs {
		if s.Manifest.Digest == desc.Digest {
			return append([]byte(nil), s.Blob...), s.BlobDesc, nil
		}
	}
	return nil, ocispec.Descriptor{}, fmt.Errorf("mock: no signature manifest %s", desc.Digest)
}

func (m *mockRepo) PushSignature(_ context.Context, mediaType string, blob []byte, subject ocispec.Descriptor, annotations map[string]string) (ocispec.Descriptor, ocispec.Descriptor, error) {
	rec := pushRec{MediaType: mediaType, Blob: append([]byte(nil), blob...), Subject: deepCopyDesc(subject), Annotations: copyMap(annotations)}
	m.pushLog = append(m.pushLog, rec)
	blobDesc := ocispec.Descriptor{MediaType: mediaType, Digest: digest.FromBytes(blob), Size: int64(len(blob))}
	sub := deepCopyDesc(subject)
	mb, err := json.Marshal(imageManifest{
		SchemaVersion: 2, MediaType: mtImage,
		Config:      ocispec.Descriptor{MediaType: typeNotation, Digest: digest.FromString("{}"), Size: 2},
		Layers:      []ocispec.Descriptor{blobDesc},
		Subject:     &sub,
		Annotations: rec.Annotations,
	})
	if err != nil {
		return ocispec.Descriptor{}, ocispec.Descriptor{}, err
	}
	md := ocispec.Descriptor{MediaType: mtImage, Digest: digest.FromBytes(mb), Size: int64(len(mb))}
	for _, s := range m.sigs {
		if s.Manifest.Digest == md.Digest {
			return blobDesc, md, nil // content-addressed like a registry: the identical manifest is there already
		}
	}
	m.sigs = append(m.sigs, mockSig{Manifest: md, ManifestJSON: mb, Blob: rec.Blob, BlobDesc: blobDesc, Subject: sub})
	return blobDesc, md, nil
}

func (m *mockRepo) manifestJSON(d digest.Digest) ([]byte, bool) {
	for _, s := range m.sigs {
		if s.Manifest.Digest == d {
			return s.ManifestJSON, true
		}
	}
	return nil, false
}

// mockFetchRepo is the same instrumented repository that ALSO implements oras content.Fetcher (an optional capability
// SignOCI may discover with a type assertion): Fetch delivers the artifact's manifest bytes.
type mockFetchRepo struct {
	*mockRepo
	digest  digest.Digest
	content []byte
	fetches int
}

func (m *mockFetchRepo) Fetch(_ context.Context, target ocispec.Descriptor) (io.ReadCloser, error) {
	m.fetches++
	if target.Digest != m.digest {
		return nil, fmt.Errorf("mock: no content %s", target.Digest)
	}
	return io.NopCloser(bytes.NewReader(m.content)), nil
}
