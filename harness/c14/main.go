// C14 — a CRL cache entry is only ever absent or complete.
//
// E1: the real FileCache.Set/Get -> internal/file.WriteFile code, compiled from
// the working tree through an overlay that rewrites its "os" import to
// engine/osshim, runs under the cooperative scheduler of engine/sched; every
// interleaving of the file-system steps (preemption-bounded in the quick tier,
// unbounded with exact global-state pruning in the thorough tier), every crash
// point of the writers and torn (two-step) writes are enumerated.
// Oracle: every Get is a miss or a complete bundle stored for that URL; the
// call/return history is linearizable w.r.t. a per-URL register (porcupine,
// crashed Sets may or may not have taken effect); a post-mortem reader and a
// directory lister see only misses, complete entries and non-key temp files.
//
// E4: a real process doing one Set is killed (strace signal injection) on entry
// to every file-system syscall; a fresh process applies the post-mortem check.
package main

import (
	"bytes"
	"context"
	"crypto/sha256"
	"crypto/x509"
	"encoding/hex"
	"encoding/json"
	"errors"
	"fmt"
	"io"
	"math/big"
	"os"
	"os/exec"
	"path/filepath"
	"sort"
	"strconv"
	"strings"
	"sync"
	"time"

	"github.com/anishathalye/porcupine"
	corecrl "github.com/notaryproject/notation-core-go/revocation/crl"
	"github.com/notaryproject/notation-go/verifier/crl"
	"github.com/notaryproject/notation-go/zzverif/engine/osshim"
	"github.com/notaryproject/notation-go/zzverif/engine/sched"
	"github.com/notaryproject/notation-go/zzverif/lib/hx"
	"github.com/notaryproject/notation-go/zzverif/lib/pki"
)

// u3 differs from u1 only in letter case: it is another URL and must never share an entry with u1
var urls = []string{"http://crl.example/u1.crl", "http://crl.example/u2.crl", "HTTP://CRL.EXAMPLE/U1.CRL"}

// ---- bundles (generated once by the parent, handed to workers/processes as DER files) ----

type bundleSet struct {
	names   []string // "A", "B", "C"
	bundles map[string]*corecrl.Bundle
}

func writeBundles(dir string) {
	ca := pki.Make(pki.Tmpl{Subject: pki.Name("crl ca"), CA: true, PathLen: -1}, pki.Key(pki.EC256, 100), nil)
	now := time.Now()
	mk := func(n int64, delta int64) []byte {
		return pki.CRL(ca, n, now.Add(-time.Hour), now.Add(48*time.Hour), nil, delta).Raw
	}
	_ = os.MkdirAll(dir, 0o755)
	must(os.WriteFile(filepath.Join(dir, "A.base"), mk(1, 0), 0o644))
	must(os.WriteFile(filepath.Join(dir, "B.base"), mk(2, 0), 0o644))
	must(os.WriteFile(filepath.Join(dir, "B.delta"), mk(3, 2), 0o644))
	must(os.WriteFile(filepath.Join(dir, "C.base"), mk(4, 0), 0o644))
	// twins of A and B: same issuer, CRL numbers and dates, other content (one more revoked serial) - "stored" means these bytes
	mk2 := func(n int64, delta int64) []byte {
		return pki.CRL(ca, n, now.Add(-time.Hour), now.Add(48*time.Hour), []*big.Int{big.NewInt(4242)}, delta).Raw
	}
	must(os.WriteFile(filepath.Join(dir, "A2.base"), mk2(1, 0), 0o644))
	must(os.WriteFile(filepath.Join(dir, "B2.base"), mk(2, 0), 0o644))
	must(os.WriteFile(filepath.Join(dir, "B2.delta"), mk2(3, 2), 0o644))
}

func must(err error) {
	if err != nil {
		panic(err)
	}
}

func loadBundles(dir string) *bundleSet {
	bs := &bundleSet{names: []string{"A", "B", "C", "A2", "B2"}, bundles: map[string]*corecrl.Bundle{}}
	for _, n := range bs.names {
		b := &corecrl.Bundle{}
		der, err := os.ReadFile(filepath.Join(dir, n+".base"))
		must(err)
		b.BaseCRL, err = x509.ParseRevocationList(der)
		must(err)
		if der, err := os.ReadFile(filepath.Join(dir, n+".delta")); err == nil {
			b.DeltaCRL, err = x509.ParseRevocationList(der)
			must(err)
		}
		bs.bundles[n] = b
	}
	return bs
}

// classify names what a Get returned.
func (bs *bundleSet) classify(b *corecrl.Bundle, err error) string {
	switch {
	case errors.Is(err, corecrl.ErrCacheMiss):
		return "miss"
	case err != nil:
		return "ERR:" + firstLine(err.Error())
	case b == nil || b.BaseCRL == nil:
		return "NIL-BUNDLE"
	}
	baseOf := ""
	for _, n := range bs.names {
		w := bs.bundles[n]
		if !bytes.Equal(b.BaseCRL.Raw, w.BaseCRL.Raw) {
			continue
		}
		baseOf = n
		if (b.DeltaCRL == nil) != (w.DeltaCRL == nil) {
			continue
		}
		if b.DeltaCRL != nil && !bytes.Equal(b.DeltaCRL.Raw, w.DeltaCRL.Raw) {
			continue
		}
		return n
	}
	if baseOf != "" {
		return "MIXED(base of " + baseOf + ", delta of no such bundle)"
	}
	return "FOREIGN"
}

func firstLine(s string) string {
	if i := strings.IndexByte(s, '\n'); i >= 0 {
		s = s[:i]
	}
	if len(s) > 120 {
		s = s[:120]
	}
	return s
}

// ---- scenarios ----

type op struct {
	Kind   string `json:"kind"` // set | get
	URL    int    `json:"url"`
	Bundle string `json:"bundle,omitempty"`
}

type scenario struct {
	Name       string `json:"name"`
	Init       []op   `json:"init"`    // performed before the scheduler starts (start from a non-initial state)
	Threads    [][]op `json:"threads"` // one program per thread
	Crashable  []int  `json:"crashable"`
	MaxCrashes int    `json:"max_crashes"`
	Torn       bool   `json:"torn"`
	PerThread  bool   `json:"per_thread_instance"` // one FileCache per thread (separate processes share only the directory)
	Faultable  []int  `json:"faultable,omitempty"` // threads whose create/write/close/fsync/rename steps may be answered with an error
	MaxFaults  int    `json:"max_faults,omitempty"`
}

func set(u int, b string) op { return op{"set", u, b} }

// setc is a Set whose context is already cancelled: it may refuse (then it is like a failed Set), but if it reports
// success the bundle must have been stored - the freshness clause does not depend on the context.
func setc(u int, b string) op { return op{"setc", u, b} }

// setx is a Set whose context is cancelled WHILE the call is in progress (free-running pass: by another goroutine
// after a round-dependent delay of 0-300 us; under the cooperative scheduler it is an ordinary Set). Whatever the
// call reports, its effect must fall inside the call: a store that lands after the call has returned is a late writer.
func setx(u int, b string) op { return op{"setx", u, b} }
func get(u int) op            { return op{"get", u, ""} }

func scenarios(thorough bool) []scenario {
	s := []scenario{
		{Name: "W||R;R from A, crash+torn", Init: []op{set(0, "A")}, Threads: [][]op{{set(0, "B")}, {get(0), get(0)}}, Crashable: []int{0}, MaxCrashes: 1, Torn: true},
		{Name: "W||R from empty, crash+torn", Threads: [][]op{{set(0, "B")}, {get(0), get(0)}}, Crashable: []int{0}, MaxCrashes: 1, Torn: true, PerThread: true},
		{Name: "W||W same url||R", Threads: [][]op{{set(0, "A")}, {set(0, "B")}, {get(0)}}, MaxCrashes: 0},
		{Name: "W||W same url||R from C, crash", Init: []op{set(0, "C")}, Threads: [][]op{{set(0, "A")}, {set(0, "B")}, {get(0)}}, Crashable: []int{0, 1}, MaxCrashes: 1, PerThread: true},
		{Name: "W||W other url||R;R (isolation)", Init: []op{set(0, "A")}, Threads: [][]op{{set(0, "B")}, {set(1, "C")}, {get(0), get(1)}}, MaxCrashes: 0},
		{Name: "W;W||R;R (freshness) from A", Init: []op{set(0, "A")}, Threads: [][]op{{set(0, "B"), set(0, "C")}, {get(0), get(0)}}, Crashable: []int{0}, MaxCrashes: 1},
		{Name: "W;R||W (read own write)", Threads: [][]op{{set(0, "A"), get(0)}, {set(0, "B")}}, MaxCrashes: 0, Torn: true},
		// twins: the second store differs from the first only in content (same issuer, CRL number, dates)
		{Name: "W(twin);R||R from A", Init: []op{set(0, "A")}, Threads: [][]op{{set(0, "A2"), get(0)}, {get(0)}}, Crashable: []int{0}, MaxCrashes: 1},
		{Name: "W(B);W(twin B2)||R;R", Threads: [][]op{{set(0, "B"), set(0, "B2")}, {get(0), get(0)}}, MaxCrashes: 0},
		// URLs that differ only in letter case are different URLs
		{Name: "W(u1)||W(U1 upper case)||R;R (case isolation)", Init: []op{set(0, "A")}, Threads: [][]op{{set(0, "B")}, {set(2, "C")}, {get(0), get(2)}}, MaxCrashes: 0},
	}
	s = append(s,
		scenario{Name: "W(cancelled context);R||R from A", Init: []op{set(0, "A")}, Threads: [][]op{{setc(0, "B"), get(0)}, {get(0)}}, MaxCrashes: 0},
		scenario{Name: "W(context cancelled mid-call);W;R||R from A", Init: []op{set(0, "A")}, Threads: [][]op{{setx(0, "B"), set(0, "C"), get(0)}, {get(0)}}, MaxCrashes: 0},
	)
	// environment faults: one step of the writer is answered with an error (ENOSPC half-way through a write, EIO on
	// close/fsync, EXDEV on rename, ENOSPC on create). A Set that reports the error may or may not have taken effect;
	// whatever it leaves behind must still read as a miss or a complete bundle.
	s = append(s,
		scenario{Name: "W(fault)||R;R from A, torn", Init: []op{set(0, "A")}, Threads: [][]op{{set(0, "B")}, {get(0), get(0)}}, Faultable: []int{0}, MaxFaults: 1, Torn: true},
		scenario{Name: "W(fault);R||R from empty", Threads: [][]op{{set(0, "B"), get(0)}, {get(0)}}, Faultable: []int{0}, MaxFaults: 1, PerThread: true},
		scenario{Name: "W(fault)||W||R same url from C", Init: []op{set(0, "C")}, Threads: [][]op{{set(0, "A")}, {set(0, "B")}, {get(0)}}, Faultable: []int{0}, MaxFaults: 1},
	)
	if thorough {
		s = append(s,
			scenario{Name: "W(fault);W||R;R from A, fault+crash", Init: []op{set(0, "A")}, Threads: [][]op{{set(0, "B"), set(0, "C")}, {get(0), get(0)}}, Faultable: []int{0}, MaxFaults: 1, Crashable: []int{0}, MaxCrashes: 1},
			scenario{Name: "W||W||R;R same url, torn, 2 crashes", Init: []op{set(0, "C")}, Threads: [][]op{{set(0, "A")}, {set(0, "B")}, {get(0), get(0)}}, Crashable: []int{0, 1}, MaxCrashes: 2, Torn: true},
			scenario{Name: "W||R||R", Init: []op{set(0, "A")}, Threads: [][]op{{set(0, "B")}, {get(0), get(0)}, {get(0)}}, Crashable: []int{0}, MaxCrashes: 1, Torn: true, PerThread: true},
			scenario{Name: "W;W||W||R", Threads: [][]op{{set(0, "A"), set(1, "B")}, {set(0, "C")}, {get(0), get(1)}}, Crashable: []int{0}, MaxCrashes: 1},
		)
	}
	return s
}

// ---- one execution ----

type histOp struct {
	Thread  int    `json:"thread"`
	Kind    string `json:"kind"`
	URL     int    `json:"url"`
	In      string `json:"in,omitempty"`
	Out     string `json:"out"`
	Call    int64  `json:"call"`
	Ret     int64  `json:"ret"`
	Crashed bool   `json:"crashed,omitempty"`
}

type world struct {
	bs    *bundleSet
	root  string
	sc    scenario
	hist  []histOp
	seq   int64
	obs   []string // per thread running observation digest input
	round int      // free-running pass: round number (drives the delay of a mid-call cancellation)
}

var ctx = context.Background()

// privateTmp returns "TMPDIR=<a fresh private directory>" for a child process (set up in main).
var privateTmp = func(tag string) string { return "TMPDIR=" + os.TempDir() }

func (w *world) reset() {
	_ = os.RemoveAll(w.root)
	osshim.Reset()
	osshim.TornWrites = w.sc.Torn
	w.hist = w.hist[:0]
	w.seq = 0
	w.obs = make([]string, len(w.sc.Threads))
	c, err := crl.NewFileCache(w.root)
	must(err)
	for _, o := range w.sc.Init {
		must(c.Set(ctx, urls[o.URL], w.bs.bundles[o.Bundle]))
	}
}

func (w *world) bodies() []func() {
	w.reset()
	shared, err := crl.NewFileCache(w.root)
	must(err)
	var out []func()
	for ti, prog := range w.sc.Threads {
		ti, prog := ti, prog
		out = append(out, func() {
			c := shared
			if w.sc.PerThread {
				var err error
				c, err = crl.NewFileCache(w.root) // MkdirAll on an existing directory: one step
				if err != nil {
					w.hist = append(w.hist, histOp{Thread: ti, Kind: "new", Out: "ERR:" + err.Error(), Call: w.seq, Ret: w.seq})
					return
				}
			}
			for _, o := range prog {
				w.seq++
				idx := len(w.hist)
				w.hist = append(w.hist, histOp{Thread: ti, Kind: o.Kind, URL: o.URL, In: o.Bundle, Call: w.seq, Ret: -1, Crashed: true})
				// Crashed stays true until the call returns: a crash unwinds through here with a panic
				switch o.Kind {
				case "set", "setc", "setx":
					cx := ctx
					if o.Kind == "setc" {
						var cancel context.CancelFunc
						cx, cancel = context.WithCancel(ctx)
						cancel()
					}
					w.hist[idx].Kind = "set"
					err := c.Set(cx, urls[o.URL], w.bs.bundles[o.Bundle])
					w.seq++
					h := &w.hist[idx]
					h.Ret, h.Crashed = w.seq, false
					h.Out = "ok"
					if err != nil {
						h.Out = "ERR:" + firstLine(err.Error())
					}
				case "get":
					b, err := c.Get(ctx, urls[o.URL])
					w.seq++
					h := &w.hist[idx]
					h.Ret, h.Crashed = w.seq, false
					h.Out = w.bs.classify(b, err)
				}
			}
		})
	}
	return out
}

// How entries are named is the implementation's business (today: hex SHA-256 of the URL). The lister invariant
// "a leftover temporary file is never mistaken for an entry" is therefore judged against names LEARNED from the
// code under test: every URL (and a few more, for the shape) is stored once into an empty directory and the
// resulting file names are taken as that URL's entry names; the common shape (length and character class) of all
// learned names is what "looks like an entry" means.
type naming struct {
	known map[string]bool   // entry names of the scenario URLs
	shape func(string) bool // nil: the learned names have no common shape, the lister invariant is not judged
	desc  string
}

var (
	namingOnce sync.Once
	learned    *naming
)

func entryNaming(bs *bundleSet) *naming {
	namingOnce.Do(func() {
		n := &naming{known: map[string]bool{}}
		learned = n
		base := filepath.Join(hx.Scratch(), fmt.Sprintf("learn-%d", os.Getpid()))
		defer os.RemoveAll(base)
		var all []string
		extra := []string{"http://crl.example/x.crl", "https://other.example/some/longer/path/y.crl?z=1", "u"}
		for i, u := range append(append([]string{}, urls...), extra...) {
			d := filepath.Join(base, fmt.Sprint(i))
			c, err := crl.NewFileCache(d)
			if err != nil || c.Set(ctx, u, bs.bundles["A"]) != nil {
				n.desc = "not learned: a store into an empty directory failed"
				return
			}
			es, _ := os.ReadDir(d)
			for _, e := range es {
				if e.Type().IsRegular() {
					all = append(all, e.Name())
					if i < len(urls) {
						n.known[e.Name()] = true
					}
				}
			}
		}
		if len(all) == 0 {
			n.desc = "not learned: no regular file below the root after a store"
			return
		}
		L, hexOnly, alnum := len(all[0]), true, true
		for _, a := range all {
			if len(a) != L {
				n.desc = "entry names have no common length: lister invariant not judged"
				return
			}
			for _, ch := range a {
				if !strings.ContainsRune("0123456789abcdef", ch) {
					hexOnly = false
				}
				if !(ch >= '0' && ch <= '9' || ch >= 'a' && ch <= 'z' || ch >= 'A' && ch <= 'Z') {
					alnum = false
				}
			}
		}
		switch {
		case hexOnly:
			n.desc = fmt.Sprintf("%d lower-case hex digits", L)
			n.shape = func(x string) bool {
				if len(x) != L {
					return false
				}
				for _, ch := range x {
					if !strings.ContainsRune("0123456789abcdef", ch) {
						return false
					}
				}
				return true
			}
		case alnum:
			n.desc = fmt.Sprintf("%d letters or digits", L)
			n.shape = func(x string) bool {
				if len(x) != L {
					return false
				}
				for _, ch := range x {
					if !(ch >= '0' && ch <= '9' || ch >= 'a' && ch <= 'z' || ch >= 'A' && ch <= 'Z') {
						return false
					}
				}
				return true
			}
		default:
			n.desc = "entry names are not plain letters/digits: lister invariant not judged"
		}
	})
	return learned
}

// postMortem appends the fresh reader's Gets to the history and checks the directory.
func (w *world) postMortem() (problems []string) {
	c, err := crl.NewFileCache(w.root)
	if err != nil {
		return []string{"post-mortem: cannot open cache: " + err.Error()}
	}
	for u := range urls {
		w.seq++
		call := w.seq
		b, err := c.Get(ctx, urls[u])
		w.seq++
		w.hist = append(w.hist, histOp{Thread: 99, Kind: "get", URL: u, Out: w.bs.classify(b, err), Call: call, Ret: w.seq})
	}
	es, err := os.ReadDir(w.root)
	if err != nil {
		return []string{"post-mortem: cannot list cache root: " + err.Error()}
	}
	nm := entryNaming(w.bs)
	for _, e := range es {
		if nm.shape == nil || !nm.shape(e.Name()) {
			continue // a leftover temporary file: fine as long as it does not look like an entry
		}
		if !nm.known[e.Name()] {
			problems = append(problems, "lister: file "+e.Name()+" looks like an entry ("+nm.desc+") but is the entry of no stored URL (temporary file mistaken for an entry)")
		}
	}
	return problems
}

// ---- the oracle ----

type regIn struct {
	set     bool
	val     string
	crashed bool
}

var linCache sync.Map

func (w *world) allowed(u int) map[string]bool {
	a := map[string]bool{"miss": true}
	for _, o := range w.sc.Init {
		if o.URL == u {
			a[o.Bundle] = true
		}
	}
	for _, p := range w.sc.Threads {
		for _, o := range p {
			if (o.Kind == "set" || o.Kind == "setc" || o.Kind == "setx") && o.URL == u {
				a[o.Bundle] = true
			}
		}
	}
	return a
}

// judge returns violation (key, what) pairs for the finished execution.
func (w *world) judge(x *sched.Exec, pm []string) [][2]string {
	var v [][2]string
	for _, p := range x.Panics {
		v = append(v, [2]string{"panic-in-code-under-test", firstLine(p)})
	}
	for _, p := range pm {
		v = append(v, [2]string{"post-mortem/" + strings.SplitN(p, ":", 2)[0], p})
	}
	for _, h := range w.hist {
		if h.Crashed {
			continue
		}
		switch h.Kind {
		case "get":
			who := "live-reader"
			if h.Thread == 99 {
				who = "post-mortem-reader"
			}
			if !w.allowed(h.URL)[h.Out] {
				class := "foreign-or-mixed-bundle"
				if strings.HasPrefix(h.Out, "ERR:") {
					class = "undecodable-entry"
				} else if w.bs.bundles[h.Out] != nil {
					class = "bundle-of-another-url"
				}
				v = append(v, [2]string{"get/" + class + ":" + who, fmt.Sprintf("Get(u%d) by thread %d returned %s", h.URL+1, h.Thread, h.Out)})
			}
		case "set", "new":
			// The statement does not promise that a store (or opening the cache) succeeds. A Set that returned an
			// error is treated like an interrupted one: it may or may not have taken effect (see the register model
			// below); it shows up in the outcome histogram as "set-error".
		}
	}
	if len(v) > 0 {
		return v
	}
	// linearizability per URL (register), memoised on the canonical history
	hb, _ := json.Marshal(w.hist)
	hk := string(hb)
	if ok, hit := linCache.Load(hk); hit {
		if !ok.(bool) {
			v = append(v, [2]string{"history/not-linearizable", "call/return history is not linearizable w.r.t. a per-URL register: " + hk})
		}
		return v
	}
	initial := map[int]string{}
	for _, o := range w.sc.Init {
		initial[o.URL] = o.Bundle
	}
	ok := true
	for u := range urls {
		init := "miss"
		if b, has := initial[u]; has {
			init = b
		}
		model := porcupine.NondeterministicModel{
			Init: func() []interface{} { return []interface{}{init} },
			Step: func(state, input, output interface{}) []interface{} {
				in := input.(regIn)
				if in.set {
					if in.crashed {
						return []interface{}{state, in.val} // a killed Set may or may not have taken effect
					}
					return []interface{}{in.val}
				}
				if output.(string) == state.(string) {
					return []interface{}{state}
				}
				return nil
			},
		}
		var ops []porcupine.Operation
		for _, h := range w.hist {
			if h.URL != u || (h.Kind != "get" && h.Kind != "set") {
				continue
			}
			o := porcupine.Operation{ClientId: h.Thread % 50, Call: h.Call, Return: h.Ret, Output: h.Out}
			if h.Kind == "set" {
				o.Input = regIn{set: true, val: h.In, crashed: h.Crashed || h.Out != "ok"}
			} else {
				o.Input = regIn{}
				if h.Crashed {
					continue // a reader is never crashed in these scenarios; a pending read constrains nothing
				}
			}
			if h.Crashed {
				o.Return = 1 << 40 // pending forever
			}
			ops = append(ops, o)
		}
		if !porcupine.CheckOperations(model.ToModel(), ops) {
			ok = false
		}
	}
	linCache.Store(hk, ok)
	if !ok {
		v = append(v, [2]string{"history/not-linearizable", "call/return history is not linearizable w.r.t. a per-URL register: " + hk})
	}
	return v
}

// stateKey is the exact global state used for pruning in the unbounded search:
// history so far (events and outputs), directory content, per-thread progress and
// observations, open descriptors (content of the inode they refer to + offset).
func (w *world) stateKey(s *sched.Sched) string {
	h := sha256.New()
	hb, _ := json.Marshal(w.hist)
	h.Write(hb)
	es, _ := os.ReadDir(w.root)
	for _, e := range es {
		b, _ := os.ReadFile(filepath.Join(w.root, e.Name()))
		fmt.Fprintf(h, "|%s:%d:", e.Name(), len(b))
		h.Write(b)
	}
	fmt.Fprintf(h, "|steps%v|pending%q", s.ThreadSteps(), s.PendingOps())
	for i, o := range w.obs {
		fmt.Fprintf(h, "|obs%d:%s", i, o)
	}
	for _, f := range osshim.OpenFilesOf() {
		raw := f.Raw()
		fi, err := raw.Stat()
		if err != nil {
			continue // closed
		}
		off, _ := raw.Seek(0, io.SeekCurrent)
		b := make([]byte, fi.Size())
		_, _ = raw.ReadAt(b, 0)
		fmt.Fprintf(h, "|fd(T%d,%s,off%d):", f.Owner(), filepath.Base(raw.Name()), off)
		h.Write(b)
	}
	return string(h.Sum(nil))
}

// ---- worker: explores one (scenario, bound) job ----

type job struct {
	Scenario scenario `json:"scenario"`
	Bound    int      `json:"bound"` // -1: unbounded with state pruning
	Bundles  string   `json:"bundles"`
	Root     string   `json:"root"`
	Deadline int      `json:"deadline_s"`
}

type jobResult struct {
	Job        string         `json:"job"`
	Executions int            `json:"executions"`
	Pruned     int            `json:"pruned"`
	States     int            `json:"states"`
	Points     int            `json:"points"`
	MaxDepth   int            `json:"max_depth"`
	Complete   bool           `json:"complete"`
	Outcomes   map[string]int `json:"outcomes"`
	Crashes    int            `json:"executions_with_crash"`
	Faults     int            `json:"executions_with_fault"`
	Conflicts  int            `json:"executions_with_concurrent_conflict"`
	Violations []violation    `json:"violations"`
	Sample     any            `json:"sample"`
	ShimActive bool           `json:"shim_active"`
	Foreign    int64          `json:"foreign_goroutine_steps"` // > 0: the code under test does file-system steps on goroutines of its own
	ReplayOK   bool           `json:"replay_deterministic"`
}

type violation struct {
	Key      string   `json:"key"`
	What     string   `json:"what"`
	Scenario scenario `json:"scenario"`
	Choices  []int    `json:"choices"`
	Trace    []string `json:"trace"`
	History  []histOp `json:"history"`
}

func runJob(j job) jobResult {
	w := &world{bs: loadBundles(j.Bundles), root: j.Root, sc: j.Scenario}
	osshim.Observe = func(t int, what string) {
		if t >= 0 && t < len(w.obs) {
			s := sha256.Sum256([]byte(w.obs[t] + "|" + what))
			w.obs[t] = hex.EncodeToString(s[:8])
		}
	}
	res := jobResult{Job: fmt.Sprintf("%s / bound %d", j.Scenario.Name, j.Bound), Outcomes: map[string]int{}}
	cfg := sched.Config{Crashable: map[int]bool{}, MaxCrashes: j.Scenario.MaxCrashes, Faultable: map[int]bool{}, MaxFaults: j.Scenario.MaxFaults}
	for _, c := range j.Scenario.Crashable {
		cfg.Crashable[c] = true
	}
	for _, c := range j.Scenario.Faultable {
		cfg.Faultable[c] = true
	}
	// self-check 1: the shim is active (the code under test reaches the scheduler)
	x0 := sched.Run(nil, cfg, w.bodies()...)
	res.ShimActive = len(x0.Points) > len(j.Scenario.Threads)
	if n := sched.ForeignSteps(); n > 0 {
		// E1 schedules the threads of the harness, not goroutines the code under test starts by itself: their steps
		// run free, executions are no longer a function of the choice sequence. Not explored (the parent reports it).
		time.Sleep(50 * time.Millisecond)
		res.Foreign = sched.ForeignSteps()
		res.ReplayOK = true
		_ = os.RemoveAll(w.root)
		return res
	}
	// self-check 2: replaying the same schedule twice gives identical traces and histories
	h0, _ := json.Marshal(w.hist)
	x1 := sched.Run(x0.Choices, cfg, w.bodies()...)
	h1, _ := json.Marshal(w.hist)
	res.ReplayOK = strings.Join(x0.Trace, ";") == strings.Join(x1.Trace, ";") && string(h0) == string(h1)
	if !res.ShimActive || !res.ReplayOK {
		return res
	}
	visited := map[string]struct{}{}
	if j.Bound < 0 {
		cfg.StateKey = w.stateKey
		cfg.Visit = func(k string) bool {
			if _, ok := visited[k]; ok {
				return true
			}
			visited[k] = struct{}{}
			return false
		}
	}
	seenViol := map[string]bool{}
	deadline := time.Now().Add(time.Duration(j.Deadline) * time.Second)
	check := func(x *sched.Exec) {
		pm := w.postMortem()
		viol := w.judge(x, pm)
		var outs []string
		for _, h := range w.hist {
			if h.Kind == "get" {
				outs = append(outs, fmt.Sprintf("T%d:%s", h.Thread, h.Out))
			}
			if (h.Kind == "set" || h.Kind == "new") && !h.Crashed && h.Out != "ok" {
				outs = append(outs, fmt.Sprintf("T%d:%s-error", h.Thread, h.Kind))
			}
		}
		crashed := false
		for _, c := range x.Crashed {
			crashed = crashed || c
		}
		if crashed {
			res.Crashes++
			outs = append(outs, "crash")
		}
		if x.Faults > 0 {
			res.Faults++
			outs = append(outs, "fault")
		}
		res.Outcomes[strings.Join(outs, " ")]++
		// non-trivial: two operations on the same URL, at least one a Set, overlapped in time
		for a := range w.hist {
			for b := range w.hist {
				ha, hb := w.hist[a], w.hist[b]
				if a < b && ha.Thread != hb.Thread && ha.URL == hb.URL && (ha.Kind == "set" || hb.Kind == "set") && ha.Thread != 99 && hb.Thread != 99 {
					ra, rb := ha.Ret, hb.Ret
					if ha.Crashed {
						ra = 1 << 40
					}
					if hb.Crashed {
						rb = 1 << 40
					}
					if ha.Call < rb && hb.Call < ra {
						res.Conflicts++
						goto done
					}
				}
			}
		}
	done:
		for _, kv := range viol {
			if seenViol[kv[0]] {
				continue
			}
			seenViol[kv[0]] = true
			res.Violations = append(res.Violations, violation{Key: kv[0], What: kv[1], Scenario: j.Scenario, Choices: append([]int(nil), x.Choices...), Trace: append([]string(nil), x.Trace...), History: append([]histOp(nil), w.hist...)})
		}
		if res.Sample == nil && crashed {
			res.Sample = map[string]any{"scenario": j.Scenario.Name, "schedule": append([]string(nil), x.Trace...), "history": append([]histOp(nil), w.hist...)}
		}
	}
	st, complete := sched.Explore(j.Bound, cfg, w.bodies, check, func() bool { return time.Now().After(deadline) })
	res.Executions, res.Pruned, res.Points, res.MaxDepth, res.Complete = st.Executions, st.Pruned, st.Points, st.MaxDepth, complete
	res.States = len(visited)
	_ = os.RemoveAll(w.root)
	return res
}

// ---- E4: kill injection on real processes ----

func procSet(root, url, bundleDir, name string) {
	bs := loadBundles(bundleDir)
	c, err := crl.NewFileCache(root)
	must(err)
	if err := c.Set(ctx, url, bs.bundles[name]); err != nil {
		fmt.Println("SET-ERROR", err)
		os.Exit(3)
	}
	fmt.Println("SET-OK")
}

type e4Result struct {
	Kills      int            `json:"kills"`
	Landed     int            `json:"killed_processes"`
	Outcomes   map[string]int `json:"outcomes"`
	Violations []violation    `json:"violations"`
	Skipped    string         `json:"skipped,omitempty"`
	Syscalls   map[string]int `json:"syscall_counts"`
}

var e4Syscalls = []string{"openat", "write", "pwrite64", "close", "renameat", "renameat2", "rename", "unlinkat", "unlink", "fsync", "fdatasync", "ftruncate", "linkat", "fchmod", "fchmodat", "mkdirat"}

func runE4(r *hx.Run, bundleDir, scratch string) e4Result {
	res := e4Result{Outcomes: map[string]int{}, Syscalls: map[string]int{}}
	strace, err := exec.LookPath("strace")
	if err != nil {
		res.Skipped = "strace not found"
		return res
	}
	self, _ := os.Executable()
	bs := loadBundles(bundleDir)
	root0 := filepath.Join(scratch, "e4")
	// dry run: count the invocations of every syscall of the set
	dry := filepath.Join(root0, "dry")
	_ = os.MkdirAll(dry, 0o755)
	logf := filepath.Join(root0, "dry.log")
	cmd := exec.Command(strace, "-f", "-o", logf, "-e", "trace="+strings.Join(e4Syscalls, ","), self, "--proc-set", filepath.Join(dry, "cache"), urls[0], bundleDir, "B")
	out, err := cmd.CombinedOutput()
	if err != nil || !strings.Contains(string(out), "SET-OK") {
		res.Skipped = fmt.Sprintf("strace dry run failed (ptrace not permitted?): %v %s", err, firstLine(string(out)))
		return res
	}
	lg, _ := os.ReadFile(logf)
	for _, line := range strings.Split(string(lg), "\n") {
		f := strings.Fields(line)
		if len(f) < 2 {
			continue
		}
		call := f[1]
		if i := strings.IndexByte(call, '('); i > 0 {
			res.Syscalls[call[:i]]++
		}
	}
	type kill struct {
		sys  string
		k    int
		init string
	}
	var kills []kill
	for _, init := range []string{"", "A"} {
		for _, s := range e4Syscalls {
			for k := 1; k <= res.Syscalls[s]+1; k++ {
				if res.Syscalls[s] == 0 && k > 1 {
					break
				}
				kills = append(kills, kill{s, k, init})
			}
		}
	}
	var mu sync.Mutex
	r.Parallel(len(kills), func(i int) {
		kl := kills[i]
		root := filepath.Join(root0, fmt.Sprintf("k%d", i), "cache")
		defer os.RemoveAll(filepath.Dir(root))
		allowed := map[string]bool{"miss": true, "B": true}
		if kl.init != "" {
			c, err := crl.NewFileCache(root)
			must(err)
			must(c.Set(ctx, urls[0], bs.bundles[kl.init]))
			allowed[kl.init] = true
		}
		cmd := exec.Command(strace, "-f", "-o", "/dev/null", "-e", "trace="+kl.sys, "-e", fmt.Sprintf("inject=%s:signal=SIGKILL:when=%d", kl.sys, kl.k), self, "--proc-set", root, urls[0], bundleDir, "B")
		cmd.Env = append(os.Environ(), privateTmp(fmt.Sprintf("k%d", i)))
		out, _ := cmd.CombinedOutput()
		killed := !strings.Contains(string(out), "SET-OK")
		// fresh observer (this process never shared memory with the killed one)
		c, err := crl.NewFileCache(root)
		got := "ERR:cannot open cache"
		if err == nil {
			b, gerr := c.Get(ctx, urls[0])
			got = bs.classify(b, gerr)
		}
		var stray string
		if es, err := os.ReadDir(root); err == nil {
			for _, e := range es {
				if nm := entryNaming(bs); nm.shape != nil && nm.shape(e.Name()) && !nm.known[e.Name()] {
					stray = e.Name()
				}
			}
		}
		mu.Lock()
		defer mu.Unlock()
		res.Kills++
		if killed {
			res.Landed++
		}
		res.Outcomes[fmt.Sprintf("init=%q killed=%v -> %s", kl.init, killed, got)]++
		what := fmt.Sprintf("real process killed on entry to %s #%d (initial entry %q): fresh reader got %s", kl.sys, kl.k, kl.init, got)
		if !allowed[got] {
			res.Violations = append(res.Violations, violation{Key: "e4/undecodable-or-foreign-entry-after-kill", What: what})
		}
		if !killed && got != "B" {
			res.Violations = append(res.Violations, violation{Key: "e4/acknowledged-write-not-visible", What: what})
		}
		if stray != "" {
			res.Violations = append(res.Violations, violation{Key: "e4/temporary-file-looks-like-entry", What: what + "; stray " + stray})
		}
	}, nil)
	_ = os.RemoveAll(root0)
	return res
}

// ---- driver ----

func main() {
	if len(os.Args) > 1 && os.Args[1] == "--proc-set" {
		procSet(os.Args[2], os.Args[3], os.Args[4], os.Args[5])
		return
	}
	if len(os.Args) > 1 && os.Args[1] == "--free-worker" {
		var j freeJob
		must(json.Unmarshal([]byte(os.Args[2]), &j))
		b, _ := json.Marshal(runFreeWorker(j))
		fmt.Println("RESULT " + string(b))
		return
	}
	if len(os.Args) > 1 && os.Args[1] == "--worker" {
		var j job
		must(json.Unmarshal([]byte(os.Args[2]), &j))
		res := runJob(j)
		b, _ := json.Marshal(res)
		fmt.Println("RESULT " + string(b))
		return
	}
	r := hx.New("C14")
	r.Rule = "E1: every execution = one complete schedule of the file-system steps of 2-3 threads running the real FileCache.Set/Get code (plus crash choices at every writer step, two-step torn writes and - in the fault scenarios - one environment fault: ENOSPC half-way through a write or on create, EIO on close/fsync, EXDEV on rename), enumerated by stateless DFS with preemption bound (quick: 2) or without bound with exact global-state pruning (thorough); E4: one real process per (syscall, k) killed on entry to the k-th invocation. Non-trivial = executions in which two operations on the same URL, at least one a Set, overlapped in time."
	r.Assumptions = []string{"rename(2), unlink(2) and open-inode semantics are the kernel's (used, not verified)", "power-loss semantics (unsynced data) are outside the property: a killed process leaves the page cache intact", "steps between two file-system operations of one thread are atomic (no shared memory between FileCache users besides the directory) - validated separately by the free-running -race pass E5 (extra.e5_free_running), which is a sample and never counts towards exhaustive", "at most 3 concurrent participants + 1 post-mortem reader"}
	scratch := hx.Scratch()
	bundleDir := filepath.Join(scratch, "bundles")
	writeBundles(bundleDir)
	self, _ := os.Executable()
	// The code under test may stage files in os.TempDir(). Every process of this run gets a private TMPDIR, and one
	// on ANOTHER file system than the cache roots where that is possible (scratch is tmpfs, /tmp usually is not):
	// a rename from there fails with EXDEV for real. Removed before the run ends.
	tmpBase, terr := os.MkdirTemp("/tmp", "verif-c14-tmp-")
	if terr != nil {
		tmpBase = filepath.Join(scratch, "tmpdirs")
	}
	privateTmp = func(tag string) string {
		d := filepath.Join(tmpBase, tag)
		_ = os.MkdirAll(d, 0o700)
		return "TMPDIR=" + d
	}
	_ = os.Setenv("TMPDIR", strings.TrimPrefix(privateTmp("parent"), "TMPDIR="))
	finish := func() {
		_ = os.RemoveAll(tmpBase)
		r.Finish()
	}

	if r.Replay != "" {
		var v violation
		if err := r.LoadReplay(&v); err != nil {
			r.Infra("replay: %v", err)
			finish()
		}
		if len(v.Trace) == 1 && v.Trace[0] == "large-bundle" {
			r.Extra["large_bundles"] = runLarge(r, scratch)
			finish()
		}
		if len(v.Trace) == 1 && strings.HasPrefix(v.Trace[0], "free-running") {
			// a finding of the free-running pass: re-run that pass for the scenario (real schedules, not a recorded one)
			r.Extra["e5_free_running"] = runFree(r, self, bundleDir, scratch, &v.Scenario)
			finish()
		}
		w := &world{bs: loadBundles(bundleDir), root: filepath.Join(scratch, "replay", "cache"), sc: v.Scenario}
		cfg := sched.Config{Crashable: map[int]bool{}, MaxCrashes: v.Scenario.MaxCrashes, Faultable: map[int]bool{}, MaxFaults: v.Scenario.MaxFaults}
		for _, c := range v.Scenario.Crashable {
			cfg.Crashable[c] = true
		}
		for _, c := range v.Scenario.Faultable {
			cfg.Faultable[c] = true
		}
		x := sched.Run(v.Choices, cfg, w.bodies()...)
		pm := w.postMortem()
		fmt.Println("schedule:", strings.Join(x.Trace, " ; "))
		hb, _ := json.Marshal(w.hist)
		fmt.Println("history:", string(hb))
		r.Eval(1)
		for _, kv := range w.judge(x, pm) {
			r.Violation(kv[0], kv[1], v)
		}
		finish()
	}

	bound := 2
	deadline := int(hx.Budget(40*time.Second) / time.Second)
	if r.Thorough() {
		bound = -1
		deadline = int(hx.Budget(900*time.Second) / time.Second)
	}
	var jobs []job
	for i, sc := range scenarios(r.Thorough()) {
		jobs = append(jobs, job{Scenario: sc, Bound: bound, Bundles: bundleDir, Root: filepath.Join(scratch, fmt.Sprintf("w%d", i), "d1", "cache"), Deadline: deadline})
		// the other search as well: thorough adds the preemption-bounded search (bound 3: the first counterexample
		// has the fewest preemptions), quick adds the unbounded state-pruned search (a few thousand executions)
		b2 := -1
		if r.Thorough() {
			b2 = 3
		}
		jobs = append(jobs, job{Scenario: sc, Bound: b2, Bundles: bundleDir, Root: filepath.Join(scratch, fmt.Sprintf("w%db", i), "d1", "cache"), Deadline: deadline})
	}
	results := make([]jobResult, len(jobs))
	r.Parallel(len(jobs), func(i int) {
		jb, _ := json.Marshal(jobs[i])
		cmd := exec.Command(self, "--worker", string(jb))
		cmd.Env = append(os.Environ(), "GOMAXPROCS=1", privateTmp(fmt.Sprintf("w%d", i)))
		out, err := cmd.CombinedOutput()
		idx := bytes.LastIndex(out, []byte("RESULT "))
		if err != nil || idx < 0 {
			r.Infra("worker %q failed: %v %s", jobs[i].Scenario.Name, err, firstLine(string(out)))
			return
		}
		if err := json.Unmarshal(bytes.TrimSpace(out[idx+7:]), &results[i]); err != nil {
			r.Infra("worker result: %v", err)
		}
	}, nil)
	shim := true
	totalStates := 0
	var perJob []map[string]any
	for i, res := range results {
		if res.Job == "" {
			continue
		}
		if !res.ShimActive {
			shim = false
		}
		if res.Foreign > 0 {
			r.Capped(fmt.Sprintf("%s: E1 not explored - the code under test performs file-system steps on goroutines it starts itself (%d such steps in one execution); the cooperative scheduler owns only the harness threads. E4 and the free-running pass (E5) still judge", res.Job, res.Foreign))
			continue
		}
		if !res.ReplayOK {
			r.Infra("replay of one schedule was not deterministic in %q", res.Job)
		}
		r.Eval(res.Executions)
		r.Transition(res.Points)
		r.Trace(res.Executions - res.Pruned)
		totalStates += res.States
		if !res.Complete {
			r.Capped(fmt.Sprintf("%s: internal deadline of %d s hit after %d executions", res.Job, jobs[i].Deadline, res.Executions))
		}
		var keys []string
		for k := range res.Outcomes {
			keys = append(keys, k)
		}
		sort.Strings(keys)
		for _, k := range keys {
			for n := 0; n < 1; n++ {
				r.Outcome(jobs[i].Scenario.Name + " -> " + k)
			}
		}
		for n := 0; n < res.Conflicts; n++ {
			r.Nontrivial(fmt.Sprintf("%d/%d", i, n))
		}
		if res.Sample != nil {
			r.Sample(res.Sample)
		}
		for _, v := range res.Violations {
			r.Violation(v.Key, v.What+" | scenario: "+v.Scenario.Name+" | schedule: "+strings.Join(v.Trace, " ; "), v)
		}
		perJob = append(perJob, map[string]any{"job": res.Job, "executions": res.Executions, "pruned": res.Pruned, "global_states": res.States, "scheduling_points": res.Points, "max_depth": res.MaxDepth, "complete": res.Complete, "executions_with_crash": res.Crashes, "executions_with_environment_fault": res.Faults, "executions_with_overlapping_conflict": res.Conflicts, "distinct_outcomes": len(res.Outcomes)})
	}
	r.Extra["e1_jobs"] = perJob
	r.Extra["preemption_bound"] = strconv.Itoa(bound) + " (-1 = unbounded with global-state pruning)"
	if totalStates > 0 {
		r.State(totalStates)
	} else {
		r.State(int(r.Evaluations()))
	}
	if !shim {
		r.Capped("E1 not available: the code under test did not reach the scheduler through the os shim (overlay build failed or the code no longer uses package os); only E4 was run")
	}
	// E4
	e4 := runE4(r, bundleDir, scratch)
	r.Extra["e4"] = map[string]any{"kill_points": e4.Kills, "processes_killed": e4.Landed, "outcomes": e4.Outcomes, "syscall_counts_of_one_set": e4.Syscalls, "skipped": e4.Skipped}
	r.Eval(e4.Kills)
	for _, v := range e4.Violations {
		r.Violation(v.Key, v.What, v)
	}
	if e4.Skipped != "" && !shim {
		r.Infra("neither E1 nor E4 could run: %s", e4.Skipped)
	}
	// large bundles (sequential, deterministic)
	r.Extra["large_bundles"] = runLarge(r, scratch)
	r.Eval(3)
	// E5 (supplementary)
	r.Extra["e5_free_running"] = runFree(r, self, bundleDir, scratch, nil)
	finish()
}
