#!/bin/bash
# Builds the C14 harness with the packages under test compiled through the os-shim overlay.
# $1 = output binary. Uses VERIF_OVERLAY (mutation self-tests) as the base overlay when set.
set -u
out=$1
VERIF=$(cd "$(dirname "$(readlink -f "$0")")/../.." && pwd)
cd "$VERIF"
export GOFLAGS="-mod=mod" GOPROXY=off GOSUMDB=off GOTOOLCHAIN=local
ovdir=$VERIF/build/c14-overlay${VERIF_BUILD_SUFFIX:-}
base=()
if [ -n "${VERIF_OVERLAY:-}" ]; then base=(-base "$VERIF_OVERLAY"); fi
go run ./cmd/genshim engine/osshim || exit 1
ov=$(go run ./cmd/osrewrite -out "$ovdir" "${base[@]}" /repo/internal/file /repo/verifier/crl) || exit 1
# E5: the same harness built with the race detector and WITHOUT the os shim (free-running supplementary pass)
rm -f "$out.race"
if [ -n "${VERIF_OVERLAY:-}" ]; then
  go build -race -overlay "$VERIF_OVERLAY" -o "$out.race" ./harness/c14 2> "$ovdir/race.err" || rm -f "$out.race"
else
  go build -race -o "$out.race" ./harness/c14 2> "$ovdir/race.err" || rm -f "$out.race"
fi
if go build -overlay "$ov" -o "$out" ./harness/c14 2> "$ovdir/build.err"; then
  exit 0
fi
echo "C14: overlay build failed, falling back to a build without the os shim (E4 only):" >&2
head -20 "$ovdir/build.err" >&2
if [ -n "${VERIF_OVERLAY:-}" ]; then
  go build -overlay "$VERIF_OVERLAY" -o "$out" ./harness/c14
else
  go build -o "$out" ./harness/c14
fi
