// E5 - supplementary free-running pass of the same scenario bodies (not a deciding step).
//
// The cooperative scheduler of E1 yields only at file-system steps: it assumes that whatever a thread does
// between two file-system steps is atomic, i.e. that FileCache users share nothing in memory. A cooperative
// hand-off is a happens-before edge, so a race detector is blind under E1. This pass validates the assumption
// separately: the same scenarios run with real goroutines, no scheduler and no shim, in a binary built with
// -race (`<harness>.race`, see build.sh), many rounds each; and several real processes store into one
// directory while a reader polls. Every observed execution is judged by the same oracle as E1 (allowed
// results, linearizability, post-mortem lister). What it covers is a sample of schedules - it is reported
// under extra.e5_free_running and never contributes to `exhaustive`.
package main

import (
	"bytes"
	"context"
	"crypto/rand"
	"crypto/x509"
	"crypto/x509/pkix"
	"encoding/asn1"
	"encoding/json"
	"errors"
	"fmt"
	"math/big"
	"os"
	"os/exec"
	"path/filepath"
	"sort"
	"strings"
	"sync"
	"time"

	corecrl "github.com/notaryproject/notation-core-go/revocation/crl"
	"github.com/notaryproject/notation-go/verifier/crl"
	"github.com/notaryproject/notation-go/zzverif/engine/sched"
	"github.com/notaryproject/notation-go/zzverif/lib/hx"
	"github.com/notaryproject/notation-go/zzverif/lib/pki"
)

type freeJob struct {
	Scenario scenario `json:"scenario"`
	Bundles  string   `json:"bundles"`
	Root     string   `json:"root"`
	Rounds   int      `json:"rounds"`
	Deadline int      `json:"deadline_s"`
}

type freeResult struct {
	Scenario   string         `json:"scenario"`
	Rounds     int            `json:"rounds"`
	Overlaps   int            `json:"rounds_with_overlapping_conflict"`
	Outcomes   map[string]int `json:"outcomes"`
	Histories  int            `json:"distinct_histories"`
	Violations []violation    `json:"violations"`
}

// runFreeRound runs the scenario's thread programs as free goroutines and leaves the merged, rank-stamped
// history in w.hist. The goroutines share nothing of the harness: each appends to its own slice and stamps
// calls/returns with the monotonic clock, so the only happens-before edges are the start barrier, the final
// join and whatever the code under test establishes itself.
func (w *world) runFreeRound() (panics []string) {
	w.reset()
	shared, err := crl.NewFileCache(w.root)
	must(err)
	n := len(w.sc.Threads)
	local := make([][]histOp, n)
	pan := make([]string, n)
	start := make(chan struct{})
	var wg sync.WaitGroup
	t0 := time.Now()
	for ti, prog := range w.sc.Threads {
		ti, prog := ti, prog
		wg.Add(1)
		go func() {
			defer wg.Done()
			defer func() {
				if p := recover(); p != nil {
					pan[ti] = fmt.Sprint(p)
				}
			}()
			<-start
			c := shared
			if w.sc.PerThread {
				var err error
				if c, err = crl.NewFileCache(w.root); err != nil {
					local[ti] = append(local[ti], histOp{Thread: ti, Kind: "new", Out: "ERR:" + err.Error()})
					return
				}
			}
			for _, o := range prog {
				h := histOp{Thread: ti, Kind: o.Kind, URL: o.URL, In: o.Bundle}
				h.Call = time.Since(t0).Nanoseconds()
				switch o.Kind {
				case "set", "setc", "setx":
					cx := ctx
					if o.Kind == "setc" {
						var cancel context.CancelFunc
						cx, cancel = context.WithCancel(ctx)
						cancel()
					}
					if o.Kind == "setx" {
						var cancel context.CancelFunc
						cx, cancel = context.WithCancel(ctx)
						delay := time.Duration((w.round*37)%301) * time.Microsecond
						go func() {
							if delay > 0 {
								time.Sleep(delay)
							}
							cancel()
						}()
					}
					h.Kind = "set"
					err := c.Set(cx, urls[o.URL], w.bs.bundles[o.Bundle])
					h.Ret = time.Since(t0).Nanoseconds()
					h.Out = "ok"
					if err != nil {
						h.Out = "ERR:" + firstLine(err.Error())
					}
				case "get":
					b, err := c.Get(ctx, urls[o.URL])
					h.Ret = time.Since(t0).Nanoseconds()
					h.Out = w.bs.classify(b, err)
				}
				local[ti] = append(local[ti], h)
			}
		}()
	}
	close(start)
	wg.Wait()
	for _, p := range pan {
		if p != "" {
			panics = append(panics, p)
		}
	}
	// merge; replace nanoseconds by dense ranks. At equal instants calls are ranked before returns, so two
	// operations that touch in time count as overlapping (the weaker constraint - never a false alarm).
	type ev struct {
		t      int64
		ret    bool
		th, ix int
	}
	var evs []ev
	for ti, l := range local {
		for ix, h := range l {
			if h.Kind == "new" {
				continue
			}
			evs = append(evs, ev{h.Call, false, ti, ix}, ev{h.Ret, true, ti, ix})
		}
	}
	sort.SliceStable(evs, func(a, b int) bool {
		if evs[a].t != evs[b].t {
			return evs[a].t < evs[b].t
		}
		if evs[a].ret != evs[b].ret {
			return !evs[a].ret
		}
		if evs[a].th != evs[b].th {
			return evs[a].th < evs[b].th
		}
		return evs[a].ix < evs[b].ix
	})
	for rank, e := range evs {
		if e.ret {
			local[e.th][e.ix].Ret = int64(rank + 1)
		} else {
			local[e.th][e.ix].Call = int64(rank + 1)
		}
	}
	w.hist = w.hist[:0]
	for _, l := range local {
		w.hist = append(w.hist, l...)
	}
	sort.SliceStable(w.hist, func(a, b int) bool { return w.hist[a].Call < w.hist[b].Call })
	w.seq = int64(len(evs) + 1)
	return panics
}

func runFreeWorker(j freeJob) freeResult {
	w := &world{bs: loadBundles(j.Bundles), root: j.Root, sc: j.Scenario}
	res := freeResult{Scenario: j.Scenario.Name, Outcomes: map[string]int{}}
	seen := map[string]bool{}
	hists := map[string]bool{}
	deadline := time.Now().Add(time.Duration(j.Deadline) * time.Second)
	for i := 0; i < j.Rounds && !time.Now().After(deadline); i++ {
		w.round = i
		panics := w.runFreeRound()
		if strings.Contains(fmt.Sprint(j.Scenario.Threads), "setx") {
			time.Sleep(2 * time.Millisecond) // let a late writer land before the post-mortem reader looks
		}
		pm := w.postMortem()
		viol := w.judge(&sched.Exec{Panics: panics}, pm)
		res.Rounds++
		var outs []string
		for _, h := range w.hist {
			if h.Kind == "get" {
				outs = append(outs, fmt.Sprintf("T%d:%s", h.Thread, h.Out))
			}
		}
		sort.Strings(outs)
		res.Outcomes[strings.Join(outs, " ")]++
		hb, _ := json.Marshal(w.hist)
		hists[string(hb)] = true
	overlap:
		for a := range w.hist {
			for b := range w.hist {
				ha, hb := w.hist[a], w.hist[b]
				if a < b && ha.Thread != hb.Thread && ha.URL == hb.URL && (ha.Kind == "set" || hb.Kind == "set") && ha.Thread != 99 && hb.Thread != 99 && ha.Call < hb.Ret && hb.Call < ha.Ret {
					res.Overlaps++
					break overlap
				}
			}
		}
		for _, kv := range viol {
			k := "free/" + kv[0]
			if seen[k] {
				continue
			}
			seen[k] = true
			res.Violations = append(res.Violations, violation{Key: k, What: kv[1] + " (free-running goroutines, round " + fmt.Sprint(i) + ")", Scenario: j.Scenario, Trace: []string{"free-running"}, History: append([]histOp(nil), w.hist...)})
		}
	}
	res.Histories = len(hists)
	_ = os.RemoveAll(w.root)
	return res
}

// raceSummary extracts the first data-race report of a race-detector log: the two access lines and the first
// frames below each that belong to the code under test.
func raceSummary(log string) (key, what string) {
	lines := strings.Split(log, "\n")
	var frames []string
	for _, l := range lines {
		t := strings.TrimSpace(l)
		if strings.HasPrefix(t, "github.com/notaryproject/notation-go/") && !strings.Contains(t, "/zzverif/") {
			f := strings.TrimPrefix(t, "github.com/notaryproject/notation-go/")
			f = strings.TrimSuffix(f, "()")
			frames = append(frames, f)
			if len(frames) == 4 {
				break
			}
		}
	}
	if len(frames) == 0 {
		return "", ""
	}
	return "free/data-race-in-cache-code", "the race detector reports unsynchronised accesses by concurrent FileCache users, first frames in the code under test: " + strings.Join(frames, " <- ")
}

// freeOne runs one scenario in a -race worker process; raceLog is non-empty when the detector (or the runtime) stopped it.
func freeOne(r *hx.Run, raceBin, bundleDir, scratch string, i int, sc scenario, rounds, deadline int) (res freeResult, raceLog string) {
	logp := filepath.Join(scratch, fmt.Sprintf("race-%d", i))
	jb, _ := json.Marshal(freeJob{Scenario: sc, Bundles: bundleDir, Root: filepath.Join(scratch, fmt.Sprintf("f%d", i), "cache"), Rounds: rounds, Deadline: deadline})
	cmd := exec.Command(raceBin, "--free-worker", string(jb))
	cmd.Env = append(os.Environ(), "GORACE=halt_on_error=1 exitcode=66 log_path="+logp, privateTmp(fmt.Sprintf("f%d", i)))
	o, err := cmd.CombinedOutput()
	if ee, ok := err.(*exec.ExitError); ok && ee.ExitCode() == 66 {
		ms, _ := filepath.Glob(logp + ".*")
		for _, m := range ms {
			b, _ := os.ReadFile(m)
			raceLog += string(b)
		}
		if raceLog == "" {
			raceLog = string(o)
		}
		return
	}
	idx := bytes.LastIndex(o, []byte("RESULT "))
	if err != nil || idx < 0 {
		// a fatal runtime error of the code under test (e.g. concurrent map writes) is a finding, anything else infra
		if bytes.Contains(o, []byte("fatal error: concurrent map")) {
			return res, string(o)
		}
		r.Infra("free-running worker %q failed: %v %s", sc.Name, err, firstLine(string(o)))
		return
	}
	if err := json.Unmarshal(bytes.TrimSpace(o[idx+7:]), &res); err != nil {
		r.Infra("free-running worker result: %v", err)
	}
	return
}

// runFree is called by the parent after E1/E4. raceBin may be missing (then goroutine rounds are skipped).
func runFree(r *hx.Run, self, bundleDir, scratch string, only *scenario) map[string]any {
	out := map[string]any{"role": "supplementary free-running pass: validates E1's assumption that FileCache users share no memory (race detector) and samples real schedules of goroutines and processes under the same oracle; not exhaustive, not a deciding step"}
	rounds, deadline, procRounds := 150, int(hx.Budget(20*time.Second)/time.Second), 12
	if r.Thorough() {
		rounds, deadline, procRounds = 4000, int(hx.Budget(240*time.Second)/time.Second), 150
	}
	raceBin := self + ".race"
	if _, err := os.Stat(raceBin); err != nil {
		out["goroutines"] = "skipped: no -race build of the harness (" + raceBin + ")"
	} else {
		scs := scenarios(r.Thorough())
		if only != nil {
			scs = []scenario{*only}
		}
		results := make([]freeResult, len(scs))
		races := make([]string, len(scs))
		r.Parallel(len(scs), func(i int) {
			results[i], races[i] = freeOne(r, raceBin, bundleDir, scratch, i, scs[i], rounds, deadline)
		}, nil)
		var per []map[string]any
		total := 0
		for i, res := range results {
			if races[i] != "" {
				key, what := raceSummary(races[i])
				if key == "" && strings.Contains(races[i], "fatal error: concurrent map") {
					key, what = "free/fatal-concurrent-map-access", "the Go runtime aborted the process: "+firstLine(races[i][strings.Index(races[i], "fatal error"):])
				}
				if key != "" {
					r.Violation(key, what+" | scenario: "+scs[i].Name, violation{Key: key, What: what, Scenario: scs[i], Trace: []string{"free-running"}})
				} else {
					r.Infra("race detector report outside the code under test in %q: %s", scs[i].Name, firstLine(races[i]))
				}
				continue
			}
			if res.Scenario == "" {
				continue
			}
			total += res.Rounds
			for _, v := range res.Violations {
				r.Violation(v.Key, v.What+" | scenario: "+v.Scenario.Name, v)
			}
			per = append(per, map[string]any{"scenario": res.Scenario, "rounds": res.Rounds, "rounds_with_overlapping_conflict": res.Overlaps, "distinct_histories": res.Histories, "distinct_outcomes": len(res.Outcomes)})
		}
		out["goroutines"] = map[string]any{"race_detector": "on (halt_on_error)", "rounds_total": total, "per_scenario": per}
	}
	if only == nil || strings.Contains(only.Name, "writer processes") {
		out["processes"] = runFreeProcs(r, self, bundleDir, scratch, procRounds)
	}
	return out
}

// runFreeProcs: three real writer processes store different bundles for one URL into one directory while this
// process polls the URL (and a second one) through its own FileCache; afterwards a fresh reader and the lister.
func runFreeProcs(r *hx.Run, self, bundleDir, scratch string, rounds int) map[string]any {
	bs := loadBundles(bundleDir)
	writers := []string{"A", "B", "C"}
	outcomes := map[string]int{}
	polls := 0
	for round := 0; round < rounds; round++ {
		root := filepath.Join(scratch, "fp", fmt.Sprint(round), "cache")
		c, err := crl.NewFileCache(root)
		if err != nil {
			r.Infra("free processes: %v", err)
			break
		}
		sc := scenario{Name: "3 writer processes, same url || polling reader", Threads: [][]op{{set(0, "A")}, {set(0, "B")}, {set(0, "C")}, {get(0), get(1)}}}
		w := &world{bs: bs, root: root, sc: sc}
		var cmds []*exec.Cmd
		for _, b := range writers {
			cmd := exec.Command(self, "--proc-set", root, urls[0], bundleDir, b)
			cmd.Env = append(os.Environ(), "GOMAXPROCS=2", privateTmp(fmt.Sprintf("p%d-%s", round, b)))
			if err := cmd.Start(); err != nil {
				r.Infra("free processes: start: %v", err)
				return nil
			}
			cmds = append(cmds, cmd)
		}
		done := make(chan struct{})
		go func() {
			for _, cmd := range cmds {
				_ = cmd.Wait()
			}
			close(done)
		}()
		var bad [][2]string
		seenLive := map[string]bool{}
		poll := func() {
			for _, u := range []int{0, 1} {
				b, err := c.Get(ctx, urls[u])
				out := bs.classify(b, err)
				polls++
				seenLive[fmt.Sprintf("u%d:%s", u+1, out)] = true
				if !w.allowed(u)[out] {
					bad = append(bad, [2]string{"free/procs/get-not-miss-or-stored-bundle", fmt.Sprintf("Get(u%d) polled while 3 writer processes were storing returned %s", u+1, out)})
				}
			}
		}
	loop:
		for {
			select {
			case <-done:
				break loop
			default:
				poll()
			}
		}
		allStored := true
		for _, cmd := range cmds {
			if cmd.ProcessState == nil || !cmd.ProcessState.Success() {
				allStored = false // the statement does not promise that a store succeeds: recorded in the outcome only
			}
		}
		// all three Sets returned: a read that starts now must yield one of the stored bundles, never a miss
		b, gerr := c.Get(ctx, urls[0])
		final := bs.classify(b, gerr)
		if !allStored {
			final += "(a writer process reported an error)"
			if !w.allowed(0)[bs.classify(b, gerr)] {
				bad = append(bad, [2]string{"free/procs/get-not-miss-or-stored-bundle", "after the writer processes ended, Get(u1) returned " + final})
			}
		} else if final != "A" && final != "B" && final != "C" {
			bad = append(bad, [2]string{"free/procs/read-after-completed-writes", "after three writer processes returned, Get(u1) returned " + final})
		}
		for _, p := range w.postMortem() {
			bad = append(bad, [2]string{"free/procs/post-mortem", p})
		}
		var ks []string
		for k := range seenLive {
			ks = append(ks, k)
		}
		sort.Strings(ks)
		outcomes[strings.Join(ks, " ")+" final:"+final]++
		for _, kv := range bad {
			r.Violation(kv[0], kv[1], violation{Key: kv[0], What: kv[1], Scenario: sc, Trace: []string{"free-running-processes"}})
		}
		_ = os.RemoveAll(filepath.Dir(root))
		if len(bad) > 0 {
			break
		}
	}
	return map[string]any{"rounds": rounds, "writer_processes_per_round": len(writers), "polled_gets": polls, "distinct_outcomes": len(outcomes)}
}

// runLarge: "a complete bundle that some writer stored" has no size limit in the statement. CRLs of large CAs reach
// tens of MiB; stored as base64 inside JSON they grow by a third. One writer stores bundles whose encoded entry is
// 1, 20, 36 and 70 MiB (a CRL carrying one large unknown, non-critical extension), a fresh reader must get each back
// complete - or a miss, never an error or another bundle.
func runLarge(r *hx.Run, scratch string) map[string]any {
	ca := pki.Make(pki.Tmpl{Subject: pki.Name("crl ca large"), CA: true, PathLen: -1}, pki.Key(pki.EC256, 101), nil)
	now := time.Now()
	sizes := []int{1 << 20, 15 << 20, 27 << 20}
	if r.Thorough() {
		sizes = append(sizes, 52<<20)
	}
	var done []string
	for i, n := range sizes {
		t := &x509.RevocationList{Number: big.NewInt(int64(500 + i)), ThisUpdate: now.Add(-time.Hour), NextUpdate: now.Add(48 * time.Hour)}
		t.ExtraExtensions = []pkix.Extension{{Id: asn1.ObjectIdentifier{1, 3, 6, 1, 4, 1, 99999, 1}, Value: bytes.Repeat([]byte{byte('a' + i)}, n)}}
		der, err := x509.CreateRevocationList(rand.Reader, t, ca.Cert, ca.Key)
		if err != nil {
			r.Infra("large bundle: %v", err)
			return nil
		}
		base, err := x509.ParseRevocationList(der)
		if err != nil {
			r.Infra("large bundle: %v", err)
			return nil
		}
		root := filepath.Join(scratch, "large", fmt.Sprint(i), "cache")
		c, err := crl.NewFileCache(root)
		if err != nil {
			r.Infra("large bundle: %v", err)
			return nil
		}
		label := fmt.Sprintf("%d-MiB-CRL", n>>20)
		serr := c.Set(ctx, urls[0], &corecrl.Bundle{BaseCRL: base})
		c2, _ := crl.NewFileCache(root)
		b, gerr := c2.Get(ctx, urls[0])
		out := "complete"
		switch {
		case errors.Is(gerr, corecrl.ErrCacheMiss):
			out = "miss"
		case gerr != nil:
			out = "ERR:" + firstLine(gerr.Error())
		case b == nil || b.BaseCRL == nil || !bytes.Equal(b.BaseCRL.Raw, der):
			out = "OTHER-BYTES"
		}
		sc := scenario{Name: "large bundle " + label}
		if out != "complete" && out != "miss" {
			r.Violation("large/get-not-miss-or-complete-bundle", fmt.Sprintf("Set of a %s (stored: err=%v), then a fresh reader: %s", label, serr, out), violation{Key: "large/get-not-miss-or-complete-bundle", What: out, Scenario: sc, Trace: []string{"large-bundle"}})
		}
		if serr == nil && out == "miss" {
			r.Violation("large/acknowledged-write-not-visible", fmt.Sprintf("Set of a %s returned nil, a fresh reader gets a miss", label), violation{Key: "large/acknowledged-write-not-visible", What: out, Scenario: sc, Trace: []string{"large-bundle"}})
		}
		done = append(done, label+":"+out)
		_ = os.RemoveAll(filepath.Dir(root))
	}
	return map[string]any{"bundles": done}
}
